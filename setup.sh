#!/bin/sh
# Build the framework from files on disk only (offline): Lean models/theorems/driver, Rust harnesses.
set -e
cd "$(dirname "$0")"
export CARGO_NET_OFFLINE=true
(cd lean && lake build RxVerif rxmodel)
python3 tools/instrument.py seq >/dev/null
[ -f harness/seq/Cargo.lock ] || cp /repo/Cargo.lock harness/seq/Cargo.lock 2>/dev/null || true
(cd harness/seq && cargo build --offline -q)
if [ -d harness/conc ]; then
  python3 tools/instrument.py conc >/dev/null
  [ -f harness/conc/Cargo.lock ] || cp /repo/Cargo.lock harness/conc/Cargo.lock 2>/dev/null || true
  (cd harness/conc && cargo build --offline -q)
fi
echo setup-ok
