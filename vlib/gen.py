"""Case generators (DESIGN §4.4): structured, mostly valid, type-directed; one PRNG per run."""
import random, re
from .sexp import show

VALS = [0, 1, 2, 3]

def n_(v): return ["n", str(v)]
def e_(k): return ["e", str(k)]
C_ = "c"

class G:
    def __init__(self, seed):
        self.r = random.Random(seed)
        self.tag = 0
        self.counters = 0

    # ---- scripts -----------------------------------------------------------------------------
    def items(self, maxlen=5, vals=VALS):
        return [self.r.choice(vals) for _ in range(self.r.randint(0, maxlen))]

    def ending(self):
        return self.r.choice(["c", "c", "e", "s"])

    def script(self, maxlen=5, ending=None, vals=VALS):
        evs = [n_(v) for v in self.items(maxlen, vals)]
        ending = ending or self.ending()
        if ending == "c": evs.append(C_)
        elif ending == "e": evs.append(e_(self.r.choice([5, 6, 7])))
        return evs

    def malformed(self, maxlen=4):
        """events after a terminal, double terminals, both terminals"""
        evs = self.script(maxlen, ending=self.r.choice(["c", "e"]))
        for _ in range(self.r.randint(1, 3)):
            evs.append(self.r.choice([n_(self.r.choice(VALS)), C_, e_(self.r.choice([5, 6]))]))
        return evs

    def newtag(self):
        self.tag += 1
        return str(self.tag - 1)

    def cold(self, evs): return ["cold", self.newtag()] + evs
    def rude(self, evs): return ["rude", self.newtag()] + evs

    # ---- parameters --------------------------------------------------------------------------
    def fn(self): return self.r.choice(["inc", "dbl", "neg", ["add", "2"], ["mod", "2"], ["const", "1"], "id"])
    def pred(self): return self.r.choice(["tt", "ff", ["lt", "2"], ["gt", "1"], ["eq", "1"], ["ne", "0"], "even", "odd"])
    def fn2(self): return self.r.choice(["add", "mul", "max", "fst", "snd"])
    def cnt(self): return str(self.r.choice([0, 1, 1, 2, 2, 3, 5]))
    def val(self): return str(self.r.choice(VALS))
    def epred(self): return self.r.choice(["tt", "ff", ["eq", "5"], ["lt", "6"]])

    # ---- sources ------------------------------------------------------------------------------
    def leaf(self, hot=(), allow_never=True, malformed=False):
        k = self.r.random()
        if hot and k < 0.35:
            return ["ref", self.r.choice(hot)]
        if malformed and k < 0.7:
            return self.rude(self.malformed())
        c = self.r.choice(["cold", "cold", "cold", "just", "from_iter", "from_iter_lazy", "range", "empty", "error", "never", "start", "defer", "fr_ok", "fr_err"])
        if c == "cold": return self.cold(self.script())
        if c == "just": return ["just", self.val()]
        if c == "from_iter": return ["from_iter"] + [str(v) for v in self.items(4)]
        if c == "from_iter_lazy": return ["from_iter_lazy"] + [str(v) for v in self.items(4)]
        if c == "range": return ["range", str(self.r.choice([0, 1, 5])), str(self.r.choice([0, 1, 3]))]
        if c == "empty": return ["empty"]
        if c == "error": return ["error", str(self.r.choice([5, 6, 7]))]
        if c == "never": return ["never"] if allow_never else ["empty"]
        if c == "start": return ["start", self.val()]
        if c == "defer": return ["defer", self.cold(self.script(3))]
        if c == "fr_ok": return ["from_result_ok", self.val()]
        return ["from_result_err", "6"]

    # ---- operators ------------------------------------------------------------------------------
    # (name, builder(g, inner) -> sexp); all keep integer items
    def ops_int(self):
        g = self
        return {
            "map": lambda p: ["map", g.fn(), p],
            "filter": lambda p: ["filter", g.pred(), p],
            "take": lambda p: ["take", g.cnt(), p],
            "skip": lambda p: ["skip", g.cnt(), p],
            "take_while": lambda p: ["take_while", g.pred(), p],
            "skip_while": lambda p: ["skip_while", g.pred(), p],
            "take_last": lambda p: ["take_last", g.cnt(), p],
            "skip_last": lambda p: ["skip_last", g.cnt(), p],
            "first": lambda p: ["first", p],
            "last": lambda p: ["last", p],
            "element_at": lambda p: ["element_at", g.cnt(), p],
            "distinct_until_changed": lambda p: ["distinct_until_changed", p],
            "scan": lambda p: ["scan", g.fn2(), p],
            "reduce": lambda p: ["reduce", g.fn2(), p],
            "sum": lambda p: ["sum", p],
            "min": lambda p: ["min", p],
            "max": lambda p: ["max", p],
            "count": lambda p: ["count", p],
            "default_if_empty": lambda p: ["default_if_empty", "9", p],
            "ignore_elements": lambda p: ["ignore_elements", p],
            "start_with": lambda p: ["start_with", ["l"] + [str(v) for v in g.items(2)], p],
            "tap": lambda p: ["tap", g.newtag(), p],
            "map_to_any": lambda p: ["map_to_any", p],
            "timestamp": lambda p: ["timestamp", p],
            # scheduler-based operators over the default scheduler (inline post), delay(0): sequential
            "observe_on_d": lambda p: ["observe_on_d", p],
            "subscribe_on_d": lambda p: ["subscribe_on_d", p],
            "delay0": lambda p: ["delay0", p],
            "demat_mat": lambda p: ["dematerialize", ["materialize", p]],
            "demat_map": lambda p: ["dematerialize", ["map", "toMat", p]],
        }

    # operators whose output is not an integer stream (used outermost, or under type-agnostic ops)
    def ops_final(self):
        g = self
        return {
            "sum_and_count": lambda p: ["sum_and_count", p],
            "all": lambda p: ["all", g.pred(), p],
            "contains": lambda p: ["contains", g.val(), p],
            "buffer_with_count": lambda p: ["buffer_with_count", str(g.r.choice([1, 2, 3])), p],
            "materialize": lambda p: ["materialize", p],
            "is_even": lambda p: ["map", "isEven", p],
            "time_interval": lambda p: ["time_interval", p],
            "window_with_count": lambda p: ["window_with_count", str(g.r.choice([1, 2, 3])), p],
            "group_by": lambda p: ["group_by", g.r.choice([["mod", "2"], ["mod", "3"]]), p],
        }

    def ops_agnostic(self):
        g = self
        return {
            "take": lambda p: ["take", g.cnt(), p],
            "skip": lambda p: ["skip", g.cnt(), p],
            "take_last": lambda p: ["take_last", g.cnt(), p],
            "skip_last": lambda p: ["skip_last", g.cnt(), p],
            "first": lambda p: ["first", p],
            "last": lambda p: ["last", p],
            "element_at": lambda p: ["element_at", g.cnt(), p],
            "distinct_until_changed": lambda p: ["distinct_until_changed", p],
            "ignore_elements": lambda p: ["ignore_elements", p],
            "map_to_any": lambda p: ["map_to_any", p],
            "observe_on_d": lambda p: ["observe_on_d", p],
            "subscribe_on_d": lambda p: ["subscribe_on_d", p],
            "count": lambda p: ["count", p],
        }

    def recovery(self, hot=()):
        g = self
        rs = ["rs_empty", "rs_same", "rs_payload", ["rs_just", "8"], ["rs_err", "9"], ["rs_iter", "7", "8"]]
        if hot:
            rs.append(["rs_ref", hot[0]])
        return {
            "retry": lambda p: ["retry", str(g.r.choice([1, 2, 3, 4])), p],
            "retry_when": lambda p: ["retry_when", g.r.choice(["ff", ["eq", "9"]]), p],
            "on_error_resume_next": lambda p: ["on_error_resume_next", g.r.choice(rs), p],
        }

    def combine(self, p, others, hot=()):
        """multi-source operators over integer pipes p, others"""
        g = self
        c = g.r.choice(["merge", "concat", "zip", "amb", "combine_latest", "sequence_equal", "take_until", "skip_until", "sample", "switch_on_next", "flat_map"])
        return self.combine_named(c, p, others, hot)

    def combine_named(self, c, p, others, hot=()):
        g = self
        if c in ("merge", "concat", "zip", "amb", "sequence_equal"):
            return [c, p] + others
        if c == "combine_latest":
            return [c, g.r.choice(["add", "max", "snd"]), p] + others
        if c in ("take_until", "skip_until", "sample", "switch_on_next"):
            return [c, p, others[0] if others else ["never"]]
        fms = ["fm_just", "fm_two", "fm_range", "fm_empty", ["fm_err", "2"]]
        if hot:
            fms.append(["fm_ref"] + list(hot))
        return ["flat_map", g.r.choice(fms), p]

    def pipe(self, depth, hot=(), malformed=False, multi=True, final=True, recovery=True):
        """random integer pipeline of the given depth (number of operator layers)"""
        if depth <= 0:
            return self.leaf(hot, malformed=malformed)
        k = self.r.random()
        if multi and k < 0.25:
            n = self.r.choice([1, 1, 2])
            p = self.pipe(depth - 1, hot, malformed, multi, False, recovery)
            others = [self.pipe(self.r.randint(0, max(0, depth - 2)), hot, malformed, multi, False, recovery) for _ in range(n)]
            out = self.combine(p, others, hot)
            if out[0] in ("zip", "sequence_equal") and depth >= 1:
                return out   # non-integer output: only outermost or under agnostic ops (caller decides)
            return out
        if recovery and k < 0.35:
            ops = self.recovery(hot)
            return ops[self.r.choice(sorted(ops))](self.pipe(depth - 1, hot, malformed, multi, False, recovery))
        ops = self.ops_int()
        return ops[self.r.choice(sorted(ops))](self.pipe(depth - 1, hot, malformed, multi, False, recovery))

    def pipe_typed(self, depth, hot=(), malformed=False):
        """integer pipeline, optionally closed by a type-changing operator and agnostic ones"""
        p = self.pipe(depth, hot, malformed)
        if p[0] in ("zip", "sequence_equal") or self.r.random() < 0.25:
            if p[0] not in ("zip", "sequence_equal"):
                f = self.ops_final()
                p = f[self.r.choice(sorted(f))](p)
            if self.r.random() < 0.5:
                a = self.ops_agnostic()
                p = a[self.r.choice(sorted(a))](p)
        return p

def fix_zip_inner(p):
    return p

def case(cid, steps):
    return show(["case", cid] + steps)

NOREACT = ["react"]

# ------------------------------------------------------------------------------------------------
# families

def scripts_grid(g, n_random=4):
    """cold scripts: all three endings × lengths 0..3 (+ a few random longer ones)"""
    out = []
    for ending in ("c", "e", "s"):
        for l in (0, 1, 2, 3):
            evs = [n_(g.r.choice(VALS)) for _ in range(l)]
            if ending == "c": evs.append(C_)
            if ending == "e": evs.append(e_(5))
            out.append(evs)
    for _ in range(n_random):
        out.append(g.script(7))
    # repeats and boundary-ish
    out.append([n_(1), n_(1), n_(2), n_(2), n_(1), C_])
    out.append([n_(3), n_(2), n_(1), n_(0), C_])
    return out

PARAM_OPS = {
    # op -> list of parameter lists (boundaries)
    "take": [["0"], ["1"], ["2"], ["3"], ["5"]],
    "skip": [["0"], ["1"], ["2"], ["3"], ["5"]],
    "take_last": [["0"], ["1"], ["2"], ["5"]],
    "skip_last": [["0"], ["1"], ["2"], ["5"]],
    "element_at": [["0"], ["1"], ["2"], ["3"], ["4"], ["5"]],
    "buffer_with_count": [["1"], ["2"], ["3"]],
    "window_with_count": [["1"], ["2"], ["3"]],
    "group_by": [[["mod", "2"]], [["mod", "3"]], ["id"]],
    "map": [["inc"], ["dbl"], [["mod", "2"]]],
    "filter": [["tt"], ["ff"], ["even"], [["lt", "2"]]],
    "take_while": [["tt"], ["ff"], [["lt", "2"]], ["even"]],
    "skip_while": [["tt"], ["ff"], [["lt", "2"]], ["even"]],
    "scan": [["add"], ["mul"], ["fst"], ["snd"]],
    "reduce": [["add"], ["max"], ["snd"]],
    "all": [["tt"], ["ff"], [["lt", "3"]], ["even"]],
    "contains": [["0"], ["2"], ["7"]],
    "default_if_empty": [["9"]],
    "start_with": [[["l"]], [["l", "7"]], [["l", "7", "8"]]],
    "first": [[]], "last": [[]], "distinct_until_changed": [[]], "sum": [[]], "min": [[]], "max": [[]],
    "count": [[]], "sum_and_count": [[]], "ignore_elements": [[]], "materialize": [[]], "map_to_any": [[]],
    "observe_on_d": [[]], "subscribe_on_d": [[]], "delay0": [[]],
    "retry": [["0"], ["1"], ["2"], ["3"]],
    "retry_when": [["tt"], ["ff"], [["eq", "5"]]],
    "on_error_resume_next": [["rs_empty"], ["rs_same"], ["rs_payload"], [["rs_just", "8"]], [["rs_iter", "7", "8"]]],
}

def fam_single_ops(g, prefix, scripts=None, ops=None, source="cold"):
    """every single-source operator × boundary parameters × script grid"""
    out = []
    scripts = scripts or scripts_grid(g)
    i = 0
    for op in sorted(ops or PARAM_OPS):
        for params in PARAM_OPS[op]:
            for evs in scripts:
                if op in ("retry", "retry_when") and not (evs and isinstance(evs[-1], list) and evs[-1][0] == "e") and g.r.random() < 0.7:
                    continue
                if op == "retry" and params == ["0"] and evs and isinstance(evs[-1], list) and evs[-1][0] == "e":
                    continue  # retry(0) over an always-failing source never ends: not a finite/cancellable source
                if op == "retry_when" and params in (["tt"], [["eq", "5"]]) and evs and isinstance(evs[-1], list) and evs[-1][0] == "e":
                    continue
                src = [source, g.newtag()] + evs
                out.append(case("%s-%d" % (prefix, i), [["sub", [op] + params + [src], NOREACT]]))
                i += 1
    # tap, dematerialize
    for evs in scripts:
        out.append(case("%s-%d" % (prefix, i), [["sub", ["tap", g.newtag(), [source, g.newtag()] + evs], NOREACT]])); i += 1
        out.append(case("%s-%d" % (prefix, i), [["sub", ["dematerialize", ["materialize", [source, g.newtag()] + evs]], NOREACT]])); i += 1
    for evs in ([n_(1), n_(2), n_(0), n_(3), C_], [n_(1), n_(-4), n_(2), C_], [n_(0)], [n_(2), e_(5)], [n_(1), n_(1), C_]):
        out.append(case("%s-%d" % (prefix, i), [["sub", ["dematerialize", ["map", "toMat", [source, g.newtag()] + evs]], NOREACT]])); i += 1
    return out

def fam_creation(g, prefix):
    out = []
    srcs = [["just", "1"], ["from_iter"], ["from_iter", "1", "2", "3"], ["from_iter_lazy"], ["from_iter_lazy", "1", "2", "3"], ["take", "2", ["from_iter_lazy", "4", "5", "6"]], ["range", "0", "0"], ["range", "2", "3"], ["empty"], ["never"],
            ["error", "5"], ["start", "4"], ["defer", ["from_iter", "1", "2"]], ["from_result_ok", "3"], ["from_result_err", "6"],
            ["take", "3", ["repeat", "7"]], ["take", "0", ["repeat", "7"]], ["first", ["repeat", "1"]],
            ["take_while", ["lt", "2"], ["from_iter", "0", "1", "2", "3"]], ["take", "2", ["range", "0", "5"]],
            ["take", "1", ["from_iter", "1", "2", "3"]],
            # ENDLESS iterators given to from_iter / start_with: pulled only while the subscription lives
            ["take", "3", ["from_iter_endless", "7"]], ["first", ["from_iter_endless", "1"]], ["take", "0", ["from_iter_endless", "7"]],
            ["take", "2", ["start_with_endless", "7", ["just", "1"]]], ["first", ["start_with_endless", "7", ["never"]]],
            ["take_while", ["lt", "8"], ["map", "inc", ["start_with_endless", "7", ["from_iter", "1", "2"]]]],
            ["take", "1", ["merge", ["start_with_endless", "7", ["just", "1"]], ["just", "2"]]],
            # sources over the default scheduler: the task runs inside subscribe
            ["timer_d"], ["take", "3", ["interval_d"]], ["take", "0", ["interval_d"]], ["take", "1", ["interval_d"]], ["first", ["interval_d"]],
            ["take_while", ["lt", "2"], ["interval_d"]], ["element_at", "3", ["interval_d"]], ["take", "2", ["observe_on_d", ["interval_d"]]],
            ["take", "2", ["subscribe_on_d", ["interval_d"]]], ["observe_on_d", ["timer_d"]], ["subscribe_on_d", ["subscribe_on_d", ["from_iter", "1", "2"]]],
            ["contains", "4", ["interval_d"]], ["take", "2", ["skip", "2", ["interval_d"]]], ["take_until", ["interval_d"], ["timer_d"]],
            # unusual arguments of the creation functions: negative / huge counts and starts
            ["range", "3", "-2"], ["take", "5", ["range", "3", "-2"]], ["default_if_empty", "9", ["range", "7", "-4"]], ["concat", ["range", "0", "2"], ["range", "10", "-1"], ["range", "20", "2"]],
            ["range", "-3", "5"], ["range", "-2", "1"], ["take", "2", ["range", "9223372036854775800", "5"]], ["range", "0", "1"],
            ["take", "3", ["repeat", "-1"]], ["from_iter", "-1", "0", "-1"], ["just", "-7"], ["start", "-4"], ["count", ["range", "5", "-5"]]]
    for i, s in enumerate(srcs):
        out.append(case("%s-%d" % (prefix, i), [["sub", s, NOREACT]]))
    return out

def fam_chains(g, prefix, n, depth=(2, 4), hot=False, malformed=False):
    out = []
    for i in range(n):
        g.tag = 0
        d = g.r.randint(*depth)
        p = g.pipe_typed(d, malformed=malformed)
        out.append(case("%s-%d" % (prefix, i), [["sub", p, NOREACT]]))
    return out

def fam_pairs(g, prefix, scripts_per_pair=2):
    """all ordered pairs of integer single-source operators"""
    out = []
    ops = g.ops_int()
    names = sorted(ops)
    i = 0
    for a in names:
        for b in names:
            for _ in range(scripts_per_pair):
                g.tag = 0
                p = ops[a](ops[b](g.cold(g.script(5))))
                out.append(case("%s-%d" % (prefix, i), [["sub", p, NOREACT]])); i += 1
    return out

def hot_history(g, names, nsteps, users, terminal_p=0.15, unsub_p=0.1):
    """random drive of hot subjects: hnext / hcomplete / herror / unsub"""
    steps = []
    for _ in range(nsteps):
        k = g.r.random()
        a = g.r.choice(names)
        if k < terminal_p:
            steps.append(g.r.choice([["hcomplete", a], ["herror", a, "6"]]))
        elif k < terminal_p + unsub_p and users > 0:
            steps.append(["unsub", str(g.r.randrange(users))])
        else:
            steps.append(["hnext", a, g.val()])
    return steps

def fam_hot(g, prefix, n, depth=(1, 3), malformed=False, kinds=("plain",)):
    out = []
    for i in range(n):
        g.tag = 0
        names = ["a", "b", "c"][: g.r.randint(1, 3)]
        steps = []
        for nm in names:
            kind = g.r.choice(kinds)
            steps.append(["subject", nm, kind] + (["0"] if kind == "behavior" else []))
        p = g.pipe_typed(g.r.randint(*depth), hot=tuple(names), malformed=malformed)
        steps.append(["sub", p, NOREACT])
        steps += hot_history(g, names, g.r.randint(2, 8), 1)
        out.append(case("%s-%d" % (prefix, i), steps))
    return out

def fam_combinators(g, prefix, n_random):
    """each combining operator over hot sources with scripted interleavings, and over cold sources"""
    out = []
    i = 0
    combs = ["merge", "concat", "zip", "amb", "combine_latest", "sequence_equal", "take_until", "skip_until", "sample", "switch_on_next"]
    # an EMPTY list of other sources (unusual argument): the operator must still mirror / pair / compare its receiver
    for c in ("merge", "concat", "zip", "amb", "combine_latest", "sequence_equal"):
        for evs in ([C_], [n_(1), C_], [n_(1), n_(2), C_], [e_(5)], [n_(1), e_(5)], [n_(1), n_(2)], []):
            g.tag = 0
            out.append(case("%s-%d" % (prefix, i), [["sub", g.combine_named(c, g.cold(evs), []), NOREACT]])); i += 1
        out.append(case("%s-%d" % (prefix, i), [["subject", "a", "plain"], ["sub", g.combine_named(c, ["ref", "a"], []), NOREACT],
                                                ["hnext", "a", "1"], ["hnext", "a", "2"], ["herror", "a", "5"]])); i += 1
        out.append(case("%s-%d" % (prefix, i), [["counter", "k"], ["sub", ["retry", "2", g.combine_named(c, ["flaky", "0", "k", [n_(1), e_(5)], [n_(2), C_]], [])], NOREACT]])); i += 1
    for c in combs:
        for nsrc in (1, 2, 3):
            for rep in range(max(1, n_random // 20)):
                g.tag = 0
                names = ["a", "b", "c", "d"][: nsrc + 1]
                if c in ("take_until", "skip_until", "sample", "switch_on_next") and nsrc > 1:
                    continue
                steps = [["subject", nm, "plain"] for nm in names]
                p = g.combine_named(c, ["ref", names[0]], [["ref", nm] for nm in names[1:]])
                steps.append(["sub", p, NOREACT])
                # a random interleaving of per-source scripts
                scripts = {nm: g.script(3) for nm in names}
                order = [nm for nm in names for _ in scripts[nm]]
                g.r.shuffle(order)
                pos = {nm: 0 for nm in names}
                for nm in order:
                    ev = scripts[nm][pos[nm]]; pos[nm] += 1
                    if ev == C_: steps.append(["hcomplete", nm])
                    elif ev[0] == "e": steps.append(["herror", nm, ev[1]])
                    else: steps.append(["hnext", nm, ev[1]])
                out.append(case("%s-%d" % (prefix, i), steps)); i += 1
        # cold sources (run to completion at subscribe time), mixed with one hot
        for rep in range(max(2, n_random // 10)):
            g.tag = 0
            nsrc = g.r.choice([1, 2, 3]) if c not in ("take_until", "skip_until", "sample", "switch_on_next") else 1
            srcs = [g.cold(g.script(3)) for _ in range(nsrc + 1)]
            steps = []
            if g.r.random() < 0.5:
                steps.append(["subject", "a", "plain"])
                srcs[g.r.randrange(len(srcs))] = ["ref", "a"]
            p = g.combine_named(c, srcs[0], srcs[1:])
            if g.r.random() < 0.3:
                ops = g.ops_int()
                p = ops[g.r.choice(sorted(ops))](p) if c not in ("zip", "sequence_equal") else ["take", g.cnt(), p]
            steps.append(["sub", p, NOREACT])
            if steps[0][0] == "subject":
                steps += hot_history(g, ["a"], g.r.randint(1, 4), 1, unsub_p=0)
            out.append(case("%s-%d" % (prefix, i), steps)); i += 1
    # flat_map
    for fm in ("fm_just", "fm_two", "fm_range", "fm_empty", ["fm_err", "2"], "fm_never"):
        for evs in scripts_grid(g, 1):
            g.tag = 0
            out.append(case("%s-%d" % (prefix, i), [["sub", ["flat_map", fm, g.cold(evs)], NOREACT]])); i += 1
    # inner subscriptions created AFTER an earlier inner one completed while another is still live
    # (the controller must keep its upstream observers apart: serials are never reused)
    import itertools
    idx = {"a": "0", "b": "1", "c": "2"}
    for (x, y, z) in itertools.permutations(["a", "b", "c"]):
        pre = [["subject", nm, "plain"] for nm in ("a", "b", "c")] + [["subject", "s", "plain"]]
        opening = [["hnext", "s", idx[x]], ["hnext", "s", idx[y]], ["hnext", x, "1"], ["hcomplete", x], ["hnext", "s", idx[z]]]
        tails = [
            [["hcomplete", "s"], ["hnext", y, "2"], ["hcomplete", y], ["hnext", z, "3"], ["hcomplete", z]],
            [["hnext", y, "1"], ["hnext", z, "2"], ["unsub", "0"], ["hnext", y, "3"], ["hnext", z, "3"]],
            [["hnext", z, "2"], ["herror", y, "6"], ["hnext", z, "3"]],
            [["hcomplete", "s"], ["hcomplete", z], ["hnext", y, "2"], ["hcomplete", y]],
        ]
        for tl in tails:
            for wrap in (lambda p: p, lambda p: ["take", "3", p]):
                g.tag = 0
                p = wrap(["flat_map", ["fm_ref", "a", "b", "c"], ["ref", "s"]])
                out.append(case("%s-%d" % (prefix, i), pre + [["sub", p, NOREACT]] + opening + tl)); i += 1
    for rep in range(max(12, n_random // 3)):
        # three / four hot inner sources: inner subscriptions created AFTER earlier inner ones completed
        g.tag = 0
        inner = ["a", "b", "c", "d"][: g.r.choice([3, 3, 4])]
        steps = [["subject", nm, "plain"] for nm in inner] + [["subject", "s", "plain"]]
        p = ["flat_map", ["fm_ref"] + inner, ["ref", "s"]]
        if g.r.random() < 0.3:
            p = ["take", str(g.r.choice([2, 3, 5])), p]
        steps.append(["sub", p, NOREACT])
        order = list(range(len(inner)))
        g.r.shuffle(order)
        opened = []
        for _ in range(g.r.randint(6, 14)):
            k = g.r.random()
            if k < 0.3 and order:
                i = order.pop()
                steps.append(["hnext", "s", str(i)]); opened.append(inner[i])
            elif k < 0.5 and opened:
                nm = g.r.choice(opened)
                steps.append(g.r.choice([["hcomplete", nm], ["hcomplete", nm], ["herror", nm, "6"]]))
            elif k < 0.58:
                steps.append(["hcomplete", "s"])
            elif opened:
                steps.append(["hnext", g.r.choice(opened), g.val()])
        if g.r.random() < 0.5:
            steps.append(["unsub", "0"])
        for nm in inner:
            steps.append(["hnext", nm, "3"])
        out.append(case("%s-%d" % (prefix, i), steps)); i += 1
    for rep in range(max(3, n_random // 10)):
        g.tag = 0
        steps = [["subject", "a", "plain"], ["subject", "b", "plain"], ["subject", "s", "plain"]]
        steps.append(["sub", ["flat_map", ["fm_ref", "a", "b"], ["ref", "s"]], NOREACT])
        for _ in range(g.r.randint(3, 9)):
            k = g.r.random()
            nm = g.r.choice(["a", "b", "s"])
            if k < 0.2: steps.append(["hcomplete", nm])
            elif k < 0.25: steps.append(["herror", nm, "6"])
            else: steps.append(["hnext", nm, g.val()])
        out.append(case("%s-%d" % (prefix, i), steps)); i += 1
    return out

def fam_ready_set_go(g, prefix, n_random):
    """utils::ready_set_go: subscribe first, then run the action — no event of the action is lost, through every operator"""
    out = []
    i = 0
    ops = dict(g.ops_int()); ops.update(g.ops_final())
    scripts = [[n_(1), n_(2), C_], [n_(1), e_(5), n_(2)], [C_], [n_(3), n_(1), n_(2)], [n_(1), C_, n_(2)]]
    def acts(evs, name="a"):
        return [(["hnext", name, e[1]] if e[0] == "n" else ["herror", name, e[1]]) if isinstance(e, list) else ["hcomplete", name] for e in evs]
    for kind in ("plain", "behavior", "replay"):
        init = ["0"] if kind == "behavior" else []
        for name in sorted(ops) + ["none"]:
            g.tag = 0
            evs = g.r.choice(scripts)
            p = ops[name](["ref", "a"]) if name != "none" else ["ref", "a"]
            out.append(case("%s-%d" % (prefix, i), [["subject", "a", kind] + init, ["sub", ["rsg", acts(evs), p], NOREACT], ["hnext", "a", "9"]])); i += 1
    for c in ("merge", "zip", "amb", "concat", "take_until", "skip_until", "sample"):
        g.tag = 0
        p = g.combine_named(c, ["ref", "a"], [["ref", "b"]], hot=("a", "b"))
        mixed = [["hnext", "a", "1"], ["hnext", "b", "2"], ["hnext", "a", "3"], ["hcomplete", "a"], ["hnext", "b", "4"], ["hcomplete", "b"]]
        out.append(case("%s-%d" % (prefix, i), [["subject", "a", "plain"], ["subject", "b", "plain"], ["sub", ["rsg", mixed, p], NOREACT]])); i += 1
    return out

def fam_malformed(g, prefix, n_random):
    """every operator over ill-formed sources (events after a terminal, both terminals)"""
    out = []
    i = 0
    bad = [[n_(1), C_, n_(2), e_(7)], [n_(1), e_(5), n_(2), C_], [C_, C_], [e_(5), e_(6)], [n_(1), C_, C_, n_(3)], [e_(5), n_(1), C_]]
    out.append(case("%s-%d" % (prefix, i), [["sub", ["rude", "0"] + bad[0], NOREACT]])); i += 1
    for evs in bad:
        g.tag = 0
        out.append(case("%s-%d" % (prefix, i), [["sub", g.rude(evs), NOREACT]])); i += 1
        for op in sorted(PARAM_OPS):
            g.tag = 0
            params = g.r.choice(PARAM_OPS[op])
            out.append(case("%s-%d" % (prefix, i), [["sub", [op] + params + [g.rude(evs)], NOREACT]])); i += 1
        for c in ("merge", "concat", "zip", "amb", "take_until", "skip_until", "sample", "switch_on_next", "combine_latest", "sequence_equal"):
            g.tag = 0
            p = g.combine_named(c, g.rude(evs), [g.rude(g.r.choice(bad))])
            out.append(case("%s-%d" % (prefix, i), [["sub", p, NOREACT]])); i += 1
    for j in range(n_random):
        g.tag = 0
        p = g.pipe_typed(g.r.randint(1, 3), malformed=True)
        out.append(case("%s-%d" % (prefix, i), [["sub", p, NOREACT]])); i += 1
    return out

def fam_rawhot(g, prefix, n_random):
    """a user-written hot source that pushes into its observers unchecked, also from inside the subscriber's
    own callbacks (re-entrant emission during a terminal callback) — directly attached and through operators"""
    out = []
    i = 0
    ops = dict(g.ops_int()); ops.update(g.ops_final())
    acts = (["rnext", "a", "2"], ["rcomplete", "a"], ["rerror", "a", "6"])
    drives = ([["rnext", "a", "1"], ["rcomplete", "a"], ["rnext", "a", "3"], ["rerror", "a", "5"]],
              [["rnext", "a", "1"], ["rerror", "a", "5"], ["rcomplete", "a"], ["rnext", "a", "3"]],
              [["rcomplete", "a"], ["rcomplete", "a"]], [["rerror", "a", "5"], ["rnext", "a", "1"]])
    for name in ["none"] + sorted(ops):
        for drive in drives:
            for idx in ("0", "1", "2"):
                for act in acts:
                    if g.r.random() < (1.0 if name == "none" else 0.25):
                        g.tag = 0
                        p = ops[name](["ref", "a"]) if name != "none" else ["ref", "a"]
                        out.append(case("%s-%d" % (prefix, i), [["rawhot", "a"], ["sub", p, ["react", [idx, act]]]] + drive)); i += 1
    for c in ("merge", "concat", "zip", "amb", "take_until", "skip_until", "sample", "switch_on_next", "combine_latest", "sequence_equal"):
        for drive in drives[:2]:
            for act in acts:
                g.tag = 0
                p = g.combine_named(c, ["ref", "a"], [["ref", "b"]])
                steps = [["rawhot", "a"], ["rawhot", "b"], ["sub", p, ["react", ["1", act]]], ["rnext", "b", "7"]] + drive + [["rcomplete", "b"], ["rnext", "b", "8"]]
                out.append(case("%s-%d" % (prefix, i), steps)); i += 1
    return out

def fam_unsub_positions(g, prefix, n_pipes):
    """unsubscribe at every position of a hot source's script (before the first item, between events,
    after the terminal, twice) and from inside a callback at every event index of a cold script"""
    out = []
    i = 0
    for j in range(n_pipes):
        g.tag = 0
        depth = g.r.randint(0, 2)
        p = g.pipe_typed(depth, hot=("a",)) if depth else ["ref", "a"]
        if "(ref a)" not in show(p):
            p = ["merge", p, ["ref", "a"]] if g.r.random() < 0.5 else ["map", "inc", ["ref", "a"]]
        evs = g.script(4, ending=g.r.choice(["c", "e", "s"]))
        drive = []
        for ev in evs:
            if ev == C_: drive.append(["hcomplete", "a"])
            elif ev[0] == "e": drive.append(["herror", "a", ev[1]])
            else: drive.append(["hnext", "a", ev[1]])
        drive += [["hnext", "a", "3"]]   # an emission the source starts after everything else
        for pos in range(len(drive) + 1):
            steps = [["subject", "a", "plain"], ["sub", p, NOREACT]] + drive[:pos] + [["unsub", "0"]] + drive[pos:]
            if g.r.random() < 0.3:
                steps.append(["unsub", "0"])
            out.append(case("%s-%d" % (prefix, i), steps)); i += 1
    # subscribers attached DIRECTLY to each kind of hot source (no operator in between), and through one
    for kind in ("plain", "behavior", "replay", "async"):
        init = ["0"] if kind == "behavior" else []
        for p in (["ref", "a"], ["map", "id", ["ref", "a"]], ["take", "5", ["ref", "a"]]):
            drive = [["hnext", "a", "1"], ["hnext", "a", "2"], ["hcomplete", "a"], ["hnext", "a", "3"]]
            for pos in range(len(drive) + 1):
                steps = [["subject", "a", kind] + init, ["sub", p, NOREACT], ["sub", p, NOREACT]] + drive[:pos] + [["unsub", "0"]] + drive[pos:] + [["unsub", "0"], ["unsub", "1"]]
                out.append(case("%s-%d" % (prefix, i), steps)); i += 1
            # a sibling unsubscribes subscriber 1 from inside its own callback during the same broadcast
            steps = [["subject", "a", kind] + init, ["sub", p, ["react", ["1", ["unsub", "1"]]]], ["sub", p, NOREACT],
                     ["hnext", "a", "1"], ["hnext", "a", "2"], ["hnext", "a", "3"]]
            out.append(case("%s-%d" % (prefix, i), steps)); i += 1
    for kind in ("publish", "ref_count", "replay"):
        for p in (["ref", "x"], ["map", "id", ["ref", "x"]]):
            pre = [["subject", "a", "plain"], ["conn", "x", kind, ["ref", "a"]], ["sub", p, NOREACT], ["sub", p, NOREACT]] + ([["connect", "x"]] if kind == "publish" else [])
            drive = [["hnext", "a", "1"], ["hnext", "a", "2"], ["hnext", "a", "3"]]
            for pos in range(len(drive) + 1):
                out.append(case("%s-%d" % (prefix, i), pre + drive[:pos] + [["unsub", "0"]] + drive[pos:] + [["unsub", "1"], ["hnext", "a", "0"]])); i += 1
    for j in range(n_pipes):
        g.tag = 0
        p = g.pipe_typed(g.r.randint(0, 2))
        for idx in range(0, 4):
            out.append(case("%s-%d" % (prefix, i), [["sub", p, ["react", [str(idx), "unsub"]]], ["unsub", "0"]])); i += 1
    # the subscription is also ended by dropping a utils::Using guard around it: at the end of a scope
    # (`using`) and while a panic unwinds through the scope (`unwind`)
    def via(c, k):
        how = ("", " using", " unwind")[k % 3]
        return re.sub(r"\(unsub (\d+)\)(?!\))", lambda m: "(unsub %s%s)" % (m.group(1), how), c) if how else c
    return [via(c, k) for k, c in enumerate(out)]

def fam_late_unsub(g, prefix):
    """unsubscribe AFTER a terminal (and twice) next to other subscribers of the same shared subject: a publish whose
    synchronous source has finished is connected again; the late unsubscribe of a finished subscriber must not touch
    the subscribers that arrived after the terminal"""
    out = []
    i = 0
    for evs in ([n_(1), n_(2), C_], [n_(1), e_(5)], [C_]):
        for first in (["ref", "x"], ["map", "inc", ["ref", "x"]], ["take", "1", ["ref", "x"]]):
            for second in (["ref", "x"], ["map", "inc", ["ref", "x"]]):
                for late in ([["unsub", "0"]], [["unsub", "0"], ["unsub", "0"]], []):
                    for third in ([], [["sub", ["ref", "x"], NOREACT]]):
                        g.tag = 0
                        steps = [["conn", "x", "publish", g.cold(evs)], ["sub", first, NOREACT], ["connect", "x"], ["sub", second, NOREACT]] + third + late + [["connect", "x"]]
                        out.append(case("%s-%d" % (prefix, i), steps)); i += 1
    return out

def fam_reentrant(g, prefix, n_random):
    """callbacks that re-enter the library: emit into / complete the subject they are called from,
    unsubscribe themselves — through every operator"""
    out = []
    i = 0
    ops = dict(g.ops_int()); ops.update(g.ops_final()); ops.update(g.recovery())
    for kind in ("plain", "behavior", "replay", "async"):
        init = ["0"] if kind == "behavior" else []
        for name in sorted(ops) + ["none"]:
            for act in (["hnext", "a", "2"], ["hcomplete", "a"], "unsub", ["herror", "a", "6"], ["sub", ["ref", "a"]]):
                for idx in ("0", "1", "2", "3"):      # (index 2 is the terminal callback of the drive below; 3 for a BehaviorSubject, which hands over first)
                    if idx == "3" and kind != "behavior":
                        continue
                    g.tag = 0
                    p = ops[name](["ref", "a"]) if name != "none" else ["ref", "a"]
                    steps = [["subject", "a", kind] + init, ["sub", p, ["react", [idx, act]]],
                             ["hnext", "a", "1"], ["hnext", "a", "3"], ["hcomplete", "a"]]
                    out.append(case("%s-%d" % (prefix, i), steps)); i += 1
                    if name == "none" and act == ["sub", ["ref", "a"]] and idx in ("2", "3"):
                        # a subscriber joining from inside the ERROR callback: it must be handed the stored terminal
                        steps = [["subject", "a", kind] + init, ["sub", p, ["react", [idx, act]]],
                                 ["hnext", "a", "1"], ["hnext", "a", "3"], ["herror", "a", "6"]]
                        out.append(case("%s-%d" % (prefix, i), steps)); i += 1
    for c in ("merge", "concat", "zip", "amb", "take_until", "skip_until", "sample", "switch_on_next", "combine_latest", "sequence_equal", "flat_map"):
        for act in (["hnext", "a", "2"], ["hnext", "b", "2"], ["hcomplete", "b"], "unsub", ["herror", "a", "6"]):
            g.tag = 0
            p = g.combine_named(c, ["ref", "a"], [["ref", "b"]], hot=("a", "b"))
            steps = [["subject", "a", "plain"], ["subject", "b", "plain"], ["sub", p, ["react", ["0", act]]],
                     ["hnext", "a", "1"], ["hnext", "b", "1"], ["hnext", "a", "3"], ["hcomplete", "a"], ["hcomplete", "b"]]
            out.append(case("%s-%d" % (prefix, i), steps)); i += 1
        # the two inputs DIFFER (sequence_equal decides early, zip / combine_latest pair unequal values), reactions at the
        # first and at the second delivered event
        for act in (["hnext", "a", "2"], ["hnext", "b", "2"], ["hcomplete", "a"], ["hcomplete", "b"], ["herror", "b", "6"]):
            for idx in ("0", "1"):
                g.tag = 0
                p = g.combine_named(c, ["ref", "a"], [["ref", "b"]], hot=("a", "b"))
                steps = [["subject", "a", "plain"], ["subject", "b", "plain"], ["sub", p, ["react", [idx, act]]],
                         ["hnext", "a", "1"], ["hnext", "b", "2"], ["hnext", "a", "3"], ["hnext", "b", "3"], ["hcomplete", "a"], ["hcomplete", "b"]]
                out.append(case("%s-%d" % (prefix, i), steps)); i += 1
    return out

BIG = ["2147483647", "2147483648", "4294967295", "4294967298", "18446744073709551615"]   # around i32 / u32 / usize limits

def fam_big_params(g, prefix, which=("ops", "retry")):
    """count parameters around the limits of the machine integer types (a narrowing cast, an `n + 1` that wraps)"""
    out = []
    i = 0
    if "ops" in which:
        for op in ("take", "skip", "take_last", "skip_last", "element_at", "buffer_with_count", "window_with_count"):
            for b in BIG:
                for evs in ([n_(1), n_(2), n_(3), C_], [n_(1), e_(5)], [C_]):
                    g.tag = 0
                    out.append(case("%s-%d" % (prefix, i), [["sub", [op, b, g.cold(evs)], NOREACT]])); i += 1
    if "retry" in which:
        for b in BIG:
            out.append(case("%s-%d" % (prefix, i), [["counter", "k"], ["sub", ["retry", b, ["flaky", "0", "k", [n_(1), e_(5)], [e_(5)], [e_(5)], [n_(2), C_]]], NOREACT]])); i += 1
            out.append(case("%s-%d" % (prefix, i), [["counter", "k"], ["sub", ["retry", b, ["map", "inc", ["flaky", "0", "k", [e_(5)], [n_(2), e_(6)], [C_]]]], NOREACT]])); i += 1
    return out

def fam_reentrant_closures(g, prefix):
    """C07: the closures GIVEN TO OPERATORS (predicates, mapping functions) re-enter the library: the first time they are
    called they push an item into the subject that feeds the operator.  Judged by the outcome of the real run only
    (the model's functions are pure)."""
    out = []
    i = 0
    preds = [["lt", "3"], ["gt", "1"], "tt", "ff", "even"]
    for v in ("0", "2", "5"):
        for pr in preds:
            P = ["push", "a", v, pr]
            for mk in (lambda s: ["filter", P, s], lambda s: ["take_while", P, s], lambda s: ["skip_while", P, s], lambda s: ["all", P, s],
                       lambda s: ["take", "2", ["skip_while", P, s]], lambda s: ["skip_while", P, ["map", "inc", s]]):
                steps = [["subject", "a", "plain"], ["sub", mk(["ref", "a"]), NOREACT], ["hnext", "a", "1"], ["hnext", "a", "4"], ["hnext", "a", "2"], ["hcomplete", "a"]]
                out.append(case("%s-%d" % (prefix, i), steps)); i += 1
        for fn in ("inc", "dbl", ["add", "2"], ["mod", "2"]):
            F = ["fpush", "a", v, fn]
            for mk in (lambda s: ["map", F, s], lambda s: ["group_by", F, s], lambda s: ["distinct_until_changed", ["map", F, s]], lambda s: ["scan", "add", ["map", F, s]],
                       lambda s: ["take", "2", ["map", F, s]], lambda s: ["buffer_with_count", "2", ["map", F, s]]):
                steps = [["subject", "a", "plain"], ["sub", mk(["ref", "a"]), NOREACT], ["hnext", "a", "1"], ["hnext", "a", "4"], ["hcomplete", "a"]]
                out.append(case("%s-%d" % (prefix, i), steps)); i += 1
    return out

def fam_reentrant_values(g, prefix, draws=2):
    """single-source operators over a hot subject whose subscriber pushes a further item into (or ends) that subject from
    INSIDE its next callback: the operator's state (flags, counters, last value, latest key) must already be updated
    when it calls downstream.  Values straddle the predicates / repeat the previous item."""
    out = []
    i = 0
    for d in range(draws):
        ops = dict(g.ops_int()); ops.update(g.ops_final())
        for name in sorted(ops):
            for idx in ("0", "1"):
                for act in ([["hnext", "a", v] for v in ("0", "1", "2", "3")] + [["hcomplete", "a"], ["herror", "a", "6"]]):
                    g.tag = 0
                    steps = [["subject", "a", "plain"], ["sub", ops[name](["ref", "a"]), ["react", [idx, act]]],
                             ["hnext", "a", "1"], ["hnext", "a", "2"], ["hnext", "a", "2"], ["hnext", "a", "3"], ["hcomplete", "a"]]
                    out.append(case("%s-%d" % (prefix, i), steps)); i += 1
                # SEVERAL items pushed from inside one callback (a counter that is decremented / wraps per arriving item)
                for vals in (("7", "8"), ("2", "2", "3"), ("0", "1", "2", "3")):
                    g.tag = 0
                    steps = [["subject", "a", "plain"], ["sub", ops[name](["ref", "a"]), ["react"] + [[idx, ["hnext", "a", v]] for v in vals]],
                             ["hnext", "a", "1"], ["hnext", "a", "2"], ["hnext", "a", "3"], ["hcomplete", "a"]]
                    out.append(case("%s-%d" % (prefix, i), steps)); i += 1
    return out

def ending_closure_steps(g):
    """the closure GIVEN TO an operator (flat_map's function, retry_when's predicate, the resume function, a tap callback)
    ends the subscription when it is called and then answers as usual: the operator goes on - attaches the inner source,
    the next attempt, the replacement - for a subscription that ended inside its own closure.  Nothing may stay attached."""
    out = []
    T = lambda: g.newtag()
    for fm in (["fm_ref", "b"], "fm_just", "fm_two"):
        g.tag = 0
        out.append([["subject", "a", "plain"], ["subject", "b", "plain"], ["sub", ["flat_map_u", "0", fm, ["tap", T(), ["ref", "a"]]], NOREACT],
                    ["hnext", "a", "0"], ["hnext", "b", "5"], ["hnext", "a", "0"], ["hnext", "b", "6"]])
        g.tag = 0
        out.append([["subject", "a", "plain"], ["subject", "b", "plain"], ["sub", ["take", "3", ["flat_map_u", "0", fm, ["ref", "a"]]], ["react", ["0", ["hnext", "a", "0"]]]],
                    ["hnext", "a", "0"], ["hnext", "b", "5"]])
    for ep in ("tt", ["eq", "5"], "ff"):
        g.tag = 0
        out.append([["subject", "a", "plain"], ["sub", ["retry_when_u", "0", ep, ["tap", T(), ["ref", "a"]]], NOREACT], ["hnext", "a", "1"], ["herror", "a", "5"], ["hnext", "a", "2"]])
        g.tag = 0
        out.append([["subject", "a", "plain"], ["subject", "b", "plain"], ["sub", ["retry_when_u", "0", ep, ["merge", ["tap", T(), ["ref", "a"]], ["tap", T(), ["ref", "b"]]]], NOREACT],
                    ["hnext", "a", "1"], ["herror", "b", "5"], ["hnext", "a", "2"], ["hnext", "b", "3"]])
        g.tag = 0
        out.append([["subject", "a", "behavior", "0"], ["sub", ["retry_when_u", "0", ep, ["tap", T(), ["ref", "a"]]], NOREACT], ["hnext", "a", "1"], ["herror", "a", "5"], ["hnext", "a", "2"]])
    for rs in ("rs_same", ["rs_ref", "b"], ["rs_just", "8"], "rs_empty"):
        g.tag = 0
        out.append([["subject", "a", "plain"], ["subject", "b", "plain"], ["sub", ["on_error_resume_next_u", "0", rs, ["tap", T(), ["ref", "a"]]], NOREACT],
                    ["hnext", "a", "1"], ["herror", "a", "5"], ["hnext", "b", "2"], ["hnext", "a", "3"]])
    for mk in (lambda q: ["map", "inc", q], lambda q: ["scan", "add", q], lambda q: ["merge", q, ["ref", "b"]], lambda q: ["concat", q, ["ref", "b"]],
               lambda q: ["flat_map", ["fm_ref", "b"], q], lambda q: ["retry", "2", q], lambda q: ["on_error_resume_next", ["rs_ref", "b"], q],
               lambda q: ["switch_on_next", q, ["ref", "b"]], lambda q: ["take_until", q, ["ref", "b"]], lambda q: ["zip", q, ["ref", "b"]]):
        g.tag = 0
        out.append([["subject", "a", "plain"], ["subject", "b", "plain"], ["sub", mk(["tap_unsub", T(), "0", ["ref", "a"]]), NOREACT],
                    ["hnext", "a", "0"], ["hnext", "b", "5"], ["hnext", "a", "1"]])
        g.tag = 0
        out.append([["subject", "a", "plain"], ["subject", "b", "plain"], ["sub", mk(["tap_unsub", T(), "0", ["ref", "a"]]), NOREACT],
                    ["herror", "a", "5"], ["hnext", "b", "5"], ["hnext", "a", "1"]])
    # the closure of the SECOND subscriber ends the FIRST subscription (shared hot source)
    g.tag = 0
    out.append([["subject", "a", "plain"], ["subject", "b", "plain"], ["sub", ["map", "inc", ["ref", "a"]], NOREACT],
                ["sub", ["flat_map_u", "0", ["fm_ref", "b"], ["ref", "a"]], NOREACT], ["hnext", "a", "0"], ["hnext", "b", "5"], ["unsub", "1"], ["hnext", "b", "6"]])
    return out

def fam_ending_closures(g, prefix, drop=False):
    return [case("%s-%d" % (prefix, i), st + ([["unsub", "0"], ["drop"]] if drop else [])) for i, st in enumerate(ending_closure_steps(g))]

def fam_teardown(g, prefix, n_random):
    """every terminating cause of C06 over probed sources (long cold scripts, repeat, subjects)"""
    out = []
    i = 0
    long = [n_(v) for v in (1, 2, 3, 0, 1, 2, 3, 0)]
    def add(steps):
        nonlocal i
        out.append(case("%s-%d" % (prefix, i), steps)); i += 1
    # (builder, value for `repeat` under which the pipeline terminates — None: would never return)
    enders = [
        (lambda s: ["take", "2", s], "1"), (lambda s: ["take", "0", s], "1"), (lambda s: ["first", s], "1"),
        (lambda s: ["element_at", "2", s], "1"),
        (lambda s: ["take_while", ["lt", "3"], s], "3"), (lambda s: ["take_while", "ff", s], "1"),
        (lambda s: ["contains", "3", s], "3"),
        (lambda s: ["all", ["lt", "3"], s], "3"), (lambda s: ["dematerialize", ["map", "toMat", s]], "0"),
        (lambda s: ["sequence_equal", s, ["from_iter", "1", "2", "9"]], None),
        (lambda s: ["take_until", s, ["just", "1"]], "1"), (lambda s: ["flat_map", ["fm_err", "3"], s], "3"),
        (lambda s: ["merge", s, ["error", "5"]], None), (lambda s: ["zip", s, ["error", "5"]], None),
        (lambda s: ["amb", ["just", "9"], s], "1"), (lambda s: ["amb", s, ["just", "9"]], None),
        (lambda s: ["first", ["map", "inc", ["filter", "tt", s]]], "1"), (lambda s: ["take", "1", ["scan", "add", s]], "1"),
        (lambda s: ["take", "2", ["merge", s, ["never"]]], "1"), (lambda s: ["take", "1", ["concat", s, ["never"]]], "1"),
        (lambda s: ["take", "1", ["start_with", ["l"], s]], "1"), (lambda s: ["take", "1", ["tap", "9", s]], "1"),
        (lambda s: ["take", "1", ["distinct_until_changed", s]], "1"), (lambda s: ["take", "1", ["skip", "1", s]], "1"),
        (lambda s: ["take", "1", ["retry", "2", s]], "1"), (lambda s: ["take", "1", ["on_error_resume_next", "rs_empty", s]], "1"),
        (lambda s: ["take", "1", ["flat_map", "fm_just", s]], "1"), (lambda s: ["take", "1", ["buffer_with_count", "2", s]], "1"),
        (lambda s: ["take", "1", ["skip_while", "ff", s]], "1"), (lambda s: ["take", "1", ["default_if_empty", "9", s]], "1"),
        (lambda s: ["take", "1", ["materialize", s]], "1"), (lambda s: ["take", "1", ["map_to_any", s]], "1"),
        (lambda s: ["take", "1", ["skip_last", "1", s]], "1"), (lambda s: ["take", "1", ["switch_on_next", s, ["never"]]], "1"),
        (lambda s: ["take", "1", ["skip_until", s, ["just", "1"]]], "1"), (lambda s: ["take", "1", ["sample", ["never"], s]], None),
    ]
    for mk, rep in enders:
        g.tag = 0
        add([["sub", mk(g.cold(long + [C_])), NOREACT]])
        g.tag = 0
        add([["sub", mk(g.cold(long)), NOREACT]])
        if rep is not None:
            add([["sub", mk(["repeat", rep]), NOREACT]])
            add([["sub", mk(["interval_d"]), NOREACT]])     # counts 0,1,2,..: every ender above is satisfied by some count
            add([["sub", mk(["from_iter_endless", rep]), NOREACT]])
            add([["sub", mk(["start_with_endless", rep, ["just", "9"]]), NOREACT]])
        # hot source: the subject must not hold the observer afterwards
        steps = [["subject", "a", "plain"], ["sub", mk(["ref", "a"]), NOREACT]] + [["hnext", "a", str(v)] for v in (1, 2, 3, 0, 1)]
        add(steps)
    # EVERY single-source operator between a long / endless synchronous source and a downstream that has all it needs
    allops = dict(g.ops_int()); allops.update(g.ops_agnostic()) if hasattr(g, "ops_agnostic") else None
    for name in sorted(allops):
        for ender in (lambda q: ["take", "1", q], lambda q: ["first", q], lambda q: ["take", "2", q]):
            g.tag = 0
            add([["sub", ender(allops[name](g.cold(long))), NOREACT]])
        # an endless source only under operators that hand every item on (an aggregate over `repeat` never returns, by design)
        if name in ("map", "tap", "map_to_any", "timestamp", "scan", "start_with", "default_if_empty", "demat_mat", "skip", "observe_on_d", "subscribe_on_d", "delay0"):
            for ender in (lambda q: ["take", "1", q], lambda q: ["first", q]):
                g.tag = 0
                add([["sub", ender(allops[name](["repeat", "1"])), NOREACT]])
                add([["sub", ender(allops[name](["interval_d"])), NOREACT]])
    # the downstream ends while an operator is still handing over its own prefix: the source behind it must not stay subscribed
    for ender in (lambda q: ["take", "1", q], lambda q: ["take_while", "ff", q], lambda q: ["take", "2", q]):
        for pre in (lambda q: ["start_with", ["l", "7", "8"], q], lambda q: ["merge", ["from_iter", "7", "8"], q],
                    lambda q: ["concat", ["from_iter", "7", "8"], q], lambda q: ["amb", ["just", "7"], q]):
            for inner in (lambda q: q, lambda q: ["map", "inc", q], lambda q: ["filter", "tt", q], lambda q: ["scan", "add", q]):
                g.tag = 0
                add([["subject", "a", "plain"], ["sub", ender(pre(inner(["ref", "a"]))), NOREACT], ["hnext", "a", "1"]])
                g.tag = 0
                add([["sub", ender(pre(inner(g.cold(long)))), NOREACT]])
    # unsubscribe / terminal as the cause, at each position
    for j in range(n_random):
        g.tag = 0
        p = g.pipe_typed(g.r.randint(1, 3), hot=("a",))
        drive = hot_history(g, ["a"], g.r.randint(1, 5), 1, unsub_p=0.2)
        add([["subject", "a", "plain"], ["sub", p, NOREACT]] + drive + [["unsub", "0"], ["hnext", "a", "1"]])
    # a failed retry attempt is torn down before the next one starts
    for n in ("2", "3", "0"):
        g.tag = 0
        add([["counter", "k"], ["sub", ["retry", n, ["flaky", "0", "k", [n_(1), e_(5)], [n_(2), e_(5)], [n_(3), C_]]], NOREACT]])
    # a failed attempt that still has a LIVE input (a multi-input operator under a recovery operator): the next attempt /
    # the replacement pushes into that input's subject while it is being subscribed (ready_set_go): the abandoned
    # attempt's tap must not fire any more
    for c in ("merge", "zip", "amb", "combine_latest"):
        g.tag = 0
        failed = g.combine_named(c, ["tap", "9", ["ref", "a"]], [g.cold([e_(5)])], hot=("a",))
        add([["subject", "a", "plain"], ["def", "y", ["rsg", [["hnext", "a", "7"]], ["just", "8"]]],
             ["sub", ["on_error_resume_next", ["rs_ref", "y"], failed], NOREACT], ["hnext", "a", "6"]])
        g.tag = 0
        attempt = g.combine_named(c, ["tap", "9", ["ref", "a"]], [["rsg", [["hnext", "a", "7"]], ["flaky", "0", "k", [e_(5)], [n_(1), C_]]]], hot=("a",))
        add([["subject", "a", "plain"], ["counter", "k"], ["sub", ["retry", "2", attempt], NOREACT], ["hnext", "a", "6"]])
        g.tag = 0
        add([["subject", "a", "plain"], ["counter", "k"], ["sub", ["retry_when", "tt", attempt], NOREACT], ["hnext", "a", "6"]])
    # two hot inputs that BOTH keep emitting after the operator took its decision (switched away, winner chosen, gate
    # opened / closed), then every way of ending: neither subject may hold an observer of this subscription afterwards
    for c in ("switch_on_next", "amb", "take_until", "skip_until", "sample", "merge", "zip", "concat", "combine_latest", "sequence_equal"):
        for inner in (lambda q: q, lambda q: ["map", "inc", q]):
            for first in ("a", "b"):
                other = "b" if first == "a" else "a"
                pre = [["subject", "a", "plain"], ["subject", "b", "plain"], ["sub", g.combine_named(c, inner(["ref", "a"]), [inner(["ref", "b"])], hot=("a", "b")), NOREACT],
                       ["hnext", first, "1"], ["hnext", other, "2"], ["hnext", first, "3"], ["hnext", other, "4"]]
                for tail in ([["unsub", "0"]], [["hcomplete", "a"], ["hcomplete", "b"]], [["hcomplete", "b"], ["hcomplete", "a"]], [["herror", "a", "6"]], [["herror", "b", "6"]]):
                    add(pre + tail + [["unsub", "0"], ["hnext", "a", "5"], ["hnext", "b", "6"]])
    return out

def fam_resubscribe(g, prefix, n_random):
    """the same Observable value subscribed 2..3 times: sequentially, and interleaved on a hot source"""
    out = []
    i = 0
    ops = dict(g.ops_int()); ops.update(g.ops_final()); ops.update(g.recovery())
    scripts = [[n_(1), n_(2), n_(3), C_], [C_], [n_(1), e_(5)], [n_(2), n_(2), n_(1)]]
    for name in sorted(ops):
        for evs in scripts:
            g.tag = 0
            p = ops[name](g.cold(evs))
            out.append(case("%s-%d" % (prefix, i), [["def", "x", p]] + [["sub", ["ref", "x"], NOREACT]] * 3)); i += 1
    for c in ("merge", "concat", "zip", "amb", "combine_latest", "sequence_equal", "take_until", "skip_until", "sample", "switch_on_next", "flat_map"):
        for evs in scripts:
            g.tag = 0
            p = g.combine_named(c, g.cold(evs), [g.cold(g.script(3)), g.cold(g.script(2))])
            out.append(case("%s-%d" % (prefix, i), [["def", "x", p]] + [["sub", ["ref", "x"], NOREACT]] * 3)); i += 1
        # every source delivers items and completes: whatever a subscription left behind in the operator (latest values,
        # queues, flags, counters) would show in the next one
        for others in ([[n_(10), C_]], [[n_(10), C_], [n_(20), n_(30), C_]], [[n_(10), n_(11), n_(12), C_]]):
            g.tag = 0
            p = g.combine_named(c, g.cold([n_(1), n_(2), C_]), [g.cold(o) for o in others])
            out.append(case("%s-%d" % (prefix, i), [["def", "x", p]] + [["sub", ["ref", "x"], NOREACT]] * 2)); i += 1
    for evs in ([n_(1), e_(5)], [e_(5)], [n_(1), n_(2), e_(6)]):
        for b in ("1", "2", "3", "4"):
            for mk in (lambda s: ["retry", b, s], lambda s: ["retry_when", ["lt", "6"], ["take", b, s]],
                       lambda s: ["on_error_resume_next", ["rs_just", "8"], s], lambda s: ["retry", b, ["map", "inc", s]]):
                g.tag = 0
                out.append(case("%s-%d" % (prefix, i), [["def", "x", mk(g.cold(evs))]] + [["sub", ["ref", "x"], NOREACT]] * 3)); i += 1
    # a recovery operator that GAVE UP in an earlier subscription (predicate said no, budget exhausted) decides afresh in the next
    for rec in (lambda s: ["retry_when", ["eq", "5"], s], lambda s: ["retry_when", ["lt", "6"], s], lambda s: ["retry", "2", s],
                lambda s: ["on_error_resume_next", ["rs_just", "8"], ["retry_when", ["eq", "5"], s]], lambda s: ["map", "inc", ["retry_when", ["eq", "5"], s]]):
        for scripts in ([[e_(6)], [n_(1), e_(5)], [n_(2), C_]], [[n_(1), e_(6)], [e_(5)], [e_(5)], [n_(3), C_]], [[e_(6)], [e_(6)], [n_(1), e_(5)], [n_(2), C_]]):
            out.append(case("%s-%d" % (prefix, i), [["counter", "k"], ["def", "x", rec(["flaky", "0", "k"] + scripts)]] + [["sub", ["ref", "x"], NOREACT]] * 3)); i += 1
    # under retry: each attempt is a resubscription of the inner pipeline
    for name in sorted(g.ops_int()):
        g.tag = 0
        inner = g.ops_int()[name](["flaky", "0", "k", [n_(1), e_(5)], [n_(1), n_(2), C_]])
        out.append(case("%s-%d" % (prefix, i), [["counter", "k"], ["sub", ["retry", "3", inner], NOREACT]])); i += 1
    # attempts that differ: what the first attempt left behind must not leak into the second
    ops_all = dict(g.ops_int()); ops_all.update(g.ops_final())
    for name in sorted(ops_all):
        for scripts in ([[n_(1), e_(5)], [C_]], [[e_(5)], [n_(2), n_(2), C_]], [[n_(1), n_(2), e_(5)], [n_(3), C_]]):
            g.tag = 0
            inner = ops_all[name](["flaky", "0", "k"] + scripts)
            out.append(case("%s-%d" % (prefix, i), [["counter", "k"], ["sub", ["retry", "2", inner], NOREACT]])); i += 1
    for j in range(n_random):
        g.tag = 0
        p = g.pipe_typed(g.r.randint(1, 3))
        out.append(case("%s-%d" % (prefix, i), [["def", "x", p]] + [["sub", ["ref", "x"], NOREACT]] * g.r.choice([2, 3]))); i += 1
    # interleaved on a hot source: second subscription starts while the first is mid-stream
    for name in sorted(ops):
        g.tag = 0
        p = ops[name](["ref", "a"])
        steps = [["subject", "a", "plain"], ["def", "x", p], ["sub", ["ref", "x"], NOREACT], ["hnext", "a", "1"], ["hnext", "a", "2"],
                 ["sub", ["ref", "x"], NOREACT], ["hnext", "a", "1"], ["hnext", "a", "2"], ["hnext", "a", "3"], ["hcomplete", "a"]]
        out.append(case("%s-hot-%d" % (prefix, i), steps)); i += 1
        # the second subscriber arrives late and sees nothing but the terminal
        for term in (["hcomplete", "a"], ["herror", "a", "6"]):
            g.tag = 0
            p = ops[name](["ref", "a"])
            steps = [["subject", "a", "plain"], ["def", "x", p], ["sub", ["ref", "x"], NOREACT], ["hnext", "a", "1"], ["hnext", "a", "2"],
                     ["sub", ["ref", "x"], NOREACT], term]
            out.append(case("%s-hot-%d" % (prefix, i), steps)); i += 1
    # combinators over TWO hot inputs, subscribed twice with the inputs arriving in a DIFFERENT order in the second
    # subscription (the first one still live, or already unsubscribed): decisions (winner, gate, latest values, queues)
    # belong to a subscription
    for c in ("amb", "merge", "zip", "combine_latest", "sequence_equal", "take_until", "skip_until", "sample", "switch_on_next", "concat"):
        for mid in ([], [["unsub", "0"]]):
            for inner in (lambda q: q, lambda q: ["map", "inc", q]):
                g.tag = 0
                p = g.combine_named(c, inner(["ref", "a"]), [inner(["ref", "b"])], hot=("a", "b"))
                steps = ([["subject", "a", "plain"], ["subject", "b", "plain"], ["def", "x", p], ["sub", ["ref", "x"], NOREACT], ["hnext", "a", "1"], ["hnext", "b", "2"]] + mid +
                         [["sub", ["ref", "x"], NOREACT], ["hnext", "b", "3"], ["hnext", "a", "4"], ["hnext", "b", "5"], ["hcomplete", "b"], ["hnext", "a", "6"], ["hcomplete", "a"]])
                out.append(case("%s-hot-%d" % (prefix, i), steps)); i += 1
    return out

def fam_release(g, prefix, n_random):
    """pipelines ended in each of the three ways, handles dropped, tokens counted"""
    out = []
    i = 0
    ops = dict(g.ops_int()); ops.update(g.ops_final()); ops.update(g.recovery())
    def add(steps):
        nonlocal i
        out.append(case("%s-%d" % (prefix, i), steps + [["drop"]])); i += 1
    for name in sorted(ops) + ["none"]:
        mk = ops[name] if name != "none" else (lambda p: p)
        g.tag = 0
        add([["sub", mk(g.cold([n_(1), n_(2), C_])), NOREACT]])
        add([["sub", mk(g.cold([n_(1), e_(5)])), NOREACT]])
        add([["subject", "a", "plain"], ["sub", mk(["ref", "a"]), NOREACT], ["hnext", "a", "1"], ["unsub", "0"]])
        add([["subject", "a", "plain"], ["sub", mk(["ref", "a"]), NOREACT], ["hnext", "a", "1"], ["hnext", "a", "2"], ["hcomplete", "a"]])
        add([["subject", "a", "plain"], ["sub", mk(["ref", "a"]), NOREACT], ["hnext", "a", "1"], ["herror", "a", "6"]])
    for c in ("merge", "concat", "zip", "amb", "combine_latest", "sequence_equal", "take_until", "skip_until", "sample", "switch_on_next", "flat_map"):
        g.tag = 0
        p = g.combine_named(c, ["ref", "a"], [["ref", "b"]], hot=("a", "b"))
        pre = [["subject", "a", "plain"], ["subject", "b", "plain"], ["sub", p, NOREACT], ["hnext", "a", "1"], ["hnext", "b", "2"]]
        add(pre + [["unsub", "0"]])
        add(pre + [["hcomplete", "a"], ["hcomplete", "b"]])
        add(pre + [["herror", "b", "6"]])
        add([["sub", g.combine_named(c, g.cold([n_(1), n_(2), C_]), [g.cold([n_(3), C_])]), NOREACT]])
    # the downstream ends before / while an operator hands over its own prefix, the source stays silent afterwards
    for name in sorted(ops) + ["none"]:
        mk = ops[name] if name != "none" else (lambda p: p)
        for ender in (lambda q: ["take", "1", q], lambda q: ["take_while", "ff", q], lambda q: ["first", q], lambda q: ["take", "2", q]):
            for pre in (lambda q: ["start_with", ["l", "7", "8"], q], lambda q: ["merge", ["from_iter", "7", "8"], q],
                        lambda q: ["concat", ["from_iter", "7", "8"], q], lambda q: ["amb", ["just", "7"], q]):
                if g.r.random() < 0.35:
                    g.tag = 0
                    add([["subject", "a", "plain"], ["sub", ender(pre(mk(["ref", "a"]))), NOREACT]])
                    g.tag = 0
                    add([["sub", ender(pre(mk(g.cold([])))), NOREACT]])
    # flat_map over hot inner PIPELINES (each with an operator closure of its own) opened and closed in every order:
    # an inner pipeline that the controller loses track of keeps its closures alive after the end
    import itertools
    idx = {"a": "0", "b": "1", "c": "2"}
    for (x, y, z) in itertools.permutations(["a", "b", "c"]):
        pre = [["subject", nm, "plain"] for nm in ("a", "b", "c")] + [["subject", "s", "plain"]]
        pre += [["def", nm + "2", ["map", "inc", ["ref", nm]]] for nm in ("a", "b", "c")]
        opening = [["hnext", "s", idx[x]], ["hnext", "s", idx[y]], ["hnext", x, "1"], ["hcomplete", x], ["hnext", "s", idx[z]]]
        tails = [
            [["hcomplete", "s"], ["hnext", y, "2"], ["hcomplete", y], ["hnext", z, "3"], ["hcomplete", z]],
            [["hnext", y, "1"], ["hnext", z, "2"], ["unsub", "0"]],
            [["hnext", z, "2"], ["herror", "s", "6"]],
            [["hnext", z, "2"], ["herror", y, "6"]],
        ]
        for tl in tails:
            g.tag = 0
            add(pre + [["sub", ["flat_map", ["fm_ref", "a2", "b2", "c2"], ["ref", "s"]], NOREACT]] + opening + tl + [["unsub", "0"]])
    # connectables and the four subject types: the shared subject, its hooks and the source observable are handles of
    # the caller too; after every subscription ended and everything was dropped nothing may be left
    for kind in ("publish", "ref_count", "replay"):
        for mk in (lambda q: q, lambda q: ["map", "inc", q]):
            for ender in ("complete", "error", "unsub", "take"):
                g.tag = 0
                evs = [n_(1), n_(2), C_] if ender != "error" else [n_(1), e_(5)]
                steps = [["conn", "x", kind, mk(g.cold(evs))], ["sub", ["take", "1", ["ref", "x"]] if ender == "take" else mk(["ref", "x"]), NOREACT]]
                if kind == "publish":
                    steps.append(["connect", "x"])
                steps.append(["unsub", "0"])
                add(steps)
                g.tag = 0
                hot = [["subject", "a", "plain"], ["conn", "x", kind, mk(["ref", "a"])], ["sub", ["take", "1", ["ref", "x"]] if ender == "take" else mk(["ref", "x"]), NOREACT]]
                if kind == "publish":
                    hot.append(["connect", "x"])
                hot += [["hnext", "a", "1"]] + ([["hcomplete", "a"]] if ender == "complete" else [["herror", "a", "6"]] if ender == "error" else [])
                hot += [["unsub", "0"]] + ([["disconnect", "x"]] if kind == "publish" else [])
                add(hot)
        g.tag = 0
        add([["conn", "x", kind, ["map", "inc", g.cold([n_(1), C_])]]])        # built, never subscribed, dropped
    for kind in ("plain", "behavior", "replay", "async"):
        sj = ["subject", "a", kind] + (["0"] if kind == "behavior" else [])
        for mk in (lambda q: q, lambda q: ["map", "inc", q], lambda q: ["take", "1", q]):
            for tail in ([["hcomplete", "a"]], [["herror", "a", "6"]], [["unsub", "0"], ["unsub", "1"]], [["unsub", "0"], ["hnext", "a", "3"], ["hcomplete", "a"]]):
                add([sj, ["sub", mk(["ref", "a"]), NOREACT], ["hnext", "a", "1"], ["sub", mk(["ref", "a"]), NOREACT], ["hnext", "a", "2"]] + tail + [["unsub", "0"], ["unsub", "1"]])
    # a late subscriber that has all it needs out of the HISTORY of a replay / behavior subject (or of replay()): it ends
    # while it is still being handed the stored items; the others leave afterwards
    enders = [(lambda q: ["take", "1", q], NOREACT), (lambda q: ["take", "2", q], NOREACT), (lambda q: ["first", q], NOREACT),
              (lambda q: q, ["react", ["0", "unsub"]]), (lambda q: ["map", "inc", q], ["react", ["1", "unsub"]]),
              (lambda q: ["take_while", ["lt", "2"], q], NOREACT)]
    for kind in ("replay", "behavior"):
        sj = ["subject", "a", kind] + (["0"] if kind == "behavior" else [])
        for mk, react in enders:
            for tail in ([["unsub", "0"]], [["hnext", "a", "3"], ["unsub", "0"]], [["hcomplete", "a"]], [["unsub", "0"], ["hnext", "a", "3"]]):
                g.tag = 0
                add([sj, ["sub", ["tap", g.newtag(), ["ref", "a"]], NOREACT], ["hnext", "a", "1"], ["hnext", "a", "2"],
                     ["sub", mk(["map", "inc", ["ref", "a"]]), react]] + tail + [["unsub", "0"], ["unsub", "1"]])
    for mk, react in enders:
        for tail in ([["unsub", "0"]], [["hnext", "a", "3"], ["unsub", "0"]], [["hcomplete", "a"]]):
            g.tag = 0
            add([["subject", "a", "plain"], ["conn", "x", "replay", ["map", "inc", ["ref", "a"]]], ["sub", ["ref", "x"], NOREACT], ["hnext", "a", "1"], ["hnext", "a", "2"],
                 ["sub", mk(["tap", g.newtag(), ["ref", "x"]]), react]] + tail + [["unsub", "0"], ["unsub", "1"]])
    for j in range(n_random):
        g.tag = 0
        p = g.pipe_typed(g.r.randint(1, 3), hot=("a",))
        steps = [["subject", "a", "plain"], ["sub", p, NOREACT]] + hot_history(g, ["a"], g.r.randint(0, 4), 1, terminal_p=0.0, unsub_p=0.0)
        steps.append(g.r.choice([["unsub", "0"], ["hcomplete", "a"], ["herror", "a", "6"]]))
        if steps[-1][0] != "unsub":
            steps.append(["unsub", "0"])   # a pipeline that ignores `a` may still be live
        add(steps)
    return out

def fam_subjects(g, prefix, n_random, maxlen=10, exhaustive_len=0):
    """call sequences over {subscribe_i, unsubscribe_i, next(v), error, complete} on the four subject types"""
    out = []
    i = 0
    kinds = ["plain", "behavior", "replay", "async"]
    def mk(kind, calls):
        steps = [["subject", "a", kind] + (["0"] if kind == "behavior" else [])]
        return steps + calls
    alphabet = lambda nusers: ([["hnext", "a", v] for v in ("1", "2", "3")] + [["hcomplete", "a"], ["herror", "a", "6"]] +
                               [["unsub", str(u)] for u in range(nusers)])
    subs = [["sub", ["ref", "a"], NOREACT], ["sub", ["map", "inc", ["ref", "a"]], NOREACT], ["sub", ["take", "1", ["ref", "a"]], NOREACT],
            ["sub", ["take", "2", ["ref", "a"]], NOREACT]]
    # ONE Observable value (`subject.observable()` evaluated once, possibly behind an operator) shared by several
    # subscribers: what `observable()` allocates must not be shared between them
    shared = [["sub", ["ref", "h"], NOREACT], ["sub", ["ref", "hm"], NOREACT], ["sub", ["take", "1", ["ref", "h"]], NOREACT], ["sub", ["ref", "h"], NOREACT]]
    defs = [["def", "h", ["ref", "a"]], ["def", "hm", ["map", "inc", ["ref", "a"]]]]
    for kind in kinds:
        for first, second in ((0, 0), (0, 1), (1, 1), (1, 0), (2, 0)):
            for leaver in ("0", "1"):
                out.append(case("%s-%s-sh%d" % (prefix, kind, i), mk(kind, defs + [shared[first], ["hnext", "a", "1"], shared[second], ["unsub", leaver],
                                                                               ["hnext", "a", "2"], ["hcomplete", "a"]]))); i += 1
        for j in range(n_random):
            calls = []
            users = 0
            use_shared = g.r.random() < 0.3
            for _ in range(g.r.randint(2, maxlen)):
                if users < 3 and g.r.random() < 0.3:
                    calls.append(g.r.choice(shared if use_shared else subs)); users += 1
                else:
                    calls.append(g.r.choice(alphabet(users)))
            out.append(case("%s-%s-%d" % (prefix, kind, i), mk(kind, (defs if use_shared else []) + calls))); i += 1
        if exhaustive_len:
            import itertools
            base = [subs[0], subs[2]] + [["hnext", "a", "1"], ["hnext", "a", "2"], ["hcomplete", "a"], ["herror", "a", "6"], ["unsub", "0"], ["unsub", "1"]]
            for L in range(1, exhaustive_len + 1):
                for seq in itertools.product(base, repeat=L):
                    # unsub of a user that does not exist yet is a no-op on both sides; keep it
                    out.append(case("%s-%s-x%d" % (prefix, kind, i), mk(kind, list(seq)))); i += 1
    return out

def fam_connectables(g, prefix, n_random, maxlen=10):
    out = []
    i = 0
    for kind in ("publish", "ref_count", "replay"):
        for j in range(n_random):
            g.tag = 0
            hot = g.r.random() < 0.5
            steps = []
            if hot:
                steps.append(["subject", "a", "plain"])
                src = ["ref", "a"] if g.r.random() < 0.6 else ["map", "inc", ["ref", "a"]]
            else:
                src = g.cold(g.script(3))
            steps.append(["conn", "x", kind, src])
            users = 0
            for _ in range(g.r.randint(2, maxlen)):
                k = g.r.random()
                if users < 3 and k < 0.3:
                    p = ["ref", "x"] if g.r.random() < 0.7 else g.r.choice([["take", "1", ["ref", "x"]], ["map", "inc", ["ref", "x"]]])
                    steps.append(["sub", p, NOREACT]); users += 1
                elif k < 0.45 and users:
                    steps.append(["unsub", str(g.r.randrange(users))])
                elif k < 0.6 and kind == "publish":
                    steps.append(g.r.choice([["connect", "x"], ["connect", "x"], ["disconnect", "x"]]))
                elif hot:
                    steps.append(g.r.choice([["hnext", "a", g.val()], ["hnext", "a", g.val()], ["hnext", "a", g.val()], ["hcomplete", "a"], ["herror", "a", "6"]]))
            out.append(case("%s-%s-%d" % (prefix, kind, i), steps)); i += 1
    return out

def fam_conn_reentrant(g, prefix, n_random):
    """connectables whose subscribers arrive / leave from INSIDE a callback (while a synchronous source is
    still emitting, or while a hot source's event is being broadcast)"""
    out = []
    i = 0
    for kind in ("publish", "ref_count", "replay"):
        for evs in ([n_(1), n_(2), n_(3)], [n_(1), n_(2), n_(3), C_], [n_(1), n_(2), e_(5)]):
            for first in (lambda x: x, lambda x: ["take", "1", x], lambda x: ["take", "2", x], lambda x: ["map", "inc", x]):
                for idx in ("0", "1", "2"):
                    for act in (["sub", ["ref", "x"]], ["sub", ["take", "1", ["ref", "x"]]], "unsub"):
                        for hot in (False, True):
                            g.tag = 0
                            if hot:
                                pre = [["subject", "a", "plain"], ["conn", "x", kind, ["ref", "a"]]]
                                drive = [(["hnext", "a", e[1]] if e[0] == "n" else ["herror", "a", e[1]]) if isinstance(e, list) else ["hcomplete", "a"] for e in evs]
                            else:
                                pre = [["conn", "x", kind, g.cold(evs)]]
                                drive = []
                            steps = pre + [["sub", first(["ref", "x"]), ["react", [idx, act]]]]
                            if kind == "publish":
                                steps.append(["connect", "x"])
                            steps += drive + [["sub", ["ref", "x"], NOREACT]]
                            out.append(case("%s-%d" % (prefix, i), steps)); i += 1
    return out

def fam_errors(g, prefix, n_random):
    """an error injected at every position of the source script, through every operator; retry budgets;
    flaky sources; resume functions"""
    out = []
    i = 0
    def add(steps):
        nonlocal i
        out.append(case("%s-%d" % (prefix, i), steps)); i += 1
    ops = dict(g.ops_int()); ops.update(g.ops_final())
    items = [n_(1), n_(2), n_(3)]
    for name in sorted(ops):
        for pos in range(len(items) + 1):
            g.tag = 0
            add([["sub", ops[name](g.cold(items[:pos] + [e_(5)])), NOREACT]])
    for c in ("merge", "concat", "zip", "amb", "combine_latest", "sequence_equal", "take_until", "skip_until", "sample", "switch_on_next", "flat_map"):
        for pos in range(len(items) + 1):
            g.tag = 0
            add([["sub", g.combine_named(c, g.cold(items[:pos] + [e_(5)]), [g.cold([n_(7), n_(8), C_])]), NOREACT]])
            g.tag = 0
            add([["sub", g.combine_named(c, g.cold([n_(7), n_(8), C_]), [g.cold(items[:pos] + [e_(6)])]), NOREACT]])
    # the error of a NON-first input, after other inputs have emitted: three hot inputs, every choice of the failing one;
    # for amb every choice of the winner (its error must come through, the others' items must not)
    for c in ("merge", "amb", "zip", "combine_latest", "concat"):
        for wi, wn in enumerate(("a", "b", "c")):
            others = [x for x in ("a", "b", "c") if x != wn]
            g.tag = 0
            add([["subject", nm, "plain"] for nm in ("a", "b", "c")] +
                [["sub", g.combine_named(c, ["ref", "a"], [["ref", "b"], ["ref", "c"]]), NOREACT],
                 ["hnext", wn, "1"], ["hnext", others[0], "100"], ["hnext", others[1], "200"], ["hnext", wn, "2"], ["herror", wn, "7"],
                 ["hnext", others[0], "101"], ["hcomplete", others[0]]])
    for c in ("take_until", "skip_until", "sample"):
        add([["subject", "a", "plain"], ["subject", "b", "plain"], ["sub", [c, ["ref", "a"], ["ref", "b"]], NOREACT],
             ["hnext", "a", "1"], ["herror", "b", "7"], ["hnext", "a", "2"], ["hcomplete", "a"]])
        add([["subject", "a", "plain"], ["subject", "b", "plain"], ["sub", [c, ["ref", "a"], ["ref", "b"]], NOREACT],
             ["hnext", "b", "1"], ["hnext", "a", "2"], ["herror", "a", "7"], ["hnext", "b", "3"]])
    # an attempt that fails AFTER its subscribe call returned (a hot input wins amb and fails later); the next attempt ends INSIDE
    # its subscribe call (the hot input is dead by then, the flaky input answers synchronously)
    for op in (["retry", "2"], ["retry", "3"], ["retry", "0"], ["retry_when", "tt"], ["retry_when", ["eq", "5"]], ["on_error_resume_next", "rs_same"]):
        for second in ([n_(2), C_], [C_], [n_(2), n_(3), C_], [n_(2), e_(6)]):
            if second[-1] != C_ and op in (["retry", "0"], ["retry_when", "tt"]):
                continue      # would retry for ever
            for pre in ([["hnext", "a", "1"]], []):
                add([["counter", "k"], ["subject", "a", "plain"], ["sub", op + [["amb", ["ref", "a"], ["flaky", "0", "k", [], second]]], NOREACT]] + pre +
                    [["herror", "a", "5"], ["hnext", "a", "7"]])
    # payloads of other TYPES than the harness's own struct (C04: downcast_ref to the ORIGINAL type): 1000.. an RxError wrapping
    # it (a nested error), 2000.. a String, 3000.. an i64 - through every operator, creation function and recovery operator
    for pid in (1005, 2005, 3005):
        for name in sorted(ops):
            g.tag = 0
            add([["sub", ops[name](g.cold([n_(1), e_(pid)])), NOREACT]])
        for src in (["error", str(pid)], ["from_result_err", str(pid)], ["materialize", ["error", str(pid)]], ["dematerialize", ["materialize", ["from_result_err", str(pid)]]],
                    ["retry", "2", ["cold", "0", n_(1), e_(pid)]], ["retry_when", "ff", ["cold", "0", e_(pid)]], ["on_error_resume_next", "rs_same", ["cold", "0", e_(pid)]],
                    ["on_error_resume_next", "rs_payload", ["cold", "0", e_(pid)]], ["merge", ["never"], ["error", str(pid)]], ["flat_map", ["fm_err", "2"], ["from_iter", "1", "2"]],
                    ["observe_on_d", ["error", str(pid)]], ["take", "1", ["materialize", ["error", str(pid)]]]):
            g.tag = 0
            add([["sub", src, NOREACT]])
    for c in ("merge", "concat", "zip", "amb", "combine_latest", "sequence_equal"):
        for pos in range(len(items) + 1):
            g.tag = 0
            add([["sub", g.combine_named(c, g.cold(items[:pos] + [e_(5)]), []), NOREACT]])       # no other source at all
        add([["counter", "k"], ["sub", ["retry", "2", g.combine_named(c, ["flaky", "0", "k", [n_(1), e_(5)], [n_(2), C_]], [])], NOREACT]])
    attempts = [[n_(1), e_(5)], [n_(2), n_(3), e_(5)], [e_(5)], [n_(4), C_], [n_(5), e_(6)]]
    for budget in ("0", "1", "2", "3", "4"):
        for k in range(1, 6):
            scripts = [g.r.choice(attempts[:3]) for _ in range(k - 1)] + [g.r.choice(attempts[3:])]
            if budget == "0" and scripts[-1][-1] != C_:
                scripts.append([n_(9), C_])
            add([["counter", "k"], ["sub", ["retry", budget, ["flaky", "0", "k"] + scripts], NOREACT]])
    for ep in ("tt", "ff", ["eq", "5"], ["lt", "6"]):
        for k in range(1, 4):
            scripts = [g.r.choice(attempts[:3]) for _ in range(k - 1)] + [g.r.choice(attempts[3:])]
            if scripts[-1][-1] != C_:
                scripts.append([n_(9), e_(6)] if ep != "tt" else [n_(9), C_])
            add([["counter", "k"], ["sub", ["retry_when", ep, ["flaky", "0", "k"] + scripts], NOREACT]])
    # nested recovery and re-subscription of one recovery pipeline: the budget belongs to a subscription
    for a in ("1", "2", "3"):
        for b in ("1", "2", "3"):
            add([["sub", ["retry", a, ["retry", b, ["cold", "0", n_(1), e_(5)]]], NOREACT]])
            add([["sub", ["retry_when", ["eq", "5"], ["retry", b, ["cold", "0", n_(1), e_(5)]]], NOREACT]] if a == "1" else
                [["sub", ["on_error_resume_next", "rs_same", ["retry", b, ["cold", "0", n_(1), e_(5)]]], NOREACT]])
    for b in ("1", "2", "3", "4"):
        for src in (["cold", "0", n_(1), e_(5)], ["cold", "0", e_(6)]):
            add([["def", "x", ["retry", b, src]], ["sub", ["ref", "x"], NOREACT], ["sub", ["ref", "x"], NOREACT], ["sub", ["ref", "x"], NOREACT]])
            add([["def", "x", ["retry_when", ["lt", "6"], ["take", b, src]]], ["sub", ["ref", "x"], NOREACT], ["sub", ["ref", "x"], NOREACT]])
            add([["def", "x", ["retry", b, src]], ["sub", ["on_error_resume_next", ["rs_ref", "x"], ["ref", "x"]], NOREACT]])
    # two subscriptions of ONE recovery observable alive at the same time (a subscriber arriving from inside a callback
    # of the first, two subscribers of a hot source): the budget belongs to a subscription, not to the observable
    for b in ("2", "3", "4"):
        for src in (["cold", "0", n_(1), e_(5)], ["cold", "0", n_(1), n_(2), e_(5)]):
            for at in ("0", "1"):
                add([["def", "x", ["retry", b, src]], ["sub", ["ref", "x"], ["react", [at, ["sub", ["ref", "x"]]]]]])
                add([["def", "x", ["retry_when", ["lt", "6"], ["take", b, src]]], ["sub", ["ref", "x"], ["react", [at, ["sub", ["ref", "x"]]]]]])
        add([["subject", "a", "plain"], ["def", "x", ["retry", b, ["ref", "a"]]], ["sub", ["ref", "x"], NOREACT], ["hnext", "a", "1"],
             ["sub", ["ref", "x"], NOREACT], ["herror", "a", "6"], ["hnext", "a", "2"]])
        add([["subject", "a", "plain"], ["def", "x", ["on_error_resume_next", "rs_same", ["retry", b, ["ref", "a"]]]], ["sub", ["ref", "x"], NOREACT],
             ["sub", ["ref", "x"], NOREACT], ["hnext", "a", "1"], ["herror", "a", "6"]])
    for rs in ("rs_empty", "rs_same", "rs_payload", ["rs_just", "8"], ["rs_err", "9"], ["rs_iter", "7", "8"]):
        for pos in range(len(items) + 1):
            g.tag = 0
            add([["sub", ["on_error_resume_next", rs, g.cold(items[:pos] + [e_(5)])], NOREACT]])
    for evs in scripts_grid(g, 2):
        g.tag = 0
        add([["sub", ["dematerialize", ["materialize", g.cold(evs)]], NOREACT]])
        add([["sub", ["materialize", g.cold(evs)], NOREACT]])
    for j in range(n_random):
        g.tag = 0
        p = g.pipe_typed(g.r.randint(1, 3))
        add([["sub", p, NOREACT]])
    return out
