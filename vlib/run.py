"""Building and running the two executables (Rust harness on the instrumented copy, Lean driver)."""
import os, subprocess, sys, time, tempfile, concurrent.futures as cf

ROOT = os.path.dirname(os.path.dirname(os.path.abspath(__file__)))
LEAN = os.path.join(ROOT, "lean")
BUILD = os.path.join(ROOT, "build")
RXMODEL = os.path.join(LEAN, ".lake", "build", "bin", "rxmodel")
RXH_SEQ = os.path.join(BUILD, "target-seq", "debug", "rxh-seq")
ENV = dict(os.environ, CARGO_NET_OFFLINE="true")

class BuildError(Exception):
    def __init__(self, what, log):
        super().__init__(what)
        self.what = what
        self.log = log

def sh(cmd, cwd=None, timeout=3600):
    p = subprocess.run(cmd, cwd=cwd, env=ENV, stdout=subprocess.PIPE, stderr=subprocess.STDOUT, text=True, timeout=timeout)
    return p.returncode, p.stdout

def build_lean(targets):
    rc, out = sh(["lake", "build"] + targets, cwd=LEAN)
    if rc != 0:
        raise BuildError("lake build " + " ".join(targets), out)
    return out

def build_harness(mode="seq"):
    rc, out = sh([sys.executable, os.path.join(ROOT, "tools", "instrument.py"), mode])
    if rc != 0:
        raise BuildError("instrument " + mode, out)
    hdir = os.path.join(ROOT, "harness", mode)
    lock = os.path.join(hdir, "Cargo.lock")
    if not os.path.exists(lock) and os.path.exists("/repo/Cargo.lock"):
        import shutil; shutil.copy("/repo/Cargo.lock", lock)
    rc, out = sh(["cargo", "build", "--offline", "-q"], cwd=hdir)
    if rc != 0:
        raise BuildError("cargo build (harness %s against the instrumented copy of /repo)" % mode, out)
    return out

def _run_chunk(exe, args, lines, timeout, env=None):
    if not lines:
        return []
    p = subprocess.run([exe] + args, input="\n".join(lines) + "\n", stdout=subprocess.PIPE, stderr=subprocess.PIPE,
                       text=True, timeout=timeout, env=env or ENV)
    out = p.stdout.split("\n")
    if out and out[-1] == "":
        out.pop()
    return out

def run_lines(exe, args, lines, jobs=8, timeout=1800):
    """run `exe` over `lines` (one output line per input line) in parallel chunks.  A chunk whose
    process dies (abort, stack overflow, timeout) is bisected so one bad case cannot hide the others;
    the bad case itself yields a line `<id> | CRASH`."""
    n = len(lines)
    if n == 0:
        return []
    jobs = max(1, min(jobs, (n + 49) // 50))
    size = (n + jobs - 1) // jobs
    chunks = [lines[i:i + size] for i in range(0, n, size)]
    def budget(k):
        # a case takes milliseconds; a process that blocks outside the instrumented primitives (std::sync::Once, a
        # channel, a real sleep) must not stall the check for half an hour: time allowance proportional to the chunk
        return min(timeout, max(15, 0.25 * k))
    def work(chunk, tmo=None):
        try:
            out = _run_chunk(exe, args, chunk, budget(len(chunk)) if tmo is None else tmo)
        except subprocess.TimeoutExpired:
            out = []
        if len(out) == len(chunk):
            return out
        if len(chunk) == 1:
            cid = chunk[0].split()[1] if len(chunk[0].split()) > 1 else "?"
            return ["%s |  ; S= L= O= st=crash" % cid]
        mid = len(chunk) // 2
        return work(chunk[:mid]) + work(chunk[mid:])
    with cf.ThreadPoolExecutor(max_workers=jobs) as ex:
        res = list(ex.map(work, chunks))
    return [l for r in res for l in r]

def run_impl(lines, jobs=8):
    return run_lines(RXH_SEQ, [], lines, jobs)

def run_model(lines, jobs=8):
    return run_lines(RXMODEL, [], lines, jobs)

def run_mode(mode, lines, jobs=8):
    return run_lines(RXMODEL, [mode], lines, jobs)

def run_spec(lines, jobs=8):
    return run_lines(RXMODEL, ["spec"], lines, jobs)

def run_oracle(case_lines, obs_lines, jobs=8):
    inter = []
    for c, o in zip(case_lines, obs_lines):
        inter.append(c); inter.append(o)
    # keep pairs together: chunk sizes are even because run_lines splits on multiples of `size`
    n = len(case_lines)
    if n == 0:
        return []
    jobs = max(1, min(jobs, (n + 49) // 50))
    size = ((n + jobs - 1) // jobs) * 2
    chunks = [inter[i:i + size] for i in range(0, len(inter), size)]
    def work(chunk):
        return _run_chunk(RXMODEL, ["oracle"], chunk, 1800)
    with cf.ThreadPoolExecutor(max_workers=jobs) as ex:
        res = list(ex.map(work, chunks))
    return [l for r in res for l in r]
