"""Proof step of a check: rebuild the property's theorem module, audit axioms and forbidden tokens."""
import os, re, glob
from . import run

WHITELIST = {"propext", "Classical.choice", "Quot.sound"}
FORBIDDEN = [r"\bsorry\b", r"\badmit\b", r"^\s*axiom\s", r"native_decide", r"bv_decide", r"implemented_by", r"\bunsafe\s", r"maxHeartbeats\s+0\b"]

TRUSTED = [
    "Lean 4.33.0 kernel + elaborator (leanchecker re-check in the thorough tier)",
    "axioms allowed: propext, Classical.choice, Quot.sound (audited per theorem by #print axioms on every run); no native_decide, no own axioms",
    "the hand-written Lean models (lean/RxVerif/Machine, Kernel, Conc) are tied to /repo only by the per-run correspondence: "
    "differential execution of generated cases by the Rust harness (instrumented copy of the current working tree) and the compiled Lean driver",
    "the instrumented copy: textual std:: -> crate::verif_std:: redirection, facade (self-deadlock detection, operation budget, "
    "insertion-ordered HashMap; shuttle in concurrent mode), read-only observer-count accessors",
    "harness (vlib/gen.py generators, harness/*), orchestrator (check), shrinker, known-findings matcher",
]


class ProofResult:
    def __init__(self):
        self.ok = True
        self.error = ""
        self.obligations = 0
        self.discharged = 0
        self.theorems = []
        self.axioms = []
        self.checker_cmd = ""
        self.trusted_base = list(TRUSTED)


def strip_comments(t):
    t = re.sub(r"/-.*?-/", "", t, flags=re.S)
    t = re.sub(r"--.*", "", t)
    return t


def check(prop, tier):
    r = ProofResult()
    mod = "RxVerif.Theorems." + prop
    path = os.path.join(run.LEAN, "RxVerif", "Theorems", prop + ".lean")
    r.checker_cmd = "cd lean && lake build %s && lake env lean <generated #print axioms audit>" % mod
    if not os.path.exists(path):
        r.ok = False
        r.error = "no theorem module " + path
        return r
    src = strip_comments(open(path).read())
    names = re.findall(r"^\s*theorem\s+([^\s:({\[]+)", src, flags=re.M)
    ns = re.findall(r"^\s*namespace\s+(\S+)", src, flags=re.M)
    prefix = ".".join(ns) + "." if ns else ""
    r.obligations = len(names)
    r.theorems = [prefix + n for n in names]
    # forbidden tokens anywhere in the Lean sources
    for f in glob.glob(os.path.join(run.LEAN, "**", "*.lean"), recursive=True):
        if ".lake" in f:
            continue
        body = strip_comments(open(f).read())
        for pat in FORBIDDEN:
            if re.search(pat, body, flags=re.M):
                r.ok = False
                r.error = "forbidden token %s in %s" % (pat, os.path.relpath(f, run.LEAN))
                return r
    try:
        run.build_lean([mod])
    except run.BuildError as e:
        r.ok = False
        r.error = "theorem module %s no longer builds: %s" % (mod, e.log[-1500:])
        return r
    os.makedirs(run.BUILD, exist_ok=True)
    audit = os.path.join(run.BUILD, "audit_%s.lean" % prop)
    open(audit, "w").write("import %s\n" % mod + "".join("#print axioms %s\n" % n for n in r.theorems))
    rc, out = run.sh(["lake", "env", "lean", audit], cwd=run.LEAN)
    if rc != 0:
        r.ok = False
        r.error = "axiom audit failed: " + out[-1500:]
        return r
    used = set()
    ok_count = 0
    for n in r.theorems:
        m = re.search(r"'%s' depends on axioms: \[(.*?)\]" % re.escape(n), out, flags=re.S)
        if m:
            ax = {a.strip() for a in m.group(1).replace("\n", " ").split(",") if a.strip()}
            used |= ax
            if ax <= WHITELIST:
                ok_count += 1
            else:
                r.ok = False
                r.error = "theorem %s depends on axioms %s" % (n, sorted(ax - WHITELIST))
        elif re.search(r"'%s' does not depend on any axioms" % re.escape(n), out):
            ok_count += 1
        else:
            r.ok = False
            r.error = "no axiom report for " + n
    r.axioms = sorted(used)
    r.discharged = ok_count
    if tier == "thorough" and r.ok:
        rc, out = run.sh(["lake", "env", "leanchecker", mod], cwd=run.LEAN, timeout=3600)
        r.checker_cmd += " && lake env leanchecker " + mod
        if rc != 0:
            r.ok = False
            r.error = "leanchecker rejected %s: %s" % (mod, out[-1500:])
    return r
