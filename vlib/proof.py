"""Proof step of a check: rebuild the property's theorem module, audit axioms and forbidden tokens."""
import os, re, glob
from . import run

WHITELIST = {"propext", "Classical.choice", "Quot.sound"}
FORBIDDEN = [r"\bsorry\b", r"\badmit\b", r"^\s*axiom\s", r"native_decide", r"bv_decide", r"implemented_by", r"\bunsafe\s", r"maxHeartbeats\s+0\b"]

TRUSTED = [
    "Lean 4.33.0 kernel + elaborator (leanchecker re-check in the thorough tier)",
    "axioms allowed: propext, Classical.choice, Quot.sound (audited per theorem by #print axioms on every run); no native_decide, no own axioms",
    "the hand-written Lean models (lean/RxVerif/Machine, Kernel, Conc) are tied to /repo only by the per-run correspondence: "
    "differential execution of generated cases by the Rust harness (instrumented copy of the current working tree) and the compiled Lean driver",
    "the instrumented copy: textual std:: -> crate::verif_std:: redirection, facade (self-deadlock detection, operation budget, "
    "insertion-ordered HashMap; shuttle in concurrent mode), read-only observer-count accessors",
    "harness (vlib/gen.py generators, harness/*), orchestrator (check), shrinker, known-findings matcher",
]


class ProofResult:
    def __init__(self):
        self.ok = True
        self.error = ""
        self.obligations = 0
        self.discharged = 0
        self.theorems = []
        self.axioms = []
        self.checker_cmd = ""
        self.trusted_base = list(TRUSTED)


def strip_comments(t):
    t = re.sub(r"/-.*?-/", "", t, flags=re.S)
    t = re.sub(r"--.*", "", t)
    return t


# theorem modules per property (lean/RxVerif/Theorems/<name>.lean)
MODULES = {
    "C01": ["C01"], "C02": ["C02a", "C02b", "C02c", "C02d", "SimChain", "SimCreate", "SimCreateOps"], "C03": ["C03", "C03RefMerge", "C03RefAmb", "C03RefConcat", "C03RefTakeUntil", "C03RefZip", "C03RefSkipUntil", "C03RefSample", "C03RefFlatMap", "C03RefFlatMapA", "C03RefFlatMapB", "C03RefSwitchOnNext", "C03RefSequenceEqual", "C03RefSeqEqChain", "C03RefSeqEqChain2", "C03RefSeqEqComb", "C03RefSeqEqDone", "C03RefSeqEqDone2", "C03RefSeqEqDone3", "C03RefSeqEqFinal", "C03RefSeqEqGlobal", "C03RefSeqEqLay", "C03RefSeqEqMain", "C03RefSeqEqPath", "C03RefSeqEqSetup", "C03RefSeqEqSetup2", "C03RefSeqEqSetup3", "C03RefSeqEqSetup4", "C03RefSeqEqStep", "C03RefSeqEqTop", "C03RefSeqEqUp", "C03RefSeqEqZip", "C03RefCombineLatest", "C03RefGBase", "C03RefGCtl", "C03RefGSubj", "C03RefGSetup", "C03RefGStatic", "C03RefSetup", "C03RefCtl", "C03RefBase"], "C04": ["C04k", "C04r", "C04Ref", "C04RefResume", "C04RefCor", "C04RefLoop", "C04RefMacro", "C04RefBase"], "C05": ["C05", "C05c", "C05h"], "C06": ["C06", "C06F18", "C06late", "SimInterval", "Sim", "SimLoop", "SimMacro", "SimBase", "SimChain", "SimChainCancel"], "C07": ["C07"],
    "C08": ["C08", "C08D"], "C09": ["C09"], "C10": ["C10", "C10Ref", "C10RefReplay", "C10RefBehavior", "C10RefAsync", "C10RefBase"], "C11": ["C11"], "C12": ["C12", "C12Subject", "C12SubjectA", "C12SubjectB", "C12Replay", "C12ReplayA", "C12ReplayB", "C12Behavior", "C12BehaviorA", "C12BehaviorB", "C12Lists"], "C13": ["C13", "C13Ref", "C13RefAll", "C13RefBase", "C13RefColdAll", "C13RefColdConn", "C13RefColdCore", "C13RefColdCount", "C13RefColdCountCalls", "C13RefColdCountHooks", "C13RefColdCountMain", "C13RefColdLoop", "C13RefColdPublish", "C13RefColdPublishCalls", "C13RefColdPublishMain", "C13RefColdReplay", "C13RefColdReplayCalls", "C13RefColdReplayFam", "C13RefColdReplayFire", "C13RefColdReplayHooks", "C13RefColdReplayHooks2", "C13RefColdReplayMain", "C13RefColdReplayOps", "C13RefColdReplaySub", "C13RefConn", "C13RefCore", "C13RefCount", "C13RefCountCalls", "C13RefCountHooks", "C13RefHot", "C13RefPublish", "C13RefPublishMain", "C13RefReplayCalls", "C13RefReplayCore", "C13RefReplayEmit", "C13RefReplayFam", "C13RefReplayHooks", "C13RefReplayReg", "C13RefReplayRel", "C13RefReplaySub", "C13RefReplayTail", "C13RefReplayUnsub", "C13RefUsers"], "C14": ["C14", "Sim", "SimLoop", "SimMacro", "SimBase", "SimChain"],
    "C15": ["C15"], "C16": ["C16", "SimInterval"], "C17": ["C17", "Sim", "SimLoop", "SimMacro", "SimBase", "C05"], "C18": ["C18"], "C19": ["C19"],
}


def theorem_names(path):
    """fully qualified names of the theorems declared in a file (tracks namespace / end)"""
    src = strip_comments(open(path).read())
    ns = []
    out = []
    for line in src.split("\n"):
        m = re.match(r"\s*namespace\s+(\S+)", line)
        if m:
            ns.append(m.group(1)); continue
        m = re.match(r"\s*end\s+(\S+)\s*$", line)
        if m and ns and ns[-1] == m.group(1):
            ns.pop(); continue
        m = re.match(r"\s*(?:private\s+|protected\s+)?theorem\s+([^\s:({\[]+)", line)
        if m and not re.match(r"\s*private", line):
            name = m.group(1)
            out.append(name if name.startswith("_root_.") else ".".join(ns + [name]))
    return out


def check(prop, tier):
    r = ProofResult()
    mods = [m for m in MODULES.get(prop, [prop]) if os.path.exists(os.path.join(run.LEAN, "RxVerif", "Theorems", m + ".lean"))]
    r.checker_cmd = "cd lean && lake build %s && lake env lean <generated #print axioms audit>" % " ".join("RxVerif.Theorems." + m for m in mods)
    if not mods:
        r.ok = False
        r.error = "no theorem module for " + prop
        return r
    r.theorems = []
    for m in mods:
        r.theorems += theorem_names(os.path.join(run.LEAN, "RxVerif", "Theorems", m + ".lean"))
    r.obligations = len(r.theorems)
    # forbidden tokens anywhere in the Lean sources
    for f in glob.glob(os.path.join(run.LEAN, "**", "*.lean"), recursive=True):
        if ".lake" in f:
            continue
        body = strip_comments(open(f).read())
        for pat in FORBIDDEN:
            if re.search(pat, body, flags=re.M):
                r.ok = False
                r.error = "forbidden token %s in %s" % (pat, os.path.relpath(f, run.LEAN))
                return r
    fq = ["RxVerif.Theorems." + m for m in mods]
    try:
        run.build_lean(fq)
    except run.BuildError as e:
        r.ok = False
        r.error = "theorem modules %s no longer build: %s" % (fq, e.log[-1500:])
        return r
    os.makedirs(run.BUILD, exist_ok=True)
    audit = os.path.join(run.BUILD, "audit_%s.lean" % prop)
    open(audit, "w").write("".join("import %s\n" % m for m in fq) + "".join("#print axioms %s\n" % n for n in r.theorems))
    rc, out = run.sh(["lake", "env", "lean", audit], cwd=run.LEAN)
    if rc != 0:
        r.ok = False
        r.error = "axiom audit failed: " + out[-1500:]
        return r
    used = set()
    ok_count = 0
    flat = out.replace("\n", " ")
    for n in r.theorems:
        m = re.search(r"'%s' depends on axioms: \[(.*?)\]" % re.escape(n), flat)
        if m:
            ax = {a.strip() for a in m.group(1).split(",") if a.strip()}
            used |= ax
            if ax <= WHITELIST:
                ok_count += 1
            else:
                r.ok = False
                r.error = "theorem %s depends on axioms %s" % (n, sorted(ax - WHITELIST))
        elif re.search(r"'%s' does not depend on any axioms" % re.escape(n), flat):
            ok_count += 1
        else:
            r.ok = False
            r.error = "no axiom report for " + n
    r.axioms = sorted(used)
    r.discharged = ok_count
    if tier == "thorough" and r.ok:
        for m in fq:
            rc, out = run.sh(["lake", "env", "leanchecker", m], cwd=run.LEAN, timeout=3600)
            if rc != 0:
                r.ok = False
                r.error = "leanchecker rejected %s: %s" % (m, out[-1500:])
        r.checker_cmd += " && lake env leanchecker <each module>"
    return r
