"""S-expressions as nested python lists of str (atoms) — shared text form of cases."""

def parse(s):
    toks = s.replace("(", " ( ").replace(")", " ) ").split()
    pos = 0
    def rd():
        nonlocal pos
        t = toks[pos]; pos += 1
        if t == "(":
            out = []
            while toks[pos] != ")":
                out.append(rd())
            pos += 1
            return out
        if t == ")":
            raise ValueError("unbalanced")
        return t
    e = rd()
    if pos != len(toks):
        raise ValueError("trailing tokens")
    return e

def show(e):
    if isinstance(e, list):
        return "(" + " ".join(show(x) for x in e) + ")"
    return str(e)

def atoms(e):
    if isinstance(e, list):
        for x in e:
            yield from atoms(x)
    else:
        yield e

def heads(e):
    """operator / step names occurring in head position"""
    if isinstance(e, list) and e:
        if isinstance(e[0], str):
            yield e[0]
        for x in e:
            yield from heads(x)
