"""Per-property configuration: which case families feed it, which oracle decides it, which part of
an observation line is compared with the model."""
import re
from . import gen

# ---- projections of an observation line ------------------------------------------------------

def split_line(line):
    parts = line.split(" | ")
    return parts[0], parts[1:]

def step_fields(step):
    step = step.split(" #tok")[0]
    if " ; " not in step:
        return [], {}, step
    recs, rest = step.split(" ; ", 1)
    f = {}
    for t in rest.split():
        if "=" in t:
            k, v = t.split("=", 1)
            f[k] = v
    return recs.split(), f, step

def project(line, what):
    """what ⊆ {'ev','probe','tap','S','L','O'}; status is always kept; a non-ok step keeps only its status"""
    cid, steps = split_line(line)
    out = []
    for st in steps:
        recs, f, raw = step_fields(st)
        if not f:
            out.append(raw)
            continue
        if f.get("st") != "ok":
            out.append("st=" + f.get("st", "?"))
            break
        keep = []
        for r in recs:
            if r[0] == "s" and "ev" in what: keep.append(r)
            elif r[0] == "p" and "probe" in what: keep.append(r)
            elif r[0] == "t" and "tap" in what: keep.append(r)
            elif "x" in what and re.match(r"x2\d\d:", r): keep.append(r)     # handle bookkeeping of the `subhandles` step
        item = " ".join(keep)
        for k in ("S", "L", "O"):
            if k in what:
                item += " %s=%s" % (k, f.get(k, ""))
        out.append(item + " st=ok")
    return cid + " | " + " | ".join(out)

EV = ("ev",)
ALL = ("ev", "probe", "tap", "S", "L", "O")

# ---- families per property ---------------------------------------------------------------------

def cases_for(prop, tier, seed):
    g = gen.G(seed * 1000003 + int(prop[1:]))
    T = tier == "thorough"
    k = 40 if T else 8
    if prop == "C01":
        return (gen.fam_malformed(g, "C01-mal", 150 * k) + gen.fam_rawhot(g, "C01-raw", 10) +
                gen.fam_single_ops(g, "C01-rude", scripts=[g.malformed() for _ in range(6 * (3 if T else 1))], source="rude") +
                gen.fam_hot(g, "C01-hot", 150 * k, malformed=True, kinds=("plain", "behavior", "replay", "async")) +
                gen.fam_chains(g, "C01-chain", 150 * k, malformed=True) +
                # terminals arriving re-entrantly (a callback completes / errors the hot source it is called from)
                [c for c in gen.fam_reentrant(g, "C01-re", 0) if "hcomplete" in c.split("(react")[1].split("))")[0] or "herror" in c.split("(react")[1].split("))")[0]])
    if prop == "C02":
        return (gen.fam_single_ops(g, "C02-single") + gen.fam_creation(g, "C02-create") +
                gen.fam_pairs(g, "C02-pair", 4 if T else 1) + gen.fam_chains(g, "C02-chain", 300 * k, depth=(2, 4)) +
                gen.fam_reentrant_values(g, "C02-re", 6 if T else 2) + gen.fam_big_params(g, "C02-big", ("ops",)))
    if prop == "C03":
        combs = ("merge", "concat", "zip", "amb", "take_until", "skip_until", "sample", "switch_on_next", "combine_latest", "sequence_equal", "flat_map")
        return (gen.fam_combinators(g, "C03-comb", 60 * k) + gen.fam_hot(g, "C03-hot", 200 * k, depth=(1, 3)) +
                gen.fam_ready_set_go(g, "C03-rsg", 0) +
                # callbacks that push into / complete one of the combined hot sources
                [c for c in gen.fam_reentrant(g, "C03-re", 0) if any("(sub (%s " % op in c for op in combs)])
    if prop == "C04":
        return gen.fam_errors(g, "C04-err", 150 * k) + gen.fam_big_params(g, "C04-big", ("retry",)) + gen.fam_ending_closures(g, "C04-ec")
    if prop == "C05":
        return (gen.fam_unsub_positions(g, "C05-unsub", 40 * k) + gen.fam_hot(g, "C05-hot", 100 * k) +
                # unsubscribe after a terminal / twice must have no effect on OTHER subscribers of the same subject either
                # (publish re-connected after its source completed, subscribers that come and go around the terminal)
                gen.fam_connectables(g, "C05-conn", 30 * k) + gen.fam_subjects(g, "C05-subj", 15 * k) + gen.fam_late_unsub(g, "C05-late") +
                # several handles (clones, Using guards) of ONE Subscription: the teardown runs at most once
                [gen.case("C05-handles-%d" % n, [["subhandles", str(n)]]) for n in range(6)])
    if prop == "C06":
        return (gen.fam_teardown(g, "C06-td", 100 * k) + gen.fam_ending_closures(g, "C06-ec") +
                [gen.case("C06-fg-%s-%d" % (kind, t), [["subject", "a", "plain"], ["conn", "x", kind, mk(["ref", "a"])], ["sub", ["ref", "x"], gen.NOREACT],
                                                       ["hnext", "a", "1"], ["forget", "x"], ["hnext", "a", "2"], ["unsub", "0"], ["hnext", "a", "3"]])
                 for kind in ("ref_count", "replay") for t, mk in enumerate((lambda q: q, lambda q: ["map", "inc", q]))] + [c for c in gen.fam_combinators(g, "C06-comb", 60 * k) if "flat_map" in c or "(unsub" in c] +
                # the shared source of a connectable is a source subscribed on the subscribers' behalf: it must stop when the last one left
                [c for c in gen.fam_connectables(g, "C06-conn", 40 * k) + gen.fam_conn_reentrant(g, "C06-cre", 0) if "ref_count" in c or "replay" in c])
    if prop == "C07":
        return (gen.fam_reentrant(g, "C07-re", 10) + gen.fam_reentrant_closures(g, "C07-cl") + gen.fam_ending_closures(g, "C07-ec") + gen.fam_teardown(g, "C07-td", 30 * k) +
                gen.fam_connectables(g, "C07-conn", 30 * k) + gen.fam_conn_reentrant(g, "C07-cre", 0) + gen.fam_subjects(g, "C07-subj", 20 * k) +
                gen.fam_chains(g, "C07-chain", 100 * k) + gen.fam_hot(g, "C07-hot", 100 * k))
    if prop == "C10":
        return (gen.fam_subjects(g, "C10-subj", 100 * k, exhaustive_len=(4 if T else 3)) +
                [c for c in gen.fam_reentrant(g, "C10-re", 0) if "(sub (ref a) (react" in c] +
                # a LATE subscriber that pushes into the subject while it is still being handed the history
                [gen.case("C10-lp-%s-%d-%d" % (kind, idx, j), [["subject", "a", kind] + (["0"] if kind == "behavior" else []), ["sub", ["ref", "a"], gen.NOREACT]] + pre +
                          [["sub", ["ref", "a"], ["react", [str(idx), ["hnext", "a", "9"]]]], ["hnext", "a", "5"], ["sub", ["ref", "a"], gen.NOREACT], ["hcomplete", "a"],
                           ["sub", ["ref", "a"], gen.NOREACT], ["hnext", "a", "7"], ["sub", ["ref", "a"], gen.NOREACT]])
                 for kind in ("replay", "behavior", "plain", "async") for idx in (0, 1, 2)
                 for j, pre in enumerate(([], [["hnext", "a", "1"]], [["hnext", "a", "1"], ["hnext", "a", "2"], ["hnext", "a", "3"]]))])
    if prop == "C13":
        return (gen.fam_connectables(g, "C13-conn", 150 * k) + gen.fam_conn_reentrant(g, "C13-re", 0) + gen.fam_late_unsub(g, "C13-late") +
                # a LATE subscriber of replay() / ref_count() / publish() that makes the hot source emit while it is still being
                # handed the history: every subscriber still gets every item once
                # the caller drops the connectable (and every Observable made from it) and keeps only the Subscriptions: the last
                # subscriber leaving still stops the source
                [gen.case("C13-fg-%s-%d-%d" % (kind, nsub, t), [["subject", "a", "plain"], ["conn", "x", kind, mk(["ref", "a"])]] +
                          [["sub", ["ref", "x"], gen.NOREACT] for _ in range(nsub)] + [["hnext", "a", "1"], ["forget", "x"], ["hnext", "a", "2"]] +
                          [["unsub", str(u)] for u in range(nsub)] + tail)
                 for kind in ("ref_count", "replay") for nsub in (1, 2) for mk in (lambda q: q, lambda q: ["map", "inc", q])
                 for t, tail in enumerate(([["hnext", "a", "3"]], [["hcomplete", "a"]]))] +
                [gen.case("C13-lp-%s-%d-%d" % (kind, idx, j), [["subject", "a", "plain"], ["conn", "x", kind, ["ref", "a"]], ["sub", ["ref", "x"], gen.NOREACT]] +
                          ([["connect", "x"]] if kind == "publish" else []) + pre +
                          [["sub", ["ref", "x"], ["react", [str(idx), ["hnext", "a", "9"]]]], ["hnext", "a", "5"], ["sub", ["ref", "x"], gen.NOREACT], ["hcomplete", "a"]])
                 for kind in ("replay", "ref_count", "publish") for idx in (0, 1, 2)
                 for j, pre in enumerate(([], [["hnext", "a", "1"]], [["hnext", "a", "1"], ["hnext", "a", "2"], ["hnext", "a", "3"]]))])
    if prop == "C14":
        return gen.fam_resubscribe(g, "C14-resub", 100 * k)
    if prop == "C17":
        return gen.fam_release(g, "C17-rel", 100 * k) + gen.fam_ending_closures(g, "C17-ec", drop=True)
    raise KeyError(prop)

SEQ = {
    # prop: (oracle key, projection compared with the model, reference?)
    # reference = the model is a deterministic reference proved equal to the property's spec:
    #             a differing subscriber log IS a failing input
    "C01": dict(oracle="C01", proj=("ev", "tap"), reference=False),
    "C02": dict(oracle=None, proj=EV, reference=True),
    "C03": dict(oracle=None, proj=EV, reference=True),
    "C04": dict(oracle=None, proj=("ev", "probe"), reference=True),
    "C05": dict(oracle="C05", proj=("ev", "S", "x"), reference=True),
    "C06": dict(oracle="C06", proj=("ev", "probe", "tap", "L", "O"), reference=False),
    "C07": dict(oracle="C07", proj=(), reference=False),
    "C10": dict(oracle="C10", proj=("ev", "O"), reference=True),
    "C13": dict(oracle=None, proj=("ev", "probe", "O"), reference=True),
    "C14": dict(oracle="C14", proj=("ev", "tap"), reference=True),
    "C17": dict(oracle="C17", proj=EV, reference=False),
}

def oracle_applies(prop, case_text):
    """restrictions under which a direct oracle is meaningful for a case"""
    if prop == "C06":
        # one root subscriber, no observable-valued items
        return case_text.count("(sub ") == 1 and "window_with_count" not in case_text and "group_by" not in case_text
    if prop == "C14":
        return ("-hot-" not in case_text.split()[1] and "(subject" not in case_text and "flaky" not in case_text
                and "window_with_count" not in case_text and "group_by" not in case_text)   # child subscribers differ from the root by design
    if prop == "C17":
        return "(drop)" in case_text
    if prop == "C10":
        return case_text.count("(subject ") == 1 and "(conn " not in case_text
    return True

def nontrivial(prop, case_text, impl_line):
    """a case counts as non-trivial if some subscriber received an event or some probe fired"""
    return bool(re.search(r"\b[sp]\d+[:?+]", impl_line))
