"""Greedy delta debugging of a failing case (an S-expression)."""
from . import sexp

PIPE_LEAVES = {"just", "from_iter", "range", "empty", "never", "error", "repeat", "start", "from_result_ok", "from_result_err", "cold", "rude", "flaky", "ref"}
STEP_HEADS = {"subject", "counter", "def", "conn", "sub", "unsub", "connect", "disconnect", "drop", "hnext", "hcomplete", "herror",
              "rawhot", "rnext", "rerror", "rcomplete"}

def is_pipe(e):
    return isinstance(e, list) and e and isinstance(e[0], str) and e[0] not in ("react", "l", "p", "n", "e", "add", "mod", "const", "lt", "gt", "eq", "ne",
                                                                                "fm_err", "fm_ref", "rs_just", "rs_err", "rs_ref", "rs_iter") and e[0] not in STEP_HEADS

def sub_pipes(e):
    """direct children of a pipe node that are pipes themselves"""
    if e[0] == "defer":
        return [e[1]]
    if e[0] in PIPE_LEAVES:
        return []
    return [x for x in e[1:] if is_pipe(x)]

def candidates(case):
    """yield smaller variants of `case` = ['case', id, step...]"""
    steps = case[2:]
    # 1. remove one step
    for i in range(len(steps)):
        yield case[:2] + steps[:i] + steps[i + 1:]
    # 2. inside each step: rewrite pipes
    for i, st in enumerate(steps):
        for new in rewrite(st):
            yield case[:2] + steps[:i] + [new] + steps[i + 1:]

def rewrite(e):
    """variants of expression e with one local simplification"""
    if not isinstance(e, list):
        return
    if is_pipe(e):
        for c in sub_pipes(e):
            yield c
        if e[0] in ("cold", "rude") and len(e) > 2:
            for j in range(2, len(e)):
                yield e[:j] + e[j + 1:]
        if e[0] == "from_iter" and len(e) > 1:
            for j in range(1, len(e)):
                yield e[:j] + e[j + 1:]
        if e[0] in ("merge", "concat", "zip", "amb", "sequence_equal") and len(e) > 2:
            for j in range(2, len(e)):
                yield e[:j] + e[j + 1:]
    if e and e[0] == "react" and len(e) > 1:
        for j in range(1, len(e)):
            yield e[:j] + e[j + 1:]
    for j, x in enumerate(e):
        if isinstance(x, list):
            for new in rewrite(x):
                yield e[:j] + [new] + e[j + 1:]
        elif j > 0 and isinstance(x, str) and x.isdigit() and int(x) > 1 and e[0] in ("take", "skip", "take_last", "skip_last", "element_at", "retry", "buffer_with_count"):
            yield e[:j] + [str(int(x) - 1)] + e[j + 1:]

def shrink(case_text, still_fails, max_rounds=200):
    """still_fails(list_of_case_texts) -> list of bool.  Returns the shrunk case text."""
    cur = sexp.parse(case_text)
    for _ in range(max_rounds):
        cands = []
        seen = set()
        for c in candidates(cur):
            t = sexp.show(c)
            if t not in seen and len(t) < len(sexp.show(cur)) + 1:
                seen.add(t); cands.append(c)
        if not cands:
            break
        cands.sort(key=lambda c: len(sexp.show(c)))
        res = still_fails([sexp.show(c) for c in cands])
        nxt = None
        for c, ok in zip(cands, res):
            if ok:
                nxt = c; break
        if nxt is None:
            break
        cur = nxt
    return sexp.show(cur)

def op_set(case_text):
    e = sexp.parse(case_text)
    out = set()
    def walk(x):
        if isinstance(x, list) and x:
            if isinstance(x[0], str) and (is_pipe(x) or x[0] in ("conn", "subject")):
                if x[0] == "subject": out.add("subject:" + x[2])
                elif x[0] == "conn": out.add("conn:" + x[2])
                elif x[0] not in ("ref",): out.add(x[0])
            for y in x:
                walk(y)
    for st in e[2:]:
        walk(st)
        if isinstance(st, list) and st and st[0] == "sub" and len(st) > 2 and len(st[2]) > 1:
            out.add("react")
    return sorted(out)
