"""Concurrent properties (shuttle-based instrumented copy + Lean LTS co-simulation) — see conc_*.py"""
def run_conc(prop, tier, seed, jobs, write_evidence, write_replay, load_known):
    print("property %s is not wired yet" % prop)
    return 2

def replay(prop, r, path):
    print("no concurrent replay yet")
    return 2
