"""Concurrent properties: scenarios run on the shuttle-instrumented copy of /repo under seeded schedules
(harness/conc); every distinct execution is (a) co-simulated by the property's Lean LTS where one
exists and (b) judged by the property's oracle on the recorded events."""
import os, re, subprocess, time, json, random, concurrent.futures as cf
from . import run, proof

RXH_CONC = os.path.join(run.BUILD, "target-conc", "debug", "rxh-conc")


def build():
    run.build_lean(["rxmodel"])
    run.build_harness("conc")


def run_scenarios(lines, seed, iters, strategy="mixed", jobs=16, timeout=None):
    """returns list of output lines (all scenarios)"""
    if not lines:
        return []
    if timeout is None:
        # shuttle sees a deadlock on the instrumented primitives at once; a block on anything else (std::sync::Once, a
        # channel) would stall the OS thread: bounded, and reported as `out=timeout`
        timeout = 3000 if iters > 1500 else 400
    jobs = max(1, min(jobs, len(lines)))
    chunks = [lines[i::jobs] for i in range(jobs)]
    def work(chunk):
        try:
            p = subprocess.run([RXH_CONC, str(seed), str(iters), strategy], input="\n".join(chunk) + "\n", stdout=subprocess.PIPE,
                               stderr=subprocess.DEVNULL, text=True, timeout=timeout)
            return p.stdout.split("\n")
        except subprocess.TimeoutExpired:
            return ["%s | seed=0 n=0 strat=%s | out=timeout  | " % (c.split()[1], strategy) for c in chunk]
    with cf.ThreadPoolExecutor(max_workers=jobs) as ex:
        res = list(ex.map(work, chunks))
    out = [l for r in res for l in r if l.strip()]
    bad = [l for l in out if "PARSE-ERROR" in l]
    if bad:
        # a scenario the harness cannot read would silently explore nothing: that is a mistake in the generator
        raise RuntimeError("the concurrent harness could not parse a generated scenario: " + bad[0][:400])
    return out


def cosim(model, lines, jobs=8):
    execs = [l for l in lines if l.count(" | ") >= 3]
    if not execs:
        return {}
    out = run.run_lines(run.RXMODEL, ["cosim", model], execs, jobs)
    res = {}
    for l, o in zip(execs, out):
        res[l] = o
    return res


def parse_exec(line):
    parts = line.split(" | ")
    sid = parts[0]
    meta = dict(kv.split("=", 1) for kv in parts[1].split() if "=" in kv)
    status = parts[2].split()[0].split("=", 1)[1] if parts[2].startswith("out=") else "?"
    detail = parts[2][len("out=" + status):].strip()
    payload = " | ".join(parts[3:])
    return sid, meta, status, detail, payload


# ---- scenarios ----------------------------------------------------------------------------------

def scen_obs(rng, n):
    out = []
    base = [
        [["(next 1)", "complete"], ["(error 5)"], ["unsubscribe", "isSubscribed"]],
        [["(error 5)"], ["complete"]],
        [["(error 5)"], ["complete"], ["(next 1)", "(next 2)"]],
        [["(next 1)", "(next 2)", "complete"], ["unsubscribe"]],
        [["complete", "(next 3)"], ["(error 6)", "(next 4)"], ["isSubscribed", "isSubscribed"]],
        [["unsubscribe"], ["unsubscribe"], ["(next 1)"]],
        [["(next 1)"], ["(next 2)"], ["complete", "isSubscribed"]],
    ]
    ops = ["(next 1)", "(next 2)", "(error 5)", "complete", "unsubscribe", "isSubscribed"]
    for i in range(n):
        nt = rng.choice([2, 2, 3, 3, 4])
        base.append([[rng.choice(ops) for _ in range(rng.randint(1, 3))] for _ in range(nt)])
    for i, ths in enumerate(base):
        out.append("(conc C19-obs-%d (obs %s))" % (i, " ".join("(thread %s)" % " ".join(t) for t in ths)))
    return out


def scen_tovec(rng, n):
    scripts = ["c", "e3", "1 c", "1 2 c", "1 2 3 c", "7 e3", "1 2 e4", "1", "", "1 2"]
    for _ in range(n):
        items = [str(rng.randint(0, 3)) for _ in range(rng.randint(0, 4))]
        end = rng.choice(["c", "c", "e5", ""])
        scripts.append(" ".join(items + ([end] if end else [])))
    return ["(conc C18-tovec-%d (tovec %s))" % (i, s) for i, s in enumerate(dict.fromkeys(scripts))]


# ---- oracles on recorded executions ----------------------------------------------------------------

def oracle_obs(payload):
    """C19 + concurrent C05 on a label trace of the Observer scenario"""
    labels = payload.split(" ; ", 1)[1].split(";") if " ; " in payload else []
    term_starts = 0
    term_returned_at = None
    unsub_returned_at = None
    call_start = {}     # tid -> index of its current call start, op
    for i, l in enumerate(labels):
        t = l.split()
        if len(t) < 2:
            continue
        tid, kind = t[0], t[1]
        if kind == "callStart":
            call_start[tid] = (i, t[2])
        elif kind == "cbStart":
            cs = call_start.get(tid, (0, "?"))[0]
            if t[2] in ("error", "complete"):
                term_starts += 1
                if term_starts > 1:
                    return "two terminal callbacks started"
                if unsub_returned_at is not None and cs > unsub_returned_at:
                    return "terminal callback for a call that started after unsubscribe returned"
            if t[2] == "next":
                if term_returned_at is not None and cs > term_returned_at:
                    return "next callback for a call that started after the terminal callback returned"
                if unsub_returned_at is not None and cs > unsub_returned_at:
                    return "next callback for a call that started after unsubscribe returned"
        elif kind == "cbReturn" and t[2] in ("error", "complete"):
            term_returned_at = i
        elif kind == "callReturn":
            op = call_start.get(tid, (0, "?"))[1]
            if op == "unsubscribe" and unsub_returned_at is None:
                unsub_returned_at = i
    return None


def oracle_tovec(payload):
    m = re.match(r"script=(.*?) ; (result .*?|none) ; ", payload + " ")
    if not m:
        return "malformed record"
    script, res = m.group(1).split(), m.group(2)
    items = [x for x in script if re.fullmatch(r"-?\d+", x)]
    term = script[-1] if script and not re.fullmatch(r"-?\d+", script[-1]) else None
    if term == "c":
        want = "Ok[%s]" % ",".join(items)
    elif term and term.startswith("e"):
        want = "Err(%s)" % term[1:]
    else:
        want = None
    if want is None:
        if res.startswith("result") and "GAVE-UP" not in res:
            return "future became ready although the source never terminated: " + res
        return None
    if not res.startswith("result " + want + " "):
        return "future yielded %s, expected %s" % (res, want)
    ma = re.search(r"again=(\S+)", res)
    if ma and ma.group(1) != want:
        return "a clone of the ready future yielded %s, expected %s again" % (ma.group(1), want)
    return None



# ---- pipeline scenarios (harness/conc/src/pipe.rs): records `tid:rec@time` -------------------------

def parse_pipe(payload):
    """-> dict(threads=(exits, spawns), recs=[(tid, rec, time)], final=str)"""
    m = re.match(r"threads=(\d+)/(\d+) exits=([\d,]*) ; (.*)$", payload)
    if not m:
        return None
    body = m.group(4)
    lib_exits = [int(x) for x in m.group(3).split(",") if x]
    final = ""
    ended_by_harness = None
    if "0:ENDALL@" in body:
        mm = re.search(r"0:ENDALL@(\d+)", body)
        ended_by_harness = int(mm.group(1)) if mm else None
        # what happens after the harness ended all remaining subscriptions is not part of the scenario proper
        j = body.index("0:ENDALL@")
        k = body.index("0:FINAL") if "0:FINAL" in body else len(body)
        body = body[:j] + body[k:]
    if " 0:FINAL" in body or body.startswith("0:FINAL"):
        i = body.index("0:FINAL")
        final = body[i + len("0:FINAL"):].strip()
        body = body[:i]
    recs = []
    for tok in body.split():
        mm = re.match(r"(\d+):(.*)@(\d+)$", tok)
        if mm:
            recs.append((int(mm.group(1)), mm.group(2), int(mm.group(3))))
    return dict(threads=(int(m.group(1)), int(m.group(2))), recs=recs, final=final, lib_exits=lib_exits, ended_by_harness=ended_by_harness)


def user_events(recs, s=0):
    return [(tid, r[len("s%d:" % s):], t) for tid, r, t in recs if r.startswith("s%d:" % s)]


def check_contract(evs):
    kinds = [e[1][0] for e in evs]
    for i, k in enumerate(kinds):
        if k in "ec" and i != len(kinds) - 1:
            return "event after the terminal: " + " ".join(e[1] for e in evs)
    return None


def check_no_overlap(recs, s=0):
    inside = None
    for tid, r, t in recs:
        if r.startswith("s%d:" % s):
            if inside is not None and inside != tid:
                return "two callbacks of subscriber %d at once (threads %d and %d)" % (s, inside, tid)
            inside = tid
        elif r == "r%d" % s:
            inside = None
    return None


def expected_events(pipe_text, jobs=1):
    """what a sequential, single-threaded run of the same pipeline delivers (Lean model A)"""
    line = "(case x (sub %s (react)))" % pipe_text
    out = run.run_model([line], 1)[0]
    return re.findall(r"\bs0:(\S+)", out)


def strip_threading(p):
    """the same pipeline with observe_on / subscribe_on removed and tsrc turned into a cold script"""
    p = re.sub(r"\((observe_on|subscribe_on) ", "(defer ", p)
    def ts(m):
        evs = re.findall(r"\(\d+ (\(n [^)]*\)|\(e \d+\)|c)\)", m.group(0))
        return "(cold %s %s)" % (m.group(1), " ".join(evs))
    p = re.sub(r"\(tsrc (\d+)((?: \(\d+ (?:\(n [^)]*\)|\(e \d+\)|c)\))*)\)", ts, p)
    return p


def scen_handoff(rng, n):
    out = []
    srcs = ["(from_iter 1 2 3)", "(from_iter)", "(just 7)", "(error 5)", "(cold 0 (n 1) (n 2) (e 6))", "(range 0 4)",
            "(tsrc 0 (0 (n 1)) (0 (n 2)) (0 c))", "(tsrc 0 (0 (n 1)) (0 (e 5)))", "(tsrc 0 (0 (n 1)) (0 (n 2)) (0 (n 3)))"]
    wraps = ["(observe_on %s)", "(subscribe_on %s)", "(observe_on (observe_on %s))", "(map inc (observe_on (filter (gt 0) %s)))",
             "(observe_on (map dbl %s))", "(take 2 (observe_on %s))", "(observe_on (take 2 %s))", "(subscribe_on (observe_on %s))",
             "(observe_on (subscribe_on %s))", "(skip 1 (observe_on %s))", "(observe_on (scan add %s))", "(last (observe_on %s))"]
    i = 0
    for w in wraps:
        for sc in srcs:
            out.append(("(conc C09-%d (pipe (sub %s (react))))" % (i, w % sc), w % sc)); i += 1
    # with a concurrent unsubscriber
    for w in wraps[:4]:
        for sc in ("(tsrc 0 (0 (n 1)) (0 (n 2)) (0 (n 3)) (0 c))", "(from_iter 1 2 3 4)"):
            out.append(("(conc C09-%d (pipe (sub %s (react)) (unsub-after 0 0)))" % (i, w % sc), None)); i += 1
    return out


def oracle_handoff(payload, pipe_text):
    d = parse_pipe(payload)
    if d is None:
        return "malformed record"
    evs = user_events(d["recs"])
    m = check_contract(evs) or check_no_overlap(d["recs"])
    if m:
        return m
    tids = {e[0] for e in evs}
    if len(tids) > 1:
        return "callbacks delivered on more than one thread: %s" % sorted(tids)
    src_tids = {tid for tid, r, t in d["recs"] if re.match(r"x\d+[!.]", r)}
    outer_observe = pipe_text is not None and re.match(r"\((map inc |take 2 |skip 1 |last )?\(observe_on", pipe_text)
    if evs and 0 in tids:
        return "callback delivered on the subscribing thread"
    if evs and outer_observe and (tids & src_tids):
        return "callback delivered on the emitting thread"
    if pipe_text is not None and pipe_text.startswith("(subscribe_on"):
        subs = [tid for tid, r, t in d["recs"] if re.match(r"[xp]\d+\+", r)]
        if 0 in subs:
            return "subscribe_on subscribed the source on the caller's thread"
    if d["threads"][0] != d["threads"][1]:
        return "a worker thread did not exit (%d of %d)" % d["threads"]
    got = [e[1] for e in evs]
    if pipe_text is not None:
        want = expected_events(strip_threading(pipe_text))
        if got != want:
            return "delivered %s, the source emitted %s" % (" ".join(got), " ".join(want))
    else:
        # unsubscribed concurrently: a prefix of the emitted sequence; nothing for a call started after unsubscribe returned
        urets = [i for i, (tid, r, t) in enumerate(d["recs"]) if r == "u0."]
        if urets:
            u = urets[0]
            started_after = sum(1 for i, (tid, r, t) in enumerate(d["recs"]) if i > u and re.match(r"x\d+!", r))
            total_calls = sum(1 for (tid, r, t) in d["recs"] if re.match(r"x\d+!", r))
            if started_after and len(evs) > total_calls - started_after:
                return "an event the source started to emit after unsubscribe returned was delivered"
    return None


def scen_handoff_resub(rng, n):
    """the SAME observe_on / subscribe_on observable value subscribed three times (C09 + C14 for the scheduler-based
    operators): every subscription gets its own scheduler and loses nothing, whether or not an earlier one has ended"""
    out = []
    srcs = ["(from_iter 1 2 3)", "(cold 0 (n 1) (n 2) (e 6))", "(just 7)"]
    wraps = ["(observe_on %s)", "(subscribe_on %s)", "(observe_on (subscribe_on %s))", "(take 2 (subscribe_on %s))", "(map inc (observe_on %s))"]
    i = 0
    for w in wraps:
        for sc in srcs:
            for gap in ("(settle 5)", ""):
                out.append(("(conc C09-re-%d (pipe (def x %s) (sub (ref x) (react)) %s (sub (ref x) (react)) %s (sub (ref x) (react))))" % (i, w % sc, gap, gap), w % sc)); i += 1
    return out


def oracle_handoff_resub(payload, pipe_text):
    d = parse_pipe(payload)
    if d is None:
        return "malformed record"
    want = expected_events(strip_threading(pipe_text))
    for u in range(3):
        evs = user_events(d["recs"], u)
        m = check_contract(evs)
        if m:
            return m
        got = [e[1] for e in evs]
        if got != want:
            return "subscription %d of the same observable delivered %s, the source emitted %s" % (u, " ".join(got) or "nothing", " ".join(want))
    if d["threads"][0] != d["threads"][1]:
        return "a worker thread did not exit (%d of %d)" % d["threads"]
    return None


def scen_handoff_cosim(rng, n):
    """co-simulation of Conc.Handoff (observe_on) / Conc.Handoff.SubOn (subscribe_on): script x mode x unsubscriber"""
    scripts = ["1 c", "1 2 c", "1 e3", "e4", "c", "1 2 3 e4", "1 2", "", "1 c 2 e5", "e3 1 c"]
    for _ in range(max(0, n - 8)):
        items = [str(rng.randint(0, 3)) for _ in range(rng.randint(0, 3))]
        scripts.append(" ".join(items + rng.choice([["c"], ["e5"], [], ["c", "7"]])))
    out = []
    for sc in dict.fromkeys(scripts):
        terminated = any(tok == "c" or tok.startswith("e") for tok in sc.split())
        for mode in ("observe", "subscribe"):
            # a script without terminal parks the worker for good: such a subscription is always ended by an unsubscriber
            modes = ["race"] + (["none"] if terminated else ["late"])
            if mode == "subscribe" and not terminated:
                modes = ["race"]          # (the source is synchronous: `late` = `race`)
            for u in modes:
                out.append("(conc C09-cosim-%d (handoff %s (script %s) (unsub %s)))" % (len(out), mode, sc, u))
    return out


def oracle_handoff_cosim(payload):
    """what the subscriber saw (recorded by the callbacks themselves, not taken from the lock log)"""
    parts = payload.split(" ; ")
    if len(parts) != 3:
        return "malformed record"
    hdr, obs = parts[0], parts[1]
    script = hdr.split("script=", 1)[1].split()
    unsub = re.search(r"unsub=(\w+)", hdr).group(1)
    want = []
    for tok in script:
        want.append(tok if tok == "c" or tok.startswith("e") else "n" + tok)
        if tok == "c" or tok.startswith("e"):
            break
    got = [x for x in re.search(r"got=(\S*)", obs).group(1).split(",") if x]
    tids = {x.split(":")[0] for x in got}
    evs = [x.split(":", 1)[1] for x in got]
    if tids - {"1"}:
        return "callback delivered on a thread that is not the scheduler's worker: %s" % sorted(tids)
    if unsub == "none" and evs != want:
        return "delivered %s, the source emitted %s" % (" ".join(evs), " ".join(want))
    if evs != want[:len(evs)]:
        return "delivered %s, not a prefix of what the source emitted: %s" % (" ".join(evs), " ".join(want))
    if "wexit=T" not in obs:
        return "the scheduler's worker thread did not exit"
    return None


def scen_merge(rng, n):
    out = []
    i = 0
    def ts(k, items, end="c"):
        evs = " ".join("(0 (n %d))" % v for v in items) + (" (0 c)" if end == "c" else "")
        return "(tsrc %d %s)" % (k, evs)
    shapes = [
        ("merge", [[1, 2], [11, 12]]), ("merge", [[1, 2, 3], [11], [21, 22]]), ("merge", [[1], [11], [21]]),
        ("concat", [[1, 2], [11, 12]]), ("zip", [[1, 2], [11, 12]]), ("zip", [[1, 2, 3], [11, 12]]), ("amb", [[1, 2], [11, 12]]),
        ("amb", [[1], [11], [21]]),
        # three and four inputs on their own threads: the SECOND and later hand-overs of concat; zip / merge with four
        ("concat", [[1, 2], [11, 12], [21]]), ("concat", [[1], [11], [21], [31]]), ("zip", [[1, 2], [11, 12], [21, 22]]), ("merge", [[1], [11], [21], [31]]),
    ]
    for op, lists in shapes:
        p = "(%s %s)" % (op, " ".join(ts(k, l) for k, l in enumerate(lists)))
        out.append(("(conc C11-%d (pipe (sub %s (react))))" % (i, p), (op, lists, None))); i += 1
        for tk in (1, 2, 3):
            out.append(("(conc C11-%d (pipe (sub (take %d %s) (react))))" % (i, tk, p), (op, lists, tk))); i += 1
    # flat_map over hot inner sources driven by threads
    out.append(("(conc C11-%d (pipe (subject a plain) (subject b plain) (subject s plain) (sub (flat_map (fm_ref a b) (ref s)) (react)) "
                "(hnext s 0) (hnext s 1) (drive a (0 (n 1)) (0 (n 2)) (0 c)) (drive b (0 (n 11)) (0 (n 12)) (0 c)) (drive s (0 c))))" % i,
                ("merge", [[1, 2], [11, 12]], None))); i += 1
    # an order-insensitive aggregate DOWNSTREAM of a merge whose inputs emit from three threads: what the merge conserves
    # must also survive the next operator (its fold runs on whichever thread delivers)
    for agg in ("(sum %s)", "(count %s)", "(max %s)", "(min %s)", "(sum_and_count %s)", "(reduce add %s)", "(reduce max %s)", "(count (buffer_with_count 1 %s))"):
        # (not `last(scan ..)`: scan emits outside its accumulator lock, so the LAST emission need not be the last fold)
        for lists in ([[1, 2], [11, 12], [21]], [[1, 2, 3], [10, 20, 30]]):
            p = agg % ("(merge %s)" % " ".join(ts(k, l) for k, l in enumerate(lists)))
            out.append(("(conc C11-%d (pipe (sub %s (react))))" % (i, p), ("agg", p, None))); i += 1
    # the OUTER items of flat_map arrive from two threads at the same instant (two inner observers are attached
    # concurrently), the hot inners emit afterwards from their own threads
    out.append(("(conc C11-%d (pipe (subject a plain) (subject b plain) (subject s plain) (sub (flat_map (fm_ref a b) (ref s)) (react)) "
                "(drive s (0 (n 0))) (drive s (0 (n 1))) (drive a (2 (n 1)) (1 (n 2)) (1 c)) (drive b (3 (n 11)) (2 (n 12)) (2 c)) (drive s (9 c))))" % i,
                ("merge", [[1, 2], [11, 12]], None))); i += 1
    out.append(("(conc C11-%d (pipe (subject a plain) (subject b plain) (sub (flat_map (fm_ref a b) (merge (tsrc 0 (0 (n 0)) (0 c)) (tsrc 1 (0 (n 1)) (0 c)))) (react)) "
                "(drive a (2 (n 1)) (1 (n 2)) (1 c)) (drive b (3 (n 11)) (2 (n 12)) (2 c))))" % i,
                ("merge", [[1, 2], [11, 12]], None))); i += 1
    return out


def oracle_merge(payload, info):
    op, lists, tk = info
    d = parse_pipe(payload)
    if d is None:
        return "malformed record"
    evs = user_events(d["recs"])
    m = check_contract(evs)
    if m:
        return m
    items = [e[1][1:] for e in evs if e[1][0] == "n"]
    terms = [e[1] for e in evs if e[1][0] != "n"]
    if len(terms) > 1:
        return "more than one terminal"
    if op == "agg":
        want = expected_events(strip_threading(lists))
        got = [e[1] for e in evs]
        if got != want:
            return "an order-insensitive aggregate over a merge fed from several threads delivered %s, every sequential order gives %s" % (" ".join(got), " ".join(want))
        return None
    if tk is not None:
        if len(items) > tk:
            return "take(%d) delivered %d items" % (tk, len(items))
        return None
    if op in ("merge", "concat"):
        flat = sorted(str(v) for l in lists for v in l)
        if sorted(items) != flat:
            return "%s delivered %s, inputs emitted %s" % (op, items, flat)
        for l in lists:
            sub = [x for x in items if x in [str(v) for v in l]]
            if sub != [str(v) for v in l]:
                return "items of one input were reordered: %s" % sub
        if op == "concat":
            want = [str(v) for l in lists for v in l]
            if items != want:
                return "concat interleaved its inputs: %s" % items
        if terms != ["c"]:
            return "%s did not complete exactly once after the last item: %s" % (op, terms)
    elif op == "zip":
        n = min(len(l) for l in lists)
        want = sorted("[%s]" % ",".join(str(l[i]) for l in lists) for i in range(n))
        if sorted(items) != want:
            return "zip delivered %s, expected the tuples %s" % (items, want)
    elif op == "amb":
        owners = set()
        for x in items:
            for k, l in enumerate(lists):
                if x in [str(v) for v in l]:
                    owners.add(k)
        if len(owners) > 1:
            return "amb let more than one input through: %s" % items
        if owners:
            k = owners.pop()
            if items != [str(v) for v in lists[k]] or terms != ["c"]:
                return "amb did not mirror its winner: %s %s" % (items, terms)
    if d["threads"][0] != d["threads"][1]:
        return "a thread did not finish (%d of %d)" % d["threads"]
    return None


def scen_threads(rng, n):
    """thread-creating operators x terminating causes (C15)"""
    out = []
    i = 0
    makers = ["(interval 10)", "(timer 15)", "(observe_on (interval 10))", "(subscribe_on (from_iter 1 2 3 4 5 6))", "(observe_on (from_iter 1 2 3 4 5 6))",
              "(debounce 10 (tsrc 0 (3 (n 1)) (3 (n 2)) (30 (n 3)) (5 c)))", "(timeout 20 (tsrc 0 (5 (n 1)) (5 (n 2)) (5 c)))",
              "(timeout 20 (tsrc 0 (5 (n 1)) (50 (n 2))))", "(delay 5 (tsrc 0 (1 (n 1)) (1 (n 2)) (1 c)))",
              "(observe_on (observe_on (interval 10)))", "(merge (interval 10) (interval 15))", "(timeout 30 (interval 10))",
              # synchronous slow sources: the subscription can end (on the worker) while `subscribe` is still running
              "(observe_on (slow 0 (5 (n 1)) (5 (n 2)) (5 (n 3)) (5 (n 4)) (5 c)))", "(subscribe_on (slow 0 (5 (n 1)) (5 (n 2)) (5 (n 3)) (5 c)))",
              "(observe_on (map inc (slow 0 (5 (n 1)) (5 (n 2)) (5 c) (20 (n 9)))))"]
    enders = ["(take 2 %s)", "(first %s)", "(take_until %s (timer 25))", "(amb %s (timer 12))", "(take_while (lt 2) %s)", "(take 3 (map inc %s))"]
    def period(text):
        ps = [int(x) for x in re.findall(r"\((?:interval|timer|timeout|debounce|delay) (\d+)", text)]
        # a synchronous slow source run by a worker (subscribe_on): the worker is inside the SOURCE's own sleep
        # when the subscription ends and can only leave when that sleep is over
        for m in re.finditer(r"\(slow \d+ ((?:\(\d+ (?:\([ne] \d+\)|c)\) ?)+)", text):
            ps += [int(x) for x in re.findall(r"\((\d+) ", m.group(1))]
        return max(ps) if ps else 0
    for mk in makers:
        for en in enders:
            out.append(("(conc C15-%d (pipe (sub %s (react))))" % (i, en % mk), (period(en % mk), True))); i += 1
        out.append(("(conc C15-%d (pipe (sub %s (react)) (unsub-after 0 37)))" % (i, mk), (period(mk), True))); i += 1
        out.append(("(conc C15-%d (pipe (sub %s (react)) (unsub-after 0 0)))" % (i, mk), (period(mk), True))); i += 1
    # error / completion as the cause, repeated create-and-finish rounds
    out.append(("(conc C15-%d (pipe (sub (observe_on (error 5)) (react)) (sub (observe_on (empty)) (react)) (sub (take 1 (interval 5)) (react)) (settle 50) (sub (take 1 (interval 5)) (react))))" % i, None)); i += 1
    out.append(("(conc C15-%d (pipe (sub (retry 2 (observe_on (cold 0 (n 1) (e 5)))) (react))))" % i, None)); i += 1
    return out


def scen_ties(rng, n):
    """C15: the subscription is ended by ANOTHER thread at the very instant at which the operator's own
    threads act (an item arrives, a timer fires, a tick is due): the orderings inside that instant are
    what the schedules explore"""
    out = []
    i = 0
    cases = [("(timeout 10 (tsrc 0 (5 (n 1))))", (5, 15)), ("(timeout 20 (tsrc 0 (5 (n 1)) (5 (n 2)) (5 c)))", (5, 10, 15)),
             ("(timeout 10 (tsrc 0 (5 (n 1)) (5 (n 2)) (30 (n 3))))", (10, 20)),
             ("(interval 10)", (10, 20)), ("(timer 15)", (15,)), ("(observe_on (interval 10))", (10,)),
             ("(debounce 10 (tsrc 0 (3 (n 1)) (3 (n 2)) (30 (n 3)) (5 c)))", (3, 6, 16, 36)),
             ("(delay 5 (tsrc 0 (1 (n 1)) (1 (n 2)) (1 c)))", (1, 6, 7)),
             ("(timeout 30 (interval 10))", (10, 20)), ("(take 3 (timeout 30 (interval 10)))", (30,)),
             ("(subscribe_on (interval 10))", (10,)), ("(sample (tsrc 0 (3 (n 1)) (3 (n 2)) (25 (n 3))) (interval 10))", (10, 31))]
    def period(text):
        ps = [int(x) for x in re.findall(r"\((?:interval|timer|timeout|debounce|delay) (\d+)", text)]
        return max(ps) if ps else 0
    for mk, ts in cases:
        for t in ts:
            out.append(("(conc C15-tie-%d (pipe (sub %s (react)) (unsub-after 0 %d)))" % (i, mk, t), (period(mk), True))); i += 1
    return out


def oracle_threads(payload, info):
    d = parse_pipe(payload)
    if d is None:
        return "malformed record"
    evs = user_events(d["recs"])
    m = check_contract(evs)
    if m:
        return m
    if d["threads"][0] != d["threads"][1]:
        return "%d of %d threads started for the subscription never exited" % (d["threads"][1] - d["threads"][0], d["threads"][1])
    # bounded: every library thread is gone at most one timer period after the (single) subscription ended
    if info is not None:
        period, single = info
        ends = [t for tid, r, t in d["recs"] if re.match(r"s0:[ec]", r) or r == "u0."]
        if single and ends and d["ended_by_harness"] is not None:
            end = min(ends)
            late = [x for x in d["lib_exits"] if x > end + period and x < d["ended_by_harness"]]
            late += [x for x in d["lib_exits"] if x > d["ended_by_harness"] + period]
            if late:
                return "a worker thread was still alive more than one timer period (%d) after the subscription ended at %d: exited at %s" % (period, end, late)
    return None


def scen_time(rng, n):
    out = []
    i = 0
    for d in (5, 10):
        out.append(("(conc C16-%d (pipe (sub (interval %d) (react)) (unsub-after 0 %d)))" % (i, d, 3 * d + d // 2), ("interval", d, 3))); i += 1
        out.append(("(conc C16-%d (pipe (sub (take 4 (interval %d)) (react))))" % (i, d), ("interval", d, 4))); i += 1
        out.append(("(conc C16-%d (pipe (sub (timer %d) (react))))" % (i, d), ("timer", d))); i += 1
    # timeout: gaps above / below d
    for gaps, d in (([5, 5, 5], 20), ([5, 30], 20), ([5, 5, 30, 5], 20), ([25], 20), ([5, 19, 21], 20)):
        evs = " ".join("(%d (n %d))" % (gp, k + 1) for k, gp in enumerate(gaps))
        out.append(("(conc C16-%d (pipe (sub (timeout %d (tsrc 0 %s (3 c))) (react))))" % (i, d, evs), ("timeout", d, gaps, True))); i += 1
        out.append(("(conc C16-%d (pipe (sub (timeout %d (tsrc 0 %s)) (react))))" % (i, d, evs), ("timeout", d, gaps, False))); i += 1
    # delay: each item handed on d after it was received, order kept
    out.append(("(conc C16-%d (pipe (sub (delay 7 (tsrc 0 (10 (n 1)) (10 (n 2)) (10 (n 3)) (1 c))) (react))))" % i, ("delay", 7, [10, 10, 10]))); i += 1
    # slow consumers: the subscriber spends `h` inside its callback for one of the items (gap + h > d while
    # every gap < d, and h + next gap <= d so that both readings of "elapses after an item" agree)
    for gaps, hs, d in (([5, 15], [0, 10], 20), ([5, 15, 8], [0, 10, 0], 20), ([15, 15], [10, 0], 20), ([5, 5, 18], [0, 0, 15], 20), ([8, 8], [0, 7], 10)):
        evs = " ".join("(%d (n %d))" % (gp, k + 1) for k, gp in enumerate(gaps))
        react = " ".join("(%d (sleep %d))" % (k, h) for k, h in enumerate(hs) if h)
        out.append(("(conc C16-%d (pipe (sub (timeout %d (tsrc 0 %s (3 c))) (react %s))))" % (i, d, evs, react), ("timeout", d, gaps, True, hs))); i += 1
    out.append(("(conc C16-%d (pipe (sub (delay 7 (tsrc 0 (10 (n 1)) (10 (n 2)) (10 (n 3)) (1 c))) (react (1 (sleep 4))))))" % i, ("delay", 7, [10, 10, 10], [0, 4, 0]))); i += 1
    # a blocking operator downstream of timeout: delay(d2) keeps the source thread for d2 per item
    for gaps, d2, d in (([5, 15], 10, 20), ([5, 12, 12], 9, 20), ([8, 8], 7, 10)):
        evs = " ".join("(%d (n %d))" % (gp, k + 1) for k, gp in enumerate(gaps))
        out.append(("(conc C16-%d (pipe (sub (delay %d (timeout %d (tsrc 0 %s (3 c)))) (react))))" % (i, d2, d, evs), ("timeout+delay", d, gaps, d2))); i += 1
    # random gap / handling scripts from the grid (no ties: a gap never equals the period)
    for _ in range(n):
        d = rng.choice([7, 10, 20])
        k = rng.randint(1, 4)
        gaps = [rng.choice([g for g in (3, 5, 8, 12, 15, 25, 30) if g != d]) for _ in range(k)]
        hs = [rng.choice([0, 0, 4, 9]) for _ in range(k)]
        evs = " ".join("(%d (n %d))" % (gp, j + 1) for j, gp in enumerate(gaps))
        react = " ".join("(%d (sleep %d))" % (j, h) for j, h in enumerate(hs) if h)
        if rng.random() < 0.6:
            completes = rng.random() < 0.6
            out.append(("(conc C16-%d (pipe (sub (timeout %d (tsrc 0 %s%s)) (react %s))))" % (i, d, evs, " (3 c)" if completes else "", react),
                        ("timeout", d, gaps, completes, hs))); i += 1
        else:
            out.append(("(conc C16-%d (pipe (sub (delay %d (tsrc 0 %s (1 c))) (react %s))))" % (i, d, evs, react), ("delay", d, gaps, hs))); i += 1
    # debounce / sample: only items the source emitted, in order, none twice
    out.append(("(conc C16-%d (pipe (sub (debounce 10 (tsrc 0 (3 (n 1)) (3 (n 2)) (25 (n 3)) (3 (n 4)) (30 c))) (react))))" % i, ("subseq", [1, 2, 3, 4]))); i += 1
    out.append(("(conc C16-%d (pipe (sub (sample (tsrc 0 (3 (n 1)) (3 (n 2)) (25 (n 3)) (3 (n 4)) (30 c)) (interval 10)) (react)) (unsub-after 0 90)))" % i, ("subseq", [1, 2, 3, 4]))); i += 1
    # two trigger threads and a slow consumer: a second tick arrives while the first tick's item is still being handed on
    out.append(("(conc C16-%d (pipe (sub (sample (tsrc 0 (3 (n 1)) (20 (n 2)) (30 (n 3))) (merge (interval 10) (interval 11))) (react (0 (sleep 5)) (1 (sleep 5)) (2 (sleep 5)))) (unsub-after 0 80)))" % i, ("subseq", [1, 2, 3]))); i += 1
    out.append(("(conc C16-%d (pipe (sub (debounce 10 (tsrc 0 (3 (n 1)) (3 (n 2)) (25 (n 3)) (3 (n 4)) (30 c))) (react (0 (sleep 12)) (1 (sleep 12))))))" % i, ("subseq", [1, 2, 3, 4]))); i += 1
    # the SAME debounce / sample / delay observable subscribed again after an earlier subscription ended with an item
    # still pending; the later subscription's first gap exceeds the period: it may only deliver its own source's items
    for op in ("(debounce 10 %s)", "(sample %s (interval 10))", "(delay 4 %s)", "(timeout 30 %s)"):
        x = op % "(tsrc 0 (15 (n 1)) (3 (n 2)) (3 (n 3)) (40 c))"
        out.append(("(conc C16-%d (pipe (def x %s) (sub (ref x) (react)) (unsub-after 0 23) (settle 30) (sub (ref x) (react)) (unsub-after 1 120)))" % (i, x), ("subseq2", [1, 2, 3]))); i += 1
    # timeout fed by OVERLAPPING next calls: the subscriber pushes into the feeding subject from inside its callback, or two
    # threads emit at the same instant: every timer that was armed must be cancelled by the next item (no TimedOut while
    # items keep arriving within the period)
    out.append(("(conc C16-%d (pipe (subject a plain) (sub (timeout 20 (ref a)) (react (0 (hnext a 2)))) (hnext a 1) (settle 10) (hnext a 3) (settle 15) (hnext a 4) (settle 60)))" % i, ("timeout-any", 20))); i += 1
    out.append(("(conc C16-%d (pipe (subject a plain) (sub (timeout 20 (ref a)) (react (0 (hnext a 2)) (1 (hnext a 5)))) (hnext a 1) (settle 15) (hnext a 3) (settle 15) (hnext a 4) (settle 60)))" % i, ("timeout-any", 20))); i += 1
    out.append(("(conc C16-%d (pipe (sub (timeout 20 (merge (tsrc 0 (0 (n 1)) (15 (n 2)) (15 (n 3))) (tsrc 1 (0 (n 11)) (15 (n 12)) (15 (n 13))))) (react)) (settle 90)))" % i, ("timeout-any", 20))); i += 1
    out.append(("(conc C16-%d (pipe (subject a plain) (sub (timeout 20 (ref a)) (react)) (drive a (0 (n 1)) (12 (n 2)) (12 (n 3))) (drive a (0 (n 11)) (12 (n 12)) (12 (n 13))) (settle 90)))" % i, ("timeout-any", 20))); i += 1
    return out


_LEAN_EXPECTED = {}

def lean_expected(request):
    """[(event, instant)] as computed by the Lean model for one request line of `rxmodel timed`"""
    if request not in _LEAN_EXPECTED:
        p = subprocess.run([run.RXMODEL, "timed"], input=request + "\n", stdout=subprocess.PIPE, text=True)
        out = p.stdout.strip()
        if p.returncode != 0 or out.startswith("error") or out.startswith("PARSE"):
            raise RuntimeError("rxmodel timed %r: %s" % (request, out))
        res = []
        for tok in out.split():
            ev, t = tok.rsplit("@", 1)
            res.append(("e?" if ev == "eT" else ev, int(t)))
        _LEAN_EXPECTED[request] = res
    return _LEAN_EXPECTED[request]


def oracle_time(payload, info):
    d = parse_pipe(payload)
    if d is None:
        return "malformed record"
    evs = user_events(d["recs"])
    m = check_contract(evs)
    if m:
        return m
    kind = info[0]
    got = [(e[1], e[2]) for e in evs]
    # the expected (event, instant) lists come from the Lean model: `Rx.Timed.expectedLine` prints the lists the
    # theorems interval_expected / timer_expected / delay_times / timeout_exact speak about (`rxmodel timed`)
    if kind == "interval":
        per, k = info[1], info[2]
        want = lean_expected("interval %d %d" % (per, k))
        items = [g for g in got if g[0][0] == "n"]
        if items != want:
            return "interval(%d) delivered %s, expected %s" % (per, items, want)
    elif kind == "timer":
        per = info[1]
        want = lean_expected("timer %d" % per)
        if got != want:
            return "timer(%d) delivered %s, expected %s" % (per, got, want)
    elif kind == "timeout":
        # gaps[k] = time between the return of the previous emission and item k; handling[k] = time the
        # subscriber spends inside its callback for item k (it blocks the source thread)
        dd, gaps, completes = info[1], info[2], info[3]
        handling = info[4] if len(info) > 4 else [0] * len(gaps)
        req = "timeout %d %s%s" % (dd, " ".join("%d:%d:%d" % (gp, k + 1, handling[k]) for k, gp in enumerate(gaps)), " c:3" if completes else "")
        want = lean_expected(req)
        if got != want:
            return "timeout(%d) over gaps %s (handling %s) delivered %s, expected %s" % (dd, gaps, handling, got, want)
    elif kind == "timeout+delay":
        # delay(d2) downstream of timeout: every item keeps the source thread for d2 (handling time d2 as seen by
        # timeout) and reaches the subscriber d2 after timeout handed it on
        dd, gaps, d2 = info[1], info[2], info[3]
        inner = lean_expected("timeout %d %s c:3" % (dd, " ".join("%d:%d:%d" % (gp, k + 1, d2) for k, gp in enumerate(gaps))))
        want = [(e, t + d2) if e[0] == "n" else (e, t) for e, t in inner]
        if got != want:
            return "delay(%d) after timeout(%d) over gaps %s delivered %s, expected %s" % (d2, dd, gaps, got, want)
    elif kind == "delay":
        dd, gaps = info[1], info[2]
        handling = info[3] if len(info) > 3 else [0] * len(gaps)
        want = lean_expected("delay %d %s c:1" % (dd, " ".join("%d:%d:%d" % (gp, k + 1, handling[k]) for k, gp in enumerate(gaps))))
        if got != want:
            return "delay(%d) over gaps %s (handling %s) delivered %s, expected %s" % (dd, gaps, handling, got, want)
    elif kind == "timeout-any":
        dd = info[1]
        errs = [(k, g) for k, g in enumerate(got) if g[0][0] == "e"]
        if not errs:
            return "timeout(%d): the source went silent and no TimedOut was delivered: %s" % (dd, got)
        k, (ev, t) = errs[0]
        items = [g for g in got[:k] if g[0][0] == "n"]
        if items and t < items[-1][1] + dd:
            return ("timeout(%d) failed at instant %d although the latest item had been delivered at %d (a timer armed for an earlier item was "
                    "not cancelled): %s" % (dd, t, items[-1][1], got))
    elif kind == "subseq2":
        src = ["n%d" % v for v in info[1]]
        for u in (0, 1):
            items = [e[1] for e in user_events(d["recs"], u) if e[1][0] == "n"]
            j = 0
            for x in items:
                while j < len(src) and src[j] != x:
                    j += 1
                if j == len(src):
                    return "subscription %d of the same observable delivered %s which is not a subsequence of ITS source's items (an item of another subscription, or a duplicate)" % (u, items)
                j += 1
    elif kind == "subseq":
        src = ["n%d" % v for v in info[1]]
        items = [g[0] for g in got if g[0][0] == "n"]
        j = 0
        for x in items:
            while j < len(src) and src[j] != x:
                j += 1
            if j == len(src):
                return "delivered %s which is not a subsequence of the source's items (duplicate or foreign item)" % items
            j += 1
    if d["threads"][0] != d["threads"][1]:
        return "a thread did not exit (%d of %d)" % d["threads"]
    return None



def scen_subjects(rng, n):
    """C12: producers, a late subscriber and an unsubscriber racing on the three subject kinds"""
    out = []
    i = 0
    def drive(vals):
        return "(drive a %s)" % " ".join("(0 (n %d))" % v for v in vals)
    for kind, init in (("plain", ""), ("behavior", " 0"), ("replay", "")):
        decl = "(subject a %s%s)" % (kind, init)
        # a stable subscriber + two producers
        out.append(("(conc C12-%d (pipe %s (sub (ref a) (react)) %s %s))" % (i, decl, drive([1, 2]), drive([11, 12])), (kind, "stable", [[1, 2], [11, 12]]))); i += 1
        out.append(("(conc C12-%d (pipe %s (sub (ref a) (react)) (sub (ref a) (react)) %s %s %s))" % (i, decl, drive([1, 2, 3]), drive([11]), drive([21, 22])), (kind, "stable", [[1, 2, 3], [11], [21, 22]]))); i += 1
        # a concurrent unsubscriber: per producer a gap-free prefix
        out.append(("(conc C12-%d (pipe %s (sub (ref a) (react)) %s %s (unsub-after 0 0)))" % (i, decl, drive([1, 2, 3]), drive([11, 12])), (kind, "unsub", [[1, 2, 3], [11, 12]]))); i += 1
        # a late subscriber racing one producer / two producers
        out.append(("(conc C12-%d (pipe %s %s (sub-after 0 (ref a))))" % (i, decl, drive([1, 2, 3])), (kind, "late1", [[1, 2, 3]]))); i += 1
        out.append(("(conc C12-%d (pipe %s %s %s (sub-after 0 (ref a))))" % (i, decl, drive([1, 2]), drive([11, 12])), (kind, "late", [[1, 2], [11, 12]]))); i += 1
        out.append(("(conc C12-%d (pipe %s (hnext a 5) %s (sub-after 0 (ref a))))" % (i, decl, drive([1, 2])), (kind, "late1h", [[1, 2]]))); i += 1
        # the last observer leaves while a new one arrives (and a producer pushes); afterwards the main thread pushes sentinels
        out.append(("(conc C12-%d (pipe %s (sub (ref a) (react)) %s (unsub-after 0 0) (sub-after 0 (ref a)) (settle 10) (hnext a 99)))" % (i, decl, drive([1, 2])), (kind, "swap", [[1, 2]], ["99"]))); i += 1
        out.append(("(conc C12-%d (pipe %s (sub (ref a) (react)) (unsub-after 0 0) (sub-after 0 (ref a)) (settle 10) (hnext a 99) (hnext a 98)))" % (i, decl), (kind, "swap", [[]], ["99", "98"]))); i += 1
        # churn: observer 0 leaves and observer 2 arrives (two more threads) while observer 1 stays throughout
        out.append(("(conc C12-%d (pipe %s (sub (ref a) (react)) (sub (ref a) (react)) %s %s (unsub-after 0 0) (sub-after 0 (ref a)) (settle 10) (hnext a 99)))" % (i, decl, drive([1, 2]), drive([11])), (kind, "churn", [[1, 2], [11]], ["99"]))); i += 1
        out.append(("(conc C12-%d (pipe %s (sub (ref a) (react)) (sub (ref a) (react)) (unsub-after 0 0) (sub-after 0 (ref a)) (settle 10) (hnext a 99) (hnext a 98)))" % (i, decl), (kind, "churn", [[]], ["99", "98"]))); i += 1
    return out


def oracle_subjects(payload, info):
    kind, mode, lists = info[0], info[1], info[2]
    d = parse_pipe(payload)
    if d is None:
        return "malformed record"
    users = sorted({int(r[1:r.index(":")]) for tid, r, t in d["recs"] if re.match(r"s\d+:", r)})
    allv = [str(v) for l in lists for v in l]
    scen_mode = mode
    for u in users or [0]:
        evs = user_events(d["recs"], u)
        m = check_contract(evs)
        if m:
            return m
        items = [e[1][1:] for e in evs if e[1][0] == "n"]
        if scen_mode == "churn":
            # observer 0 unsubscribes concurrently, observer 1 stays throughout, observer 2 arrives concurrently
            # (observer 2 is judged by the `late` scenarios: here only the contract)
            if u >= 2:
                continue
            mode = "unsub" if u == 0 else "stable"
            if u == 1:
                got_s = [x for x in items if x in info[3]]
                if got_s != info[3]:
                    return "%s: a subscriber present throughout missed items: got %s of %s" % (kind, got_s, info[3])
        # the subscriber that arrives while producers push is a LATE subscriber whatever the scenario is called
        # (in `swap` that is subscriber 1): its hand-over race on Replay / BehaviorSubject is the known finding F14
        tag = "%s late subscriber (%s scenario)" % (kind, mode) if (scen_mode == "swap" and u == 1 and kind != "plain") else "%s %s" % (kind, mode)
        # no duplicates of producer items, per-producer contiguous block in order
        for l in lists:
            want = [str(v) for v in l]
            got = [x for x in items if x in want]
            if len(got) != len(set(got)):
                return "%s: an item was delivered twice: %s" % (tag, items)
            # contiguous block of the producer's program
            ok = any(got == want[a:a + len(got)] for a in range(len(want) + 1))
            if not ok:
                return "%s: items of one producer arrived with a gap or out of order: %s" % (tag, got)
            if mode == "stable" and got != want:
                return "%s: a subscriber present throughout missed items: got %s of %s" % (kind, got, want)
            if mode == "unsub" and got != want[:len(got)]:
                return "%s: the unsubscribing observer did not get a prefix: %s" % (kind, got)
            if mode.startswith("late") and kind == "plain" and got != want[len(want) - len(got):]:
                return "plain subject: the late subscriber did not get a suffix: %s" % got
        if mode == "swap" and u == 1:
            # the subscriber that arrived during the swap is still subscribed when the main thread pushes the sentinels
            sentinels = info[3]
            got_s = [x for x in items if x in sentinels]
            if got_s != sentinels:
                return "%s: a subscriber that stays subscribed missed items pushed after it had subscribed: got %s of %s" % (kind, got_s, sentinels)
        if mode.startswith("late") and kind == "replay":
            if sorted(x for x in items if x in allv) != sorted(allv):
                return "replay late subscriber: did not receive every item exactly once: %s" % items
            if mode in ("late1", "late1h"):
                pre = ["5"] if mode == "late1h" else []
                if items != pre + allv:
                    return "replay late subscriber: not in push order: %s" % items
        if mode.startswith("late") and kind == "behavior":
            # a value, then every later value with no gap (single producer)
            if mode in ("late1", "late1h"):
                vals = (["0"] if mode == "late1" else ["5"]) + allv
                if not items:
                    return "behavior late subscriber received nothing"
                if items[0] not in vals:
                    return "behavior late subscriber: foreign first value %s" % items[0]
                k = vals.index(items[0])
                if items != vals[k:]:
                    return "behavior late subscriber: gap or duplicate after the first value: got %s, values were %s" % (items, vals)
    return None


def scen_subjlts(rng, n):
    """C12, co-simulation of Conc.Subject / Conc.Replay / Conc.Behavior (harness/conc/src/subjlts.rs): threads running
    lists of `next v | subscribe o | unsubscribe o`; items unique per scenario, every observer subscribed at most once"""
    base = [
        "plain (pre 1) (thread (next 1) (next 2)) (thread (subscribe 1)) (thread (unsubscribe 0))",
        "plain (pre 0) (thread (next 1) (next 2)) (thread (subscribe 0)) (thread (unsubscribe 0))",
        "plain (pre 2) (thread (next 1) (next 2)) (thread (next 11)) (thread (unsubscribe 0) (subscribe 2)) (thread (unsubscribe 1) (unsubscribe 0))",
        "plain (pre 1) (thread (subscribe 1) (unsubscribe 1) (next 3)) (thread (subscribe 2) (unsubscribe 0)) (thread (next 1) (next 2))",
        "plain (pre 0) (thread (unsubscribe 0) (subscribe 0)) (thread (next 1))",
        "replay (thread (next 1)) (thread (subscribe 0))",
        "replay (thread (next 1) (next 2) (next 3)) (thread (subscribe 0))",
        "replay (thread (next 1) (next 2)) (thread (subscribe 0)) (thread (unsubscribe 0))",
        "replay (thread (next 1) (next 2)) (thread (subscribe 0) (unsubscribe 0)) (thread (next 11) (subscribe 1))",
        "replay (thread (subscribe 0) (next 1)) (thread (unsubscribe 0) (unsubscribe 0)) (thread (subscribe 1) (unsubscribe 1))",
        "behavior (init 0) (thread (next 1)) (thread (subscribe 0))",
        "behavior (init 0) (thread (next 1) (next 2) (next 3)) (thread (subscribe 0))",
        "behavior (init 0) (thread (next 1) (next 2)) (thread (subscribe 0)) (thread (unsubscribe 0))",
        "behavior (init 7) (thread (next 1) (next 2)) (thread (subscribe 0) (unsubscribe 0)) (thread (next 11) (subscribe 1))",
        "behavior (init 0) (thread (subscribe 0) (next 1)) (thread (unsubscribe 0) (unsubscribe 0)) (thread (subscribe 1) (unsubscribe 1))",
    ]
    for _ in range(n):
        kind = rng.choice(["plain", "plain", "replay", "behavior"])
        pre = rng.choice([0, 1, 1, 2]) if kind == "plain" else 0
        nt = rng.choice([2, 3, 3, 4])
        nobs = pre + rng.choice([1, 1, 2])
        fresh = list(range(pre, nobs))          # observers that may still be subscribed (once each)
        item = [0]
        ths = []
        for t in range(nt):
            ops = []
            for _ in range(rng.randint(1, 3)):
                r = rng.random()
                if r < 0.45:
                    item[0] += 1
                    ops.append("(next %d)" % (10 * (t + 1) + item[0]))
                elif r < 0.70 and fresh:
                    ops.append("(subscribe %d)" % fresh.pop(rng.randrange(len(fresh))))
                else:
                    ops.append("(unsubscribe %d)" % rng.randrange(nobs))
            ths.append("(thread %s)" % " ".join(ops))
        hdr = "plain (pre %d)" % pre if kind == "plain" else ("behavior (init 0)" if kind == "behavior" else "replay")
        base.append("%s %s" % (hdr, " ".join(ths)))
    return ["(conc C12-lts-%d (subjlts %s))" % (i, b) for i, b in enumerate(dict.fromkeys(base))]


def oracle_subjlts(payload):
    """independent of the LTS: on a plain Subject every observer gets, from each producer, a gap-free block of that
    producer's calls in call order, nothing twice (C12 (a)-(c)); Replay / Behavior have the known findings F14, so
    only the co-simulation judges them"""
    parts = payload.split(" ; ")
    if len(parts) != 4:
        return "malformed record"
    if not parts[0].startswith("kind=plain"):
        return None
    m = re.search(r"recv=(\S*)", parts[2])
    for ob in (m.group(1).split("|") if m else []):
        o, _, es = ob.partition(":")
        per = {}
        for e in [x for x in es.split(",") if x]:
            t, k, v = e.split(".")
            per.setdefault(t, []).append(int(k))
        for t, ks in per.items():
            if ks != list(range(ks[0], ks[0] + len(ks))):
                return "plain subject: observer %s got calls %s of producer %s: not a gap-free block in call order" % (o, ks, t)
    return None


def scen_queue(rng, n):
    base = [
        "(queue (poster (post 1) (post 2)) (poster (post 3) abort))",
        "(queue (poster (post 1) (post 2) (post 3)))",
        "(queue (poster (post 1) (post 2)) (poster (post 3) (post 4)) (poster (post 5)))",
        "(queue (poster (post 1) (post 2)) (body 1 (post 5) abort))",
        "(queue (poster (post 1) abort (post 2)) (poster abort))",
        "(queue (poster (post 1)) (body 1 (post 2)) (body 2 abort))",
        "(queue (poster abort))",
        "(queue (poster (post 1) (post 2) abort) (poster (post 3) (post 4)) (body 3 (post 30)))",
        "(queue (poster (post 1) abort abort) (poster (post 2)))",
        "(queue (poster (post 1) (post 2) (post 3) (post 4) abort))",
    ]
    tid = [100]
    for _ in range(n):
        posters = []
        bodies = []
        for p in range(rng.choice([1, 2, 2, 3])):
            calls = []
            for _ in range(rng.randint(1, 4)):
                if rng.random() < 0.25:
                    calls.append("abort")
                else:
                    tid[0] += 1
                    calls.append("(post %d)" % tid[0])
                    if rng.random() < 0.2:
                        tid[0] += 1
                        bodies.append("(body %d %s)" % (tid[0] - 1, rng.choice(["(post %d)" % tid[0], "abort", "(post %d) abort" % tid[0]])))
            posters.append("(poster %s)" % " ".join(calls))
        if not any("abort" in x for x in posters + bodies):
            posters[-1] = posters[-1][:-1] + " abort)"     # every scenario ends the worker (no Drop impl: a scheduler must be aborted)
        base.append("(queue %s)" % " ".join(posters + bodies))
    out = []
    for i, b in enumerate(base):
        if "abort" not in b:
            b = b[:-1] + " (poster abort))"
        out.append("(conc C08-%d %s)" % (i, b))
    return out


def oracle_queue(payload):
    """stamps: `<tid>:taskStart<t>` / `<tid>:taskEnd<t>`; one at a time, at most once, one worker thread"""
    parts = payload.split(" ; ")
    if len(parts) < 3:
        return "malformed record"
    stamps = parts[1].split()
    running = None
    started = []
    tids = set()
    for s in stamps:
        tid, ev = s.split(":", 1)
        tids.add(tid)
        if ev.startswith("taskStart"):
            t = ev[len("taskStart"):]
            if running is not None:
                return "task %s started while task %s was still running" % (t, running)
            if t in started:
                return "task %s ran twice" % t
            started.append(t)
            running = t
        elif ev.startswith("taskEnd"):
            running = None
    if len(tids) > 1:
        return "tasks ran on more than one thread: %s" % sorted(tids)
    # no task pushed after an abort took effect may ever start; a task started after abort RETURNED must have
    # been popped before it.  Task ids are recovered from the programs: the k-th `post` of a thread / task body.
    cfg = parts[0][len("cfg="):]
    progs, bodies = [], {}
    for seg in cfg.split(" / "):
        if seg.startswith("P:"):
            progs.append([c.strip() for c in seg[2:].split(";") if c.strip()])
        elif seg.startswith("B"):
            k, cs = seg[1:].split(":", 1)
            bodies[k] = [c.strip() for c in cs.split(";") if c.strip()]
    labels = [l.split() for l in parts[2].split(";") if l.strip()]
    pos = {}            # model tid -> remaining calls of what it is running (posters: program; worker: current task body)
    for i, p in enumerate(progs):
        pos[str(i + 1)] = list(p)
    aborted = False
    pushed_after_abort = []
    cur_call = {}
    stamp_iter = iter([s.split(":", 1)[1] for s in stamps if "taskStart" in s])
    for tid, kind in labels:
        if kind == "taskStart":
            t = next(stamp_iter, "taskStart?")[len("taskStart"):]
            pos["0"] = list(bodies.get(t, []))
            if t in pushed_after_abort:
                return "task %s was posted after abort had taken effect, yet it was run" % t
        elif kind == "callStart":
            calls = pos.get(tid, [])
            cur_call[tid] = calls.pop(0) if calls else "?"
        elif kind == "abortWrite":
            aborted = True
        elif kind == "push" and aborted:
            c = cur_call.get(tid, "")
            if c.startswith("post "):
                pushed_after_abort.append(c.split()[1])
    return None



def scen_race(rng, n):
    """C19 / C05 at the pipeline level: inputs racing on different threads, one of them signalling a terminal"""
    out = []
    i = 0
    def ts(k, evs):
        return "(tsrc %d %s)" % (k, " ".join("(0 %s)" % e for e in evs))
    A = ts(0, ["(n 1)", "(n 2)", "(n 3)"]); B = ts(1, ["(n 11)", "(e 5)"]); C = ts(2, ["(n 21)", "c"])
    pipes = [
        "(merge %s %s)" % (A, B), "(merge %s %s %s)" % (A, B, C), "(zip %s %s)" % (A, B), "(amb %s %s)" % (A, B),
        "(take_until %s %s)" % (A, ts(1, ["(n 9)"])), "(skip_until %s %s)" % (ts(0, ["(n 1)", "(n 2)", "(e 5)"]), ts(1, ["(n 9)"])),
        "(sample %s %s)" % (ts(0, ["(n 1)", "(n 2)", "c"]), ts(1, ["(n 9)", "(n 9)"])),
        "(flat_map fm_just (merge %s %s))" % (A, B), "(map inc (merge %s %s))" % (A, B), "(take 2 (merge %s %s))" % (A, C),
        "(observe_on %s)" % ts(0, ["(n 1)", "(n 2)", "(e 5)"]), "(observe_on (merge %s %s))" % (A, B),
        "(observe_on (from_iter 1 2 3))", "(merge (observe_on (from_iter 1 2 3)) (observe_on (error 5)) (observe_on (empty)))",
        "(concat %s %s)" % (ts(0, ["(n 1)", "c"]), B),
    ]
    for p in pipes:
        out.append(("(conc C19-pipe-%d (pipe (sub %s (react))))" % (i, p), None)); i += 1
        out.append(("(conc C19-pipe-%d (pipe (sub %s (react)) (unsub-after 0 0)))" % (i, p), None)); i += 1
    for kind, init in (("plain", ""), ("behavior", " 0"), ("replay", ""), ("async", "")):
        decl = "(subject a %s%s)" % (kind, init)
        out.append(("(conc C19-pipe-%d (pipe %s (sub (ref a) (react)) (drive a (0 (n 1)) (0 (n 2)) (0 (n 3))) (drive a (0 c))))" % (i, decl), None)); i += 1
        out.append(("(conc C19-pipe-%d (pipe %s (sub (map inc (ref a)) (react)) (drive a (0 (n 1)) (0 (n 2))) (drive a (0 (e 5))) (drive a (0 c))))" % (i, decl), None)); i += 1
    return out


def oracle_race(payload, info):
    d = parse_pipe(payload)
    if d is None:
        return "malformed record"
    recs = d["recs"]
    for u in sorted({int(r[1:r.index(":")]) for tid, r, t in recs if re.match(r"s\d+:", r)}) or [0]:
        starts = [(i, tid, r[len("s%d:" % u):]) for i, (tid, r, t) in enumerate(recs) if r.startswith("s%d:" % u)]
        terms = [x for x in starts if x[2][0] in "ec"]
        if len(terms) > 1:
            return "two terminal callbacks started: %s" % " ".join(x[2] for x in starts)
        if terms:
            # index at which the terminal callback returned: the next `r<u>` record of the same thread
            ti, ttid, _ = terms[0]
            tret = next((i for i, (tid, r, t) in enumerate(recs) if i > ti and tid == ttid and r == "r%d" % u), None)
            if tret is not None:
                for i, tid, ev in starts:
                    if i > tret:
                        # a callback after the terminal returned: allowed only if its source call started before that return
                        calls = [j for j, (t2, r2, _) in enumerate(recs) if t2 == tid and re.match(r"(x\d+|h\w+)!", r2) and j < i]
                        if not calls or calls[-1] > tret:
                            return "callback %s for an event that started to be delivered after the terminal callback returned" % ev
        urets = [i for i, (tid, r, t) in enumerate(recs) if r == "u%d." % u]
        if urets:
            for i, tid, ev in starts:
                if i > urets[0]:
                    calls = [j for j, (t2, r2, _) in enumerate(recs) if t2 == tid and re.match(r"(x\d+|h\w+)!", r2) and j < i]
                    if calls and calls[-1] > urets[0]:
                        return "callback %s for an event the source started to emit after unsubscribe returned" % ev
    return None


# ---- co-simulation of the C11 LTSs (harness/conc/src/sctl.rs; lean/RxVerif/Conc/SctlCosim.lean) ------------------

def _sctl_inputs(rng, k, lo, hi, ends):
    ins = []
    for m in range(k):
        items = [str(10 * m + j + 1) for j in range(rng.randint(lo, hi))]
        end = rng.choice(ends)
        ins.append("(in %s)" % " ".join(items + ([end] if end else [])))
    return " ".join(ins)


def scen_sctl(kind):
    """scenario generator of one model: k raw threads push scripts into merge / take(n) / amb / zip"""
    fixed = {
        "sctl": ["merge (in 1 c) (in 11 c)", "merge (in 1 2 c) (in 11 e5)", "merge (in 1 2 c) (in 11 12 c) (in 21 c)",
                 "merge (in 1 2 c) (in 11 c) (unsub 30)", "merge (in 1 e3) (in 11 e5) (in c)", "merge (in 1 2 c) (in 11 c) (unsub)",
                 "merge (in c) (in c) (in 21 c)"],
        "take": ["take 2 (in 1 2 c) (in 3 4)", "take 1 (in 1 2) (in 3 c)", "take 3 (in 1 2 c) (in 3 4 c) (in 5)", "take 0 (in 1) (in 3 c)",
                 "take 2 (in 1 c) (in 3 c)", "take 5 (in 1 2 c) (in 3 c)"],
        "amb": ["amb (in 1 2 c) (in 11 c)", "amb (in 1) (in 11 12)", "amb (in 1 2 c) (in 11 12 c) (in 21 c)", "amb (in c) (in 11 c)",
                "amb (in c) (in c) (in 21 22)", "amb (in 1 c) (in 11 c) (in 21 c)"],
        "zip": ["zip (in 1 2) (in 11 12)", "zip (in 1 2 3) (in 11 12) (in 21 22)", "zip (in 1 2) (in 11 12) (unsub 25)", "zip (in 1) (in 11 12 13)",
                "zip (in 1 2) (in 11 12) (unsub)", "zip (in 1 2) (in 11 12) (in 21 22) (unsub 40)"],
    }[kind]
    def gen(rng, n):
        out = list(fixed)
        for _ in range(max(0, n // 4)):
            k = rng.choice([2, 2, 3])
            if kind == "sctl":
                u = rng.choice(["", "", " (unsub %d)" % rng.choice([0, 10, 25, 40])])
                out.append("merge %s%s" % (_sctl_inputs(rng, k, 0, 2, ["c", "c", "e7"]), u))
            elif kind == "take":
                out.append("take %d %s" % (rng.randint(0, 3), _sctl_inputs(rng, k, 1, 2, ["c", ""])))
            elif kind == "amb":
                out.append("amb %s" % _sctl_inputs(rng, k, 0, 2, ["c", "c", ""]))
            else:
                u = rng.choice(["", "", " (unsub %d)" % rng.choice([0, 10, 25, 40])])
                out.append("zip %s%s" % (_sctl_inputs(rng, k, 1, 3, [""]), u))
        return ["(conc C11-%s-%d (sctl %s))" % (kind, i, t) for i, t in enumerate(dict.fromkeys(out))]
    return gen


def oracle_sctl(payload):
    """the C11 clauses, judged on what the subscriber's callbacks recorded (independent of the LTS replay)"""
    parts = payload.split(" ; ")
    if len(parts) != 3:
        return "malformed record"
    hdr = parts[0].split(" / ")
    op = hdr[0].split()
    scripts = [h.split() for h in hdr[1:] if not h.startswith("BAD-IDS")]
    unsub = any(sc == ["unsub"] for sc in scripts) or " unsub" in (";" + parts[2]).replace(";", " ")
    scripts = [sc for sc in scripts if sc != ["unsub"]]
    m = re.search(r"impl=(\S*)", parts[1])
    evs = [tuple(x.split(":", 1)) for x in m.group(1).split(",") if x] if m else []
    if op[0] == "zip":
        evs = [tuple(x.split(":", 1)) for x in re.findall(r"\d+:n\[[^\]]*\]", m.group(1))] if m else []
    terms = [e for e in evs if not e[1].startswith("n")]
    items = [e for e in evs if e[1].startswith("n")]
    if len(terms) > 1:
        return "two terminal callbacks started: %s" % evs
    def its(sc):
        return [x for x in sc if re.fullmatch(r"-?\d+", x)]
    if op[0] in ("merge", "amb"):
        for t in {e[0] for e in items}:
            got = [e[1][1:] for e in items if e[0] == t]
            want = its(scripts[int(t)])
            if got != want[:len(got)]:
                return "%s reordered / invented items of input %s: %s" % (op[0], t, got)
    if op[0] == "merge":
        if terms and terms[0][1] == "c":
            if any(sc[-1] != "c" for sc in scripts) and not unsub:
                return "merge completed although an input ended with an error"
        if not unsub and all(sc[-1] == "c" for sc in scripts):
            if sorted(e[1][1:] for e in items) != sorted(x for sc in scripts for x in its(sc)):
                return "merge lost an item: %s" % evs
            if [e[1] for e in evs][-1:] != ["c"]:
                return "merge did not complete after the last item: %s" % evs
    elif op[0] == "take":
        if len(items) > int(op[1]):
            return "take(%s) delivered %d items" % (op[1], len(items))
        allit = [x for sc in scripts for x in its(sc)]
        if any(e[1][1:] not in allit for e in items):
            return "take invented an item"
    elif op[0] == "amb":
        if len({e[0] for e in evs}) > 1:
            return "amb let two inputs through: %s" % evs
    elif op[0] == "zip":
        n = min(len(sc) for sc in scripts)
        want = ["[%s]" % ",".join(sc[j] for sc in scripts) for j in range(n)]
        got = [e[1][1:] for e in items]
        if len(set(got)) != len(got) or any(g not in want for g in got):
            return "zip delivered %s, the tuples are %s" % (got, want)
        if not unsub and sorted(got) != sorted(want):
            return "zip lost a tuple: %s of %s" % (got, want)
    return None


# ---- co-simulation of the virtual-time LTSs (Conc/Timed.lean; harness/conc/src/timedlts.rs) --------------------

def _tl_entry(e):
    kind, g, v, h = e
    if kind == "n":
        return "%d:%d:%d" % (g, v, h) if h else "%d:%d" % (g, v)
    return "%s:%d" % (kind, g)


def _tl_timeout(d, es):
    """timeline of `source.timeout(d)` without an unsubscriber, under the no-tie reading: (instants at which the source
    thread acts, instants at which a timer thread wakes, a `next` arrives exactly when a timer fires)"""
    t, armed = 0, False
    src, tim, tie = [], [], False
    for (kind, g, v, h) in es:
        arr = t + g
        if armed:
            tim.append(t + d)
            if t + d < arr:
                return src, tim, tie
            if t + d == arr and kind == "n":
                tie = True
        src.append(arr)
        if kind != "n":
            return src, tim, tie
        t = arr + h
        src.append(t)
        armed = True
    if armed:
        tim.append(t + d)
    return src, tim, tie


def _tl_unsub_ok(u, groups):
    """the unsubscriber may tie with ONE other thread, which acts once at that instant (see DESIGN 10.2: the LTS's
    `finalize` is one step, the code's is not; two observers of its parts in the same instant cannot be linearised)"""
    hit = [g for g in groups if u in g]
    return len(hit) <= 1 and all(g.count(u) == 1 for g in hit)


def scen_timedlts(prefix, kinds=("timeout", "delay", "interval", "timer", "debounce", "sample", "rounds")):
    """scenarios for the co-simulation of the virtual-time LTSs; `kinds` = the models wanted (C15 takes those with
    threads of the library, whose exit instants are compared)"""
    def gen(rng, n):
        out = []
        tried = [0]
        def add(tag, body):
            tried[0] += 1
            if body.split()[0] in kinds:
                out.append("(conc %s-lts-%d-%s (timedlts %s))" % (prefix, tried[0], tag, body))
        # one worked example per model and per kind of tie
        add("to", "timeout (d 20) (script 5:1 15:2:10 c:1)")
        add("to-slow", "timeout (d 20) (script 5:1 15:2:25 5:3 c:1)")
        add("to-uarr", "timeout (d 20) (script 5:1 15:2:10 c:1) (unsub 20)")       # unsubscribe at the instant an item arrives
        add("to-ufire", "timeout (d 20) (script 5:1 30:2) (unsub 25)")             # ... the timer fires
        add("to-uret", "timeout (d 20) (script 5:1 10:2:7 c:3) (unsub 22)")        # ... the slow consumer returns
        add("to-tfire", "timeout (d 20) (script 5:1 c:20)")                        # complete arrives when the timer fires
        add("to-uterm", "timeout (d 20) (script 5:1 c:10) (unsub 15)")
        add("to-never", "timeout (d 20) (script 5:1 5:2)")
        add("de-udel", "delay (d 10) (script 5:1:3 2:2 e:2) (unsub 15)")
        add("de-uarr", "delay (d 10) (script 5:1:3 2:2 e:2) (unsub 5)")
        add("iv-take", "interval (d 10) (take 3)")
        add("iv-utick", "interval (d 10) (unsub 20)")
        add("iv-take-u", "interval (d 10) (take 3) (unsub 20)")
        add("iv-take-uc", "interval (d 10) (take 2) (unsub 20)")                    # unsubscribe on the tick on which `take` completes
        add("tm-u", "timer (d 10) (unsub 10)")
        add("tm-early", "timer (d 10) (unsub 4)")
        add("db", "debounce (d 10) (script 3:1 3:2 25:3 3:4 c:30)")
        add("db-u", "debounce (d 10) (script 3:1 7:2 25:3) (unsub 20)")
        add("sa", "sample (script 3:1 3:2 25:3 3:4 c:30) (trigger 10:0 10:0 10:0 10:0 10:0 10:0 10:0)")
        add("sa-u", "sample (script 3:1 3:2 25:3 3:4) (trigger 10:0 10:0 10:0 10:0 c:5) (unsub 30)")
        add("ro", "rounds (d 10) (rounds 25:5 10:12)")
        add("ro-tie", "rounds (d 10) (rounds 20:10 10:10 5:1)")                     # unsubscribe at the instant the worker wakes
        fixed, tries = len(out), 0
        while len(out) < fixed + n and tries < 40 * (n + 1):
            tries += 1
            r = rng.random()
            if r < 0.45:
                d = rng.choice([10, 20])
                es = [("n", rng.choice([0, 3, 5, 8, 12, d - 1, d, d + 1, d + 5]), j + 1, rng.choice([0, 0, 0, 4, 9, d + 3]))
                      for j in range(rng.randint(1, 4))]
                q = rng.random()
                if q < 0.6:
                    es.append(("c" if q < 0.45 else "e", rng.choice([1, 3, d, d + 2]), 0, 0))
                src, tim, tie = _tl_timeout(d, es)
                if tie:
                    continue        # a `next` arriving exactly when a timer fires: DESIGN 10.2 (call / emit are atomic in the LTS)
                pts = sorted(set(src + tim))
                u, q = None, rng.random()
                if q < 0.45:
                    u = rng.choice(pts)
                elif q < 0.7:
                    u = rng.randint(1, max(pts) + 3)
                if u is not None and (not _tl_unsub_ok(u, [src, tim]) or any(e[1] == 0 for e in es[1:])):
                    continue        # (an item refused at the unsubscribe instant takes no handling time: a wait of 0 after it
                                    #  makes the source act twice in that instant)
                add("to-r" + ("u" if u is not None else ""), "timeout (d %d) (script %s)%s" %
                    (d, " ".join(_tl_entry(e) for e in es), " (unsub %d)" % u if u is not None else ""))
            elif r < 0.6:
                d = rng.choice([5, 10])
                es = [("n", rng.choice([0, 3, 5, 8, 12]), j + 1, rng.choice([0, 0, 4, 9])) for j in range(rng.randint(1, 3))]
                es.append((rng.choice(["c", "c", "e"]), rng.choice([1, 2, 7]), 0, 0))
                t, pts = 0, []
                for (kind, g, v, h) in es:
                    t += g
                    pts.append(t)
                    if kind == "n":
                        pts += [t + d, t + d + h]
                        t += d + h
                u, q = None, rng.random()
                if q < 0.5:
                    u = rng.choice(pts)
                elif q < 0.7:
                    u = rng.randint(1, max(pts) + 2)
                if u is not None and (pts.count(u) > 1 or any(e[1] == 0 for e in es[1:])):
                    continue
                add("de-r" + ("u" if u is not None else ""), "delay (d %d) (script %s)%s" %
                    (d, " ".join(_tl_entry(e) for e in es), " (unsub %d)" % u if u is not None else ""))
            elif r < 0.72:
                d = rng.choice([5, 10])
                take = rng.choice([None, 1, 2, 3])
                u = rng.choice([d, 2 * d, 3 * d, rng.randint(1, 3 * d + 2)]) if (take is None or rng.random() < 0.6) else None
                add("iv-r", "interval (d %d)%s%s" % (d, " (take %d)" % take if take is not None else "", " (unsub %d)" % u if u is not None else ""))
            elif r < 0.77:
                d = rng.choice([5, 10])
                u = rng.choice([None, d, rng.randint(1, d + 3)])
                add("tm-r", "timer (d %d)%s" % (d, " (unsub %d)" % u if u is not None else ""))
            elif r < 0.85:
                d = rng.choice([5, 10])
                rs = [(rng.choice([d, 2 * d, rng.randint(1, 3 * d)]), rng.choice([0, 1, d, rng.randint(1, 2 * d)])) for _ in range(rng.randint(1, 4))]
                add("ro-r", "rounds (d %d) (rounds %s)" % (d, " ".join("%d:%d" % x for x in rs)))
            elif r < 0.93:
                d = 10
                es = [("n", rng.choice([2, 3, 7, 10, 13, 25]), j + 1, 0) for j in range(rng.randint(1, 4))]
                term = rng.random() < 0.6
                if term:
                    es.append((rng.choice(["c", "c", "e"]), rng.choice([3, 10, 24]), 0, 0))
                src, t = [], 0
                for e in es:
                    t += e[1]
                    src.append(t)
                end = src[-1] if term else None
                u = None
                if not term or rng.random() < 0.4:
                    u = rng.choice(src + [10, 20, 30, rng.randint(1, 45)])
                horizon = min(x for x in (end, u) if x is not None)
                wk = list(range(d, horizon + d + 1, d))          # the worker wakes every d while subscribed
                if u is not None and not _tl_unsub_ok(u, [src, wk]):
                    continue
                if end is not None and u == end:
                    continue        # unsubscribe at the very instant of the source's terminal: debounce's terminal handler (flush the
                                    # pending item, terminal, finalize) and the unsubscriber's finalize interleave below the LTS's
                                    # atomic steps (DESIGN 10.2 (c)); seen as linearisation rejects at thorough scale, never as a wrong outcome
                add("db-r", "debounce (d %d) (script %s)%s" % (d, " ".join(_tl_entry(e) for e in es), " (unsub %d)" % u if u is not None else ""))
            else:
                es = [("n", rng.choice([2, 3, 7, 10, 13]), j + 1, 0) for j in range(rng.randint(1, 4))]
                if rng.random() < 0.6:
                    es.append((rng.choice(["c", "e"]), rng.choice([3, 10, 24]), 0, 0))
                tg = [("n", rng.choice([5, 10, 10, 15]), 0, 0) for _ in range(rng.randint(1, 5))]
                if rng.random() < 0.4:
                    tg.append((rng.choice(["c", "e"]), 5, 0, 0))
                def inst(l):
                    t, o = 0, []
                    for e in l:
                        t += e[1]
                        o.append(t)
                    return o
                src, trg = inst(es), inst(tg)
                u = rng.choice([None] + src + trg + [rng.randint(1, 40)]) if es[-1][0] != "n" else rng.choice(src + trg + [rng.randint(1, 40)])
                if u is not None and not _tl_unsub_ok(u, [src, trg]):
                    continue
                add("sa-r", "sample (script %s) (trigger %s)%s" % (" ".join(_tl_entry(e) for e in es), " ".join(_tl_entry(e) for e in tg),
                                                                     " (unsub %d)" % u if u is not None else ""))
        return list(dict.fromkeys(out))
    return gen


def oracle_timedlts(payload):
    """independent of the LTS (C15): at the end of the run (virtual time 5000, every timer period is <= 30) every thread
    the library started has exited; the renderer found the locks it names where their names say"""
    parts = payload.split(" ; ")
    if len(parts) != 3:
        return "malformed record"
    m = re.search(r"exits=(\S*) table=(\S*)", parts[1])
    if not m:
        return "malformed record"
    if m.group(2) != "ok":
        return "lock table of the renderer does not fit the recorded creation sites"
    if "-" in m.group(1).split(",") and m.group(1) != "-":
        return "a library thread is still alive at the end of the run: exits=%s" % m.group(1)
    return None


CONC = {
    "C08": dict(model="queue", scen=scen_queue, oracle=oracle_queue, corr="Conc.Queue (lean/RxVerif/Conc/Queue.lean) vs src/schedulers/async_function_queue.rs, new_thread_scheduler.rs"),
    "C19": dict(model="obs", scen=scen_obs, oracle=oracle_obs, corr="Conc.Observer (lean/RxVerif/Conc/Observer.lean) vs src/observer.rs + src/internals/function_wrapper.rs",
                more=[dict(model=None, scen=scen_race, oracle=oracle_race, info=True)]),
    "C18": dict(model="tovec", scen=scen_tovec, oracle=oracle_tovec, corr="Conc.ToVec (lean/RxVerif/Conc/ToVec.lean) vs src/operators/to_vec.rs"),
    "C12": dict(model=None, scen=scen_subjects, oracle=oracle_subjects, corr="Conc.Subject / Conc.Replay / Conc.Behavior vs src/subjects/*.rs", info=True,
                more=[dict(model="subjlts", kind="subjlts", scen=scen_subjlts, oracle=oracle_subjlts, iters=(2000, 6000))]),
    "C09": dict(model=None, scen=scen_handoff, oracle=oracle_handoff, corr="Conc.Handoff vs src/operators/observe_on.rs, subscribe_on.rs", info=True,
                more=[dict(model="handoff", kind="handoff", scen=scen_handoff_cosim, oracle=oracle_handoff_cosim, iters=(2000, 10000)),
                      dict(model=None, kind="pipe (def x", scen=scen_handoff_resub, oracle=oracle_handoff_resub, info=True, iters=(200, 3000))]),
    "C11": dict(model=None, scen=scen_merge, oracle=oracle_merge, corr="Conc.Sctl / Conc.TakeAmbZip vs stream_controller.rs, merge/zip/amb/take", info=True,
                more=[dict(model=m, kind="sctl " + ("merge" if m == "sctl" else m), scen=scen_sctl(m), oracle=oracle_sctl, iters=(2000, 6000)) for m in ("sctl", "take", "amb", "zip")]),
    "C15": dict(model=None, scen=scen_threads, oracle=oracle_threads, corr="Conc.Timed / Conc.Queue vs scheduler-based operators", info=True,
                more=[dict(model=None, scen=scen_ties, oracle=oracle_threads, info=True, iters=(1500, 12000)),
                      dict(model="timed", kind="timedlts", scen=scen_timedlts("C15", ("timeout", "interval", "timer", "debounce", "rounds")), oracle=oracle_timedlts, iters=(2000, 6000))]),
    "C16": dict(model=None, scen=scen_time, oracle=oracle_time, corr="Conc.Timed vs interval/timer/delay/timeout/debounce/sample", info=True,
                more=[dict(model="timed", kind="timedlts", scen=scen_timedlts("C16", ("timeout", "delay", "interval", "timer", "debounce", "sample")), oracle=oracle_timedlts, iters=(2000, 6000))]),
}


def known_applies(k, line):
    """a known finding covers a failing execution only under its recorded circumstances"""
    if k.get("requires_overlap"):
        # the subscribe call (S! .. S.) must overlap some producer call (h<name>!x .. h<name>.x)
        payload = parse_exec(line)[4]
        d = parse_pipe(payload)
        if d is None:
            return False
        idx = {r: i for i, (tid, r, t) in enumerate(d["recs"]) if r in ("S!", "S.")}
        if "S!" not in idx or "S." not in idx:
            return False
        open_calls = {}
        for i, (tid, r, t) in enumerate(d["recs"]):
            m = re.match(r"h(\w+)([!.])(.*)$", r)
            if not m:
                continue
            if m.group(2) == "!":
                open_calls[(tid, m.group(3))] = i
            else:
                a = open_calls.pop((tid, m.group(3)), None)
                if a is not None and a < idx["S."] and i > idx["S!"]:
                    return True
        return False
    return True


def run_conc(prop, tier, seed, jobs, write_evidence, write_replay, load_known):
    t0 = time.time()
    cfg = CONC.get(prop)
    if cfg is None:
        print("property %s has no check" % prop)
        return 2
    pr = proof.check(prop, tier)
    notes = []
    violations = []
    if not pr.ok:
        notes.append("proof step failed: " + pr.error)
    try:
        build()
    except run.BuildError as e:
        path = write_replay(prop, {"broken": "correspondence build: " + e.what, "log": e.log[-4000:]})
        print("VIOLATION property=%s replay=%s no-failing-input-found" % (prop, path))
        write_evidence(prop, tier, seed, pr, 0, 0, [], time.time() - t0, 1, notes + ["build failed: " + e.what])
        return 1
    rng = random.Random(seed * 7919 + int(prop[1:]))
    thorough = tier == "thorough"
    scen = cfg["scen"](rng, 150 if thorough else 20)
    info = {}
    if cfg.get("info"):
        info = {x[0].split()[1]: x[1] for x in scen}
        scen = [x[0] for x in scen]
    # corpus of minimised past failures runs first: `#info <json>` lines give the oracle's side information
    cdir = os.path.join(os.path.dirname(os.path.dirname(os.path.abspath(__file__))), "corpus", prop)
    if os.path.isdir(cdir):
        extra, pending = [], None
        for fn in sorted(os.listdir(cdir)):
            for ln in open(os.path.join(cdir, fn)):
                ln = ln.strip()
                if ln.startswith("#info "):
                    pending = json.loads(ln[6:])
                elif ln.startswith("(conc "):
                    sid = ln.split()[1]
                    if pending is not None:
                        info[sid] = tuple(pending) if isinstance(pending, list) else pending
                    pending = None
                    extra.append(ln)
        scen = extra + scen
    iters = (20000 if thorough else 900) if cfg.get("model") else (6000 if thorough else 360)
    lines = run_scenarios(scen, seed, iters, "mixed", jobs)
    extra_groups = []
    for g in cfg.get("more", []):
        gs = g["scen"](rng, 150 if thorough else 20)
        ginfo = {x[0].split()[1]: x[1] for x in gs} if g.get("info") else {}
        gs = [x[0] for x in gs] if g.get("info") else gs
        gq, gt = g.get("iters", (120, 6000))
        glines = run_scenarios(gs, seed, gt if thorough else gq, "mixed", jobs)
        extra_groups.append((g, gs, ginfo, glines))
        lines = lines + glines
        scen = scen + gs
    execs = [l for l in lines if l.count(" | ") >= 3]
    done = [l for l in lines if " | done " in l]
    total_schedules = sum(int(re.search(r"iterations=(\d+)", l).group(1)) for l in done)
    main_ids = {x.split()[1] for x in scen} - {x.split()[1] for g in extra_groups for x in g[1]}
    co = cosim(cfg["model"], [l for l in execs if l.split(" | ")[0] in main_ids], jobs) if cfg.get("model") else {}
    for g, gs, ginfo, glines in extra_groups:
        if g.get("model"):        # a `more` group with its own LTS is co-simulated too
            co.update(cosim(g["model"], [l for l in glines if l.count(" | ") >= 3], jobs))
    by_id = {s.split()[1]: s for s in scen}
    oracle_fail, rejects, bad_status = [], [], []
    steps = 0
    for l in execs:
        sid, meta, status, detail, payload = parse_exec(l)
        if status != "ok":
            bad_status.append((l, "execution ended with %s %s" % (status, detail)))
            continue
        grp = next((g for g in extra_groups if sid in {x.split()[1] for x in g[1]}), None)
        if grp is not None:
            msg = grp[0]["oracle"](payload, grp[2].get(sid)) if grp[0].get("info") else grp[0]["oracle"](payload)
            if msg:
                oracle_fail.append((l, msg))
            if grp[0].get("model"):
                c = co.get(l, "")
                if " REJECT " in c or not c:
                    rejects.append((l, c or "no answer from rxmodel cosim %s" % grp[0]["model"]))
                else:
                    m = re.search(r"steps=(\d+)", c)
                    steps += int(m.group(1)) if m else 0
            continue
        msg = cfg["oracle"](payload, info.get(sid)) if cfg.get("info") else cfg["oracle"](payload)
        if msg:
            oracle_fail.append((l, msg))
        c = co.get(l, "")
        if " REJECT " in c:
            rejects.append((l, c))
        elif cfg.get("model") == "queue" and not msg:
            ms = re.search(r"started=\[([^\]]*)\]", c)
            impl_started = [x.split("taskStart")[1] for x in payload.split(" ; ")[1].split() if "taskStart" in x]
            model_started = [x.strip() for x in ms.group(1).split(",") if x.strip()] if ms else None
            if model_started is not None and impl_started != model_started:
                oracle_fail.append((l, "tasks started in the order %s, FIFO order of the pushes is %s" % (impl_started, model_started)))
        else:
            m = re.search(r"steps=(\d+)", c)
            steps += int(m.group(1)) if m else payload.count(";") + 1
    known = [k for k in load_known() if k["property"] == prop]
    def report(l, what, suffix=""):
        sid, meta, status, detail, payload = parse_exec(l)
        grp_ = next((g for g in extra_groups if sid in {x.split()[1] for x in g[1]}), None)
        inf = (grp_[2].get(sid) if grp_ is not None else info.get(sid)) if (grp_ is not None or cfg.get("info")) else None
        path = write_replay(prop, {"scenario": by_id.get(sid, sid), "seed": int(meta.get("seed", 0)), "strategy": meta.get("strat", "random"),
                                   "what": what, "info": inf, "record": l[:6000]})
        violations.append((path, suffix))
    seen_what = set()
    printed_known = set()
    for l, msg in (bad_status + oracle_fail)[:200]:
        key = re.sub(r"\d+", "#", msg)[:80]
        if key in seen_what and not any(k.get("clause") and k["clause"] in msg for k in known):
            continue
        seen_what.add(key)
        k = next((k for k in known if k.get("clause") and k["clause"] in msg and known_applies(k, l)), None)
        if k:
            if k["id"] not in printed_known:
                printed_known.add(k["id"])
                print("KNOWN-FINDING: property=%s %s" % (prop, k["what"]))
            continue
        report(l, msg)
    dflt = None
    if prop == "C08":
        # last clause of C08: the default scheduler runs the task synchronously in post (sequential harness + model A)
        dflt = default_scheduler_supplement()
        for case_text, what, suffix in dflt["violations"]:
            path = write_replay(prop, {"case": case_text, "what": what})
            violations.append((path, suffix))
    if rejects and not violations:
        l, c = rejects[0]
        report(l, "correspondence %s no longer checks: %s" % (cfg["corr"], c), " no-failing-input-found")
    if not pr.ok and not violations:
        path = write_replay(prop, {"broken": "theorem / audit: " + pr.error})
        violations.append((path, " no-failing-input-found"))
    for path, suffix in violations:
        print("VIOLATION property=%s replay=%s%s" % (prop, path, suffix))
    nontrivial = len({parse_exec(l)[4] for l in execs if parse_exec(l)[2] == "ok"})
    write_evidence(prop, tier, seed, pr, total_schedules, nontrivial, scen[:4] + [execs[0][:400]] if execs else scen[:4],
                   time.time() - t0, len(violations), notes,
                   extra={"scenarios": len(scen), "schedules_explored": total_schedules, "distinct_executions": len(execs),
                          "traces_validated_against_impl": len(execs) - len(rejects), "cosimulated_steps": steps,
                          "cosimulation_rejects": len(rejects), "oracle_failures": len(oracle_fail), "abnormal_executions": len(bad_status),
                          **({"default_scheduler_cases": dflt["cases"], "default_scheduler_rule": dflt["rule"]} if dflt else {}),
                          "rule_conc": "each scenario is executed under `iterations` seeded shuttle schedules (random and PCT); distinct = distinct "
                                       "label trace; every distinct trace is replayed through the Lean LTS (`rxmodel cosim`) and judged by the oracle"})
    print("%s %s: %d scenarios, %d schedules, %d distinct executions, %d co-simulation rejects, %d oracle failures, %d abnormal, %d violations, %.1fs" %
          (prop, tier, len(scen), total_schedules, len(execs), len(rejects), len(oracle_fail), len(bad_status), len(violations), time.time() - t0))
    return 1 if violations else 0


def default_scheduler_supplement():
    """C08, last clause ("the default scheduler runs the task synchronously in post"), decided on the SEQUENTIAL harness:
    `(dpost n)` posts n tasks to a default scheduler; each task records whether it runs on the posting thread, and the
    poster records the return of `post`.  Oracle: for every i the record `x(100+i):1` (ran, on the posting thread) is
    immediately followed by `x(100+i):2` (post returned), in posting order.  Correspondence: model A (`dPost task = task`,
    Machine/Lib.lean) gives the same line, and so do the scheduler-based sources / operators over the default scheduler."""
    out = {"violations": [], "cases": 0, "rule": "dpost 0..4: x(100+i):1 directly followed by x(100+i):2, in order; the line equals model A's; "
           "interval / timer / observe_on / subscribe_on over the default scheduler deliver inside subscribe exactly what model A delivers"}
    try:
        run.build_harness("seq")
    except run.BuildError as e:
        out["violations"].append(("(build)", "correspondence build (sequential harness): " + e.what, " no-failing-input-found"))
        return out
    cases = ["(case C08-d%d (dpost %d))" % (n, n) for n in range(5)]
    pipes = ["(timer_d)", "(take 3 (interval_d))", "(observe_on_d (from_iter 1 2 3))", "(subscribe_on_d (from_iter 1 2 3))", "(observe_on_d (error 5))",
             "(take 2 (observe_on_d (subscribe_on_d (interval_d))))", "(subscribe_on_d (observe_on_d (cold 0 (n 1) (e 6))))", "(first (subscribe_on_d (repeat 4)))",
             "(observe_on_d (merge (timer_d) (take 2 (interval_d))))", "(concat (take 2 (interval_d)) (timer_d))"]
    cases += ["(case C08-dp%d (dpost 1) (sub %s (react)) (dpost 2))" % (i, p) for i, p in enumerate(pipes)]
    impl = run.run_impl(cases, 1)
    model = run.run_model(cases, 1)
    out["cases"] = len(cases)
    for c, a, b in zip(cases, impl, model):
        recs = re.findall(r"\bx(\d+):(\d)", a)
        n_posts = sum(int(x) for x in re.findall(r"\(dpost (\d+)\)", c))
        bad = None
        if len(recs) != 2 * n_posts:
            bad = "a task posted to the default scheduler did not run exactly once inside post"
        for j in range(0, len(recs) - 1, 2):
            if not (recs[j][0] == recs[j + 1][0] and recs[j][1] == "1" and recs[j + 1][1] == "2"):
                bad = "the default scheduler did not run the task synchronously on the posting thread before post returned"
        if "st=ok" not in a.split(" | ")[-1]:
            bad = "the case did not finish: " + a.split(" | ")[-1][-40:]
        if bad:
            out["violations"].append((c, bad + ": " + a, ""))
        elif a != b:
            out["violations"].append((c, "correspondence Machine(model A, default scheduler) vs implementation no longer checks: impl `%s` model `%s`" % (a, b),
                                      " no-failing-input-found"))
    return out


def scen_reentrant_threads(rng, n):
    """C07: callbacks that re-enter the library ON A WORKER THREAD: the subscriber of a scheduler / timer operator pushes
    into (or completes, or unsubscribes from) the hot subject that feeds that operator; the callback runs on the
    operator's own thread, which must not hold any of the operator's locks while it calls downstream"""
    out = []
    i = 0
    ops = ["(debounce 10 (ref a))", "(sample (ref a) (interval 10))", "(delay 4 (ref a))", "(timeout 50 (ref a))", "(observe_on (ref a))",
           "(observe_on (map inc (ref a)))", "(subscribe_on (ref a))", "(observe_on (scan add (ref a)))", "(take 3 (debounce 10 (ref a)))",
           "(merge (interval 10) (observe_on (ref a)))", "(zip (observe_on (ref a)) (interval 7))", "(take_until (observe_on (ref a)) (timer 60))"]
    reacts = ["(0 (hnext a 9))", "(0 (hnext a 9)) (1 (hnext a 8))", "(1 (hcomplete a))", "(0 unsub)", "(1 (herror a 6))"]
    for op in ops:
        for r in reacts:
            out.append("(conc C07-wre-%d (pipe (subject a plain) (sub %s (react %s)) (drive a (3 (n 1)) (30 (n 2)) (30 (n 3))) (unsub-after 0 150)))" % (i, op, r)); i += 1
    return out


def lockorder_supplement(tier, seed, jobs):
    """C07, cross-thread part: every scenario family of the concurrent checks is executed under seeded schedules;
    per execution the harness derives the lock-order relation (lock held -> lock acquired, lock instances) and a rank
    certificate; verdicts other than `ok` (a thread re-acquired a lock it holds; a cycle) and executions that shuttle
    ended as deadlock / step-limit are failures; a sample of certificates (the first distinct executions of every
    scenario) is re-checked by the verified checker Rx.LockOrder.checkTrace (`rxmodel lockrank`)."""
    build()
    rng = random.Random(seed * 7919 + 7)
    thorough = tier == "thorough"
    scen = []
    for f in (scen_obs, scen_tovec, scen_queue, scen_handoff, scen_merge, scen_threads, scen_ties, scen_time, scen_subjects, scen_race, scen_reentrant_threads):
        for x in f(rng, 20 if thorough else 4):
            scen.append(x[0] if isinstance(x, tuple) else x)
    scen = [re.sub(r"^\(conc (\S+)", lambda m: "(conc C07-%d-%s" % (i, m.group(1)), s_) for i, s_ in enumerate(scen)]
    iters = 600 if thorough else 100
    chunks = [scen[i::jobs] for i in range(jobs) if scen[i::jobs]]
    def work(chunk):
        env = dict(os.environ); env["RXH_LOCKCERT"] = "3"
        try:
            p = subprocess.run([RXH_CONC, str(seed), str(iters), "mixed"], input="\n".join(chunk) + "\n", stdout=subprocess.PIPE,
                               stderr=subprocess.DEVNULL, text=True, timeout=(3000 if thorough else 400), env=env)
            return p.stdout.split("\n")
        except subprocess.TimeoutExpired:
            return ["%s | seed=0 n=0 strat=mixed | out=timeout  | " % c.split()[1] for c in chunk]
    lines = []
    with cf.ThreadPoolExecutor(max_workers=jobs) as ex:
        for r in ex.map(work, chunks):
            lines += r
    certs = [l for l in lines if l.startswith("LOCKCERT ")]
    execs = [l for l in lines if l.count(" | ") >= 3 and not l.startswith("LOCKCERT ")]
    done = [l for l in lines if " | done " in l]
    schedules = sum(int(re.search(r"iterations=(\d+)", l).group(1)) for l in done)
    by_id = {x.split()[1]: x for x in scen}
    failures = []
    for l in execs:
        sid, meta, status, detail, payload = parse_exec(l)
        lo = re.match(r"lo=(\S+)", detail)
        if status in ("deadlock", "selfdeadlock", "steps", "timeout"):
            failures.append((l, by_id.get(sid, sid), "execution ended with %s %s" % (status, detail[:200])))
        elif lo and lo.group(1) != "ok":
            failures.append((l, by_id.get(sid, sid), "lock order: %s" % lo.group(1)))
    out = run.run_lines(run.RXMODEL, ["lockrank"], certs, jobs) if certs else []
    cert_fail = [(c[:300], o) for c, o in zip(certs, out) if " OK " not in o]
    events = sum(int(m.group(1)) for o in out for m in [re.search(r"events=(\d+)", o)] if m)
    return dict(scenarios=len(scen), schedules=schedules, executions=len(execs), failures=failures, certificates=len(certs),
                certificate_failures=cert_fail, lock_events_checked=events)


def scen_release(rng, n):
    """C17, concurrent part: a subscription through thread-creating operators ends while items are still in flight
    (queued in a scheduler, latched by a timer operator, held by a slow consumer); afterwards every handle is dropped"""
    out = []
    i = 0
    srcs = ["(from_iter 1 2 3 4 5 6)", "(tsrc 0 (0 (n 1)) (0 (n 2)) (0 (n 3)) (0 (n 4)) (0 c))", "(tsrc 0 (1 (n 1)) (1 (n 2)) (1 (n 3)) (1 (e 5)))",
            "(slow 0 (2 (n 1)) (2 (n 2)) (2 (n 3)) (2 c))"]
    wraps = ["(observe_on %s)", "(map inc (observe_on %s))", "(observe_on (observe_on %s))", "(subscribe_on %s)", "(observe_on (subscribe_on %s))",
             "(delay 3 %s)", "(debounce 4 %s)", "(timeout 50 %s)", "(observe_on (scan add %s))", "(take_last 2 (observe_on %s))",
             "(buffer_with_count 2 (observe_on %s))"]
    for w in wraps:
        for sc in srcs:
            p = w % sc
            # a slow consumer: the first callback blocks for 20 ms, so the rest is queued / in flight when the subscription ends
            out.append("(conc C17-rel-%d (pipe (sub %s (react (0 (sleep 20)))) (unsub-after 0 5)))" % (i, p)); i += 1
            out.append("(conc C17-rel-%d (pipe (sub (take 1 %s) (react (0 (sleep 20))))))" % (i, p)); i += 1
            out.append("(conc C17-rel-%d (pipe (sub %s (react (0 (sleep 20))))))" % (i, p)); i += 1
            out.append("(conc C17-rel-%d (pipe (sub %s (react (1 unsub)))))" % (i, p)); i += 1
    # an INNER subscription through a scheduler / timer operator is being made on the source's thread (flat_map) at the
    # very instant at which another thread ends the outer subscription
    for inner in ("(subscribe_on (map inc (from_iter 7 8)))", "(observe_on (map inc (from_iter 7 8)))", "(delay 3 (map inc (from_iter 7 8)))",
                  "(subscribe_on (observe_on (from_iter 7 8)))", "(debounce 4 (map inc (from_iter 7 8)))"):
        for t in (5, 10):
            out.append("(conc C17-rel-%d (pipe (def x %s) (sub (flat_map (fm_ref x) (tsrc 0 (5 (n 0)) (5 (n 0)))) (react)) (unsub-after 0 %d)))" % (i, inner, t)); i += 1
    for mk in ("(interval 10)", "(timer 15)", "(sample (tsrc 0 (3 (n 1)) (3 (n 2)) (25 (n 3))) (interval 10))", "(merge (interval 10) (observe_on (from_iter 1 2 3)))",
               "(flat_map fm_two (observe_on (from_iter 1 2)))", "(zip (observe_on (from_iter 1 2 3)) (interval 5))"):
        out.append("(conc C17-rel-%d (pipe (sub %s (react (0 (sleep 12)))) (unsub-after 0 14)))" % (i, mk)); i += 1
        out.append("(conc C17-rel-%d (pipe (sub (take 2 %s) (react))))" % (i, mk)); i += 1
    return out


def oracle_release(payload):
    d = parse_pipe(payload)
    if d is None:
        return "malformed record"
    m = re.search(r"TOK:u=(-?\d+),o=(-?\d+),i=(-?\d+)@", payload)
    if not m:
        return "no token record"
    if d["threads"][0] != d["threads"][1]:
        return None     # a thread that never exits is C15's finding; what it still owns is not judged here
    u, o, it = (int(x) for x in m.groups())
    if u or o or it:
        return ("after every subscription ended, every thread exited and every handle was dropped the library still owns "
                "%d user callback(s), %d operator closure(s), %d item(s)" % (u, o, it))
    return None


def release_supplement(tier, seed, jobs):
    """C17, concurrent part: the pipelines of the C09 / C11 / C15 / C16 catalogues plus `scen_release` are executed under
    seeded schedules in virtual time; at quiescence every still-live subscription is ended, every handle dropped, and the
    live-token counters (user callbacks, operator closures, items) must all be zero."""
    build()
    rng = random.Random(seed * 7919 + 17)
    thorough = tier == "thorough"
    scen = list(scen_release(rng, 0))
    for f in (scen_handoff, scen_merge, scen_threads, scen_ties, scen_time):
        xs = [x[0] if isinstance(x, tuple) else x for x in f(rng, 20 if thorough else 4)]
        scen += xs if thorough else xs[::3]
    scen = [re.sub(r"^\(conc (\S+)", lambda m: "(conc C17c-%d-%s" % (i, m.group(1)), s_) for i, s_ in enumerate(scen)]
    iters = 400 if thorough else 40
    lines = run_scenarios(scen, seed, iters, "mixed", jobs)
    execs = [l for l in lines if l.count(" | ") >= 3]
    done = [l for l in lines if " | done " in l]
    schedules = sum(int(re.search(r"iterations=(\d+)", l).group(1)) for l in done)
    by_id = {x.split()[1]: x for x in scen}
    failures = []
    for l in execs:
        sid, meta, status, detail, payload = parse_exec(l)
        if status != "ok":
            continue        # deadlocks / step limits are C07's business
        msg = oracle_release(payload)
        if msg:
            failures.append((l, by_id.get(sid, sid), msg))
    return dict(scenarios=len(scen), schedules=schedules, executions=len(execs), failures=failures)


def scen_teardown(rng, n):
    """C06 through the THREAD-CREATING operators (they keep hooks, timers and controllers of their own): a hot source -
    a plain subject, or ref_count() / replay() over it - feeds timeout / debounce / delay / observe_on / subscribe_on /
    sample / take_until(timer); every subscription ends by itself (downstream has all it needs, an unsubscribe from another
    thread, the source's terminal); afterwards no subject may hold an observer and no probed source may be live"""
    ops = ["(timeout 20 %s)", "(debounce 5 %s)", "(delay 2 %s)", "(observe_on %s)", "(subscribe_on %s)", "(sample %s (interval 10))",
           "(take_until %s (timer 30))", "(timeout 20 (observe_on %s))", "(map inc (timeout 25 (map inc %s)))", "(debounce 5 (timeout 20 %s))"]
    srcs = [("", "(ref a)"), ("(conn x ref_count (ref a))", "(ref x)"), ("(conn x replay (ref a))", "(ref x)"),
            ("(conn x ref_count (map inc (ref a)))", "(map inc (ref x))")]
    out = []
    for op in ops:
        for conn, src in srcs:
            p = op % src
            body = "(subject a plain) %s" % conn
            out.append("(conc C06c-%d (pipe %s (sub (take 1 %s) (react)) (hnext a 1) (settle 30) (hnext a 2) (settle 40)))" % (len(out), body, p))
            out.append("(conc C06c-%d (pipe %s (sub %s (react)) (hnext a 1) (unsub-after 0 3) (settle 12) (hnext a 2) (settle 40)))" % (len(out), body, p))
            out.append("(conc C06c-%d (pipe %s (sub %s (react)) (hnext a 1) (settle 8) (herror a 6) (settle 40)))" % (len(out), body, p))
            out.append("(conc C06c-%d (pipe %s (sub %s (react)) (sub (take 1 %s) (react)) (hnext a 1) (unsub-after 0 3) (settle 30) (hnext a 2) (settle 40)))" % (len(out), body, p, p))
    return out


def oracle_teardown(payload):
    d = parse_pipe(payload)
    if d is None:
        return "malformed record"
    m = re.search(r"S=(\S*) L=(\S*) O=(\S*) st=(\w+)", d["final"])
    if not m:
        return None         # no final observation (the scenario was cut): nothing to judge
    subs, live, counts, st = m.groups()
    if st != "ok":
        return None
    if "T" in live:
        return "after every subscription ended a source still sees is_subscribed()==true (L=%s)" % live
    if any(c not in ("", "0") for c in counts.split(",")):
        return "after every subscription ended a subject still holds an observer (observer counts O=%s)" % counts
    return None


def teardown_supplement(tier, seed, jobs):
    """C06, concurrent part: `scen_teardown` under seeded schedules in virtual time, judged by `oracle_teardown` on the
    final observation (taken after quiescence; every subscription of these scenarios ends by itself)."""
    build()
    rng = random.Random(seed * 7919 + 6)
    thorough = tier == "thorough"
    scen = scen_teardown(rng, 0)
    iters = 300 if thorough else 24
    lines = run_scenarios(scen, seed, iters, "mixed", jobs)
    execs = [l for l in lines if l.count(" | ") >= 3]
    done = [l for l in lines if " | done " in l]
    schedules = sum(int(re.search(r"iterations=(\d+)", l).group(1)) for l in done)
    by_id = {x.split()[1]: x for x in scen}
    failures = []
    for l in execs:
        sid, meta, status, detail, payload = parse_exec(l)
        if status != "ok":
            continue        # deadlocks / step limits are C07's business
        msg = oracle_teardown(payload)
        if msg:
            failures.append((l, by_id.get(sid, sid), msg))
    return dict(scenarios=len(scen), schedules=schedules, executions=len(execs), failures=failures)


def replay(prop, r, path):
    build()
    sc = r.get("scenario")
    if not sc:
        print("replay names a broken obligation: %s" % r.get("broken"))
        return 1
    env = dict(os.environ)
    if prop == "C07":
        env["RXH_LOCKCERT"] = "3"
    p = subprocess.run([RXH_CONC, "exact", str(r.get("seed", 0)), r.get("strategy", "random")], input=sc + "\n",
                       stdout=subprocess.PIPE, text=True, env=env)
    out = p.stdout
    print(out[:3000])
    cfg = CONC.get(prop)
    if r.get("supplement") == "release":
        cfg = dict(model=None, oracle=oracle_release)
    if r.get("supplement") == "teardown":
        cfg = dict(model=None, oracle=oracle_teardown)
    if prop == "C07":
        def lock_oracle(payload, _detail=[None]):
            return None
        cfg = dict(model=None, oracle=lock_oracle)
    grp = next((g for g in (cfg or {}).get("more", []) if g.get("kind") and " (%s " % g["kind"] in sc), None)
    if grp is not None:
        cfg = dict(model=grp.get("model"), oracle=grp["oracle"], info=grp.get("info"))
    bad = False
    info = r.get("info")
    if isinstance(info, list):
        info = tuple(info)
    for l in out.split("\n"):
        if l.count(" | ") >= 3:
            sid, meta, status, detail, payload = parse_exec(l)
            msg = None
            if cfg:
                msg = cfg["oracle"](payload, info) if cfg.get("info") else cfg["oracle"](payload)
            lo = re.match(r"lo=(\S+)", detail)
            if prop == "C07" and lo and lo.group(1) != "ok":
                msg = "lock order: %s" % lo.group(1)
            if status != "ok" or msg:
                print("oracle:", msg or status)
                bad = True
            if cfg and cfg.get("model"):
                c = cosim(cfg["model"], [l], 1).get(l, "")
                print("co-simulation:", c[:400])
                if " REJECT " in c:
                    bad = True
    if bad:
        print("VIOLATION property=%s replay=%s" % (prop, path))
        return 1
    print("no longer fails")
    return 0
