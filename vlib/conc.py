"""Concurrent properties: scenarios run on the shuttle-instrumented copy of /repo under seeded schedules
(harness/conc); every distinct execution is (a) co-simulated by the property's Lean LTS where one
exists and (b) judged by the property's oracle on the recorded events."""
import os, re, subprocess, time, json, random, concurrent.futures as cf
from . import run, proof

RXH_CONC = os.path.join(run.BUILD, "target-conc", "debug", "rxh-conc")


def build():
    run.build_lean(["rxmodel"])
    run.build_harness("conc")


def run_scenarios(lines, seed, iters, strategy="mixed", jobs=16, timeout=3000):
    """returns list of output lines (all scenarios)"""
    if not lines:
        return []
    jobs = max(1, min(jobs, len(lines)))
    chunks = [lines[i::jobs] for i in range(jobs)]
    def work(chunk):
        try:
            p = subprocess.run([RXH_CONC, str(seed), str(iters), strategy], input="\n".join(chunk) + "\n", stdout=subprocess.PIPE,
                               stderr=subprocess.DEVNULL, text=True, timeout=timeout)
            return p.stdout.split("\n")
        except subprocess.TimeoutExpired:
            return ["%s | seed=0 n=0 strat=%s | out=timeout  | " % (c.split()[1], strategy) for c in chunk]
    with cf.ThreadPoolExecutor(max_workers=jobs) as ex:
        res = list(ex.map(work, chunks))
    return [l for r in res for l in r if l.strip()]


def cosim(model, lines, jobs=8):
    execs = [l for l in lines if l.count(" | ") >= 3]
    if not execs:
        return {}
    out = run.run_lines(run.RXMODEL, ["cosim", model], execs, jobs)
    res = {}
    for l, o in zip(execs, out):
        res[l] = o
    return res


def parse_exec(line):
    parts = line.split(" | ")
    sid = parts[0]
    meta = dict(kv.split("=", 1) for kv in parts[1].split() if "=" in kv)
    status = parts[2].split()[0].split("=", 1)[1] if parts[2].startswith("out=") else "?"
    detail = parts[2][len("out=" + status):].strip()
    payload = " | ".join(parts[3:])
    return sid, meta, status, detail, payload


# ---- scenarios ----------------------------------------------------------------------------------

def scen_obs(rng, n):
    out = []
    base = [
        [["(next 1)", "complete"], ["(error 5)"], ["unsubscribe", "isSubscribed"]],
        [["(error 5)"], ["complete"]],
        [["(error 5)"], ["complete"], ["(next 1)", "(next 2)"]],
        [["(next 1)", "(next 2)", "complete"], ["unsubscribe"]],
        [["complete", "(next 3)"], ["(error 6)", "(next 4)"], ["isSubscribed", "isSubscribed"]],
        [["unsubscribe"], ["unsubscribe"], ["(next 1)"]],
        [["(next 1)"], ["(next 2)"], ["complete", "isSubscribed"]],
    ]
    ops = ["(next 1)", "(next 2)", "(error 5)", "complete", "unsubscribe", "isSubscribed"]
    for i in range(n):
        nt = rng.choice([2, 2, 3, 3, 4])
        base.append([[rng.choice(ops) for _ in range(rng.randint(1, 3))] for _ in range(nt)])
    for i, ths in enumerate(base):
        out.append("(conc C19-obs-%d (obs %s))" % (i, " ".join("(thread %s)" % " ".join(t) for t in ths)))
    return out


def scen_tovec(rng, n):
    scripts = ["c", "e3", "1 c", "1 2 c", "1 2 3 c", "7 e3", "1 2 e4", "1", "", "1 2"]
    for _ in range(n):
        items = [str(rng.randint(0, 3)) for _ in range(rng.randint(0, 4))]
        end = rng.choice(["c", "c", "e5", ""])
        scripts.append(" ".join(items + ([end] if end else [])))
    return ["(conc C18-tovec-%d (tovec %s))" % (i, s) for i, s in enumerate(dict.fromkeys(scripts))]


# ---- oracles on recorded executions ----------------------------------------------------------------

def oracle_obs(payload):
    """C19 + concurrent C05 on a label trace of the Observer scenario"""
    labels = payload.split(" ; ", 1)[1].split(";") if " ; " in payload else []
    term_starts = 0
    term_returned_at = None
    unsub_returned_at = None
    call_start = {}     # tid -> index of its current call start, op
    for i, l in enumerate(labels):
        t = l.split()
        if len(t) < 2:
            continue
        tid, kind = t[0], t[1]
        if kind == "callStart":
            call_start[tid] = (i, t[2])
        elif kind == "cbStart":
            cs = call_start.get(tid, (0, "?"))[0]
            if t[2] in ("error", "complete"):
                term_starts += 1
                if term_starts > 1:
                    return "two terminal callbacks started"
                if unsub_returned_at is not None and cs > unsub_returned_at:
                    return "terminal callback for a call that started after unsubscribe returned"
            if t[2] == "next":
                if term_returned_at is not None and cs > term_returned_at:
                    return "next callback for a call that started after the terminal callback returned"
                if unsub_returned_at is not None and cs > unsub_returned_at:
                    return "next callback for a call that started after unsubscribe returned"
        elif kind == "cbReturn" and t[2] in ("error", "complete"):
            term_returned_at = i
        elif kind == "callReturn":
            op = call_start.get(tid, (0, "?"))[1]
            if op == "unsubscribe" and unsub_returned_at is None:
                unsub_returned_at = i
    return None


def oracle_tovec(payload):
    m = re.match(r"script=(.*?) ; (result .*?|none) ; ", payload + " ")
    if not m:
        return "malformed record"
    script, res = m.group(1).split(), m.group(2)
    items = [x for x in script if re.fullmatch(r"-?\d+", x)]
    term = script[-1] if script and not re.fullmatch(r"-?\d+", script[-1]) else None
    if term == "c":
        want = "Ok[%s]" % ",".join(items)
    elif term and term.startswith("e"):
        want = "Err(%s)" % term[1:]
    else:
        want = None
    if want is None:
        if res.startswith("result") and "GAVE-UP" not in res:
            return "future became ready although the source never terminated: " + res
        return None
    if not res.startswith("result " + want + " "):
        return "future yielded %s, expected %s" % (res, want)
    return None


CONC = {
    "C19": dict(model="obs", scen=scen_obs, oracle=oracle_obs, corr="Conc.Observer (lean/RxVerif/Conc/Observer.lean) vs src/observer.rs + src/internals/function_wrapper.rs"),
    "C18": dict(model="tovec", scen=scen_tovec, oracle=oracle_tovec, corr="Conc.ToVec (lean/RxVerif/Conc/ToVec.lean) vs src/operators/to_vec.rs"),
}


def run_conc(prop, tier, seed, jobs, write_evidence, write_replay, load_known):
    t0 = time.time()
    cfg = CONC.get(prop)
    if cfg is None:
        print("property %s has no check" % prop)
        return 2
    pr = proof.check(prop, tier)
    notes = []
    violations = []
    if not pr.ok:
        notes.append("proof step failed: " + pr.error)
    try:
        build()
    except run.BuildError as e:
        path = write_replay(prop, {"broken": "correspondence build: " + e.what, "log": e.log[-4000:]})
        print("VIOLATION property=%s replay=%s no-failing-input-found" % (prop, path))
        write_evidence(prop, tier, seed, pr, 0, 0, [], time.time() - t0, 1, notes + ["build failed: " + e.what])
        return 1
    rng = random.Random(seed * 7919 + int(prop[1:]))
    thorough = tier == "thorough"
    scen = cfg["scen"](rng, 60 if thorough else 12)
    iters = 5000 if thorough else 300
    lines = run_scenarios(scen, seed, iters, "mixed", jobs)
    execs = [l for l in lines if l.count(" | ") >= 3]
    done = [l for l in lines if " | done " in l]
    total_schedules = sum(int(re.search(r"iterations=(\d+)", l).group(1)) for l in done)
    co = cosim(cfg["model"], execs, jobs) if cfg.get("model") else {}
    by_id = {s.split()[1]: s for s in scen}
    oracle_fail, rejects, bad_status = [], [], []
    steps = 0
    for l in execs:
        sid, meta, status, detail, payload = parse_exec(l)
        if status != "ok":
            bad_status.append((l, "execution ended with %s %s" % (status, detail)))
            continue
        msg = cfg["oracle"](payload)
        if msg:
            oracle_fail.append((l, msg))
        c = co.get(l, "")
        if " REJECT " in c:
            rejects.append((l, c))
        else:
            m = re.search(r"steps=(\d+)", c)
            steps += int(m.group(1)) if m else payload.count(";") + 1
    known = [k for k in load_known() if k["property"] == prop]
    def report(l, what, suffix=""):
        sid, meta, status, detail, payload = parse_exec(l)
        path = write_replay(prop, {"scenario": by_id.get(sid, sid), "seed": int(meta.get("seed", 0)), "strategy": meta.get("strat", "random"),
                                   "what": what, "record": l[:6000]})
        violations.append((path, suffix))
    seen_what = set()
    for l, msg in (bad_status + oracle_fail)[:50]:
        key = re.sub(r"\d+", "#", msg)[:80]
        if key in seen_what:
            continue
        seen_what.add(key)
        k = next((k for k in known if k.get("clause") and k["clause"] in msg), None)
        if k:
            print("KNOWN-FINDING: property=%s %s" % (prop, k["what"]))
            continue
        report(l, msg)
    if rejects and not violations:
        l, c = rejects[0]
        report(l, "correspondence %s no longer checks: %s" % (cfg["corr"], c), " no-failing-input-found")
    if not pr.ok and not violations:
        path = write_replay(prop, {"broken": "theorem / audit: " + pr.error})
        violations.append((path, " no-failing-input-found"))
    for path, suffix in violations:
        print("VIOLATION property=%s replay=%s%s" % (prop, path, suffix))
    nontrivial = len({parse_exec(l)[4] for l in execs if parse_exec(l)[2] == "ok"})
    write_evidence(prop, tier, seed, pr, total_schedules, nontrivial, scen[:4] + [execs[0][:400]] if execs else scen[:4],
                   time.time() - t0, len(violations), notes,
                   extra={"scenarios": len(scen), "schedules_explored": total_schedules, "distinct_executions": len(execs),
                          "traces_validated_against_impl": len(execs) - len(rejects), "cosimulated_steps": steps,
                          "cosimulation_rejects": len(rejects), "oracle_failures": len(oracle_fail), "abnormal_executions": len(bad_status),
                          "rule_conc": "each scenario is executed under `iterations` seeded shuttle schedules (random and PCT); distinct = distinct "
                                       "label trace; every distinct trace is replayed through the Lean LTS (`rxmodel cosim`) and judged by the oracle"})
    print("%s %s: %d scenarios, %d schedules, %d distinct executions, %d co-simulation rejects, %d oracle failures, %d abnormal, %d violations, %.1fs" %
          (prop, tier, len(scen), total_schedules, len(execs), len(rejects), len(oracle_fail), len(bad_status), len(violations), time.time() - t0))
    return 1 if violations else 0


def replay(prop, r, path):
    build()
    sc = r.get("scenario")
    if not sc:
        print("replay names a broken obligation: %s" % r.get("broken"))
        return 1
    p = subprocess.run([RXH_CONC, "exact", str(r.get("seed", 0)), r.get("strategy", "random")], input=sc + "\n",
                       stdout=subprocess.PIPE, text=True)
    out = p.stdout
    print(out[:3000])
    cfg = CONC.get(prop)
    bad = False
    for l in out.split("\n"):
        if l.count(" | ") >= 3:
            sid, meta, status, detail, payload = parse_exec(l)
            if status != "ok" or (cfg and cfg["oracle"](payload)):
                bad = True
            if cfg and cfg.get("model"):
                c = cosim(cfg["model"], [l], 1).get(l, "")
                print("co-simulation:", c[:400])
                if " REJECT " in c:
                    bad = True
    if bad:
        print("VIOLATION property=%s replay=%s" % (prop, path))
        return 1
    print("no longer fails")
    return 0
