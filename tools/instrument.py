#!/usr/bin/env python3
"""Build the instrumented copy of /repo's current working tree under /verif/build/rx[-conc].

add-only instrumentation, nothing in /repo is touched:
  * every `std::` path in src/**/*.rs is textually redirected to `crate::verif_std::`
  * the facade module (harness/facade/facade_<mode>.rs) is appended to lib.rs
  * read-only accessors `verif_observer_count()` are appended to the subject / connectable files
Prints the destination directory.  Exit status != 0 if the copy cannot be produced.
"""
import os, re, shutil, sys, hashlib

REPO = os.environ.get("VERIF_REPO", "/repo")
ROOT = os.path.dirname(os.path.dirname(os.path.abspath(__file__)))

ACCESSORS = {
    "observable.rs": """
impl<'a, Item> Observable<'a, Item> where Item: Clone + Send + Sync {
  /// `inner_subscribe` with a caller-made Observer (co-simulation of the subject LTSs: the harness keeps the handle)
  pub fn verif_inner_subscribe(&self, observer: Observer<'a, Item>) -> Subscription<'a> { self.inner_subscribe(observer) }
}
""",
    "subjects/subject.rs": """
impl<'a, Item> Subject<'a, Item> where Item: Clone + Send + Sync {
  pub fn verif_observer_count(&self) -> usize { self.observers.read().unwrap().len() }
}
""",
    "subjects/behavior_subject.rs": """
impl<'a, Item> BehaviorSubject<'a, Item> where Item: Clone + Send + Sync {
  pub fn verif_observer_count(&self) -> usize { self.subject.verif_observer_count() }
}
""",
    "subjects/replay_subject.rs": """
impl<'a, Item> ReplaySubject<'a, Item> where Item: Clone + Send + Sync {
  pub fn verif_observer_count(&self) -> usize { self.subject.verif_observer_count() }
}
""",
    "subjects/async_subject.rs": """
impl<'a, Item> AsyncSubject<'a, Item> where Item: Clone + Send + Sync {
  pub fn verif_observer_count(&self) -> usize { self.subject.verif_observer_count() }
}
""",
    "operators/publish.rs": """
impl<'a, Item> Publish<'a, Item> where Item: Clone + Send + Sync {
  pub fn verif_observer_count(&self) -> usize { self.sbj.verif_observer_count() }
}
""",
    "operators/ref_count.rs": """
impl<'a, Item> RefCount<'a, Item> where Item: Clone + Send + Sync {
  pub fn verif_observer_count(&self) -> usize { self.subject.verif_observer_count() }
}
""",
    "operators/replay.rs": """
impl<'a, Item> Replay<'a, Item> where Item: Clone + Send + Sync {
  pub fn verif_observer_count(&self) -> usize { self.subject.verif_observer_count() }
}
""",
}

def strip_tests(text):
    """drop `#[cfg(test)] mod …` / `#[cfg(all(test…))] mod …` blocks (they need dev-dependencies)"""
    out = []
    lines = text.split("\n")
    i = 0
    while i < len(lines):
        l = lines[i]
        if re.match(r"\s*#\[cfg\((all\()?test", l) and i + 1 < len(lines) and re.match(r"\s*(pub\s+)?mod\s+\w+\s*(\{|;)", lines[i + 1]):
            if lines[i + 1].rstrip().endswith(";"):
                i += 2
                continue
            depth = 0
            j = i + 1
            started = False
            while j < len(lines):
                depth += lines[j].count("{") - lines[j].count("}")
                if "{" in lines[j]:
                    started = True
                j += 1
                if started and depth <= 0:
                    break
            i = j
            continue
        out.append(l)
        i += 1
    return "\n".join(out)

def main():
    mode = sys.argv[1] if len(sys.argv) > 1 else "seq"
    dst = os.path.join(ROOT, "build", "rx-" + mode)
    tmp = dst + ".new"
    shutil.rmtree(tmp, ignore_errors=True)
    os.makedirs(tmp)
    shutil.copytree(os.path.join(REPO, "src"), os.path.join(tmp, "src"))
    shutil.copy(os.path.join(REPO, "README.md"), tmp)
    shutil.rmtree(os.path.join(tmp, "src", "tests"), ignore_errors=True)
    for d, _, files in os.walk(os.path.join(tmp, "src")):
        for f in files:
            if not f.endswith(".rs"):
                continue
            p = os.path.join(d, f)
            rel = os.path.relpath(p, os.path.join(tmp, "src"))
            t = open(p).read()
            t = strip_tests(t)
            t = re.sub(r"(?<![\w:])std::", "crate::verif_std::", t)
            if rel in ACCESSORS:
                t += ACCESSORS[rel]
            if rel == "lib.rs":
                t += "\n" + open(os.path.join(ROOT, "harness", "facade", "facade_%s.rs" % mode)).read()
            open(p, "w").write(t)
    deps = ""
    if mode == "conc":
        deps = 'shuttle = "0.9.3"\n'
    open(os.path.join(tmp, "Cargo.toml"), "w").write(
        '[package]\nname = "another-rxrust"\nversion = "0.0.46"\nedition = "2021"\n\n[dependencies]\n' + deps + "\n[features]\nweb = []\n")
    # swap in only if content changed (keeps cargo's incremental build effective)
    def digest(root):
        h = hashlib.sha256()
        for d, _, files in sorted(os.walk(root)):
            for f in sorted(files):
                p = os.path.join(d, f)
                h.update(os.path.relpath(p, root).encode())
                h.update(open(p, "rb").read())
        return h.hexdigest()
    if os.path.isdir(dst) and digest(dst) == digest(tmp):
        shutil.rmtree(tmp)
    else:
        shutil.rmtree(dst, ignore_errors=True)
        os.rename(tmp, dst)
    print(dst)

if __name__ == "__main__":
    main()
