#!/usr/bin/env python3
"""prints the DESIGN §10.8 table from MANIFEST.json, evidence/*.json and seeded/*/meta.json"""
import json, glob, os, re
m = json.load(open("/verif/MANIFEST.json"))
caught = {}
for d in sorted(glob.glob("/verif/seeded/*")):
    mid = os.path.basename(d)
    if "superseded" in mid or "not-a-violation" in mid:
        continue
    try:
        meta = json.load(open(d + "/meta.json"))
    except Exception:
        continue
    cb = meta.get("caught_by", {})
    if isinstance(cb, str):                      # older records: free text naming the checks
        import re as _re
        cb = {k: "caught" for k in _re.findall(r"C\d\d", cb)}
    for k, v in cb.items():
        if str(v).startswith("caught"):
            caught.setdefault(k, []).append(mid)
print("| property | theorems audited | technique | cases / schedules per quick run | seeded mutations this check catches |")
print("|---|---|---|---|---|")
for c in m["checks"]:
    p = c["property_id"]
    try:
        e = json.load(open("/verif/evidence/%s.json" % p))
        ob = e["coverage"].get("obligations", "?")
        ev = e["coverage"].get("evaluations", "?")
    except Exception:
        ob, ev = "?", "?"
    ids = caught.get(p, [])
    print("| %s | %s | %s | %s | %d: %s |" % (p, ob, c.get("technique", ""), ev, len(ids), ", ".join(ids)))
