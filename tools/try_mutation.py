#!/usr/bin/env python3
"""usage: try_mutation.py <patch.diff> <Cxx> [<Cxx> ...] [--tier quick|thorough] [--seed N] [--base COMMIT]
--base COMMIT: the mutation was written against an earlier /repo commit (a later fix: touches the same lines):
the working tree's src/ is set to that commit first.
Applies the patch to /repo's working tree, runs the named checks, ALWAYS reverts the tree
(git -C /repo checkout -- .), and prints per check: caught / MISSED with the number of VIOLATION lines.
Refuses to run when /repo has uncommitted changes."""
import subprocess, sys, os, json

def main():
    args = sys.argv[1:]
    tier, seed = "quick", None
    if "--tier" in args:
        i = args.index("--tier"); tier = args[i + 1]; del args[i:i + 2]
    if "--seed" in args:
        i = args.index("--seed"); seed = args[i + 1]; del args[i:i + 2]
    base = None
    if "--base" in args:
        i = args.index("--base"); base = args[i + 1]; del args[i:i + 2]
    patch, checks = os.path.abspath(args[0]), args[1:]
    st = subprocess.run(["git", "-C", "/repo", "status", "--porcelain"], stdout=subprocess.PIPE, text=True).stdout.strip()
    if st:
        print("refusing: /repo has uncommitted changes:\n" + st); sys.exit(2)
    if base:
        subprocess.run(["git", "-C", "/repo", "checkout", base, "--", "src"], check=True)
    a = subprocess.run(["git", "-C", "/repo", "apply", patch])
    if a.returncode != 0:
        subprocess.run(["git", "-C", "/repo", "reset", "-q", "--hard", "HEAD"])
        print("patch does not apply"); sys.exit(2)
    res = {}
    # evidence files are rewritten by every check run; a run on a MUTATED tree must never replace the evidence of
    # the unchanged tree, so they are saved here and put back afterwards
    import shutil, tempfile
    evsave = tempfile.mkdtemp(prefix="evsave-")
    shutil.copytree("/verif/evidence", evsave + "/evidence")
    try:
        env = dict(os.environ)
        if seed:
            env["VERIF_SEED"] = seed
        for c in checks:
            p = subprocess.run(["/verif/check", c, "--tier", tier], stdout=subprocess.PIPE, stderr=subprocess.STDOUT, text=True, env=env, cwd="/verif")
            v = [l for l in p.stdout.split("\n") if l.startswith("VIOLATION")]
            res[c] = ("caught: %d VIOLATION lines" % len(v)) if (p.returncode == 1 and v) else ("MISSED (rc=%d)" % p.returncode)
            print(c, res[c]);
            for l in v[:3]:
                print("   ", l)
            if not v:
                print("   ", p.stdout.strip().split("\n")[-1][:300])
            sys.stdout.flush()
    finally:
        subprocess.run(["git", "-C", "/repo", "reset", "-q", "--hard", "HEAD"])
        shutil.rmtree("/verif/evidence", ignore_errors=True)
        shutil.copytree(evsave + "/evidence", "/verif/evidence")
        shutil.rmtree(evsave, ignore_errors=True)
    print(json.dumps(res))

main()
