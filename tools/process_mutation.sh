#!/bin/sh
# usage: process_mutation.sh <worktree> [extra checks...]   confirm a mutation agent's deliverable, then run the check of the
# property named in the first line of out/notes.md (plus any extra checks) against it
W="$1"; shift
/verif/tools/confirm_mutation.sh "$W" > "$W/confirm.log" 2>&1
echo "--- confirm:"; grep -v "^test .* ok$" "$W/confirm.txt" | tail -7
P=$(head -1 "$W/out/notes.md" | grep -o "C[0-9][0-9]" | head -1)
echo "--- property: $P"
cd /verif && python3 tools/try_mutation.py "$W/out/patch.diff" $P "$@" 2>&1 | tail -1
