#!/bin/sh
# usage: confirm_mutation.sh <worktree>   (worktree left by a mutation agent: change applied, tests/demo.rs present, out/patch.diff)
# confirms: with the change the existing suite passes and the demo fails; without it the demo passes.
W="$1"; cd "$W" || exit 2
export CARGO_NET_OFFLINE=true
R="$W/confirm.txt"; : > "$R"
git checkout -q -- src 2>/dev/null; git apply out/patch.diff || { echo "patch does not apply" >> "$R"; exit 1; }
cp out/demo.rs tests/demo.rs 2>/dev/null || { mkdir -p tests; cp out/demo.rs tests/demo.rs; }
cargo test --offline --lib 2>&1 | grep -E "^test result" >> "$R"
echo "with change, lib rc=$?" >> "$R"
cargo test --offline --doc 2>&1 | grep -E "^test result" >> "$R"
timeout 600 cargo test --offline --test demo 2>&1 | grep -E "^test result|^test .* (ok|FAILED)" >> "$R"; echo "--- above: WITH change (demo must fail)" >> "$R"
git apply -R out/patch.diff
timeout 600 cargo test --offline --test demo 2>&1 | grep -E "^test result|^test .* (ok|FAILED)" >> "$R"; echo "--- above: WITHOUT change (demo must pass)" >> "$R"
git apply out/patch.diff
echo done >> "$R"
