#!/usr/bin/env python3
"""usage: save_mutation.py <worktree> <id> <property> <checks,comma> <needs text> <caught_by json>
copies out/patch.diff, out/demo.rs, out/notes.md and confirm.txt of a mutation agent's worktree into /verif/seeded/<id>/"""
import sys, os, json, shutil
wt, mid, prop, checks, needs, caught = sys.argv[1:7]
d = os.path.join("/verif/seeded", mid)
os.makedirs(d, exist_ok=True)
for f in ("patch.diff", "demo.rs", "notes.md"):
    if os.path.exists(os.path.join(wt, "out", f)):
        shutil.copy(os.path.join(wt, "out", f), os.path.join(d, f))
confirmed = open(os.path.join(wt, "confirm.txt")).read() if os.path.exists(os.path.join(wt, "confirm.txt")) else ""
json.dump({"property": prop, "checks": checks.split(","), "needs": needs, "caught_by": json.loads(caught), "confirmed": confirmed,
           "ran": "tools/confirm_mutation.sh <worktree>; then tools/try_mutation.py seeded/%s/patch.diff <checks>" % mid},
          open(os.path.join(d, "meta.json"), "w"), indent=1)
print("saved", d)
