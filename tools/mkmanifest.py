#!/usr/bin/env python3
"""Regenerate /verif/MANIFEST.json from the table below (keeps the manifest valid at all times)."""
import json, os
ROOT = os.path.dirname(os.path.dirname(os.path.abspath(__file__)))
props = [json.loads(l) for l in open(os.path.join(ROOT, "properties.jsonl"))]

NOTE = ("Trusted: Lean kernel (axioms propext, Classical.choice, Quot.sound only, audited per theorem on every run); the hand-written models are tied to "
        "the code only by the per-run correspondence (differential execution / co-simulation of explored schedules), whose strength is bounded by "
        "the generators and schedulers (measured coverage in the evidence file); instrumented copy + facade; harness, orchestrator, shrinker.")

CLAIMED = {
 "C01": ("Theorem Rx.C01.contract_all_programs (via run_closed over the Closed-predicate framework): for EVERY client program of the object machine "
         "- every operator, source, subject and callback of the crate is one - every subscriber log is next* then at most one terminal, nothing after "
         "(nothing_after_terminal). Tie: every run executes ~1.2k generated cases (all operators x ill-formed scripts, hot interleavings) on the "
         "instrumented working tree and on the compiled Lean model, and evaluates the Contract predicate on the implementation's logs.",
         "§5 C01", "Lean 4 proof: inductive invariant over all programs of an object-level machine + per-run differential correspondence"),
 "C02": ("Theorems Rx.C02.*_spec (C02a, C02b): for every kernel K of the single-source operators, Kernel.run K s = (Spec.op s).toEvs for ALL item lists, "
         "endings and parameters (induction). Tie: every run compares, case by case, implementation log = ReactiveX list spec (theorem RHS) = chain of "
         "kernel runs (theorem LHS) = object machine (which executes the same kernels through stdOp) on ~2.5k cases incl. all operator pairs. The link kernel "
         "chain = object machine is itself a theorem: Rx.Sim.stdOp_sim (one operator) and Rx.Chain.chain_sim (chains of ANY length, any well-encoded "
         "kernels, any ready world: machine log = chainRun); time_interval / timestamp (values abstracted) in C02c; window_with_count / group_by (items are "
         "observables: global (subscriber, event) traces) in C02d: window_trace, window_root, window_inner, group_root, group_inner - the pure machines of the two "
         "operators' closures equal the per-subscriber ReactiveX characterisation; machine = those pure machines is a per-run differential check. CREATION "
         "FUNCTIONS on the machine (SimCreate.lean): stdOp_sim_just / _empty / _error / _fromIter / _range / _never - for every well-encoded kernel and any ready "
         "world the machine run of stdOp K directly over the creation function equals K.run of the stream it denotes (any items, start, count, payload); "
         "repeat / interval under any operator: Rx.Sim.stdOp_sim_repeat / _interval; SimCreateOps.lean: from_iter(ds).op on the machine = the operator's list "
         "specification, one theorem per operator (map_fromIter .. buffer_fromIter), via fromIter_machine_spec. The case language also has the scheduler-based sources and operators over "
         "the DEFAULT scheduler (interval_d, timer_d, observe_on_d, subscribe_on_d), delay(0), endless iterators, empty source lists.",
         "§5 C02", "Lean 4 proof: kernel = list specification by induction, machine = kernel chain by simulation (chain_sim) + per-run four-way differential correspondence"),
 "C04": ("Theorems Rx.C04.* (C04k: error passthrough for every non-handler kernel, same payload, terminal last, items before the error delivered; "
         "C04r: retry/retry_when/on_error_resume_next equal their list specs, subscription counts exact; demat_mat). REFINEMENT (C04Ref*.lean): the object "
         "machine's retry, retry_when and on_error_resume_next over flaky / scripted sources refine that mirror from any ready world (retry_refines, "
         "retryWhen_refines, resume_refines: log, subscription counter, nobody else disturbed), so the C04r statements hold of the machine "
         "(retry_machine_spec, …_error_identity). Tie: differential execution with "
         "errors injected at every script position, flaky sources, payload identity by a non-Clone payload type.",
         "§5 C04", "Lean 4 proof: generic PassesErrors lemma + induction over attempts + machine refines the retry mirror + per-run correspondence"),
 "C05": ("Theorems Rx.C05.silent_forever, nothing_after_unsubscribe, unsubscribe_idempotent, is_subscribed_false_forever (generic over all machine "
         "programs) and Rx.C05c.* on the lock-level Observer LTS for the cross-thread clause (any number of threads, any interleaving). Tie: sequential "
         "cases with unsubscribe at every position + C05 predicate on implementation logs; concurrent clause co-simulated under C19's scenarios. Handles: "
         "Rx.C05h.subUnsub_disarmed / _armed (copies of one Subscription share one armed flag; unsubscribe through any copy of a disarmed handle changes "
         "nothing), tied to subscription.rs by the (subhandles n) step (clones and Using guards of one Subscription::new, teardown calls counted).",
         "§5 C05", "Lean 4 proof: closed-predicate induction over all machine programs + LTS invariant + per-run correspondence"),
 "C07": ("partial: (1) same-thread re-entrancy: the object machine models every guard that is alive across a call; every explored re-entrant history "
         "(callbacks emitting into / completing / unsubscribing the subject they are called from, through every operator) must end with status ok on "
         "both sides; (2) Theorem Rx.C07.ranked_no_deadlock(_strong): any number of threads acquiring RwLocks in strictly increasing rank never "
         "deadlock (also under writer preference), with the verified trace checker checkTrace (checkTrace_sound_ranked); (3) livelock: step budget on every "
         "explored case. Cross-thread tie: every concurrent scenario family (~400 scenarios) runs under seeded schedules; per execution the harness derives "
         "the relation lock-held -> lock-acquired over lock instances; a re-acquisition, a cycle or a shuttle deadlock is a violation; rank certificates of a "
         "sample of executions are re-checked by checkTrace in Lean (rxmodel lockrank). NOT proved: that the whole crate follows one lock ranking for every "
         "pipeline and schedule - that part is exploration.",
         "§5 C07", "Lean 4 proof (lock-order theorem + verified trace checker, partial) + exploration of re-entrant and concurrent scenarios with lock-order certificates"),
 "C03": ("Theorems Rx.Comb.merge_spec, amb_spec, concat_spec, zip_spec/zip_items/zip_timing, take_until_spec, skip_until_spec, sample_spec, flat_map_spec, "
         "ready_set_go_no_loss: the pure history machine of each combining operator (mirroring its closures and the StreamController) equals its ReactiveX "
         "list characterisation for ALL well-formed histories and any number of sources (combine_latest_spec and sequence_equal_spec since the repairs of the "
         "former findings F9 / F10). "
         "REFINEMENT (C03Ref*.lean): the object machine's merge, amb, concat, take_until and zip (the call-by-call transliteration of the Rust operators over "
         "the StreamController and plain Subjects) refine their history machines for EVERY history (merge_refines, amb_refines, concat_refines, "
         "take_until_refines, zip_refines, skip_until_refines, sample_refines, flat_map_refines, switch_on_next_refines, combine_latest_refines: log, status, "
         "sequence_equal_refines (a tree of controllers): log, status, registrations per subject), so the list specs hold of the machine (…_machine_spec). "
         "Tie: on every hot-source history the check compares implementation = history machine = spec, and implementation = object machine on all cases.",
         "§5 C03", "Lean 4 proof: history machines = list specs by induction, machine refines history machines (ten operators) + per-run three-way differential correspondence"),
 "C06": ("Theorems Rx.C06.*: (kernel layer) every single-source kernel that ends its downstream while being fed has cancelled its upstream, for all inputs; "
         "(machine layer, from Rx.Sim.stdOp_sim_cancel) in the object machine - StreamController transliterated call by call - the observer an operator handed "
         "to its source is unsubscribed exactly when the kernel semantics says cancelled, from ANY ready start world; take/take_while stop an endless producer; for the POLLING producers themselves (repeat, interval over the default scheduler) "
         "Rx.Sim.stdOp_sim_repeat / stdOp_sim_interval / take_repeat / take_interval (SimInterval.lean): for every kernel, world and loop bound the machine run is "
         "the kernel run over the producer's prefix and the producer has stopped once the kernel cancelled (independent of the bound that stands for endless); "
         "Rx.C06late.late_attach_inert: for every controller and EVERY source program, new_observer + inner_subscribe after the subscriber has gone leave one "
         "dead observer and run nothing of the source. "
         "Multi-input teardown is covered by the history machines of C03 (per-input cancellation) and by exploration. Tie: probed sources recording "
         "is_subscribed before every emission, subject observer counts, every terminating cause of the statement (incl. connectables and two hot inputs that keep "
         "emitting after the operator's decision; closures given to operators that end the subscription when called); TornDown predicate on implementation "
         "traces; CONCURRENT part: a subject, or ref_count / replay over it, behind timeout / debounce / delay / observe_on / subscribe_on / sample / take_until(timer) "
         "under seeded schedules in virtual time - after every subscription ended by itself no subject holds an observer. One known finding (F18: ref_count / replay over a synchronous "
         "source, last subscriber leaving during the connecting subscribe) is reported as KNOWN-FINDING, matched by call site.",
         "§5 C06", "Lean 4 proof: simulation theorem machine = kernel semantics incl. cancellation + per-run correspondence on probed sources"),
 "C08": ("Theorems Rx.Queue.* (C08.lean, 21 main theorems) on the lock-level LTS of async_function_queue.rs for any number of posters, any programs, tasks "
         "that post/abort from inside, all interleavings: one_at_a_time, at_most_once, fifo, partition, no_take_after_abort (no pop after abort; at most one "
         "task already popped may still start - the strict reading is proved false of the code and is not what the property demands), worker_exits "
         "(ranking), no_lost_wakeup, progress (ranking), default_scheduler_sync; C08D.lean: on model A posting to the default scheduler IS running the task "
         "(post_is_run, post_nested, timerD_eq_just, subscribeOnD_eq_observeOnD). Tie for the default-scheduler clause: (dpost n) steps of the sequential harness "
         "(each task records that it runs on the posting thread before post returns) and default-scheduler pipelines, compared with model A. Tie for the queue: every explored schedule of the real scheduler is replayed step by "
         "step through the LTS (co-simulation) and the model's FIFO order is compared with the tasks' own start stamps.",
         "§5 C08", "Lean 4 proof: inductive invariants + ranking functions over an n-thread lock-level LTS + co-simulation of explored schedules"),
 "C09": ("Theorems Rx.Handoff.* (C09.lean) on the LTS of observe_on / subscribe_on over an atomic FIFO channel (source thread, worker, optional unsubscriber; "
         "one micro-step per lock operation of sink_*/finalize): observe_on_prefix (delivered is always a prefix of the emitted script, all on the worker, never "
         "two callbacks at once), observe_on_exact, abort_only_after_end, after_unsub_nothing, subscribe_on_runs_on_worker, subscribe_on_exact, observe_on_twice_*. "
         "That the real Mutex/Condvar queue refines the FIFO channel is C08. Tie: pipelines with observe_on/subscribe_on at several positions and stacked "
         "twice over synchronous and threaded sources under seeded schedules; delivered = what the same pipeline delivers sequentially (Lean model A), thread "
         "affinity, no overlap, nothing after unsubscribe returned; PLUS co-simulation: every explored schedule of source thread / worker / unsubscriber on the real "
         "observe_on and subscribe_on is replayed lock operation by lock operation through Handoff.step / SubOn.step (accepted_reachable: an accepted trace "
         "ends in a Reachable state, so the theorems apply to it) and the LTS's ghost delivery log is compared with the callbacks' own record.",
         "§5 C09", "Lean 4 proof: LTS invariants over an abstract FIFO channel + co-simulation of explored schedules + pipeline-level exploration"),
 "C10": ("Theorems Rx.SubjM.* (C10.lean) on the mirrored state machines of the four subject kinds for ALL call sequences: delivers_to_current, "
         "no_observer_after_terminal, no_observer_after_unsubscribe, registered_alive, terminated_not_registered, plain_log_spec, behavior_handover, "
         "replay_handover, async_last_only, log_contract. REFINEMENT (C10Ref*.lean): the object machine's Subject, ReplaySubject and BehaviorSubject macros "
         "(the call-by-call transliteration of the Rust methods) refine SubjM for every well-numbered call sequence (plain_refines, replay_refines, "
         "behavior_refines: equal logs, registrations, liveness), and the central C10 theorems are transported to the machine (machine_delivers_to_current, "
         "machine_no_observer_after_terminal/unsubscribe, machine_replay_handover, machine_behavior_handover); AsyncSubject's refinement is not proved. "
         "Tie: implementation = object machine on all cases; implementation = SubjM on directly "
         "subscribed call sequences (exhaustive up to length 3/4 + random); observer counts against live subscriptions. AsyncSubject (repaired, formerly finding F17) "
         "is additionally evaluated against a ReactiveX AsyncSubject reference on every case; async_every_subscriber / async_refines.",
         "§5 C10", "Lean 4 proof: induction over call sequences of mirrored state machines + machine refines them (all four subject kinds) + per-run differential correspondence"),
 "C11": ("Theorems Rx.C11 (C11.lean) on lock-level LTSs: merge through the StreamController with k input threads (never_two_terminals, last_one_out, "
         "merge_prefix, merge_conserves: multiset + per-input order + one complete last), take_at_most_n, amb_one_winner, zip_tuples (multiset of the i-th "
         "pairings; delivery order may differ), all scripts, any number of inputs, all interleavings. flat_map/concat share sink_* with merge and are covered by "
         "exploration only. Tie: threaded sources feeding merge/concat/zip/amb/flat_map (with and without take) under seeded schedules, conservation "
         "predicates on the recorded deliveries; PLUS co-simulation of all four LTSs (merge through the StreamController, take, amb, zip): every explored "
         "schedule of 2-3 raw emitting threads is replayed lock operation by lock operation and the ghost log compared with the callbacks' record "
         "(the Amb LTS was refuted by the unchanged code this way - finalize is not one atomic step - and repaired, theorems re-proved).",
         "§5 C11", "Lean 4 proof: LTS invariants + co-simulation of explored schedules + pipeline-level exploration"),
 "C13": ("Theorems Rx.ConnM.* (C13.lean) on the mirrored state machines of publish / ref_count / replay over SubjM, hot and cold-synchronous sources, ALL "
         "call sequences: publish_connects_only_on_connect, same_items_for_present, ref_count_first_last, at_most_one_source_subscription, "
         "replay_complete_history, replay_arrival, disconnect_stops_source. Convention proved: ref_count/replay connect once ever (never reconnect). "
         "REFINEMENT (C13Ref*.lean, 21 files): over a hot source the object machine's publish / ref_count / replay (publishConnect, refCountHooks with the "
         "connecting / cancelled flags, the replay hand-over) refine ConnM for every well-numbered call sequence (publish_refines, refCount_refines, "
         "replayConn_refines: logs, number of source subscriptions, source liveness, registrations), and the C13 theorems are transported to the machine "
         "(machine_publish_connects_only_on_connect, machine_ref_count_first_last, machine_replay_complete_history, …); the same over the COLD synchronous "
         "source that emits inside the connecting call (publish_refines_cold, refCount_refines_cold, replayConn_refines_cold; 42 files). Passive "
         "subscribers; re-entrant arrivals from inside callbacks: differential check only. "
         "Tie: implementation = object machine on all cases; implementation = ConnM (logs, source subscription count, registrations) on directly subscribed ones.",
         "§5 C13", "Lean 4 proof: induction over call sequences of mirrored state machines + machine refines them over hot sources + per-run differential correspondence"),
 "C15": ("partial: Theorems Rx.Timed.* (C15.lean) in virtual time: interval_exits_within_one_period (+ liveness), timer_exits, debounce_exits, "
         "timeout_timer_exits (one period; the model mirrors timeout.rs after the two timer-leak repairs found by this check and by the proof itself), "
         "timeout_timer_exits_partial, no_accumulation; with C08 worker_exits and C09 abort_only_after_end. Tie: ~125 scenarios thread-creating "
         "operator x terminating cause (including the subscription ended by another thread at the very instant an item arrives / a timer fires) under "
         "seeded schedules in virtual time: every library thread has exited at quiescence and no later than one "
         "timer period after the subscription ended; PLUS co-simulation of the Timeout / Interval / Timer / Debounce / Rounds LTSs including the threads' "
         "exit instants (exitedAt). NOT modelled: OS thread teardown; nestings beyond the catalogue.",
         "§5 C15", "Lean 4 proof (virtual-time LTSs, partial) + co-simulation (linearisability) of explored schedules + exploration in virtual time with thread accounting"),
 "C16": ("partial: Theorems Rx.Timed.* (C16.lean) in discrete virtual time, all periods and gap scripts, all interleavings within an instant: interval_ticks, "
         "timer_once, delay_times (order kept, hand-over d after receipt; delays accumulate because the source thread sleeps), timeout_exact (no ties), "
         "timeout_never_fires_on_slow_consumer (handling times of the consumer), debounce_subsequence, sample_subsequence; on model A (SimInterval.lean): "
         "take_interval - interval over the default scheduler under take(n) delivers exactly 0..n-1 and complete and the loop stops, for every n >= 1. Tie: the real operators on the "
         "facade's virtual clock; the expected (instant, event) lists are computed BY THE LEAN MODEL (Rx.Timed.expectedLine = the lists the theorems speak "
         "about) for fixed and random gap / handling scripts and compared exactly; PLUS co-simulation of the six LTSs (Timeout, Delay, Interval, Timer, "
         "Debounce, Sample): every explored schedule, including deliberate ties, is checked for linearisability against `step` with the recorded records "
         "(Interval's emit step was refuted this way and split). NOT modelled: real time, scheduling latency, Instant/SystemTime values; a next arriving "
         "at the exact instant a timeout fires (noTie).",
         "§5 C16", "Lean 4 proof (virtual-time LTSs, partial) + Lean-computed expectations + co-simulation (linearisability) of explored schedules on a virtual clock"),
 "C12": ("Theorems Rx.Conc.* (C12.lean) on lock-level LTSs of Subject, ReplaySubject, BehaviorSubject for any number of threads and programs: "
         "stays_subscribed_gets_all, per_producer_gap_free, no_duplicates, late_subscriber_suffix, unsubscriber_prefix. The late-subscriber clauses for "
         "Replay/Behavior are proved FALSE under concurrency (replay_late_subscriber_violated, behavior_late_subscriber_violated: shortest witness "
         "schedules) with partial theorems for non-overlapping subscribe - known findings F14. Tie: producer / late-subscriber / unsubscriber threads on the "
         "real subjects under seeded schedules with the property's predicates on the recorded deliveries; PLUS co-simulation of the three LTSs: threads "
         "running next / subscribe / unsubscribe programs on the real Subject, ReplaySubject, BehaviorSubject are replayed lock operation by lock operation "
         "(ghost per-observer delivery logs, map size and liveness compared); the F14 schedules are ACCEPTED runs of the LTS (the model has the defect too).",
         "§5 C12", "Lean 4 proof: LTS invariants + negation witnesses + co-simulation of explored schedules + exploration with the property's predicates"),
 "C14": ("Theorems Rx.C14.subscribe_independent, every_subscription_is_the_kernel_run, others_undisturbed, stays_ready (from the simulation theorem "
         "Rx.Sim.stdOp_sim, for every standard operator and ANY ready start world): the k-th subscriber of an Observable value sees what a sole subscriber "
         "would. Tie: every pipeline subscribed 2-3 times sequentially, interleaved on a hot source, and under retry with differing attempts; tap side "
         "effects compared per subscription.",
         "§5 C14", "Lean 4 proof: simulation theorem quantified over the start world + per-run correspondence with repeated subscription"),
 "C17": ("Theorems Rx.C17.callbacks_released_after_terminal/unsubscribe, released_forever, root_slots_empty, callbacks_only_in_root (generic over all machine "
         "programs): after a subscription ended no core object holds any of the three user callbacks, ever again. Operator closures and buffered items "
         "are owned by upstream observers' slots, cleared when cancelled (C06). NOT modelled: Arc reference counting itself - the per-run check counts live "
         "tokens captured by every user callback, operator closure and item after the handles are dropped, for all three ways of ending, over operators, the four "
         "subject types and connectables (sequential), and over scheduler / timer pipelines with ends in mid-flight under seeded shuttle schedules (concurrent "
         "release supplement).",
         "§5 C17", "Lean 4 proof: generic ownership invariant over all machine programs + per-run token counting"),
 "C18": ("Theorems Rx.C18.* on the lock-level LTS of to_vec.rs (ready_only_after_terminal, result_exact, no_lost_wakeup, eventually_ready, polls_bound, "
         "pending_forever_if_silent) for all scripts and interleavings. Tie: every explored shuttle schedule of the real poll/callbacks is replayed "
         "step by step through the LTS (co-simulation) and the returned value is compared.",
         "§5 C18", "Lean 4 proof: inductive invariant over a two-thread lock-level LTS + co-simulation of explored schedules"),
 "C19": ("Theorems Rx.C19.at_most_one_terminal_start, no_next_after_terminal_returned, no_delivery_after_close, terminal_excludes, is_subscribed_monotone "
         "on the lock-level LTS of observer.rs/function_wrapper.rs: any number of threads, arbitrary calls, any interleaving. Every delivery to a user "
         "passes through one Observer, so this covers all multi-input operators and subjects. Tie: co-simulation of every explored schedule of real "
         "Observer calls + the C19 predicate on the recorded callback log.",
         "§5 C19", "Lean 4 proof: inductive invariant over an n-thread lock-level LTS + co-simulation of explored schedules"),
}
PENDING = "not wired yet in this commit: model / theorems / harness for it are under construction (DESIGN.md §10); no result is claimed"

checks = []
for pid, (text, ref, tech) in CLAIMED.items():
    checks.append({
        "property_id": pid, "quick_cmd": "./check %s --tier quick" % pid, "thorough_cmd": "./check %s --tier thorough" % pid,
        "evidence_file": "evidence/%s.json" % pid, "replay_cmd_template": "./check replay {path}", "engine": "lean+harness",
        "level_claimed": {"category": "proof", "text": text, "design_ref": ref}, "level_note": NOTE, "technique": tech})
na = [{"property_id": p["id"], "reason": PENDING} for p in props if p["id"] not in CLAIMED]
m = {"version": 1, "setup_cmd": "./setup.sh",
     "hooks": {"guard": "none: no edit of /repo for hooks; every check builds an instrumented COPY of the current working tree under /verif/build/rx-*",
               "enable": "python3 tools/instrument.py <seq|conc>: textual std:: -> crate::verif_std:: redirection, appended facade module, read-only accessors",
               "baseline_off_cmd": "cd /repo && cargo test --workspace --no-fail-fast --offline", "source_commits": [], "add_only": True},
     "engines": [
         {"name": "lean", "path": "lean", "serves_properties": sorted(CLAIMED), "kind_free_text": "Lean 4 models (object machine, kernels, specs, lock-level LTSs), theorems, compiled driver rxmodel (run / oracle / spec / cosim modes)"},
         {"name": "harness-seq", "path": "harness/seq", "serves_properties": [p for p in sorted(CLAIMED) if p in ("C01", "C02", "C03", "C04", "C05", "C06", "C07", "C10", "C13", "C14", "C17")], "kind_free_text": "Rust harness executing the shared case language on the instrumented copy (self-deadlock detection, operation budget)"},
         {"name": "harness-conc", "path": "harness/conc", "serves_properties": [p for p in sorted(CLAIMED) if p in ("C05", "C07", "C08", "C09", "C11", "C12", "C15", "C16", "C18", "C19")], "kind_free_text": "Rust harness running scenarios under seeded shuttle schedules on the shuttle-instrumented copy; renders label traces for co-simulation"},
         {"name": "orchestrator", "path": "check", "serves_properties": sorted(CLAIMED), "kind_free_text": "python3: generators, diff, oracle, shrinker, known findings, evidence"}],
     "checks": checks, "not_applicable": na,
     "notes": "Genuine defects found by the machinery were repaired by fix: commits in /repo; see known_findings.json (fixed entries) and DESIGN.md §8/§10."}
json.dump(m, open(os.path.join(ROOT, "MANIFEST.json"), "w"), indent=1)
print("claimed:", sorted(CLAIMED), "pending:", [x["property_id"] for x in na])
