import RxVerif.Machine.Case
import RxVerif.Oracle
import RxVerif.Spec.Eval
open Rx

partial def sexpMentions (a : String) : Sexp → Bool
  | .atom s => s == a
  | .list xs => xs.any (sexpMentions a)

def oracleLine (caseLine obsLine : String) : String :=
  match Sexp.parse caseLine, Oracle.parseLine obsLine with
  | some (.list (.atom "case" :: .atom id :: steps)), some (_, obs) =>
    let unsubAt := steps.map fun s => match s with
      | .list [.atom "unsub", n] => n.asNat
      | _ => none
    let selfUnsub := steps.any fun s => match s with
      | .list [.atom "sub", _, r] => sexpMentions "unsub" r
      | _ => false
    let fmt := fun (name : String) (r : Option String) =>
      name ++ "=" ++ (match r with | none => "ok" | some m => "VIOL(" ++ m.replace " " "_" ++ ")")
    id ++ " " ++ " ".intercalate [
      fmt "C01" (Oracle.contract obs),
      fmt "C05" (Oracle.c05 obs unsubAt selfUnsub),
      fmt "C06" (Oracle.c06 obs unsubAt),
      fmt "C07" (Oracle.c07 obs),
      fmt "C14" (Oracle.c14 obs),
      fmt "C17" (Oracle.c17 obs)]
  | _, _ => "ORACLE-PARSE-ERROR " ++ obsLine

partial def loopRun (h out : IO.FS.Stream) : IO Unit := do
  let line ← h.getLine
  if line.isEmpty then return ()
  let l := line.trimAscii.toString
  if l.isEmpty then loopRun h out else
  out.putStrLn (runCase l)
  loopRun h out

partial def loopOracle (h out : IO.FS.Stream) : IO Unit := do
  let c ← h.getLine
  if c.isEmpty then return ()
  let o ← h.getLine
  out.putStrLn (oracleLine c.trimAscii.toString o.trimAscii.toString)
  loopOracle h out

partial def loopSpec (h out : IO.FS.Stream) : IO Unit := do
  let line ← h.getLine
  if line.isEmpty then return ()
  let l := line.trimAscii.toString
  if l.isEmpty then loopSpec h out else
  out.putStrLn (Spec.specLine l)
  loopSpec h out

def main (args : List String) : IO Unit := do
  let stdin ← IO.getStdin
  let stdout ← IO.getStdout
  match args with
  | ["oracle"] => loopOracle stdin stdout
  | ["spec"] => loopSpec stdin stdout
  | _ => loopRun stdin stdout
