import RxVerif.Machine.Case
import RxVerif.Oracle
import RxVerif.Spec.Eval
import RxVerif.Conc.Observer
import RxVerif.Conc.ToVec
import RxVerif.Conc.Queue
import RxVerif.Conc.SctlCosim
import RxVerif.Conc.HandoffCosim
import RxVerif.Conc.SubjCosim
import RxVerif.Conc.LockOrder
import RxVerif.Conc.Timed
import RxVerif.Conc.TimedCosim
import RxVerif.Spec.CombEval
open Rx

partial def sexpMentions (a : String) : Sexp → Bool
  | .atom s => s == a
  | .list xs => xs.any (sexpMentions a)

def oracleLine (caseLine obsLine : String) : String :=
  match Sexp.parse caseLine, Oracle.parseLine obsLine with
  | some (.list (.atom "case" :: .atom id :: steps)), some (_, obs) =>
    let unsubAt := steps.map fun s => match s with
      | .list [.atom "unsub", n] => n.asNat
      | .list [.atom "unsub", n, _] => n.asNat
      | _ => none
    let selfUnsub := steps.any fun s => match s with
      | .list [.atom "sub", _, r] => sexpMentions "unsub" r
      | _ => false
    -- every tap of the case is subscribed exactly once: one `sub` step and no resubscribing operator
    let tapOnce := (steps.filter fun s => match s with | .list (.atom "sub" :: _) => true | _ => false).length == 1 &&
      !(["retry", "retry_when", "repeat", "on_error_resume_next", "flat_map", "switch_on_next", "concat", "conn", "def"].any
          fun a => steps.any (sexpMentions a))
    let fmt := fun (name : String) (r : Option String) =>
      name ++ "=" ++ (match r with | none => "ok" | some m => "VIOL(" ++ m.replace " " "_" ++ ")")
    id ++ " " ++ " ".intercalate [
      fmt "C01" ((Oracle.contract obs).orElse fun _ => if tapOnce then Oracle.contractTap obs else none),
      fmt "C05" (Oracle.c05 obs unsubAt selfUnsub),
      fmt "C06" (Oracle.c06 obs unsubAt),
      fmt "C07" (Oracle.c07 obs),
      fmt "C10" (Oracle.c10 obs (steps.map fun s => match s with
        | .list (.atom "hcomplete" :: _) => true
        | .list (.atom "herror" :: _) => true
        | _ => false)),
      fmt "C14" (Oracle.c14 obs),
      fmt "C17" (Oracle.c17 obs)]
  | _, _ => "ORACLE-PARSE-ERROR " ++ obsLine

partial def loopRun (h out : IO.FS.Stream) : IO Unit := do
  let line ← h.getLine
  if line.isEmpty then return ()
  let l := line.trimAscii.toString
  if l.isEmpty then loopRun h out else
  out.putStrLn (runCase l)
  loopRun h out

partial def loopOracle (h out : IO.FS.Stream) : IO Unit := do
  let c ← h.getLine
  if c.isEmpty then return ()
  let o ← h.getLine
  out.putStrLn (oracleLine c.trimAscii.toString o.trimAscii.toString)
  loopOracle h out

/-- co-simulation: every execution recorded from the real code must be a run of the Lean LTS -/
def cosimLine (model : String) (line : String) : String :=
  let parts := line.splitOn " | "
  let id := (parts.headD "?") ++ " " ++ ((parts.getD 1 "").splitOn " ").headD ""
  let payload := parts.getLast?.getD ""
  match model with
  | "obs" =>
    match payload.splitOn " ; " with
    | [hdr, labels] =>
      let n := ((hdr.splitOn " ").filterMap fun t => if t.startsWith "n=" then (t.drop 2).toString.toNat? else none).headD 0
      let tear := hdr.endsWith "tear=T"
      match ConcObs.replayLines (ConcObs.init n tear) (labels.splitOn ";") with
      | .ok st => id ++ " ok steps=" ++ toString st.log.length
      | .error (k, msg) => id ++ " REJECT at label " ++ toString k ++ ": " ++ msg
    | _ => id ++ " REJECT malformed payload"
  | "tovec" =>
    match payload.splitOn " ; " with
    | [sc, res, labels] =>
      match ToVec.parseScript (sc.drop 7).toString with
      | none => id ++ " REJECT bad script"
      | some script =>
        let ls := (labels.splitOn ";").filter (· ≠ "")
        match ls.mapM ToVec.parseLabel with
        | none => id ++ " REJECT unparsable label"
        | some lbls =>
          -- find the first label the model refuses
          let rec go (st : ToVec.State) (k : Nat) : List ToVec.Label → Except String ToVec.State
            | [] => .ok st
            | l :: rest => match ToVec.step script st l with
              | some st' => go st' (k + 1) rest
              | none => .error ("label " ++ toString k ++ " not enabled: " ++ ToVec.labelToStr l)
          match go (ToVec.init script) 1 lbls with
          | .ok st => id ++ " ok " ++ st.summary ++ " ;; impl " ++ res
          | .error m => id ++ " REJECT " ++ m
    | _ => id ++ " REJECT malformed payload"
  | "queue" =>
    match payload.splitOn " ; " with
    | [cfgText, _stamps, labels] =>
      let parts := ((cfgText.drop 4).toString.splitOn " / ")
      let progs := parts.filterMap fun p => if p.startsWith "P:" then Queue.parseCalls (p.drop 2).toString else none
      let bodies : List (Nat × List Queue.Call) := parts.filterMap fun p =>
        if p.startsWith "B" then
          match (p.drop 1).toString.splitOn ":" with
          | [n, cs] => match n.toNat?, Queue.parseCalls cs with
            | some k, some l => some (k, l)
            | _, _ => none
          | _ => none
        else none
      let cfg : Queue.Config := { progs := progs, body := fun t => ((bodies.find? (·.1 == t)).map (·.2)).getD [] }
      match ((labels.splitOn ";").filter (· ≠ "")).mapM Queue.parseLabel with
      | none => id ++ " REJECT unparsable label"
      | some ls =>
        match Queue.replay cfg ls with
        | some st => id ++ " ok started=" ++ toString st.started ++ " finished=" ++ toString st.finished ++
            " discarded=" ++ toString st.discarded ++ " queue=" ++ toString st.queue ++ " steps=" ++ toString ls.length
        | none =>
          let k := Queue.acceptedPrefix cfg (Queue.init cfg) ls
          id ++ " REJECT label " ++ toString (k + 1) ++ " not enabled: " ++ ((ls[k]?).map toString).getD "?"
    | _ => id ++ " REJECT malformed payload"
  | "handoff" => id ++ Handoff.Cosim.cosim payload
  | "subjlts" => id ++ Conc.SubjCosim.cosim payload
  | "timed" => id ++ Timed.Cosim.cosim payload
  | "sctl" | "take" | "amb" | "zip" => id ++ Conc.sctlCosimPayload model payload
  | _ => id ++ " REJECT unknown model"

/-- `LOCKCERT <id> seed=<s> | <lock>:<rank>,… | <tid> A|R <lock>;…` — a recorded lock trace of the real code with a
    rank certificate computed by the harness; re-checked by the verified checker `Rx.LockOrder.checkTrace`
    (soundness: `Rx.LockOrder.checkTrace_sound_ranked`, then `ranked_no_deadlock_strong`) -/
def lockrankLine (line : String) : String :=
  match line.splitOn " | " with
  | [hd, ranks, evs] =>
    let id := ((hd.splitOn " ").filter (· ≠ "")).getD 1 "?"
    let rk : List (Nat × Nat) := (ranks.splitOn ",").filterMap fun p =>
      match p.splitOn ":" with
      | [a, b] => do pure ((← a.trimAscii.toString.toNat?), (← b.trimAscii.toString.toNat?))
      | _ => none
    let rank : Nat → Nat := fun l => ((rk.find? (·.1 == l)).map (·.2)).getD 0
    let es := (evs.splitOn ";").filter (fun l => l.trimAscii.toString ≠ "")
    match LockOrder.checkTraceText rank es with
    | some true => id ++ " OK events=" ++ toString es.length ++ " locks=" ++ toString rk.length
    | some false => id ++ " FAIL the trace is not rank-consistent with its certificate"
    | none => id ++ " PARSE"
  | [hd, _] | [hd] =>
    -- an execution without a single lock event (the line's trailing separators are lost to trimming): the empty
    -- trace is rank-consistent with any certificate (`checkTrace rank [] = true`)
    let id := ((hd.splitOn " ").filter (· ≠ "")).getD 1 "?"
    if (hd.splitOn " ").getD 0 "" == "LOCKCERT" then id ++ " OK events=0 locks=0" else "? PARSE"
  | _ => "? PARSE"

partial def loopCosim (model : String) (h out : IO.FS.Stream) : IO Unit := do
  let line ← h.getLine
  if line.isEmpty then return ()
  let l := line.trimAscii.toString
  if l.isEmpty || (l.splitOn " | ").length < 4 then loopCosim model h out else
  out.putStrLn (cosimLine model l)
  loopCosim model h out

partial def loopMap (f : String → String) (h out : IO.FS.Stream) : IO Unit := do
  let line ← h.getLine
  if line.isEmpty then return ()
  let l := line.trimAscii.toString
  if l.isEmpty then loopMap f h out else
  out.putStrLn (f l)
  loopMap f h out

partial def loopSpec (h out : IO.FS.Stream) : IO Unit := do
  let line ← h.getLine
  if line.isEmpty then return ()
  let l := line.trimAscii.toString
  if l.isEmpty then loopSpec h out else
  out.putStrLn (Spec.specLine l)
  loopSpec h out

def main (args : List String) : IO Unit := do
  let stdin ← IO.getStdin
  let stdout ← IO.getStdout
  match args with
  | ["oracle"] => loopOracle stdin stdout
  | ["spec"] => loopSpec stdin stdout
  | ["cosim", m] => loopCosim m stdin stdout
  | ["lockrank"] => loopMap lockrankLine stdin stdout
  | ["timed"] => loopMap Timed.expectedLine stdin stdout
  | ["comb"] => loopMap CombEval.combLine stdin stdout
  | ["subjm"] => loopMap CombEval.subjLine stdin stdout
  | ["connm"] => loopMap CombEval.connLine stdin stdout
  | _ => loopRun stdin stdout
