import RxVerif.Machine.Case
open Rx

partial def loop (h : IO.FS.Stream) (out : IO.FS.Stream) : IO Unit := do
  let line ← h.getLine
  if line.isEmpty then return ()
  let l := line.trimAscii.toString
  if l.isEmpty then loop h out else
  out.putStrLn (runCase l)
  loop h out

def main (_args : List String) : IO Unit := do
  let stdin ← IO.getStdin
  let stdout ← IO.getStdout
  loop stdin stdout
