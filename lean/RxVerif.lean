import RxVerif.Sexp
import RxVerif.Data
import RxVerif.Machine.Prog
import RxVerif.Machine.Core
import RxVerif.Kernel.Basic
import RxVerif.Machine.Lib
import RxVerif.Machine.Subjects
import RxVerif.Machine.Case
