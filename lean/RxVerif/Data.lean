/-
Items, events and the fixed families of functions/predicates that cases may mention.
First-order, no nesting through `List`, so `DecidableEq` derives.
-/
namespace Rx

inductive Data where
  | unit
  | int (i : Int)
  | bool (b : Bool)
  | lnil
  | lcons (h t : Data)
  | pair (a b : Data)
  | mNext (d : Data)          -- Material::Next
  | mErr (e : Nat)            -- Material::Error (payload identity)
  | mComplete                 -- Material::Complete
  | obs (id : Nat)            -- an Observable travelling as an item (index into World.obsvs)
deriving Repr, DecidableEq, Inhabited

namespace Data

def ofList : List Data → Data
  | [] => lnil
  | x :: xs => lcons x (ofList xs)

def toList : Data → List Data
  | lcons h t => h :: toList t
  | _ => []

@[simp] theorem toList_ofList (l : List Data) : (ofList l).toList = l := by
  induction l with
  | nil => rfl
  | cons a l ih => simp [ofList, toList, ih]

def toInt : Data → Int
  | int i => i
  | _ => 0

def toBool : Data → Bool
  | bool b => b
  | _ => false

partial def toStr : Data → String
  | unit => "u"
  | int i => toString i
  | bool true => "T"
  | bool false => "F"
  | lnil => "[]"
  | d@(lcons _ _) => "[" ++ ",".intercalate (d.toList.map toStr) ++ "]"
  | pair a b => "<" ++ toStr a ++ "," ++ toStr b ++ ">"
  | mNext d => "N:" ++ toStr d
  | mErr e => "E:" ++ toString e
  | mComplete => "C"
  | obs _ => "obs"

end Data

inductive Ev where
  | next (d : Data)
  | error (e : Nat)
  | complete
deriving Repr, DecidableEq, Inhabited

def Ev.isTerminal : Ev → Bool
  | .next _ => false
  | _ => true

def Ev.toStr : Ev → String
  | .next d => "n" ++ d.toStr
  | .error e => "e" ++ toString e
  | .complete => "c"

/-- unary item functions -/
inductive Fn where
  | id | inc | dbl | neg | add (k : Int) | mod (k : Int) | const (k : Int) | toMat | isEven
deriving Repr, DecidableEq, Inhabited

def Fn.app : Fn → Data → Data
  | .id, d => d
  | .inc, d => .int (d.toInt + 1)
  | .dbl, d => .int (d.toInt * 2)
  | .neg, d => .int (- d.toInt)
  | .add k, d => .int (d.toInt + k)
  | .mod k, d => .int (d.toInt.emod k)
  | .const k, _ => .int k
  | .toMat, d => -- used to feed dematerialize: 0 ↦ Complete, negative ↦ Error, else Next
      if d.toInt == 0 then .mComplete else if d.toInt < 0 then .mErr d.toInt.natAbs else .mNext d
  | .isEven, d => .bool (d.toInt.emod 2 == 0)

inductive Pred where
  | tt | ff | lt (k : Int) | gt (k : Int) | eq (k : Int) | ne (k : Int) | even | odd
deriving Repr, DecidableEq, Inhabited

def Pred.app : Pred → Data → Bool
  | .tt, _ => true
  | .ff, _ => false
  | .lt k, d => d.toInt < k
  | .gt k, d => d.toInt > k
  | .eq k, d => d.toInt == k
  | .ne k, d => d.toInt != k
  | .even, d => d.toInt.emod 2 == 0
  | .odd, d => d.toInt.emod 2 == 1

/-- binary accumulator functions (scan / reduce) -/
inductive Fn2 where
  | add | mul | max | fst | snd
deriving Repr, DecidableEq, Inhabited

def Fn2.app : Fn2 → Data → Data → Data
  | .add, a, b => .int (a.toInt + b.toInt)
  | .mul, a, b => .int (a.toInt * b.toInt)
  | .max, a, b => .int (if a.toInt < b.toInt then b.toInt else a.toInt)
  | .fst, a, _ => a
  | .snd, _, b => b

/-- predicates on error payloads (retry_when) -/
inductive EPred where
  | tt | ff | eq (e : Nat) | lt (e : Nat)
deriving Repr, DecidableEq, Inhabited

def EPred.app : EPred → Nat → Bool
  | .tt, _ => true
  | .ff, _ => false
  | .eq k, e => e == k
  | .lt k, e => e < k

end Rx
