/-
Co-simulation glue for the three subject LTSs (`Conc.Subject`, `Conc.Replay`, `Conc.Behavior`): text form of a recorded
execution of harness/conc/src/subjlts.rs -> replay through the LTS -> comparison of the LTS's final ghost state with
what the harness observed.  No theorem here; used by `rxmodel cosim subjlts` (Driver/Main.lean).

payload := `kind=<plain|replay|behavior> pre=<n> nobs=<n> init=<i> ; <progs> ; recv=<..> count=<n> live=<bits> ; <labels>`
  progs  := thread programs separated by `/`, calls by `,`: `next 3`, `subscribe 0`, `unsubscribe 0`
  recv   := per observer `o:e,e,..` separated by `|`; an entry is `<producer tid>.<call index>.<item>` (`h.0.<item>` for
            BehaviorSubject's hand-over)                       -- compared with the LTS's ghost log `State.received o`
  count  := `verif_observer_count()` after all threads joined   -- compared with the length of the LTS's map
  live   := `is_subscribed()` of every observer, after the end -- compared with `fnNext`
  labels := `<tid> <kind>` separated by `;`
-/
import RxVerif.Conc.Subject
import RxVerif.Conc.Replay
import RxVerif.Conc.Behavior

namespace Rx.Conc.SubjCosim

/-- value of `key=` in a blank-separated header -/
def field (hdr key : String) : Option String :=
  ((hdr.splitOn " ").filterMap fun w =>
    if w.startsWith (key ++ "=") then some (w.drop (key.length + 1)).toString else none).head?

/-- `next 3,subscribe 0` → `[("next", 3), ("subscribe", 0)]` -/
def parseProg (s : String) : Option (List (String × Nat)) :=
  ((s.splitOn ",").filter (fun c => c.trimAscii.toString ≠ "")).mapM fun c =>
    match (c.trimAscii.toString.splitOn " ").filter (· ≠ "") with
    | [k, n] => do
      let n ← n.toNat?
      if k == "next" || k == "subscribe" || k == "unsubscribe" then pure (k, n) else none
    | _ => none

def parseProgs (s : String) : Option (List (List (String × Nat))) :=
  if s.trimAscii.toString == "" then some [] else (s.splitOn "/").mapM parseProg

def item (n : Nat) : Data := .int (Int.ofNat n)

def entryStr (t : String) (k : Nat) (v : Data) : String := t ++ "." ++ toString k ++ "." ++ v.toStr

def bits (l : List Bool) : String := String.ofList (l.map fun b => if b then '1' else '0')

def recvStr (nobs : Nat) (f : Nat → List String) : String :=
  "|".intercalate ((List.range nobs).map fun o => toString o ++ ":" ++ ",".intercalate (f o))

/-- `model` = the LTS's ghost summary, `impl` = the harness's observation, both as `recv=.. count=.. live=..` -/
def verdict (nLabels : Nat) (allDone : Bool) (model impl : String) : String :=
  if !allDone then " REJECT trace ends before every thread finished its program ;; model " ++ model
  else if model == impl.trimAscii.toString then " ok steps=" ++ toString nLabels ++ " ghost " ++ model
  else " REJECT ghost state differs: model " ++ model ++ " ;; impl " ++ impl

def cosim (payload : String) : String :=
  match payload.splitOn " ; " with
  | [hdr, progsText, impl, labelsText] =>
    if (field hdr "setup").isSome then " REJECT harness setup: " ++ hdr else
    let kind := (field hdr "kind").getD "?"
    let nPre := ((field hdr "pre").bind (·.toNat?)).getD 0
    let nobs := ((field hdr "nobs").bind (·.toNat?)).getD 0
    let init := ((field hdr "init").bind (·.toNat?)).getD 0
    let labels := (labelsText.splitOn ";").filter (fun l => l.trimAscii.toString ≠ "")
    match parseProgs progsText with
    | none => " REJECT bad programs"
    | some progs =>
      let n := progs.length
      match kind with
      | "plain" =>
        let ps : List (List Subject.Call) := progs.map fun p => p.map fun (k, x) =>
          if k == "next" then .next (item x) else if k == "subscribe" then .subscribe x else .unsubscribe x
        match labels.mapM Subject.parseLabel with
        | none => " REJECT unparsable label " ++ ((labels.find? fun l => (Subject.parseLabel l).isNone).getD "?")
        | some ls =>
          match Subject.replay ps nPre ls with
          | none =>
            let k := Subject.replayCount (Subject.init ps nPre) ls
            " REJECT label " ++ toString (k + 1) ++ " not enabled: " ++ ((ls[k]?).map Subject.Label.toStr).getD "?"
          | some st =>
            let model := "recv=" ++ recvStr nobs (fun o => (st.received o).map fun e => entryStr (toString e.1) e.2.1 e.2.2) ++
              " count=" ++ toString st.map.length ++ " live=" ++ bits ((List.range nobs).map fun o => (st.obs o).fnNext)
            verdict ls.length ((List.range n).all fun t => decide (st.done t)) model impl
      | "replay" =>
        let ps : List (List Replay.Call) := progs.map fun p => p.map fun (k, x) =>
          if k == "next" then .next (item x) else if k == "subscribe" then .subscribe x else .unsubscribe x
        match labels.mapM Replay.parseLabel with
        | none => " REJECT unparsable label " ++ ((labels.find? fun l => (Replay.parseLabel l).isNone).getD "?")
        | some ls =>
          match Replay.replay ps ls with
          | none =>
            let k := Replay.replayCount (Replay.init ps) ls
            " REJECT label " ++ toString (k + 1) ++ " not enabled: " ++ ((ls[k]?).map Replay.Label.toStr).getD "?"
          | some st =>
            let model := "recv=" ++ recvStr nobs (fun o => (st.received o).map fun e => entryStr (toString e.1) e.2.1 e.2.2) ++
              " count=" ++ toString st.map.length ++ " live=" ++ bits ((List.range nobs).map fun o => (st.obs o).fnNext)
            verdict ls.length (st.allDone n) model impl
      | "behavior" =>
        let ps : List (List Behavior.Call) := progs.map fun p => p.map fun (k, x) =>
          if k == "next" then .next (item x) else if k == "subscribe" then .subscribe x else .unsubscribe x
        match labels.mapM Behavior.parseLabel with
        | none => " REJECT unparsable label " ++ ((labels.find? fun l => (Behavior.parseLabel l).isNone).getD "?")
        | some ls =>
          match Behavior.replay ps (item init) ls with
          | none =>
            let k := Behavior.replayCount (Behavior.init ps (item init)) ls
            " REJECT label " ++ toString (k + 1) ++ " not enabled: " ++ ((ls[k]?).map Behavior.Label.toStr).getD "?"
          | some st =>
            let model := "recv=" ++ recvStr nobs (fun o => (st.received o).map fun e =>
                entryStr (match e.1 with | some t => toString t | none => "h") e.2.1 e.2.2) ++
              " count=" ++ toString st.map.length ++ " live=" ++ bits ((List.range nobs).map fun o => (st.obs o).fnNext)
            verdict ls.length (st.allDone n) model impl
      | _ => " REJECT unknown subject kind " ++ kind
  | _ => " REJECT malformed payload"

end Rx.Conc.SubjCosim
