import RxVerif.Data
/-
Virtual-time models of the timer-driven parts of `another-rxrust` (properties C15 and C16).

Discrete-event VIRTUAL TIME.  Every model has a global clock `now : Nat`.  Computation takes zero time; the only
time-consuming statement is `thread::sleep(d)` (the sleeping thread is runnable again when `now ≥ wake`).  The clock
is advanced by the label `tick t'`, which is enabled only when EVERY thread is blocked, finished or asleep with
`now < wake`, and only to a `t'` that does not pass the earliest wake-up (`now < t' ≤ wake` for every sleeper).
All other labels are `run tid`: thread `tid` performs its next micro-step, which is determined by its program counter.
So `step : State → Label → Option State` is deterministic per label and a recorded run can be replayed (`runFrom`).

Models (each in its own namespace, all with `Params`, `State`, `init`, `step`):
  `Interval`  observables/interval.rs:13-28 (+ operators/take.rs:36-51 downstream, + an unsubscribing thread)
  `Timer`     observables/timer.rs:13-22
  `Delay`     operators/delay.rs:30-38 driven by a scripted source thread
  `Timeout`   operators/timeout.rs:41-105; every item arms a fresh `interval(d).take(1)` on a fresh scheduler thread
  `Debounce`  operators/debounce.rs:42-85 with `set_on_finalize(scheduler.abort)` (stream_controller.rs:132-145)
  `Sample`    operators/sample.rs:31-73
  `Rounds`    a driver that subscribes / unsubscribes `interval(d)` repeatedly (thread accumulation, C15)
The scheduler thread of schedulers/new_thread_scheduler.rs:14-16 runs `AsyncFunctionQueue::scheduling`
(async_function_queue.rs:28-55): it leaves its loop only after `stop()` (= `IScheduler::abort`) set the abort flag.
-/
namespace Rx.Timed

/-! ## Generic replay -/

/-- replay a label list through a partial step function -/
def runFrom {σ : Type} {ℓ : Type} (step : σ → ℓ → Option σ) : σ → List ℓ → Option σ
  | s, [] => some s
  | s, l :: ls => match step s l with
    | some s' => runFrom step s' ls
    | none => none

/-- reachable = result of replaying some label list from the initial state -/
def Reach {σ : Type} {ℓ : Type} (step : σ → ℓ → Option σ) (init : σ) (s : σ) : Prop :=
  ∃ ls, runFrom step init ls = some s

/-- labels shared by all models: advance the clock, or let thread `tid` do its next micro-step -/
inductive Label where
  | tick (t : Nat)
  | run (tid : Nat)
deriving DecidableEq, Repr, Inhabited

def Label.toString : Label → String
  | .tick t => "tick " ++ Nat.repr t
  | .run i => "run " ++ Nat.repr i

instance : ToString Label := ⟨Label.toString⟩

/-- text form: `"tick <t>"` or `"run <tid>"` (decimal, blanks separated, surrounding blanks ignored) -/
def parseLabel (line : String) : Option Label :=
  match (line.trimAscii.toString.splitOn " ").filter (· ≠ "") with
  | ["tick", a] => a.toNat?.map .tick
  | ["run", a] => a.toNat?.map .run
  | _ => none

/-- one label per line; empty lines and lines starting with `#` are skipped -/
def parseTrace (text : String) : Option (List Label) :=
  ((text.splitOn "\n").filter fun l => l.trimAscii.toString ≠ "" ∧ ¬ l.trimAscii.toString.startsWith "#").mapM parseLabel

/-- error payload used for `std::io::ErrorKind::TimedOut` (timeout.rs:69-71) -/
def timedOut : Nat := 110

/-- an output record: virtual time at which the subscriber's callback ran, and the event -/
abbrev Out := Nat × Ev

/-! ## The `interval` worker (observables/interval.rs:16-27 on a `new_thread_scheduler` thread)

```
scheduler.post(move || {
  let mut n = 0;
  loop {                                  // pc = top
    thread::sleep(dur);                   // pc = sleeping (wake = now + d)
    if !s.is_subscribed() { break; }      // step `check`:  → emit | abort
    s.next(n);                            // pc = emit   (effect is model specific)
    n += 1;
  }
  scheduler_in_post.abort();              // pc = abort  → ret      (AsyncFunctionQueue::stop sets `abort`)
})                                        // pc = ret    → exited   (scheduling(): wait_while sees abort, pop None, break)
```
`sub` is the subscribed flag of the observer `s` handed to the worker (cleared by other threads or by the downstream
during `s.next`).  Ghost fields: `endedAt` (time `sub` became false), `sleepsAfterEnd` / `stepsAfterEnd` (sleeps begun /
micro-steps done by this worker after that), `exitedAt`, `born`. -/

inductive WPc where
  | top | sleeping | emit | abort | ret | exited
deriving DecidableEq, Repr, Inhabited

structure IW where
  pc : WPc := .top
  wake : Nat := 0
  n : Nat := 0
  sub : Bool := true
  endedAt : Option Nat := none
  sleepsAfterEnd : Nat := 0
  stepsAfterEnd : Nat := 0
  exitedAt : Option Nat := none
  /-- ghost: the instant the scheduler thread was created -/
  born : Nat := 0
deriving DecidableEq, Repr, Inhabited

namespace IW

/-- 1 if the subscription of this worker is already over -/
def late (w : IW) : Nat := if w.sub then 0 else 1

/-- micro-steps that do not touch anything outside the worker (everything except `s.next(n)`) -/
def localStep (d now : Nat) (w : IW) : Option IW :=
  match w.pc with
  | .top => some { w with pc := .sleeping, wake := now + d,
                          sleepsAfterEnd := w.sleepsAfterEnd + w.late, stepsAfterEnd := w.stepsAfterEnd + w.late }
  | .sleeping =>
      if w.wake ≤ now then
        some { w with pc := if w.sub then .emit else .abort, stepsAfterEnd := w.stepsAfterEnd + w.late }
      else none
  | .emit => none
  | .abort => some { w with pc := .ret, stepsAfterEnd := w.stepsAfterEnd + w.late }
  | .ret => some { w with pc := .exited, exitedAt := some now, stepsAfterEnd := w.stepsAfterEnd + w.late }
  | .exited => none

/-- `s.next(n)` returned and `n += 1` was done; `stop` = the downstream unsubscribed `s` during the call -/
def emitted (now : Nat) (stop : Bool) (w : IW) : IW :=
  { w with pc := .top, n := w.n + 1, sub := w.sub && !stop,
           endedAt := if w.sub && stop then some now else w.endedAt,
           stepsAfterEnd := w.stepsAfterEnd + w.late }

/-- another thread (or the downstream) unsubscribes `s` -/
def cancel (now : Nat) (w : IW) : IW :=
  { w with sub := false, endedAt := if w.sub then some now else w.endedAt }

/-- does this worker permit the clock to move from `now` to `t'`? -/
def allowsTick (now t' : Nat) (w : IW) : Bool :=
  match w.pc with
  | .sleeping => decide (now < w.wake) && decide (t' ≤ w.wake)
  | .exited => true
  | _ => false

/-- the scheduler thread is still alive -/
def live (w : IW) : Bool := w.pc != .exited

end IW

/-! ## Scripts of a source thread -/

/-- how long the source thread sleeps before its next call: relative to the return of the previous call,
    or until an absolute instant (no sleep when that instant has passed) -/
inductive Wait where
  | rel (g : Nat)
  | abs (t : Nat)
deriving DecidableEq, Repr, Inhabited

def Wait.wake (now : Nat) : Wait → Nat
  | .rel g => now + g
  | .abs t => if now ≤ t then t else now

/-- a source script: wait, then call `next x` / `error e` / `complete` on the observer it was given -/
abbrev Script := List (Wait × Ev)

theorem Wait.le_wake (now : Nat) (w : Wait) : now ≤ w.wake now := by
  cases w <;> simp [Wait.wake] <;> split <;> omega

/-- program counter of a scripted thread.  `sleeping`: in the `thread::sleep` before the head of `rest`;
    `call`: the sleep returned, about to call the observer method; `mid1`/`mid2`: inside that call (model specific);
    `done`: script exhausted -/
inductive SPc where
  | sleeping | call | mid1 | mid2 | done
deriving DecidableEq, Repr, Inhabited

/-- a scripted thread: remaining script, pc, wake-up time, `base` = instant the current wait began -/
structure Src where
  rest : Script := []
  pc : SPc := .done
  wake : Nat := 0
  base : Nat := 0
deriving DecidableEq, Repr, Inhabited

namespace Src

/-- start waiting for the head of `r` at time `now` -/
def start (now : Nat) (r : Script) : Src :=
  match r with
  | [] => { rest := [], pc := .done, wake := now, base := now }
  | (w, _) :: _ => { rest := r, pc := .sleeping, wake := w.wake now, base := now }

/-- the current call returned at `now`: go on with the tail -/
def advance (now : Nat) (x : Src) : Src := start now x.rest.tail

def allowsTick (now t' : Nat) (x : Src) : Bool :=
  match x.pc with
  | .sleeping => decide (now < x.wake) && decide (t' ≤ x.wake)
  | .done => true
  | _ => false

/-- the sleep is over -/
def wakeUp (now : Nat) (x : Src) : Option Src :=
  if x.pc = .sleeping ∧ x.wake ≤ now then some { x with pc := .call } else none

end Src

/-! ## Interval: `interval(d)` [`.take(c)`] subscribed at time 0, optionally unsubscribed by another thread at `u`

thread 0 = scheduler worker, thread 1 = the thread that calls `Subscription::unsubscribe` at time `u`.
A tick that is delivered AND completes the downstream `take` is two micro-steps of thread 0 (`sink_next(x)`, then
`upstream_abort_observe; sink_complete; finalize`, take.rs:44-50) with `half = true` in between, so thread 1 can
unsubscribe between them: the item is then delivered and `complete` is not. -/
namespace Interval

structure Params where
  d : Nat
  unsubAt : Option Nat := none
  take : Option Nat := none
deriving DecidableEq, Repr, Inhabited

structure State where
  now : Nat := 0
  w : IW := {}
  /-- the unsubscribing thread has done its call (or does not exist) -/
  udone : Bool := false
  log : List Out := []
  /-- the `take` lambda has delivered the item of its completing tick (`sink_next`) and has not yet run
      `upstream_abort_observe; sink_complete; finalize` (take.rs:46-50) -/
  half : Bool := false
deriving DecidableEq, Repr, Inhabited

def init (p : Params) : State := { udone := p.unsubAt.isNone }

/-- take.rs:36-42: `emit = nn < count` -/
def delivers (p : Params) (w : IW) : Bool :=
  w.sub && (match p.take with | none => true | some c => decide (w.n < c))

/-- take.rs:41,46-50: `complete = nn + 1 >= count` → upstream_abort_observe, sink_complete, finalize -/
def completes (p : Params) (w : IW) : Bool :=
  w.sub && (match p.take with | none => false | some c => decide (c ≤ w.n + 1))

/-- the unsubscribing thread is blocked until `u` -/
def uAllowsTick (p : Params) (s : State) (t' : Nat) : Bool :=
  s.udone || (match p.unsubAt with | none => true | some u => decide (s.now < u) && decide (t' ≤ u))

def step (p : Params) (s : State) : Label → Option State
  | .tick t' =>
      if s.now < t' ∧ s.w.allowsTick s.now t' = true ∧ uAllowsTick p s t' = true then some { s with now := t' } else none
  | .run 0 =>
      match s.w.pc with
      | .emit =>
          if s.half then
            -- second half of a completing tick: `upstream_abort_observe` (unsubscribes the worker's observer), `sink_complete`
            -- (delivered iff the subscriber is still subscribed), `finalize`
            some { s with
              half := false
              w := s.w.emitted s.now true
              log := s.log ++ (if s.w.sub then [(s.now, Ev.complete)] else []) }
          else if delivers p s.w = true ∧ completes p s.w = true then
            -- first half: `sink_next(x)`; the worker stays inside `s.next(n)`
            some { s with half := true, log := s.log ++ [(s.now, Ev.next (.int s.w.n))] }
          else
            some { s with
              w := s.w.emitted s.now (completes p s.w)
              log := s.log ++ (if delivers p s.w then [(s.now, Ev.next (.int s.w.n))] else [])
                           ++ (if completes p s.w then [(s.now, Ev.complete)] else []) }
      | _ => match s.w.localStep p.d s.now with
             | some w' => some { s with w := w' }
             | none => none
  | .run 1 =>
      match p.unsubAt with
      | some u => if s.udone = false ∧ u ≤ s.now then some { s with udone := true, w := s.w.cancel s.now } else none
      | none => none
  | .run _ => none

/-- replay a recorded label list from the initial state -/
def replay (p : Params) (ls : List Label) : Option State := runFrom (step p) (init p) ls

/-- the first `k` records of `interval(d)`: tick `i` at `(i+1)·d` -/
def expected (d k : Nat) : List Out := (List.range k).map fun i => ((i + 1) * d, Ev.next (.int i))

/-- the whole log of `interval(d).take(c)`: `c` ticks, then `complete` at the tick on which `take` completes
    (`take(0)` completes on the first tick without delivering it) -/
def expectedTake (d c : Nat) : List Out := expected d c ++ [(max c 1 * d, Ev.complete)]

end Interval

/-! ## Timer: `timer(d)` subscribed at time 0 (observables/timer.rs:16-21), optional unsubscribe at `u`

```
scheduler.post(move || {
  thread::sleep(dur);          // top → sleeping → next
  s.next(());                  // next → complete      (Observer::next: call_if_available)
  s.complete();                // complete → abort     (Observer::complete: claims fn_next, clears the observer)
  scheduler_in_post.abort();   // abort → ret
})                             // ret → exited
```
Note: no `is_subscribed` test at all — the thread always sleeps the whole period.
thread 0 = scheduler worker, thread 1 = optional unsubscriber at `u`. -/
namespace Timer

inductive Pc where
  | top | sleeping | next | complete | abort | ret | exited
deriving DecidableEq, Repr, Inhabited

structure Params where
  d : Nat
  unsubAt : Option Nat := none
deriving DecidableEq, Repr, Inhabited

structure State where
  now : Nat := 0
  pc : Pc := .top
  wake : Nat := 0
  sub : Bool := true
  udone : Bool := false
  log : List Out := []
  endedAt : Option Nat := none
  stepsAfterEnd : Nat := 0
  sleepsAfterEnd : Nat := 0
  exitedAt : Option Nat := none
deriving DecidableEq, Repr, Inhabited

def init (p : Params) : State := { udone := p.unsubAt.isNone }

def late (s : State) : Nat := if s.sub then 0 else 1

def wAllowsTick (s : State) (t' : Nat) : Bool :=
  match s.pc with
  | .sleeping => decide (s.now < s.wake) && decide (t' ≤ s.wake)
  | .exited => true
  | _ => false

def uAllowsTick (p : Params) (s : State) (t' : Nat) : Bool :=
  s.udone || (match p.unsubAt with | none => true | some u => decide (s.now < u) && decide (t' ≤ u))

def step (p : Params) (s : State) : Label → Option State
  | .tick t' =>
      if s.now < t' ∧ wAllowsTick s t' = true ∧ uAllowsTick p s t' = true then some { s with now := t' } else none
  | .run 0 =>
      match s.pc with
      | .top => some { s with pc := .sleeping, wake := s.now + p.d, stepsAfterEnd := s.stepsAfterEnd + late s,
                              sleepsAfterEnd := s.sleepsAfterEnd + late s }
      | .sleeping => if s.wake ≤ s.now then some { s with pc := .next, stepsAfterEnd := s.stepsAfterEnd + late s } else none
      | .next => some { s with pc := .complete, stepsAfterEnd := s.stepsAfterEnd + late s,
                               log := s.log ++ (if s.sub then [(s.now, Ev.next .unit)] else []) }
      | .complete => some { s with pc := .abort, stepsAfterEnd := s.stepsAfterEnd + late s, sub := false,
                                   endedAt := if s.sub then some s.now else s.endedAt,
                                   log := s.log ++ (if s.sub then [(s.now, Ev.complete)] else []) }
      | .abort => some { s with pc := .ret, stepsAfterEnd := s.stepsAfterEnd + late s }
      | .ret => some { s with pc := .exited, stepsAfterEnd := s.stepsAfterEnd + late s, exitedAt := some s.now }
      | .exited => none
  | .run 1 =>
      match p.unsubAt with
      | some u =>
          if s.udone = false ∧ u ≤ s.now then
            some { s with udone := true, sub := false, endedAt := if s.sub then some s.now else s.endedAt }
          else none
      | none => none
  | .run _ => none

/-- replay a recorded label list from the initial state -/
def replay (p : Params) (ls : List Label) : Option State := runFrom (step p) (init p) ls

/-- the whole log of `timer(d)` -/
def expected (d : Nat) : List Out := [(d, Ev.next .unit), (d, Ev.complete)]

end Timer

/-! ## Delay: `source.delay(d)` (operators/delay.rs:30-38), with a slow consumer

thread 0 = the SOURCE thread (the operator has no thread of its own):
```
move |_, x| { thread::sleep(dur); sctl_next.sink_next(x); }   // call → mid1 (asleep, wake = now + d) → deliver →
                                                              //   mid2 (consumer's callback, asleep until now + h) → advance
move |_, e| { sctl_error.sink_error(e); }                     // call → advance   (not delayed)
move |serial| sctl_complete.sink_complete(&serial)            // call → advance   (not delayed)
```
so the source is blocked for `d` inside every `next`, and then for the time `handling[i]` the downstream callback
takes (it runs on the source thread inside `sink_next`; missing entries = 0, and with `h = 0` or an unsubscribed
subscriber the step `mid1 → advance` is a single one).  `srcSub` = the observer handed to the source still has its
callbacks (`Observer::next` = `call_if_available`); `sub` = the downstream subscriber is subscribed
(stream_controller.rs:84-114).  thread 1 = optional unsubscriber at `u` (Observer::unsubscribe → on_unsubscribe →
`finalize` clears the source observer). -/
namespace Delay

structure Params where
  d : Nat
  script : Script
  unsubAt : Option Nat := none
  /-- time the downstream callback takes for script entry `i` (only used for `next` entries) -/
  handling : List Nat := []
deriving DecidableEq, Repr, Inhabited

structure State where
  now : Nat := 0
  src : Src := {}
  /-- handling times of the remaining script entries (in lock-step with `src.rest`) -/
  hrest : List Nat := []
  srcSub : Bool := true
  sub : Bool := true
  udone : Bool := false
  log : List Out := []
deriving DecidableEq, Repr, Inhabited

def init (p : Params) : State := { src := Src.start 0 p.script, hrest := p.handling, udone := p.unsubAt.isNone }

def srcAllowsTick (s : State) (t' : Nat) : Bool :=
  match s.src.pc with
  | .sleeping | .mid1 | .mid2 => decide (s.now < s.src.wake) && decide (t' ≤ s.src.wake)
  | .done => true
  | _ => false

def uAllowsTick (unsubAt : Option Nat) (udone : Bool) (now t' : Nat) : Bool :=
  udone || (match unsubAt with | none => true | some u => decide (now < u) && decide (t' ≤ u))

/-- handling time of the entry at the head of the script -/
def hnow (s : State) : Nat := s.hrest.headD 0

/-- the call returned: go on with the tail of the script -/
def next (s : State) : State := { s with src := s.src.advance s.now, hrest := s.hrest.tail }

def step (p : Params) (s : State) : Label → Option State
  | .tick t' =>
      if s.now < t' ∧ srcAllowsTick s t' = true ∧ uAllowsTick p.unsubAt s.udone s.now t' = true then
        some { s with now := t' } else none
  | .run 0 =>
      match s.src.pc with
      | .sleeping => match s.src.wakeUp s.now with
          | some x => some { s with src := x }
          | none => none
      | .call =>
          match s.src.rest with
          | (_, .next _) :: _ =>
              if s.srcSub then some { s with src := { s.src with pc := .mid1, wake := s.now + p.d } }
              else some (next s)
          | (_, ev) :: _ =>
              some { next s with srcSub := false, sub := s.sub && !s.srcSub,
                                 log := s.log ++ (if s.srcSub && s.sub then [(s.now, ev)] else []) }
          | [] => none
      | .mid1 =>
          match s.src.rest with
          | (_, ev) :: _ =>
              if s.src.wake ≤ s.now then
                if s.sub = true ∧ hnow s ≠ 0 then
                  some { s with src := { s.src with pc := .mid2, wake := s.now + hnow s }, log := s.log ++ [(s.now, ev)] }
                else some { next s with log := s.log ++ (if s.sub then [(s.now, ev)] else []) }
              else none
          | [] => none
      | .mid2 => if s.src.wake ≤ s.now then some (next s) else none
      | .done => none
  | .run 1 =>
      match p.unsubAt with
      | some u => if s.udone = false ∧ u ≤ s.now then some { s with udone := true, sub := false, srcSub := false } else none
      | none => none
  | .run _ => none

/-- what the subscriber of `delay(d)` must see when the source starts waiting for the head of the script at `t`:
    item handed on `d` after it was RECEIVED; it is received only when the previous hand-over AND its handling are done -/
def expected (d : Nat) : Nat → Script → List Nat → List Out
  | _, [], _ => []
  | t, (w, .next x) :: r, hs => (w.wake t + d, .next x) :: expected d (w.wake t + d + hs.headD 0) r hs.tail
  | t, (w, ev) :: _, _ => [(w.wake t, ev)]

/-- replay a recorded label list from the initial state -/
def replay (p : Params) (ls : List Label) : Option State := runFrom (step p) (init p) ls

end Delay

/-- program counter of the thread that unsubscribes the downstream subscriber at time `u`:
    `Observer::unsubscribe` clears the callbacks (`waiting → fin`), then runs `on_unsubscribe` = `finalize` (`fin → done`) -/
inductive UPc where
  | waiting | fin | done
deriving DecidableEq, Repr, Inhabited

def UPc.allowsTick (unsubAt : Option Nat) (now t' : Nat) : UPc → Bool
  | .waiting => match unsubAt with | none => true | some u => decide (now < u) && decide (t' ≤ u)
  | .fin => false
  | .done => true

/-! ## Timeout: `source.timeout(d, new_thread_scheduler())` (operators/timeout.rs:41-105, HEAD 11cd3c1: `on_finalize`
cancels the armed timer; a new timer is armed only if still subscribed and cancelled again if the subscription ended
meanwhile), with a SLOW CONSUMER: the downstream callback runs on the source thread inside `sink_next` and takes
`handling[i]` time units for script entry `i` (missing entries = 0; `handling = []` is the instantaneous consumer).

thread 0 = source thread, thread 1 = optional unsubscriber of the outer subscription, thread `2 + i` = the scheduler
thread of the `i`-th armed timer (`timers[i]`), an `interval(d).take(1)` worker (see `IW`).
```
sctl.set_on_finalize(move || {                                       // timeout.rs:49-54, run ONCE by `finalize`
  let armed = timer.write().unwrap().take();                         //   (stream_controller.rs:132-145: the subscriber is
  if let Some(armed) = armed { armed.unsubscribe(); } });            //    unsubscribed first, then on_finalize is taken)
move |_, x| {                                                        // source (pc, ph)
  { let mut timer = timer.write(); if let Some(t) = &*timer { t.unsubscribe(); } *timer = None; }   // call → (mid1, deliver)
  sctl_next.sink_next(x);                                            // (mid1, deliver): record, consumer starts
                                                                     //   → (mid1, handling) asleep until now + h → (mid2, test)
                                                                     //   (h = 0: → (mid2, test) at once; not subscribed: `finalize`)
  if sctl_next.is_subscribed() {                                     // (mid2, test)  → (mid2, store) | advance
    *timer.write() = Some(interval(dur, ..).take(1).subscribe(       // (mid2, store) → (mid2, recheck): new thread, pc = top
        move |_| sctl.sink_error(TimedOut), ..));
    if !sctl_next.is_subscribed() {                                  // (mid2, recheck) → advance
      let armed = timer.write().unwrap().take(); if let Some(armed) = armed { armed.unsubscribe(); } } }
},
move |_, e| sctl_error.sink_error(e),                                // call → advance: deliver, then `finalize`
move |serial| sctl_complete.sink_complete(&serial)                   // call → advance: deliver, then `finalize`
```
The unsubscriber thread does `Observer::unsubscribe`: clear the callbacks (`waiting → fin`: `sub := false`), then
`on_unsubscribe = finalize` (`fin → done`).
A timer worker at `emit` calls `s.next(0)`: gated by its own observer (`w.sub`), then `take(1)` forwards to the lambda
(`sink_error(TimedOut)` on the OUTER controller: delivered iff the outer subscriber is still subscribed, then
`finalize`) and completes, which unsubscribes the worker's observer (`emitted … true`). -/
namespace Timeout

/-- where the source thread is inside the item handler -/
inductive Ph where
  | deliver | handling | test | store | recheck
deriving DecidableEq, Repr, Inhabited

structure Params where
  d : Nat
  script : Script
  unsubAt : Option Nat := none
  /-- time the downstream callback takes for script entry `i` (only used for `next` entries) -/
  handling : List Nat := []
deriving DecidableEq, Repr, Inhabited

structure State where
  now : Nat := 0
  src : Src := {}
  /-- handling times of the remaining script entries (in lock-step with `src.rest`) -/
  hrest : List Nat := []
  srcSub : Bool := true
  sub : Bool := true
  /-- the `timer` cell: index of the armed timer -/
  slot : Option Nat := none
  timers : List IW := []
  /-- `on_finalize` of the outer controller is still set -/
  onFin : Bool := true
  ph : Ph := .deliver
  upc : UPc := .waiting
  log : List Out := []
  /-- ghost: instant the outer subscriber stopped being subscribed -/
  outerEndedAt : Option Nat := none
deriving DecidableEq, Repr, Inhabited

def init (p : Params) : State :=
  { src := Src.start 0 p.script, hrest := p.handling, upc := if p.unsubAt.isNone then .done else .waiting }

/-- `unsubscribe()` on the timer in `slot`, if any -/
def cancelIn (now : Nat) (slot : Option Nat) (ts : List IW) : List IW :=
  match slot with
  | some i => match ts[i]? with
    | some w => ts.set i (w.cancel now)
    | none => ts
  | none => ts

/-- `timer.unsubscribe()` on the armed timer, if any -/
def cancelSlot (s : State) : List IW := cancelIn s.now s.slot s.timers

/-- timers after `StreamController::finalize` (its `on_finalize` part) -/
def finTimers (s : State) (ts : List IW) : List IW := if s.onFin then cancelIn s.now s.slot ts else ts

/-- `timer` cell after `finalize` -/
def finSlot (s : State) : Option Nat := if s.onFin then none else s.slot

def endOuter (s : State) : Option Nat := if s.sub then some s.now else s.outerEndedAt

/-- handling time of the entry at the head of the script -/
def hnow (s : State) : Nat := s.hrest.headD 0

/-- the source thread blocks the clock unless it sleeps (before a call, or inside the consumer's callback) -/
def srcAllowsTick (s : State) (t' : Nat) : Bool :=
  match s.src.pc with
  | .sleeping => decide (s.now < s.src.wake) && decide (t' ≤ s.src.wake)
  | .mid1 => s.ph == .handling && decide (s.now < s.src.wake) && decide (t' ≤ s.src.wake)
  | .done => true
  | _ => false

/-- the handler returned: go on with the tail of the script -/
def next (s : State) : State := { s with src := s.src.advance s.now, hrest := s.hrest.tail, ph := .deliver }

def step (p : Params) (s : State) : Label → Option State
  | .tick t' =>
      if s.now < t' ∧ srcAllowsTick s t' = true ∧ s.upc.allowsTick p.unsubAt s.now t' = true ∧
         s.timers.all (IW.allowsTick s.now t') = true then
        some { s with now := t' } else none
  | .run 0 =>
      match s.src.pc with
      | .sleeping => match s.src.wakeUp s.now with
          | some x => some { s with src := x }
          | none => none
      | .call =>
          match s.src.rest with
          | (_, .next _) :: _ =>
              if s.srcSub then
                some { s with src := { s.src with pc := .mid1 }, ph := .deliver, timers := cancelSlot s, slot := none }
              else some (next s)
          | (_, ev) :: _ =>
              if s.srcSub then
                some { next s with srcSub := false, sub := false, outerEndedAt := endOuter s,
                                   log := s.log ++ (if s.sub then [(s.now, ev)] else []),
                                   timers := finTimers s s.timers, slot := finSlot s, onFin := false }
              else some (next s)
          | [] => none
      | .mid1 =>
          match s.ph with
          | .handling =>
              if s.src.wake ≤ s.now then some { s with src := { s.src with pc := .mid2 }, ph := .test } else none
          | _ =>
              match s.src.rest with
              | (_, ev) :: _ =>
                  if s.sub then
                    some { s with log := s.log ++ [(s.now, ev)],
                                  src := { s.src with pc := if hnow s = 0 then .mid2 else .mid1, wake := s.now + hnow s },
                                  ph := if hnow s = 0 then .test else .handling }
                  else some { s with src := { s.src with pc := .mid2 }, ph := .test, srcSub := false,
                                     timers := finTimers s s.timers, slot := finSlot s, onFin := false }
              | [] => none
      | .mid2 =>
          match s.ph with
          | .store =>
              some { s with slot := some s.timers.length, timers := s.timers ++ [{ born := s.now }], ph := .recheck }
          | .recheck =>
              if s.sub then some (next s)
              else some { next s with timers := cancelSlot s, slot := none }
          | _ => if s.sub then some { s with ph := .store } else some (next s)
      | .done => none
  | .run 1 =>
      match s.upc with
      | .waiting => match p.unsubAt with
          | some u => if u ≤ s.now then some { s with upc := .fin, sub := false, outerEndedAt := endOuter s } else none
          | none => none
      | .fin => some { s with upc := .done, srcSub := false,
                              timers := finTimers s s.timers, slot := finSlot s, onFin := false }
      | .done => none
  | .run (i + 2) =>
      match s.timers[i]? with
      | some w =>
          match w.pc with
          | .emit =>
              if w.sub then
                some { s with
                  timers := finTimers s (s.timers.set i (w.emitted s.now true))
                  slot := finSlot s
                  onFin := false
                  sub := false
                  srcSub := false
                  outerEndedAt := endOuter s
                  log := s.log ++ (if s.sub then [(s.now, Ev.error timedOut)] else []) }
              else some { s with timers := s.timers.set i (w.emitted s.now true) }
          | _ => match w.localStep p.d s.now with
                 | some w' => some { s with timers := s.timers.set i w' }
                 | none => none
      | none => none

/-- what the subscriber of `timeout(d)` must see.  `t` = instant the source starts waiting for the head of the script
    (= instant the previous handler returned), `armed` = a timer was armed at `t`, `hs` = handling times of the remaining
    entries.  An event arrives at `w.wake t`; it is replaced by `TimedOut` at `t + d` iff a timer is armed and
    `t + d < w.wake t`; an item that passes keeps the source thread until `w.wake t + h`, where the next timer is armed. -/
def expected (d : Nat) : Nat → Bool → Script → List Nat → List Out
  | t, armed, [], _ => if armed then [(t + d, .error timedOut)] else []
  | t, armed, (w, .next x) :: r, hs =>
      if armed ∧ t + d < w.wake t then [(t + d, .error timedOut)]
      else (w.wake t, .next x) :: expected d (w.wake t + hs.headD 0) true r hs.tail
  | t, armed, (w, ev) :: _, _ =>
      if armed ∧ t + d < w.wake t then [(t + d, .error timedOut)] else [(w.wake t, ev)]

/-- "events never exactly simultaneous": no call of the source falls exactly `d` after the previous handler returned -/
def noTie (d : Nat) : Nat → Bool → Script → List Nat → Prop
  | _, _, [], _ => True
  | t, armed, (w, .next _) :: r, hs => (armed = true → t + d ≠ w.wake t) ∧ noTie d (w.wake t + hs.headD 0) true r hs.tail
  | t, armed, (w, _) :: _, _ => (armed = true → t + d ≠ w.wake t)

def liveTimers (s : State) : Nat := (s.timers.filter IW.live).length

/-- replay a recorded label list from the initial state -/
def replay (p : Params) (ls : List Label) : Option State := runFrom (step p) (init p) ls

end Timeout

/-- the payloads of the `next` records of a log -/
def itemsOf (log : List Out) : List Data :=
  log.filterMap fun o => match o.2 with | .next x => some x | _ => none

/-- the items a scripted source emits: its `next` payloads up to its first terminal event -/
def emits : Script → List Data
  | [] => []
  | (_, .next x) :: r => x :: emits r
  | _ :: _ => []

/-! ## Debounce: `source.debounce(d, new_thread_scheduler())` (operators/debounce.rs:42-85)

thread 0 = source thread, thread 1 = optional unsubscriber, thread 2 = the scheduler thread running
```
sctl.set_on_finalize(move || scheduler.abort());          // stream_controller.rs:39-45, 132-145
scheduler.post(move || {
  while sctl.is_subscribed() {                            // check  → body | waiting
    thread::sleep(dur);                                   // body   → sleeping (wake = now + d) → take
    let value = { let mut v = value.write(); let x = v.clone(); *v = None; x };   // take → emit
    if let Some(value) = value { sctl.sink_next(value); } // emit   → check
  }
})                                                         // waiting: back in AsyncFunctionQueue::scheduling, blocked in
                                                           // `wait_while` until `abort` is set → exited
```
Source side: `next` = `*value.write() = Some(x)`; `error`/`complete` = `sink_error`/`sink_complete` = deliver (`call → mid1`)
then `finalize` = clear the source observer and run `on_finalize` = `scheduler.abort()` (`mid1 → advance`). -/
namespace Debounce

inductive DPc where
  | check | body | sleeping | take | emit | waiting | exited
deriving DecidableEq, Repr, Inhabited

structure Params where
  d : Nat
  script : Script
  unsubAt : Option Nat := none
deriving DecidableEq, Repr, Inhabited

structure State where
  now : Nat := 0
  src : Src := {}
  srcSub : Bool := true
  sub : Bool := true
  value : Option Data := none
  held : Option Data := none
  wpc : DPc := .check
  wwake : Nat := 0
  abort : Bool := false
  upc : UPc := .waiting
  log : List Out := []
  endedAt : Option Nat := none
  stepsAfterEnd : Nat := 0
  sleepsAfterEnd : Nat := 0
  exitedAt : Option Nat := none
deriving DecidableEq, Repr, Inhabited

def init (p : Params) : State :=
  { src := Src.start 0 p.script, upc := if p.unsubAt.isNone then .done else .waiting }

def late (s : State) : Nat := if s.sub then 0 else 1

def wAllowsTick (s : State) (t' : Nat) : Bool :=
  match s.wpc with
  | .sleeping => decide (s.now < s.wwake) && decide (t' ≤ s.wwake)
  | .waiting => !s.abort
  | .exited => true
  | _ => false

def endNow (s : State) : Option Nat := if s.sub then some s.now else s.endedAt

def step (p : Params) (s : State) : Label → Option State
  | .tick t' =>
      if s.now < t' ∧ s.src.allowsTick s.now t' = true ∧ s.upc.allowsTick p.unsubAt s.now t' = true ∧
         wAllowsTick s t' = true then some { s with now := t' } else none
  | .run 0 =>
      match s.src.pc with
      | .sleeping => match s.src.wakeUp s.now with
          | some x => some { s with src := x }
          | none => none
      | .call =>
          match s.src.rest with
          | (_, .next x) :: _ =>
              some { s with src := s.src.advance s.now, value := if s.srcSub then some x else s.value }
          | (_, ev) :: _ =>
              if s.srcSub then
                some { s with src := { s.src with pc := .mid1 }, srcSub := false, sub := false, endedAt := endNow s,
                              log := s.log ++ (if s.sub then [(s.now, ev)] else []) }
              else some { s with src := s.src.advance s.now }
          | [] => none
      | .mid1 => some { s with src := s.src.advance s.now, abort := true }
      | _ => none
  | .run 1 =>
      match s.upc with
      | .waiting => match p.unsubAt with
          | some u => if u ≤ s.now then some { s with upc := .fin, sub := false, endedAt := endNow s } else none
          | none => none
      | .fin => some { s with upc := .done, srcSub := false, abort := true }
      | .done => none
  | .run 2 =>
      match s.wpc with
      | .check => some { s with wpc := if s.sub then .body else .waiting, stepsAfterEnd := s.stepsAfterEnd + late s }
      | .body => some { s with wpc := .sleeping, wwake := s.now + p.d, stepsAfterEnd := s.stepsAfterEnd + late s,
                               sleepsAfterEnd := s.sleepsAfterEnd + late s }
      | .sleeping =>
          if s.wwake ≤ s.now then some { s with wpc := .take, stepsAfterEnd := s.stepsAfterEnd + late s } else none
      | .take => some { s with wpc := .emit, held := s.value, value := none, stepsAfterEnd := s.stepsAfterEnd + late s }
      | .emit =>
          some { s with wpc := .check, held := none, stepsAfterEnd := s.stepsAfterEnd + late s,
                        log := s.log ++ (match s.held with | some v => if s.sub then [(s.now, Ev.next v)] else [] | none => []),
                        abort := s.abort || (s.held.isSome && !s.sub),
                        srcSub := s.srcSub && !(s.held.isSome && !s.sub) }
      | .waiting =>
          if s.abort then some { s with wpc := .exited, exitedAt := some s.now, stepsAfterEnd := s.stepsAfterEnd + late s }
          else none
      | .exited => none
  | .run _ => none

/-- replay a recorded label list from the initial state -/
def replay (p : Params) (ls : List Label) : Option State := runFrom (step p) (init p) ls

end Debounce

/-! ## Sample: `source.sample(trigger)` (operators/sample.rs:31-73)

thread 0 = source thread (`next` = `*value.write() = Some(x)`; `error` = `sink_error`; `complete` =
`sink_complete_force`, both followed by `finalize`, which unsubscribes both inner observers),
thread 1 = optional unsubscriber, thread 2 = trigger thread:
```
move |_, _| {
  let value = { let mut v = value.write(); let vv = v.clone(); *v = None; vv };   // call → mid1
  if let Some(v) = value { sctl_trigger_next.sink_next(v); }                      // mid1 → advance
}, |_, _| {}, |_| {}                                                             // trigger terminals: ignored
``` -/
namespace Sample

structure Params where
  script : Script
  trigger : Script
  unsubAt : Option Nat := none
deriving DecidableEq, Repr, Inhabited

structure State where
  now : Nat := 0
  src : Src := {}
  trg : Src := {}
  srcSub : Bool := true
  trgSub : Bool := true
  sub : Bool := true
  value : Option Data := none
  held : Option Data := none
  upc : UPc := .waiting
  log : List Out := []
deriving DecidableEq, Repr, Inhabited

def init (p : Params) : State :=
  { src := Src.start 0 p.script, trg := Src.start 0 p.trigger, upc := if p.unsubAt.isNone then .done else .waiting }

def step (p : Params) (s : State) : Label → Option State
  | .tick t' =>
      if s.now < t' ∧ s.src.allowsTick s.now t' = true ∧ s.trg.allowsTick s.now t' = true ∧
         s.upc.allowsTick p.unsubAt s.now t' = true then some { s with now := t' } else none
  | .run 0 =>
      match s.src.pc with
      | .sleeping => match s.src.wakeUp s.now with
          | some x => some { s with src := x }
          | none => none
      | .call =>
          match s.src.rest with
          | (_, .next x) :: _ =>
              some { s with src := s.src.advance s.now, value := if s.srcSub then some x else s.value }
          | (_, ev) :: _ =>
              some { s with src := s.src.advance s.now, srcSub := false, trgSub := s.trgSub && !s.srcSub,
                            sub := s.sub && !s.srcSub,
                            log := s.log ++ (if s.srcSub && s.sub then [(s.now, ev)] else []) }
          | [] => none
      | _ => none
  | .run 1 =>
      match s.upc with
      | .waiting => match p.unsubAt with
          | some u => if u ≤ s.now then some { s with upc := .fin, sub := false } else none
          | none => none
      | .fin => some { s with upc := .done, srcSub := false, trgSub := false }
      | .done => none
  | .run 2 =>
      match s.trg.pc with
      | .sleeping => match s.trg.wakeUp s.now with
          | some x => some { s with trg := x }
          | none => none
      | .call =>
          match s.trg.rest with
          | (_, .next _) :: _ =>
              if s.trgSub then some { s with trg := { s.trg with pc := .mid1 }, held := s.value, value := none }
              else some { s with trg := s.trg.advance s.now }
          | _ :: _ => some { s with trg := s.trg.advance s.now, trgSub := false }
          | [] => none
      | .mid1 =>
          some { s with trg := s.trg.advance s.now, held := none,
                        log := s.log ++ (match s.held with | some v => if s.sub then [(s.now, Ev.next v)] else [] | none => []),
                        srcSub := s.srcSub && !(s.held.isSome && !s.sub),
                        trgSub := s.trgSub && !(s.held.isSome && !s.sub) }
      | _ => none
  | .run _ => none

/-- replay a recorded label list from the initial state -/
def replay (p : Params) (ls : List Label) : Option State := runFrom (step p) (init p) ls

end Sample

/-! ## Rounds: a driver that subscribes `interval(d)`, holds it, unsubscribes, pauses, and repeats (C15 accumulation)

thread 0 = driver: for `(hold, pause)` in the script: `let sb = interval(d, new_thread_scheduler()).subscribe(..)`
(a NEW scheduler thread, `workers` grows), `sleep(hold)`, `sb.unsubscribe()`, `sleep(pause)`.
thread `1 + i` = scheduler thread of the `i`-th subscription (an `IW`; its `s.next(n)` just counts). -/
namespace Rounds

inductive RPc where
  | subscribe | holding | pausing | done
deriving DecidableEq, Repr, Inhabited

structure Params where
  d : Nat
  rounds : List (Nat × Nat)
deriving DecidableEq, Repr, Inhabited

structure State where
  now : Nat := 0
  rest : List (Nat × Nat) := []
  pc : RPc := .done
  wake : Nat := 0
  workers : List IW := []
  /-- ghost: instant the driver finished its last round -/
  finishedAt : Option Nat := none
deriving DecidableEq, Repr, Inhabited

def init (p : Params) : State :=
  { rest := p.rounds, pc := if p.rounds.isEmpty then .done else .subscribe,
    finishedAt := if p.rounds.isEmpty then some 0 else none }

def live (s : State) : Nat := (s.workers.filter IW.live).length

/-- `sb.unsubscribe()` on the subscription made in this round (the last worker) -/
def cancelLast (s : State) : List IW :=
  match s.workers[s.workers.length - 1]? with
  | some w => s.workers.set (s.workers.length - 1) (w.cancel s.now)
  | none => s.workers

def driverAllowsTick (s : State) (t' : Nat) : Bool :=
  match s.pc with
  | .holding | .pausing => decide (s.now < s.wake) && decide (t' ≤ s.wake)
  | .done => true
  | .subscribe => false

def step (p : Params) (s : State) : Label → Option State
  | .tick t' =>
      if s.now < t' ∧ driverAllowsTick s t' = true ∧ s.workers.all (IW.allowsTick s.now t') = true then
        some { s with now := t' } else none
  | .run 0 =>
      match s.pc, s.rest with
      | .subscribe, (hold, _) :: _ =>
          some { s with pc := .holding, wake := s.now + hold, workers := s.workers ++ [{ born := s.now }] }
      | .holding, (_, pause) :: r =>
          if s.wake ≤ s.now then
            some { s with pc := .pausing, wake := s.now + pause, rest := r,
                          workers := cancelLast s }
          else none
      | .pausing, r =>
          if s.wake ≤ s.now then
            some { s with pc := if r.isEmpty then .done else .subscribe,
                          finishedAt := if r.isEmpty then some s.now else none }
          else none
      | _, _ => none
  | .run (i + 1) =>
      match s.workers[i]? with
      | some w =>
          match w.pc with
          | .emit => some { s with workers := s.workers.set i (w.emitted s.now false) }
          | _ => match w.localStep p.d s.now with
                 | some w' => some { s with workers := s.workers.set i w' }
                 | none => none
      | none => none

/-- replay a recorded label list from the initial state -/
def replay (p : Params) (ls : List Label) : Option State := runFrom (step p) (init p) ls

end Rounds

/-! ## Executable expectations for the driver

`expectedLine` answers a one-line request with the expected subscriber log of the corresponding model
(`Interval.expected`, `Interval.expectedTake`, `Timer.expected`, `Delay.expected`, `Timeout.expected`; proved to be what
every run delivers in `Theorems/C16.lean`).

Requests (tokens separated by blanks):
  `interval <d> <k>`        first `k` records of `interval(d)`
  `interval-take <d> <c>`   whole log of `interval(d).take(c)`
  `timer <d>`               whole log of `timer(d)`
  `delay <d> <entry>*`      log of `source.delay(d)`
  `timeout <d> <entry>*`    log of `source.timeout(d)` (no exact ties assumed)
An `<entry>` of the source script is one of
  `<wait>:<value>:<handling>`  `next(value)` (a decimal integer, may be negative); the downstream callback takes
                               `handling` time units on the source thread (`<wait>:<value>` = handling 0)
  `c:<wait>`                   `complete`
  `e:<wait>`                   `error` (some error other than TimedOut)
and `<wait>` is `<g>` = sleep `g` after the previous call returned, or `@<t>` = sleep until the absolute instant `t`.
A script without terminal entry never terminates (for `timeout` the last timer then fires).
Answer: the records separated by blanks, `n<value>@<time>`, `c@<time>`, `e@<time>`, TimedOut as `eT@<time>`
(`timer` delivers `next(())`, printed `nu@<time>`); a malformed request gives a string starting with `error:`.
Example: `timeout 20 5:1:0 15:2:10 c:1` ↦ `n1@5 n2@20 c@31`. -/

def valStr : Data → String
  | .int i => toString i
  | .unit => "u"
  | .bool true => "T"
  | .bool false => "F"
  | _ => "?"

def outStr (o : Out) : String :=
  match o.2 with
  | .next x => "n" ++ valStr x ++ "@" ++ toString o.1
  | .complete => "c@" ++ toString o.1
  | .error e => (if e = timedOut then "eT@" else "e@") ++ toString o.1

def showOuts (l : List Out) : String := " ".intercalate (l.map outStr)

def parseWait (s : String) : Option Wait :=
  if s.startsWith "@" then (s.drop 1).toString.toNat?.map Wait.abs else s.toNat?.map Wait.rel

/-- one script entry together with its handling time -/
def parseEntry (tok : String) : Option ((Wait × Ev) × Nat) :=
  match tok.splitOn ":" with
  | ["c", g] => (parseWait g).map fun w => ((w, Ev.complete), 0)
  | ["e", g] => (parseWait g).map fun w => ((w, Ev.error 1), 0)
  | [g, v, h] =>
      match parseWait g, v.toInt?, h.toNat? with
      | some w, some i, some h => some ((w, Ev.next (.int i)), h)
      | _, _, _ => none
  | [g, v] =>
      match parseWait g, v.toInt? with
      | some w, some i => some ((w, Ev.next (.int i)), 0)
      | _, _ => none
  | _ => none

def expectedLine (line : String) : String :=
  match (line.trimAscii.toString.splitOn " ").filter (· ≠ "") with
  | ["interval", d, k] =>
      match d.toNat?, k.toNat? with
      | some d, some k => showOuts (Interval.expected d k)
      | _, _ => "error: interval <d> <k>"
  | ["interval-take", d, c] =>
      match d.toNat?, c.toNat? with
      | some d, some c => showOuts (Interval.expectedTake d c)
      | _, _ => "error: interval-take <d> <c>"
  | ["timer", d] =>
      match d.toNat? with
      | some d => showOuts (Timer.expected d)
      | none => "error: timer <d>"
  | "delay" :: d :: items =>
      match d.toNat?, items.mapM parseEntry with
      | some d, some es => showOuts (Delay.expected d 0 (es.map (·.1)) (es.map (·.2)))
      | _, _ => "error: delay <d> <entry>*"
  | "timeout" :: d :: items =>
      match d.toNat?, items.mapM parseEntry with
      | some d, some es => showOuts (Timeout.expected d 0 false (es.map (·.1)) (es.map (·.2)))
      | _, _ => "error: timeout <d> <entry>*"
  | _ => "error: unknown request"

end Rx.Timed
