import RxVerif.Data
import RxVerif.Conc.Sctl
/-
Model C (lock granularity) for property C11, part 2: the "decide under the lock / emit outside the lock" pattern of
`take`, `amb` and `zip`.

Rust sources followed (CURRENT tree):
  /repo/src/operators/take.rs l.36-51   closure `next`: counter under `n.write()` -> (emit, complete); emit / complete outside
  /repo/src/operators/amb.rs  l.27-35   `is_win` (winner cell under `winner.write()`), l.50-72 the three closures
  /repo/src/operators/zip.rs  l.41-69   `register`: push under `results.write()`; loop { `get` under `results.write()`; emit }
  /repo/src/internals/stream_controller.rs (sink_next l.84, sink_complete l.101, sink_complete_force l.117,
                                            upstream_abort_observe l.124, finalize l.132)

Granularity: one micro-step per lock operation of the operator's own cell (counter / winner / queues) and per lock
operation on the subscriber's slots, callback start and callback return — as in `Sctl.lean`.
Coarser than `Sctl.lean` in two places (both are over-approximations for the safety theorems proved about them —
dropping a blocking condition or a gate only ADDS interleavings — and do not touch the decide/emit pattern):
  * an inner observer (made by `new_observer`) is represented by its `fn_next` slot only (`iN`); taking its own terminal
    slot after a successful claim is assumed to succeed (if it fails the closure is simply not called, which is the same
    as never scheduling the thread again);
  * in `Take`, `finalize` is ONE step (clear all inner `fn_next`, clear `unscribers`, and — if still subscribed — clear
    the three subscriber slots): with its single serial every `finalize` of take runs after the serial was removed and
    the subscriber's fn_next was claimed, i.e. changes nothing (co-simulation: 0 rejects).  `Amb` has the fine-grained
    `finalize` (see there), as `Sctl.lean`.  `upstream_abort_observe` is two steps (remove key / clear own inner
    `fn_next`) without modelling that the `unscribers` write lock is held across the second.
`is_subscribed` is one atomic step (sound: `Sctl.isSub_linearizable`).
-/
namespace Rx.Conc

/-! ## take(count) -/
namespace Take
open Rx Rx.Conc.Sctl

/-- `x` = "called from the `next` closure, an explicit `finalize()` follows" (take.rs l.49) -/
inductive Pc where
  | idle
  | fetchI                    -- obs.next(x): fetch inner fn_next                        observer.rs:38
  | count                     -- n.write(): nn = *n; *n += 1; (nn<count, nn+1>=count)    take.rs:37-42
  | sub (c : Bool)            -- emit: sink_next: is_subscribed()                        stream_controller.rs:85
  | fetch (c : Bool)          -- subscriber.next: fetch fn_next
  | start (c : Bool)          -- next callback starts (ghost log)
  | cb (c : Bool)             -- next callback returns
  | abort1                    -- upstream_abort_observe: unscribers.write().remove(serial)  stream_controller.rs:125-126
  | abort2                    -- o.call(()): unsubscribe inner observer: clear inner fn_next
  | claimI                    -- upstream completes: obs.complete(): claim inner fn_next
  | tSub (x : Bool)           -- sink_complete: is_subscribed()
  | cRemove (x : Bool)        -- write lock: remove(serial); len()==0
  | tClaim (x : Bool)         -- subscriber.complete(): claim fn_next
  | tClr (x : Bool)           -- clear fn_error
  | tTake (x : Bool)          -- take fn_complete
  | tStart (x : Bool)         -- complete callback starts (ghost log)
  | tCb (x : Bool)            -- complete callback returns
  | fin1 (x : Bool)           -- finalize() inside sink_complete (one step, see header)
  | fin2                      -- the explicit `sctl_next.finalize()`                     take.rs:49
deriving Repr, DecidableEq, Inhabited

structure Thread where
  todo : List Data            -- items this upstream thread still offers (head = call in progress)
  fin : Bool                  -- will call obs.complete() after its items
  pc : Pc
deriving Repr, DecidableEq

structure State where
  count : Nat                 -- the operator's parameter
  ctr : Nat := 0              -- `n`
  iN : Bool := true           -- inner observer's fn_next
  live : Bool := true         -- serial present in unscribers
  sN : Bool := true
  sE : Bool := true
  sC : Bool := true
  log : List (Nat × Ev) := []
  threads : List Thread
deriving Repr, DecidableEq

def State.isSub (s : State) : Bool := s.sN && s.sE && s.sC
def State.upd (s : State) (i : Nat) (th : Thread) : State := { s with threads := s.threads.set i th }

def init (count : Nat) (scripts : List (List Data × Bool)) : State :=
  { count := count, threads := scripts.map fun sc => { todo := sc.1, fin := sc.2, pc := .idle } }

def step (s : State) (i : Nat) : Option State :=
  match s.threads[i]? with
  | none => none
  | some th =>
    match th.pc with
    | .idle =>
      match th.todo, th.fin with
      | _ :: _, _ => some (s.upd i { th with pc := .fetchI })
      | [], true => some (s.upd i { th with fin := false, pc := .claimI })
      | [], false => none
    | .fetchI => some (s.upd i { th with todo := if s.iN then th.todo else th.todo.tail,
                                         pc := if s.iN then .count else .idle })
    | .count =>
      some ({ s with ctr := s.ctr + 1 }.upd i
        { th with todo := if s.ctr < s.count then th.todo else th.todo.tail,
                  pc := if s.ctr < s.count then .sub (decide (s.ctr + 1 ≥ s.count))
                        else if s.ctr + 1 ≥ s.count then .abort1 else .idle })
    | .sub c => some (s.upd i { th with todo := if s.isSub then th.todo else th.todo.tail,
                                        pc := if s.isSub then .fetch c else .fin1 c })
        -- not subscribed: sink_next calls finalize(); afterwards, if `c`, the abort/complete part follows.
        -- `fin1 c` with c = true continues with `fin2`, which here stands for that remaining part collapsed
        -- (abort + sink_complete on a non-subscribed controller + finalize: no subscriber-visible effect)
    | .fetch c => some (s.upd i { th with todo := if s.sN then th.todo else th.todo.tail,
                                          pc := if s.sN then .start c else (if c then .abort1 else .idle) })
    | .start c => some ({ s with log := logNext s.log i th.todo }.upd i { th with todo := th.todo.tail, pc := .cb c })
    | .cb c => some (s.upd i { th with pc := if c then .abort1 else .idle })
    | .abort1 => some ({ s with live := false }.upd i { th with pc := if s.live then .abort2 else .tSub true })
    | .abort2 => some ({ s with iN := false }.upd i { th with pc := .tSub true })
    | .claimI => some ({ s with iN := false }.upd i { th with pc := if s.iN then .tSub false else .idle })
    | .tSub x => some (s.upd i { th with pc := if s.isSub then .cRemove x else .fin1 x })
    | .cRemove x => some ({ s with live := false }.upd i { th with pc := .tClaim x })   -- single key: len()==0 holds
    | .tClaim x => some ({ s with sN := false }.upd i { th with pc := if s.sN then .tClr x else .fin1 x })
    | .tClr x => some ({ s with sE := false }.upd i { th with pc := .tTake x })
    | .tTake x => some ({ s with sC := false }.upd i { th with pc := if s.sC then .tStart x else .fin1 x })
    | .tStart x => some ({ s with log := s.log ++ [(i, Ev.complete)] }.upd i { th with pc := .tCb x })
    | .tCb x => some (s.upd i { th with pc := .fin1 x })
    | .fin1 x =>
      some ({ s with iN := s.iN && !s.live, live := false,
                     sN := s.sN && !s.isSub, sE := s.sE && !s.isSub, sC := s.sC && !s.isSub }.upd i
              { th with pc := if x then .fin2 else .idle })
    | .fin2 =>
      some ({ s with iN := s.iN && !s.live, live := false,
                     sN := s.sN && !s.isSub, sE := s.sE && !s.isSub, sC := s.sC && !s.isSub }.upd i
              { th with pc := .idle })

inductive Reachable (count : Nat) (scripts : List (List Data × Bool)) : State → Prop
  | init : Reachable count scripts (init count scripts)
  | step {s s' i} : Reachable count scripts s → step s i = some s' → Reachable count scripts s'

def run (s : State) : List Nat → Option State
  | [] => some s
  | i :: is => match step s i with
    | none => none
    | some s' => run s' is

theorem reachable_of_run {count : Nat} {scripts : List (List Data × Bool)} {s : State}
    (h : Reachable count scripts s) : ∀ (ls : List Nat) (s' : State), run s ls = some s' → Reachable count scripts s' := by
  intro ls
  induction ls generalizing s with
  | nil => intro s' h'; simp [run] at h'; subst h'; exact h
  | cons l ls ih =>
    intro s' h'
    simp only [run] at h'
    cases hs : step s l with
    | none => simp [hs] at h'
    | some s1 => simp only [hs] at h'; exact ih (Reachable.step h hs) s' h'

/-- `n` consecutive steps of thread `i` -/
def rep (n i : Nat) : List Nat := List.replicate n i

/-- text format of a label: `<tid>` -/
def parseLabel (line : String) : Option Nat := line.trimAscii.toString.toNat?

end Take

/-! ## amb -/
namespace Amb
open Rx Rx.Conc.Sctl

/-
`finalize` is FINE-GRAINED here (as in `Sctl.lean`, with an inner observer represented by its fn_next): co-simulation of
the real code (harness/conc/src/sctl.rs, `rxmodel cosim amb`) refuted the one-step version — the winner's `finalize`
unsubscribes the losers' inner observers one by one under the `unscribers` READ lock, releases it, and only then takes
the write lock to clear the map; a loser whose `upstream_abort_observe` gets the write lock in between still finds its
key (`remove` = Some) and unsubscribes its inner observer a second time (`abort2`), which a `finalize` that clears the
map in the same step as the slots cannot show; with three inputs the slots of two losers are also cleared at different
times.  Writers of `unscribers` (`abort1`, `fClear`) wait for `readers = 0`; that `upstream_abort_observe` keeps the
write lock across `abort2` is still not modelled (more interleavings).  The order in which `finalize` visits the keys is
chosen by the label (`pick`).
-/

inductive Pc where
  | idle
  | fetchI                    -- obs_i.next(x): fetch inner fn_next_i
  | win                       -- is_win(serial): winner.write()                          amb.rs:27-35
  | sub                       -- winner: sink_next: is_subscribed()
  | fetch                     -- subscriber.next: fetch fn_next
  | start                     -- next callback starts (ghost log)
  | cb                        -- next callback returns
  | abort1                    -- loser: upstream_abort_observe: unscribers.write().remove(serial)
  | abort2                    --        unsubscribe own inner observer (clear inner fn_next_i)
  | claimI                    -- obs_i.complete(): claim inner fn_next_i
  | winC                      -- is_win(serial) in the complete closure
  | fSub                      -- sink_complete_force: is_subscribed()                    stream_controller.rs:118
  | tClaim | tClr | tTake | tStart | tCb
  -- finalize()                                                                          stream_controller.rs:132-145
  | fLock                     -- unscribers.read(): acquire, snapshot keys
  | fPick (pend : List Nat)   -- for_each: next key (order = label) / release the read lock when none is left
  | fU (pend : List Nat) (j : Nat)   -- o_j.unsubscribe(): clear inner fn_next_j
  | fClear                    -- unscribers.write().clear()
  | fEnd                      -- `if subscriber.is_subscribed() { subscriber.unsubscribe() }` in one step (the body is
                              -- never entered on the recorded runs; kept as in the one-step version); on_finalize: None
deriving Repr, DecidableEq, Inhabited

structure Thread where
  todo : List Data
  fin : Bool
  pc : Pc
deriving Repr, DecidableEq

structure State where
  winner : Option Nat := none
  iN : List Bool
  live : List Bool
  readers : Nat := 0          -- holders of unscribers' read lock (writers wait for 0)
  sN : Bool := true
  sE : Bool := true
  sC : Bool := true
  log : List (Nat × Ev) := []
  threads : List Thread
deriving Repr, DecidableEq

def State.isSub (s : State) : Bool := s.sN && s.sE && s.sC
def State.upd (s : State) (i : Nat) (th : Thread) : State := { s with threads := s.threads.set i th }

/-- label = scheduled thread (+ the key picked by the HashMap iteration when the thread is at `fPick`) -/
structure Label where
  tid : Nat
  pick : Nat := 0
deriving Repr, DecidableEq

def init (scripts : List (List Data × Bool)) : State :=
  { iN := List.replicate scripts.length true, live := List.replicate scripts.length true,
    threads := scripts.map fun sc => { todo := sc.1, fin := sc.2, pc := .idle } }

/-- `is_win`: the value returned to thread `i` -/
def wins (s : State) (i : Nat) : Bool :=
  match s.winner with
  | none => true
  | some w => w == i

def step (s : State) (l : Label) : Option State :=
  let i := l.tid
  match s.threads[i]? with
  | none => none
  | some th =>
    match th.pc with
    | .idle =>
      match th.todo, th.fin with
      | _ :: _, _ => some (s.upd i { th with pc := .fetchI })
      | [], true => some (s.upd i { th with fin := false, pc := .claimI })
      | [], false => none
    | .fetchI => some (s.upd i { th with todo := if get s.iN i then th.todo else th.todo.tail,
                                         pc := if get s.iN i then .win else .idle })
    | .win =>
      some ({ s with winner := if s.winner.isNone then some i else s.winner }.upd i
        { th with todo := if wins s i then th.todo else th.todo.tail, pc := if wins s i then .sub else .abort1 })
    | .sub => some (s.upd i { th with todo := if s.isSub then th.todo else th.todo.tail,
                                      pc := if s.isSub then .fetch else .fLock })
    | .fetch => some (s.upd i { th with todo := if s.sN then th.todo else th.todo.tail,
                                        pc := if s.sN then .start else .idle })
    | .start => some ({ s with log := logNext s.log i th.todo }.upd i { th with todo := th.todo.tail, pc := .cb })
    | .cb => some (s.upd i { th with pc := .idle })
    | .abort1 =>
      if s.readers = 0 then
        some ({ s with live := s.live.set i false }.upd i { th with pc := if get s.live i then .abort2 else .idle })
      else none
    | .abort2 => some ({ s with iN := s.iN.set i false }.upd i { th with pc := .idle })
    | .claimI => some ({ s with iN := s.iN.set i false }.upd i { th with pc := if get s.iN i then .winC else .idle })
    | .winC =>
      some ({ s with winner := if s.winner.isNone then some i else s.winner }.upd i
        { th with pc := if wins s i then .fSub else .abort1 })
    | .fSub => some (s.upd i { th with pc := if s.isSub then .tClaim else .fLock })
    | .tClaim => some ({ s with sN := false }.upd i { th with pc := if s.sN then .tClr else .fLock })
    | .tClr => some ({ s with sE := false }.upd i { th with pc := .tTake })
    | .tTake => some ({ s with sC := false }.upd i { th with pc := if s.sC then .tStart else .fLock })
    | .tStart => some ({ s with log := s.log ++ [(i, Ev.complete)] }.upd i { th with pc := .tCb })
    | .tCb => some (s.upd i { th with pc := .fLock })
    | .fLock => some ({ s with readers := s.readers + 1 }.upd i { th with pc := .fPick (keysOf s.live) })
    | .fPick pend =>
      if pend = [] then some ({ s with readers := s.readers - 1 }.upd i { th with pc := .fClear })
      else if l.pick ∈ pend then some (s.upd i { th with pc := .fU (pend.erase l.pick) l.pick })
      else none
    | .fU pend j => some ({ s with iN := s.iN.set j false }.upd i { th with pc := .fPick pend })
    | .fClear =>
      if s.readers = 0 then
        some ({ s with live := List.replicate s.live.length false }.upd i { th with pc := .fEnd })
      else none
    | .fEnd =>
      some ({ s with sN := s.sN && !s.isSub, sE := s.sE && !s.isSub, sC := s.sC && !s.isSub }.upd i
              { th with pc := .idle })

inductive Reachable (scripts : List (List Data × Bool)) : State → Prop
  | init : Reachable scripts (init scripts)
  | step {s s' l} : Reachable scripts s → step s l = some s' → Reachable scripts s'

def run (s : State) : List Label → Option State
  | [] => some s
  | l :: ls => match step s l with
    | none => none
    | some s' => run s' ls

theorem reachable_of_run {scripts : List (List Data × Bool)} {s : State}
    (h : Reachable scripts s) : ∀ (ls : List Label) (s' : State), run s ls = some s' → Reachable scripts s' := by
  intro ls
  induction ls generalizing s with
  | nil => intro s' h'; simp [run] at h'; subst h'; exact h
  | cons l ls ih =>
    intro s' h'
    simp only [run] at h'
    cases hs : step s l with
    | none => simp [hs] at h'
    | some s1 => simp only [hs] at h'; exact ih (Reachable.step h hs) s' h'

/-- `n` consecutive steps of thread `i` (outside `finalize`'s loop: pick 0) -/
def rep (n i : Nat) : List Label := List.replicate n { tid := i }

/-- one step of thread `i` visiting key `j` in `finalize`'s loop -/
def pk (i j : Nat) : List Label := [{ tid := i, pick := j }]

/-- text format of a label: `<tid>` or `<tid> <key>` -/
def parseLabel (line : String) : Option Label :=
  match (line.trimAscii.toString.splitOn " ").filter (· ≠ "") with
  | [t] => t.toNat?.map fun n => { tid := n }
  | [t, k] => match t.toNat?, k.toNat? with
    | some n, some j => some { tid := n, pick := j }
    | _, _ => none
  | _ => none

end Amb

/-! ## zip -/
namespace Zip
open Rx

inductive Pc where
  | idle
  | push                      -- results.write(): queues[id].push_back(x)                         zip.rs:42-47
  | get                       -- results.write(): all queues non-empty ? pop_front of each : None  zip.rs:50-62
  | chk (v : List Data)       -- loop body: `if !sctl_f.is_subscribed() { break }`                 zip.rs:64-66
  | sub (v : List Data)       -- sink_next: is_subscribed()
  | fetch (v : List Data)     -- subscriber.next: fetch fn_next
  | start (v : List Data)     -- next callback starts (ghost log)
  | cb                        -- next callback returns; back to `get`
deriving Repr, DecidableEq, Inhabited

/-- the tuple a thread has popped (under the lock) and not yet handed to the subscriber (outside the lock) -/
def Pc.held : Pc → Option (List Data)
  | .chk v | .sub v | .fetch v | .start v => some v
  | .idle | .push | .get | .cb => none

structure Thread where
  todo : List Data            -- items still to offer (head = item of the call in progress until it is pushed)
  pc : Pc
deriving Repr, DecidableEq

structure State where
  queues : List (List Data)
  sub : Bool := true          -- subscriber still subscribed (one flag stands for the three slots)
  log : List (Nat × List Data) := []     -- ghost: delivered tuples with delivering thread
  popped : List (List Data) := []        -- ghost: tuples in the order they were popped
  dropped : List (List Data) := []       -- ghost: tuples popped but discarded because the subscriber was gone
  threads : List Thread
deriving Repr, DecidableEq

inductive Label where
  | th (i : Nat)              -- micro-step of input thread i
  | unsub                     -- environment: the subscriber unsubscribes
deriving Repr, DecidableEq

def allFilled (qs : List (List Data)) : Bool := qs.all fun q => !q.isEmpty
def heads (qs : List (List Data)) : List Data := qs.map fun q => q.headD Data.unit

def State.upd (s : State) (i : Nat) (th : Thread) : State := { s with threads := s.threads.set i th }

def init (scripts : List (List Data)) : State :=
  { queues := scripts.map fun _ => [], threads := scripts.map fun sc => { todo := sc, pc := .idle } }

def step (s : State) (l : Label) : Option State :=
  match l with
  | .unsub => some { s with sub := false }
  | .th i =>
    match s.threads[i]? with
    | none => none
    | some th =>
      match th.pc with
      | .idle =>
        match th.todo with
        | _ :: _ => some (s.upd i { th with pc := .push })
        | [] => none
      | .push =>
        some ({ s with queues := s.queues.modify i fun q => q ++ th.todo.take 1 }.upd i
                { th with todo := th.todo.tail, pc := .get })
      | .get =>
        some ({ s with queues := if allFilled s.queues then s.queues.map List.tail else s.queues,
                       popped := if allFilled s.queues then s.popped ++ [heads s.queues] else s.popped }.upd i
                { th with pc := if allFilled s.queues then .chk (heads s.queues) else .idle })
      | .chk v =>
        some ({ s with dropped := if s.sub then s.dropped else s.dropped ++ [v] }.upd i
                { th with pc := if s.sub then .sub v else .idle })
      | .sub v =>
        some ({ s with dropped := if s.sub then s.dropped else s.dropped ++ [v] }.upd i
                { th with pc := if s.sub then .fetch v else .get })
      | .fetch v =>
        some ({ s with dropped := if s.sub then s.dropped else s.dropped ++ [v] }.upd i
                { th with pc := if s.sub then .start v else .get })
      | .start v => some ({ s with log := s.log ++ [(i, v)] }.upd i { th with pc := .cb })
      | .cb => some (s.upd i { th with pc := .get })

inductive Reachable (scripts : List (List Data)) : State → Prop
  | init : Reachable scripts (init scripts)
  | step {s s' l} : Reachable scripts s → step s l = some s' → Reachable scripts s'

def run (s : State) : List Label → Option State
  | [] => some s
  | l :: ls => match step s l with
    | none => none
    | some s' => run s' ls

theorem reachable_of_run {scripts : List (List Data)} {s : State}
    (h : Reachable scripts s) : ∀ (ls : List Label) (s' : State), run s ls = some s' → Reachable scripts s' := by
  intro ls
  induction ls generalizing s with
  | nil => intro s' h'; simp [run] at h'; subst h'; exact h
  | cons l ls ih =>
    intro s' h'
    simp only [run] at h'
    cases hs : step s l with
    | none => simp [hs] at h'
    | some s1 => simp only [hs] at h'; exact ih (Reachable.step h hs) s' h'

def rep (n i : Nat) : List Label := List.replicate n (.th i)

/-- text format of a label: `<tid>` or `unsub` -/
def parseLabel (line : String) : Option Label :=
  let t := line.trimAscii.toString
  if t = "unsub" then some .unsub else t.toNat?.map .th

def Thread.finished (th : Thread) : Bool := th.pc = .idle && th.todo.isEmpty
def State.allDone (s : State) : Bool := s.threads.all Thread.finished

/-- the n-th tuple: the n-th item of every input -/
def tuple (scripts : List (List Data)) (n : Nat) : List Data := scripts.map fun sc => sc.getD n Data.unit

def minLen : List (List Data) → Nat
  | [] => 0
  | [a] => a.length
  | a :: b :: rest => min a.length (minLen (b :: rest))

end Zip

end Rx.Conc
