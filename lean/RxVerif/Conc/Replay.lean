/-
Model C (lock-granularity LTS) of `ReplaySubject` used from several threads.
Rust sources followed: /repo/src/subjects/replay_subject.rs (l.28-101, as of fix 6cfcdd3), /repo/src/utils/ready_set_go.rs (l.3-15),
/repo/src/subjects/subject.rs (l.31-97), /repo/src/observer.rs (l.38-71), /repo/src/observable.rs (l.23-40),
/repo/src/subscription.rs (l.20-22), /repo/src/internals/function_wrapper.rs.

Every outer observer `o` gets (inside its `subscribe` call) a private forwarder observer `F(o)` that is registered in
the inner `Subject`; its `next` callback is `move |x| s_next.next(x)` (replay_subject.rs l.88).  The record `Obs` holds
the slots of both.  Micro-steps (label kinds):

`ReplaySubject::next(v)` (l.28-31)
  * `push`    : `items.write().push(v)`                                                   (l.29)
  * `snap`    : inner `Subject::next` → `fetch_observers` (read lock of the inner map)     (subject.rs l.31-35)
  * `fetch`   : read `F(o).fn_next` (function_wrapper.rs `fetch_function`); absent ⇒ skip `o`
  * `ofetch`  : the forwarder callback started: `s_next.next(x)` reads `o.fn_next`; absent ⇒ nothing delivered
  * `deliver` : the subscriber's own callback is invoked, no lock held (ghost log of `o` grows)
  * `ret`     : broadcast finished
`observable().subscribe(..)` with a fresh outer observer `o` (l.40-101)
  * `isSub1`  : `inner_subscribe`: `observer.is_subscribed()`                              (observable.rs l.29)
  * `setTd`   : `s.set_on_unsubscribe(..)`                                                 (l.50-54)
  * `hist`    : `let history = items.read().unwrap().clone()`                              (l.59)
  * `serial`  : `ready_set_go(..).subscribe(..)` creates `F(o)`, `inner_subscribe`s it into `subject.observable()`:
                the three `is_subscribed()` checks on the still thread-private `F(o)` are always true and are folded
                into this step, which is `*serial += 1`                                     (subject.rs l.68-72)
  * `setTdF`  : `F(o).set_on_unsubscribe(..)`                                              (subject.rs l.76-85)
  * `insert`  : `observers.write().insert(serial, F(o))`                                   (subject.rs l.87-91)
  * `rdErr`, `rdCompl` : the replay closure reads `was_error`, `was_completed`             (l.72-73)
  * `hfetch`  : replay loop `s.next(x)`: read `o.fn_next`; absent ⇒ this history item is skipped   (l.74-76)
  * `hdeliver`: the subscriber's callback is invoked with the history item
  * `hdone`   : the replay loop is exhausted (`was_error = None`, `was_completed = false`: nothing else to send)
  * `setSbsc` : `*sbsc.write() = Some(live.clone())`                                       (l.94)
  * `isSubEnd`: `if !s_alive.is_subscribed()` (l.95, added by fix 6cfcdd3): subscribed ⇒ the call returns; otherwise
                the subscriber ended during the replay and the SUBSCRIBING thread runs `live.unsubscribe()` (l.98):
                `takeUnsub` (already taken by a concurrent teardown ⇒ return), then `F(o).unsubscribe()` =
                `fClrNext`, `fClrErr`, `fClrCompl`, `fReadTd`, `fRemove`, `fClrTd` (pcs `e5 .. e9c`), then the call returns
  (terminals are not modelled: `was_error = None`, `was_completed = false` throughout)
`Observer::unsubscribe` of the outer observer `o` (observer.rs l.55-62)
  * `clrNext`, `clrErr`, `clrCompl`, `readTd` (absent ⇒ go to `clrTd`)
  * `readSbsc`: the teardown reads `sbsc` (l.51); `None` ⇒ nothing
  * `takeUnsub`: `Subscription::unsubscribe` → `call_and_clear_if_available` takes `fn_unsubscribe` (subscription.rs l.21)
  * `fClrNext`, `fClrErr`, `fClrCompl`, `fReadTd`, `fRemove`, `fClrTd` : `F(o).unsubscribe()`
  * `clrTd`
The same abstractions as in `RxVerif/Conc/Subject.lean` apply (atomic `is_subscribed`, no blocking on the
`fn_on_unsubscribe` read lock during a teardown, insertion order for the `HashMap`, fresh observer per `subscribe`).
`items` carries ghost tags `(producer tid, call index)` beside each item.
-/
import RxVerif.Data

namespace Rx.Conc.Replay

inductive Call where
  | next (v : Data)
  | subscribe (o : Nat)
  | unsubscribe (o : Nat)
deriving Repr, DecidableEq, Inhabited

abbrev Entry := Nat × Nat × Data   -- (producer tid, call index, item)

inductive Pc where
  | idle
  | r0 (k : Nat) (v : Data)                              -- next #k: about to push
  | nx0 (k : Nat) (v : Data)                             -- about to snapshot the inner map
  | nxL (k : Nat) (v : Data) (snap : List Nat)           -- forwarders still to visit
  | nxF (k : Nat) (v : Data) (o : Nat) (rest : List Nat) -- fetched `F(o).fn_next`, forwarder callback about to read `o.fn_next`
  | nxD (k : Nat) (v : Data) (o : Nat) (rest : List Nat) -- fetched `o.fn_next`, about to call it
  | s0 (o : Nat) | s1 (o : Nat) | s2 (o : Nat)
  | s3 (o : Nat) (h : List Entry) | s4 (o : Nat) (h : List Entry) | s5 (o : Nat) (h : List Entry)
  | s6 (o : Nat) (h : List Entry) | s7 (o : Nat) (h : List Entry)
  | s8 (o : Nat) (h : List Entry)                        -- replay loop
  | s8d (o : Nat) (x : Entry) (h : List Entry)           -- fetched `o.fn_next`, about to call it with `x`
  | s9 (o : Nat)
  | s10 (o : Nat)                                        -- `is_subscribed` check after `setSbsc` (l.95)
  | e5 (o : Nat) | e6 (o : Nat) | e7 (o : Nat) | e8 (o : Nat) | e9 (o : Nat) | e9r (o : Nat) | e9c (o : Nat)
                                                         -- `live.unsubscribe()` by the subscribing thread (l.98)
  | u0 (o : Nat) | u1 (o : Nat) | u2 (o : Nat) | u3 (o : Nat) | u4 (o : Nat) | u5 (o : Nat)
  | u6 (o : Nat) | u7 (o : Nat) | u8 (o : Nat) | u9 (o : Nat) | u9r (o : Nat) | u9c (o : Nat) | u10 (o : Nat)
deriving Repr, DecidableEq, Inhabited

inductive Kind where
  | call | push | snap | fetch | ofetch | deliver | ret
  | isSub1 | setTd | hist | serial | setTdF | insert | rdErr | rdCompl | hfetch | hdeliver | hdone | setSbsc
  | isSubEnd
  | clrNext | clrErr | clrCompl | readTd | readSbsc | takeUnsub
  | fClrNext | fClrErr | fClrCompl | fReadTd | fRemove | fClrTd | clrTd
deriving Repr, DecidableEq, Inhabited

def Pc.kind : Pc → Kind
  | .idle => .call
  | .r0 .. => .push
  | .nx0 .. => .snap
  | .nxL _ _ [] => .ret
  | .nxL _ _ (_ :: _) => .fetch
  | .nxF .. => .ofetch
  | .nxD .. => .deliver
  | .s0 _ => .isSub1 | .s1 _ => .setTd | .s2 _ => .hist | .s3 .. => .serial | .s4 .. => .setTdF
  | .s5 .. => .insert | .s6 .. => .rdErr | .s7 .. => .rdCompl
  | .s8 _ [] => .hdone
  | .s8 _ (_ :: _) => .hfetch
  | .s8d .. => .hdeliver
  | .s9 _ => .setSbsc
  | .s10 _ => .isSubEnd
  | .e5 _ => .takeUnsub | .e6 _ => .fClrNext | .e7 _ => .fClrErr | .e8 _ => .fClrCompl | .e9 _ => .fReadTd
  | .e9r _ => .fRemove | .e9c _ => .fClrTd
  | .u0 _ => .clrNext | .u1 _ => .clrErr | .u2 _ => .clrCompl | .u3 _ => .readTd | .u4 _ => .readSbsc
  | .u5 _ => .takeUnsub | .u6 _ => .fClrNext | .u7 _ => .fClrErr | .u8 _ => .fClrCompl | .u9 _ => .fReadTd
  | .u9r _ => .fRemove | .u9c _ => .fClrTd | .u10 _ => .clrTd

/-- the thread is inside a `next` call -/
def Pc.inNext : Pc → Bool
  | .r0 .. | .nx0 .. | .nxL .. | .nxF .. | .nxD .. => true
  | _ => false

/-- the thread is inside a `subscribe` call -/
def Pc.inSub : Pc → Bool
  | .s0 _ | .s1 _ | .s2 _ | .s3 .. | .s4 .. | .s5 .. | .s6 .. | .s7 .. | .s8 .. | .s8d .. | .s9 _ => true
  | .s10 _ | .e5 _ | .e6 _ | .e7 _ | .e8 _ | .e9 _ | .e9r _ | .e9c _ => true
  | _ => false

structure Obs where
  fnNext : Bool := true                      -- outer observer: `fn_next` present
  td : Bool := false                         -- outer observer: `fn_on_unsubscribe` is `Some`
  sbsc : Bool := false                       -- the `sbsc` cell holds the inner subscription
  subTaken : Bool := false                   -- the inner subscription's `fn_unsubscribe` was taken
  fFnNext : Bool := true                     -- forwarder: `fn_next` present
  fTd : Bool := false                        -- forwarder: `fn_on_unsubscribe` is `Some`
  fSer : Option Nat := none                  -- forwarder: serial captured by the closures
  used : Option Nat := none                  -- ghost: thread whose `subscribe` call created this observer
  ins : Bool := false                        -- ghost: forwarder was inserted into the inner map
  subDone : Bool := false                    -- ghost: the `subscribe` call has installed the live subscription (`setSbsc`
                                             -- done; all that remains of the call is the `is_subscribed` check of l.95)
  rlog : List Entry := []                    -- ghost: deliveries, NEWEST FIRST
deriving Repr, Inhabited

structure Thread where
  todo : List Call := []
  pc : Pc := .idle
  cnt : Nat := 0                             -- ghost: number of `next` calls started so far
deriving Repr, Inhabited

structure State where
  obs : Nat → Obs
  map : List (Nat × Nat)                     -- inner subject's map: `(serial, o)` stands for `F(o)`
  serial : Nat
  items : List Entry                         -- the `items` vector (with ghost tags), oldest first
  threads : Nat → Thread

def setObs (s : State) (o : Nat) (ob : Obs) : Nat → Obs := fun j => if j = o then ob else s.obs j
def setThr (s : State) (t : Nat) (th : Thread) : Nat → Thread := fun j => if j = t then th else s.threads j

/-- deliveries to observer `o` in delivery order -/
def State.received (s : State) (o : Nat) : List Entry := (s.obs o).rlog.reverse
/-- the items observer `o` received, in delivery order -/
def State.recvVals (s : State) (o : Nat) : List Data := (s.received o).map (·.2.2)
/-- the contents of the `items` vector -/
def State.itemVals (s : State) : List Data := s.items.map (·.2.2)

def stepT (s : State) (t : Nat) : Option State :=
  let th := s.threads t
  match th.pc with
  | .idle =>
    match th.todo with
    | [] => none
    | .next v :: rest =>
      some { s with threads := setThr s t { todo := rest, pc := .r0 th.cnt v, cnt := th.cnt + 1 } }
    | .subscribe o :: rest =>
      if (s.obs o).used.isSome then none
      else some { s with obs := setObs s o { s.obs o with used := some t }
                         threads := setThr s t { th with todo := rest, pc := .s0 o } }
    | .unsubscribe o :: rest => some { s with threads := setThr s t { th with todo := rest, pc := .u0 o } }
  | .r0 k v => some { s with items := s.items ++ [(t, k, v)], threads := setThr s t { th with pc := .nx0 k v } }
  | .nx0 k v => some { s with threads := setThr s t { th with pc := .nxL k v (s.map.map (·.2)) } }
  | .nxL _ _ [] => some { s with threads := setThr s t { th with pc := .idle } }
  | .nxL k v (o :: rest) =>
    some { s with threads := setThr s t { th with pc := if (s.obs o).fFnNext then .nxF k v o rest else .nxL k v rest } }
  | .nxF k v o rest =>
    some { s with threads := setThr s t { th with pc := if (s.obs o).fnNext then .nxD k v o rest else .nxL k v rest } }
  | .nxD k v o rest =>
    some { s with obs := setObs s o { s.obs o with rlog := (t, k, v) :: (s.obs o).rlog }
                  threads := setThr s t { th with pc := .nxL k v rest } }
  | .s0 o => some { s with threads := setThr s t { th with pc := if (s.obs o).fnNext then .s1 o else .idle } }
  | .s1 o => some { s with obs := setObs s o { s.obs o with td := true }
                           threads := setThr s t { th with pc := .s2 o } }
  | .s2 o => some { s with threads := setThr s t { th with pc := .s3 o s.items } }
  | .s3 o h =>
    some { s with serial := s.serial + 1
                  obs := setObs s o { s.obs o with fSer := some (s.serial + 1) }
                  threads := setThr s t { th with pc := .s4 o h } }
  | .s4 o h => some { s with obs := setObs s o { s.obs o with fTd := true }
                             threads := setThr s t { th with pc := .s5 o h } }
  | .s5 o h =>
    some { s with map := s.map ++ [((s.obs o).fSer.getD 0, o)]
                  obs := setObs s o { s.obs o with ins := true }
                  threads := setThr s t { th with pc := .s6 o h } }
  | .s6 o h => some { s with threads := setThr s t { th with pc := .s7 o h } }
  | .s7 o h => some { s with threads := setThr s t { th with pc := .s8 o h } }
  | .s8 o [] => some { s with threads := setThr s t { th with pc := .s9 o } }
  | .s8 o (x :: h) =>
    some { s with threads := setThr s t { th with pc := if (s.obs o).fnNext then .s8d o x h else .s8 o h } }
  | .s8d o x h =>
    some { s with obs := setObs s o { s.obs o with rlog := x :: (s.obs o).rlog }
                  threads := setThr s t { th with pc := .s8 o h } }
  | .s9 o => some { s with obs := setObs s o { s.obs o with sbsc := true, subDone := true }
                           threads := setThr s t { th with pc := .s10 o } }
  | .s10 o => some { s with threads := setThr s t { th with pc := if (s.obs o).fnNext then .idle else .e5 o } }
  | .e5 o =>
    some { s with obs := setObs s o { s.obs o with subTaken := true }
                  threads := setThr s t { th with pc := if (s.obs o).subTaken then .idle else .e6 o } }
  | .e6 o => some { s with obs := setObs s o { s.obs o with fFnNext := false }
                           threads := setThr s t { th with pc := .e7 o } }
  | .e7 o => some { s with threads := setThr s t { th with pc := .e8 o } }
  | .e8 o => some { s with threads := setThr s t { th with pc := .e9 o } }
  | .e9 o => some { s with threads := setThr s t { th with pc := if (s.obs o).fTd then .e9r o else .e9c o } }
  | .e9r o =>
    some { s with map := s.map.filter (fun e => some e.1 != (s.obs o).fSer)
                  threads := setThr s t { th with pc := .e9c o } }
  | .e9c o => some { s with obs := setObs s o { s.obs o with fTd := false }
                            threads := setThr s t { th with pc := .idle } }
  | .u0 o => some { s with obs := setObs s o { s.obs o with fnNext := false }
                           threads := setThr s t { th with pc := .u1 o } }
  | .u1 o => some { s with threads := setThr s t { th with pc := .u2 o } }
  | .u2 o => some { s with threads := setThr s t { th with pc := .u3 o } }
  | .u3 o => some { s with threads := setThr s t { th with pc := if (s.obs o).td then .u4 o else .u10 o } }
  | .u4 o => some { s with threads := setThr s t { th with pc := if (s.obs o).sbsc then .u5 o else .u10 o } }
  | .u5 o =>
    some { s with obs := setObs s o { s.obs o with subTaken := true }
                  threads := setThr s t { th with pc := if (s.obs o).subTaken then .u10 o else .u6 o } }
  | .u6 o => some { s with obs := setObs s o { s.obs o with fFnNext := false }
                           threads := setThr s t { th with pc := .u7 o } }
  | .u7 o => some { s with threads := setThr s t { th with pc := .u8 o } }
  | .u8 o => some { s with threads := setThr s t { th with pc := .u9 o } }
  | .u9 o => some { s with threads := setThr s t { th with pc := if (s.obs o).fTd then .u9r o else .u9c o } }
  | .u9r o =>
    some { s with map := s.map.filter (fun e => some e.1 != (s.obs o).fSer)
                  threads := setThr s t { th with pc := .u9c o } }
  | .u9c o => some { s with obs := setObs s o { s.obs o with fTd := false }
                            threads := setThr s t { th with pc := .u10 o } }
  | .u10 o => some { s with obs := setObs s o { s.obs o with td := false }
                            threads := setThr s t { th with pc := .idle } }

abbrev Label := Nat × Kind

def step (s : State) (l : Label) : Option State :=
  if (s.threads l.1).pc.kind = l.2 then stepT s l.1 else none

def init (progs : List (List Call)) : State where
  obs := fun _ => {}
  map := []
  serial := 0
  items := []
  threads := fun t => { todo := progs.getD t [] }

def replayFrom (s : State) : List Label → Option State
  | [] => some s
  | l :: ls => match step s l with
    | some s' => replayFrom s' ls
    | none => none

def replay (progs : List (List Call)) (ls : List Label) : Option State := replayFrom (init progs) ls

def replayCount (s : State) : List Label → Nat
  | [] => 0
  | l :: ls => match step s l with
    | some s' => replayCount s' ls + 1
    | none => 0

inductive Reachable (progs : List (List Call)) : State → Prop
  | init : Reachable progs (init progs)
  | step {s s' : State} {l : Label} : Reachable progs s → step s l = some s' → Reachable progs s'

/-- no `next` call overlaps a `subscribe` call in this state (threads `< n`) -/
def State.quiet (s : State) : Prop :=
  ∀ t t' : Nat, (s.threads t).pc.inSub = true → (s.threads t').pc.inNext = true → False

/-- reachable through states that are all `quiet` -/
inductive ReachableQ (progs : List (List Call)) : State → Prop
  | init : ReachableQ progs (init progs)
  | step {s s' : State} {l : Label} : ReachableQ progs s → step s l = some s' → s'.quiet → ReachableQ progs s'

theorem ReachableQ.reachable {progs : List (List Call)} {s : State} (h : ReachableQ progs s) : Reachable progs s := by
  induction h with
  | init => exact .init
  | step _ hs _ ih => exact .step ih hs

theorem reachable_of_replayFrom {progs} {s s' : State} (h : Reachable progs s) {ls : List Label}
    (hr : replayFrom s ls = some s') : Reachable progs s' := by
  induction ls generalizing s with
  | nil => simp [replayFrom] at hr; subst hr; exact h
  | cons l ls ih =>
    simp only [replayFrom] at hr
    split at hr
    · rename_i s1 hs; exact ih (.step h hs) hr
    · simp at hr

theorem reachable_of_replay {progs} {s : State} {ls : List Label}
    (hr : replay progs ls = some s) : Reachable progs s :=
  reachable_of_replayFrom .init hr

def State.done (s : State) (t : Nat) : Prop := (s.threads t).pc = .idle ∧ (s.threads t).todo = []
instance (s : State) (t : Nat) : Decidable (s.done t) := by unfold State.done; exact inferInstance
/-- threads `0 .. n-1` have all finished -/
def State.allDone (s : State) (n : Nat) : Bool := (List.range n).all fun t => decide (s.done t)

/-! ### text form of labels: `<tid> <kind>` e.g. `1 hist` -/

def Kind.toStr : Kind → String
  | .call => "call" | .push => "push" | .snap => "snap" | .fetch => "fetch" | .ofetch => "ofetch"
  | .deliver => "deliver" | .ret => "ret"
  | .isSub1 => "isSub1" | .setTd => "setTd" | .hist => "hist" | .serial => "serial" | .setTdF => "setTdF"
  | .insert => "insert" | .rdErr => "rdErr" | .rdCompl => "rdCompl" | .hfetch => "hfetch"
  | .hdeliver => "hdeliver" | .hdone => "hdone" | .setSbsc => "setSbsc" | .isSubEnd => "isSubEnd"
  | .clrNext => "clrNext" | .clrErr => "clrErr" | .clrCompl => "clrCompl" | .readTd => "readTd"
  | .readSbsc => "readSbsc" | .takeUnsub => "takeUnsub"
  | .fClrNext => "fClrNext" | .fClrErr => "fClrErr" | .fClrCompl => "fClrCompl" | .fReadTd => "fReadTd"
  | .fRemove => "fRemove" | .fClrTd => "fClrTd" | .clrTd => "clrTd"

def Kind.all : List Kind :=
  [.call, .push, .snap, .fetch, .ofetch, .deliver, .ret,
   .isSub1, .setTd, .hist, .serial, .setTdF, .insert, .rdErr, .rdCompl, .hfetch, .hdeliver, .hdone, .setSbsc,
   .isSubEnd, .clrNext, .clrErr, .clrCompl, .readTd, .readSbsc, .takeUnsub,
   .fClrNext, .fClrErr, .fClrCompl, .fReadTd, .fRemove, .fClrTd, .clrTd]

def parseKind (w : String) : Option Kind := Kind.all.find? (fun k => k.toStr == w)

def parseLabel (line : String) : Option Label :=
  match (line.trimAscii.toString.splitOn " ").filter (· ≠ "") with
  | [t, k] => do
    let t ← t.toNat?
    let k ← parseKind k
    pure (t, k)
  | _ => none

def Label.toStr (l : Label) : String := toString l.1 ++ " " ++ l.2.toStr

def enabled (s : State) (n : Nat) : List Label :=
  (List.range n).filterMap fun t =>
    let l := (t, (s.threads t).pc.kind)
    if (step s l).isSome then some l else none

end Rx.Conc.Replay
