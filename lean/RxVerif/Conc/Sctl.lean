import RxVerif.Data
/-
Model C (lock granularity) for property C11, part 1: `merge` — k input threads feeding ONE `StreamController`
(+ optionally a thread that calls `Subscription::unsubscribe()` concurrently).

Rust sources followed (CURRENT tree):
  /repo/src/operators/merge.rs            l.20-52   (all `new_observer` calls — i.e. all inserts into `unscribers` —
                                                     happen in `Vec::from_iter` BEFORE the first `inner_subscribe`; so when
                                                     the first input can emit, the map already holds all k serials: `init`)
  /repo/src/internals/stream_controller.rs l.84-90 sink_next, l.92-99 sink_error, l.101-115 sink_complete(serial)
                                           (l.104-106: remove + len()==0 under ONE write lock), l.132-145 finalize,
                                           l.32-35 the on_unsubscribe hook = finalize
  /repo/src/observer.rs                    l.37-39 next, l.40-46 error, l.47-52 complete, l.53-61 unsubscribe,
                                           l.62-64 is_subscribed
  /repo/src/internals/function_wrapper.rs  l.38-40 clear, l.41-43 clear_if_available (atomic take = the CLAIM),
                                           l.51-57 fetch_function, l.66-72 call_if_available,
                                           l.73-90 call_and_clear_if_available

Thread `i` (serial `i`) drives its own *inner* observer `obs_i` (made by `new_observer`, closures = merge's):
  obs_i.next(x)    = fetch inner fn_next_i ; closure -> sctl.sink_next(x)
  obs_i.complete() = claim inner fn_next_i ; clear inner fn_error_i ; take inner fn_complete_i ; closure -> sink_complete(i)
  obs_i.error(e)   = claim inner fn_next_i ; clear inner fn_complete_i ; take inner fn_error_i ; closure -> sink_error(e)

One micro-step per lock operation / callback start / callback return; "fetch the function under the read lock" and
"call it" (= callback start, where the ghost log is written) are DIFFERENT steps, because another thread can take the slot
in between.  The `unscribers` RwLock: `finalize` holds the read lock over the whole `for_each` (`readers`), writers
(`cRemove`, `fClear`) are enabled only when `readers = 0`; the HashMap iteration order is chosen by the label (`pick`).

The only combined step is `subscriber.is_subscribed()` (three slot reads `fn_next.exists() && fn_error.exists() &&
fn_complete.exists()`), which is ONE step here.  This is sound because the three slots are monotone (they only ever go from
present to absent — no code path re-fills them): see `isSub_linearizable` below, which shows that the value computed by
three reads at times t1 ≤ t2 ≤ t3 equals the value of an atomic read at some time in [t1,t3].

Not elaborated (no effect for merge): the `on_unsubscribe` hook of the INNER observers (None), `on_finalize` (None, one
no-op step `fOnFin`), the hook cell of the subscriber (see `Pc.uC`), and the body of `subscriber.unsubscribe()` when entered
from `finalize` (marker `uDead`, proved unreachable in `Theorems/C11.lean: finalize_never_unsubscribes`).
-/
namespace Rx.Conc.Sctl
open Rx

/-! ### small helpers on `List Bool` (slot arrays indexed by serial) -/

def get (l : List Bool) (i : Nat) : Bool := l[i]?.getD false

theorem get_set (l : List Bool) (i j : Nat) (b : Bool) :
    get (l.set j b) i = if j = i ∧ j < l.length then b else get l i := by
  unfold get
  rw [List.getElem?_set]
  by_cases h : j = i
  · subst h
    by_cases h2 : j < l.length <;> simp [h2]
  · simp [h]

theorem get_replicate (n i : Nat) : get (List.replicate n false) i = false := by
  unfold get
  rw [List.getElem?_replicate]
  split <;> rfl

def allFalse (l : List Bool) : Bool := l.all (fun b => !b)

theorem allFalse_get {l : List Bool} (h : allFalse l = true) (i : Nat) : get l i = false := by
  unfold get
  cases hi : l[i]? with
  | none => rfl
  | some b =>
    have hm : b ∈ l := List.mem_of_getElem? hi
    have := List.all_eq_true.mp h b hm
    simpa using this

theorem allFalse_of_get {l : List Bool} (h : ∀ i, i < l.length → get l i = false) : allFalse l = true := by
  unfold allFalse
  rw [List.all_eq_true]
  intro b hb
  obtain ⟨i, hi, rfl⟩ := List.getElem_of_mem hb
  have := h i hi
  unfold get at this
  simp [hi] at this
  simp [this]

/-- soundness of modelling `is_subscribed` (three reads) as one atomic step: for monotone (only-falling) slots the
    conjunction of three reads taken at `t1 ≤ t2 ≤ t3` is the value of an atomic read at a time in `[t1,t3]`. -/
theorem isSub_linearizable (fN fE fC : Nat → Bool)
    (_mN : ∀ a b, a ≤ b → fN b = true → fN a = true)
    (mE : ∀ a b, a ≤ b → fE b = true → fE a = true)
    (mC : ∀ a b, a ≤ b → fC b = true → fC a = true)
    (t1 t2 t3 : Nat) (h12 : t1 ≤ t2) (h23 : t2 ≤ t3) :
    ∃ t, t1 ≤ t ∧ t ≤ t3 ∧ (fN t1 && fE t2 && fC t3) = (fN t && fE t && fC t) := by
  cases hN : fN t1 with
  | false => exact ⟨t1, Nat.le_refl _, by omega, by simp [hN]⟩
  | true =>
    cases hE : fE t2 with
    | false =>
      refine ⟨t2, h12, h23, ?_⟩
      simp [hE]
    | true =>
      cases hC : fC t3 with
      | false =>
        refine ⟨t3, by omega, Nat.le_refl _, ?_⟩
        simp [hC]
      | true =>
        refine ⟨t1, Nat.le_refl _, by omega, ?_⟩
        have h2 := mE t1 t2 h12 hE
        have h3 := mC t1 t3 (by omega) hC
        simp [hN, h2, h3]

/-! ### scripts, program counters, state -/

inductive Term where
  | complete
  | error (e : Nat)
deriving Repr, DecidableEq, Inhabited

def Term.isC : Term → Bool
  | .complete => true
  | .error _ => false

def Term.ev : Term → Ev
  | .complete => .complete
  | .error e => .error e

/-- a well-formed input: items, then `complete` (`err = none`) or `error e` (`err = some e`).
    A script with `unsub = true` is NOT an input (it has no serial in `unscribers`, its items/err are ignored): it stands
    for the thread that owns the `Subscription` and calls `unsubscribe()` once, concurrently with the inputs. -/
structure Script where
  items : List Data
  err : Option Nat := none
  unsub : Bool := false
deriving Repr, DecidableEq

def Script.term (sc : Script) : Term :=
  match sc.err with
  | none => .complete
  | some e => .error e

/-- program counter of an input thread: the NEXT micro-step it will perform -/
inductive Pc where
  | idle                      -- between two calls on its inner observer
  -- obs_i.next(x) -> sink_next(x)
  | nFetchI                   -- fetch inner fn_next_i (read lock)                       observer.rs:38
  | nSub                      -- sink_next: subscriber.is_subscribed()                   stream_controller.rs:85
  | nFetch                    -- subscriber.next: fetch fn_next (read lock)              observer.rs:38
  | nStart                    -- call the fetched function: the user's next callback STARTS (ghost log)
  | nCb                       -- inside the user's next callback (return = this step)
  -- obs_i.complete()/error(e) -> sink_complete(i)/sink_error(e)
  | tClaimI (t : Term)        -- claim inner fn_next_i (write lock, take)                observer.rs:42/48
  | tClrI (t : Term)          -- clear the other inner terminal slot                     observer.rs:43/49
  | tTakeI (t : Term)         -- take own inner terminal slot, call closure              observer.rs:44/50
  | tSub (t : Term)           -- sink_complete / sink_error: is_subscribed()             stream_controller.rs:93/102
  | cRemove                   -- ONE write lock: remove(serial); len()==0                stream_controller.rs:104-106
  | tClaim (t : Term)         -- subscriber.complete()/error(): claim fn_next            observer.rs:42/48
  | tClr (t : Term)           -- clear the other terminal slot                           observer.rs:43/49
  | tTake (t : Term)          -- take own terminal slot (write lock)                     observer.rs:44/50
  | tStart (t : Term)         -- call the taken function: the user's terminal callback STARTS (ghost log)
  | tCb (t : Term)            -- inside the user's terminal callback (return = this step)
  -- finalize()
  | fLock                     -- unscribers.read(): acquire, snapshot keys               stream_controller.rs:133
  | fPick (pend : List Nat)   -- for_each: pick next key (HashMap order = label) / release read lock when none left
  | fU1 (pend : List Nat) (j : Nat)   -- o_j.unsubscribe(): clear inner fn_next_j        observer.rs:54
  | fU2 (pend : List Nat) (j : Nat)   --                   clear inner fn_error_j        observer.rs:55
  | fU3 (pend : List Nat) (j : Nat)   --                   clear inner fn_complete_j     observer.rs:56 (hook of obs_j is None)
  | fClear                    -- unscribers.write().clear()                              stream_controller.rs:136
  | fSub                      -- if subscriber.is_subscribed()                           stream_controller.rs:137
  | fOnFin                    -- on_finalize.write(): None for merge                     stream_controller.rs:140-144
  -- Subscription::unsubscribe() -> subscriber.unsubscribe()  (only the `unsub` thread)    observer.rs:53-61
  | uN                        -- fn_next.clear()
  | uE                        -- fn_error.clear()
  | uC                        -- fn_complete.clear(); then the on_unsubscribe hook (set by StreamController::new,
                              -- stream_controller.rs:34) runs sctl.finalize(): continues at `fLock`.  (The hook cell
                              -- itself is not modelled: a second unsubscribe would find it None and skip finalize;
                              -- always running finalize only adds behaviours.)
  | uDead                     -- marker: entered `subscriber.unsubscribe()` from finalize (l.138). Proved unreachable
                              -- (`finalize_never_unsubscribes`), therefore not elaborated further.
deriving Repr, DecidableEq, Inhabited

structure Thread where
  todo : List Data            -- items not yet handed to the subscriber (head = item of the call in progress)
  fin : Option Term           -- terminal call still to be made
  unsub : Bool                -- (unsubscriber thread only) the unsubscribe() call still to be made
  pc : Pc
deriving Repr, DecidableEq

structure State where
  sN : Bool := true           -- subscriber.fn_next present
  sE : Bool := true           -- subscriber.fn_error present
  sC : Bool := true           -- subscriber.fn_complete present
  iN : List Bool              -- inner observers' fn_next, by serial
  iE : List Bool
  iC : List Bool
  live : List Bool            -- membership of serial in `unscribers`
  readers : Nat := 0          -- holders of unscribers' read lock (writers wait for 0)
  log : List (Nat × Ev) := []       -- ghost: callback STARTS at the subscriber, with delivering thread
  emptyObs : List Nat := []         -- ghost: threads that saw `len()==0` in sink_complete
  claim : Option Term := none       -- ghost: which terminal won the claim of subscriber.fn_next
  threads : List Thread
deriving Repr, DecidableEq

def State.isSub (s : State) : Bool := s.sN && s.sE && s.sC

def keysOf (live : List Bool) : List Nat := (List.range live.length).filter (get live)

/-- append "thread `i` starts the next callback with the head of `todo`" -/
def logNext (log : List (Nat × Ev)) (i : Nat) (todo : List Data) : List (Nat × Ev) :=
  match todo with
  | x :: _ => log ++ [(i, Ev.next x)]
  | [] => log

def State.upd (s : State) (i : Nat) (th : Thread) : State := { s with threads := s.threads.set i th }

/-- label = scheduled thread (+ the key picked by the HashMap iteration when the thread is at `fPick`) -/
structure Label where
  tid : Nat
  pick : Nat := 0
deriving Repr, DecidableEq

def Script.thread (sc : Script) : Thread :=
  { todo := if sc.unsub then [] else sc.items, fin := if sc.unsub then none else some sc.term, unsub := sc.unsub,
    pc := .idle }

def init (scripts : List Script) : State :=
  { iN := scripts.map fun sc => !sc.unsub
    iE := scripts.map fun sc => !sc.unsub
    iC := scripts.map fun sc => !sc.unsub
    live := scripts.map fun sc => !sc.unsub
    threads := scripts.map Script.thread }

/-- one micro-step of thread `l.tid`; `none` = not enabled (finished thread, blocked writer, bad pick) -/
def step (s : State) (l : Label) : Option State :=
  let i := l.tid
  match s.threads[i]? with
  | none => none
  | some th =>
    match th.pc with
    | .idle =>
      match th.todo, th.fin with
      | _ :: _, _ => some (s.upd i { th with pc := .nFetchI })
      | [], some t => some (s.upd i { th with fin := none, pc := .tClaimI t })
      | [], none => if th.unsub then some (s.upd i { th with unsub := false, pc := .uN }) else none
    | .nFetchI =>
      some (s.upd i { th with todo := if get s.iN i then th.todo else th.todo.tail,
                              pc := if get s.iN i then .nSub else .idle })
    | .nSub =>
      some (s.upd i { th with todo := if s.isSub then th.todo else th.todo.tail,
                              pc := if s.isSub then .nFetch else .fLock })
    | .nFetch =>
      some (s.upd i { th with todo := if s.sN then th.todo else th.todo.tail,
                              pc := if s.sN then .nStart else .idle })
    | .nStart => some ({ s with log := logNext s.log i th.todo }.upd i { th with todo := th.todo.tail, pc := .nCb })
    | .nCb => some (s.upd i { th with pc := .idle })
    | .tClaimI t =>
      some ({ s with iN := s.iN.set i false }.upd i { th with pc := if get s.iN i then .tClrI t else .idle })
    | .tClrI t =>
      some ({ s with iE := if t.isC then s.iE.set i false else s.iE,
                     iC := if t.isC then s.iC else s.iC.set i false }.upd i { th with pc := .tTakeI t })
    | .tTakeI t =>
      some ({ s with iC := if t.isC then s.iC.set i false else s.iC,
                     iE := if t.isC then s.iE else s.iE.set i false }.upd i
              { th with pc := if (if t.isC then get s.iC i else get s.iE i) then .tSub t else .idle })
    | .tSub t =>
      some (s.upd i { th with pc := if s.isSub then (if t.isC then .cRemove else .tClaim t) else .fLock })
    | .cRemove =>
      if s.readers = 0 then
        some ({ s with live := s.live.set i false,
                       emptyObs := if allFalse (s.live.set i false) then s.emptyObs ++ [i] else s.emptyObs }.upd i
                { th with pc := if allFalse (s.live.set i false) then .tClaim .complete else .idle })
      else none
    | .tClaim t =>
      some ({ s with sN := false, claim := if s.sN then some t else s.claim }.upd i
              { th with pc := if s.sN then .tClr t else .fLock })
    | .tClr t =>
      some ({ s with sE := if t.isC then false else s.sE,
                     sC := if t.isC then s.sC else false }.upd i { th with pc := .tTake t })
    | .tTake t =>
      some ({ s with sC := if t.isC then false else s.sC,
                     sE := if t.isC then s.sE else false }.upd i
              { th with pc := if (if t.isC then s.sC else s.sE) then .tStart t else .fLock })
    | .tStart t => some ({ s with log := s.log ++ [(i, t.ev)] }.upd i { th with pc := .tCb t })
    | .tCb _ => some (s.upd i { th with pc := .fLock })
    | .fLock => some ({ s with readers := s.readers + 1 }.upd i { th with pc := .fPick (keysOf s.live) })
    | .fPick pend =>
      if pend = [] then some ({ s with readers := s.readers - 1 }.upd i { th with pc := .fClear })
      else if l.pick ∈ pend then some (s.upd i { th with pc := .fU1 (pend.erase l.pick) l.pick })
      else none
    | .fU1 pend j => some ({ s with iN := s.iN.set j false }.upd i { th with pc := .fU2 pend j })
    | .fU2 pend j => some ({ s with iE := s.iE.set j false }.upd i { th with pc := .fU3 pend j })
    | .fU3 pend j => some ({ s with iC := s.iC.set j false }.upd i { th with pc := .fPick pend })
    | .fClear =>
      if s.readers = 0 then
        some ({ s with live := List.replicate s.live.length false }.upd i { th with pc := .fSub })
      else none
    | .fSub => some (s.upd i { th with pc := if s.isSub then .uDead else .fOnFin })
    | .fOnFin => some (s.upd i { th with pc := .idle })
    | .uN => some ({ s with sN := false }.upd i { th with pc := .uE })
    | .uE => some ({ s with sE := false }.upd i { th with pc := .uC })
    | .uC => some ({ s with sC := false }.upd i { th with pc := .fLock })
    | .uDead => none

inductive Reachable (scripts : List Script) : State → Prop
  | init : Reachable scripts (init scripts)
  | step {s s' l} : Reachable scripts s → step s l = some s' → Reachable scripts s'

def run (s : State) : List Label → Option State
  | [] => some s
  | l :: ls => match step s l with
    | none => none
    | some s' => run s' ls

theorem reachable_of_run {scripts : List Script} {s : State} (h : Reachable scripts s) :
    ∀ (ls : List Label) (s' : State), run s ls = some s' → Reachable scripts s' := by
  intro ls
  induction ls generalizing s with
  | nil => intro s' h'; simp [run] at h'; subst h'; exact h
  | cons l ls ih =>
    intro s' h'
    simp only [run] at h'
    cases hs : step s l with
    | none => simp [hs] at h'
    | some s1 =>
      simp only [hs] at h'
      exact ih (Reachable.step h hs) s' h'

/-- a thread has nothing left to do -/
def Thread.finished (th : Thread) : Bool := th.pc = .idle && th.todo.isEmpty && th.fin.isNone && !th.unsub

def State.allDone (s : State) : Bool := s.threads.all Thread.finished

/-- items delivered by thread `i`, in delivery order -/
def proj (i : Nat) (log : List (Nat × Ev)) : List Data :=
  log.filterMap fun p => if p.1 = i then (match p.2 with | .next d => some d | _ => none) else none

/-- all delivered items, in delivery order -/
def items (log : List (Nat × Ev)) : List Data :=
  log.filterMap fun p => match p.2 with | .next d => some d | _ => none

/-! ### schedulers for examples / replay -/

/-- the action name a recorded run must show for the scheduled thread (checked by `stepChecked`) -/
def Pc.act : Pc → String
  | .idle => "call" | .nFetchI => "fetchI" | .nSub => "nsub" | .nFetch => "fetch" | .nStart => "nstart" | .nCb => "nret"
  | .tClaimI _ => "claimI" | .tClrI _ => "clrI" | .tTakeI _ => "takeI" | .tSub _ => "tsub"
  | .cRemove => "remove" | .tClaim _ => "claim" | .tClr _ => "clr" | .tTake _ => "take" | .tStart _ => "tstart"
  | .tCb _ => "tret"
  | .fLock => "flock" | .fPick [] => "funlock" | .fPick _ => "fpick" | .fU1 _ _ => "fu1" | .fU2 _ _ => "fu2"
  | .fU3 _ _ => "fu3" | .fClear => "fclear" | .fSub => "fsub" | .fOnFin => "fonfin" | .uDead => "dead"
  | .uN => "un" | .uE => "ue" | .uC => "uc"

/-- replay step: as `step`, but additionally checks that the recorded action name is the one the model expects -/
def stepChecked (s : State) (act : String) (l : Label) : Option State :=
  match s.threads[l.tid]? with
  | none => none
  | some th => if th.pc.act = act then step s l else none

theorem stepChecked_sub {s s' : State} {act : String} {l : Label} (h : stepChecked s act l = some s') :
    step s l = some s' := by
  unfold stepChecked at h
  split at h
  · cases h
  · split at h
    · exact h
    · cases h

/-- text format: `<tid> <act>` or `<tid> fpick <key>` -/
def parseLabel (line : String) : Option (String × Label) :=
  match line.trimAscii.toString.splitOn " " with
  | [t, a] => t.toNat?.map fun n => (a, { tid := n })
  | [t, a, k] => match t.toNat?, k.toNat? with
    | some n, some j => some (a, { tid := n, pick := j })
    | _, _ => none
  | _ => none

/-- run thread `i` until it is finished or blocked (fuel-bounded), picking the smallest pending key in finalize -/
def runThread (fuel : Nat) (s : State) (i : Nat) : State :=
  match fuel with
  | 0 => s
  | fuel + 1 =>
    let pick := match s.threads[i]? with
      | some { pc := .fPick (j :: _), .. } => j
      | _ => 0
    match step s { tid := i, pick := pick } with
    | none => s
    | some s' => runThread fuel s' i

theorem reachable_runThread {scripts : List Script} (fuel : Nat) :
    ∀ (s : State) (i : Nat), Reachable scripts s → Reachable scripts (runThread fuel s i) := by
  induction fuel with
  | zero => intro s i h; exact h
  | succ n ih =>
    intro s i h
    simp only [runThread]
    split
    · exact h
    · rename_i s' hs
      exact ih s' i (Reachable.step h hs)

/-- round robin over `k` threads (skipping disabled ones), `fuel` scheduling decisions -/
def roundRobin (fuel : Nat) (s : State) (k : Nat) : State :=
  match fuel with
  | 0 => s
  | fuel + 1 => roundRobin fuel (runThread 1 s (fuel % k)) k

theorem reachable_roundRobin {scripts : List Script} (fuel : Nat) (k : Nat) :
    ∀ (s : State), Reachable scripts s → Reachable scripts (roundRobin fuel s k) := by
  induction fuel with
  | zero => intro s h; exact h
  | succ n ih =>
    intro s h
    simp only [roundRobin]
    exact ih _ (reachable_runThread 1 s _ h)

end Rx.Conc.Sctl
