/-
C07-L  — abstract model of threads taking std-like reader/writer locks.

Any number of threads; every thread runs a straight-line program of `acq l write | rel l | work`.
A lock is held by many readers XOR one writer.  An `acq` is enabled iff it is compatible with the
current holders *including the acquiring thread itself* (std `RwLock` is not re-entrant: a thread that
re-acquires a lock it already holds in a conflicting mode blocks forever; that is modelled, not forbidden).

Two admission policies are modelled with one step function `stepG wp`:
* `wp = false` (`step`)   : a read acquisition is granted whenever no writer holds the lock,
* `wp = true`  (`stepWP`) : writer preference (what the futex based std `RwLock` does): a read acquisition
  is additionally refused while some thread is parked on a write acquisition of the same lock.
Every `stepWP` step is a `step` step, so the writer-preferring system has fewer enabled steps.

The second half is a checker for recorded traces of `(thread, isAcquire, lock)` events.
Core library only.
-/
namespace Rx.LockOrder

/-- one operation of a thread program -/
inductive Op where
  | acq (l : Nat) (write : Bool)
  | rel (l : Nat)
  | work
deriving Repr, DecidableEq, Inhabited

/-- a thread: the rest of its program and the locks it holds (most recent first) with their mode -/
structure Thread where
  rest : List Op
  held : List (Nat × Bool)
deriving Repr, DecidableEq, Inhabited

/-- global state: one entry per thread; a label is an index into this list -/
abbrev State := List Thread

/-- a step label = the index of the thread that moves (its next operation is determined by the state) -/
abbrev Label := Nat

def Thread.holds (th : Thread) (l : Nat) : Bool := th.held.any (fun h => h.1 == l)

def Thread.holdsW (th : Thread) (l : Nat) : Bool := th.held.any (fun h => h.1 == l && h.2)

/-- the thread is parked in front of a write acquisition of `l` -/
def Thread.waitsW (th : Thread) (l : Nat) : Bool :=
  match th.rest with
  | .acq l' true :: _ => l' == l
  | _ => false

def Thread.finished (th : Thread) : Bool := th.rest.isEmpty

/-- RwLock compatibility with the current holders (every thread counts, the acquirer too):
    write needs no holder at all, read needs no write holder -/
def canAcq (st : State) (l : Nat) (w : Bool) : Bool :=
  st.all (fun u => if w then !u.holds l else !u.holdsW l)

/-- admission of an acquisition; with `wp` readers are also refused while a writer is parked on the lock -/
def grant (wp : Bool) (st : State) (l : Nat) (w : Bool) : Bool :=
  canAcq st l w && (!wp || w || !st.any (fun u => u.waitsW l))

/-- is the operation enabled in `st` (releases and local work always are) -/
def opEnabled (wp : Bool) (st : State) : Op → Bool
  | .acq l w => grant wp st l w
  | _ => true

/-- effect of an operation on the held list of the executing thread -/
def heldAfter (held : List (Nat × Bool)) : Op → List (Nat × Bool)
  | .acq l w => (l, w) :: held
  | .rel l => held.eraseP (fun h => h.1 == l)
  | .work => held

/-- thread `t` executes its next operation, if it has one and it is enabled -/
def stepG (wp : Bool) (st : State) (t : Label) : Option State :=
  match st[t]? with
  | none => none
  | some th =>
    match th.rest with
    | [] => none
    | op :: rest =>
      if opEnabled wp st op then some (st.set t ⟨rest, heldAfter th.held op⟩) else none

/-- the plain RwLock system of the work package -/
def step (st : State) (t : Label) : Option State := stepG false st t

/-- the writer-preferring system -/
def stepWP (st : State) (t : Label) : Option State := stepG true st t

def init (progs : List (List Op)) : State := progs.map (fun p => ⟨p, []⟩)

/-- states reachable under the admission policy `wp` -/
inductive ReachableG (wp : Bool) (progs : List (List Op)) : State → Prop where
  | init : ReachableG wp progs (init progs)
  | step {st st' : State} {t : Label} :
      ReachableG wp progs st → stepG wp st t = some st' → ReachableG wp progs st'

abbrev Reachable (progs : List (List Op)) (st : State) : Prop := ReachableG false progs st
abbrev ReachableWP (progs : List (List Op)) (st : State) : Prop := ReachableG true progs st

/-- replay of a recorded run (list of labels) -/
def replayG (wp : Bool) : State → List Label → Option State
  | st, [] => some st
  | st, t :: ts => match stepG wp st t with
    | none => none
    | some st' => replayG wp st' ts

def replay (progs : List (List Op)) (ls : List Label) : Option State := replayG false (init progs) ls

/-- some thread still has work to do -/
def Unfinished (st : State) : Prop := ∃ th ∈ st, th.rest ≠ []

/-- some thread is not finished and NO thread has an enabled step -/
def DeadlockedG (wp : Bool) (st : State) : Prop := Unfinished st ∧ ∀ t, stepG wp st t = none

abbrev Deadlocked (st : State) : Prop := DeadlockedG false st
abbrev DeadlockedWP (st : State) : Prop := DeadlockedG true st

/-- decidable rendering of `DeadlockedG` (labels ≥ length can never step) -/
def deadlockedB (wp : Bool) (st : State) : Bool :=
  st.any (fun th => !th.rest.isEmpty) && (List.range st.length).all (fun t => (stepG wp st t).isNone)

/-! ### ranked programs -/

/-- sequential execution of a program from the lock set `held` (lock ids only, most recent first):
    every `acq l` happens while all held locks have strictly smaller rank (so `l` itself is not held),
    and at the end nothing is held (balanced).  `rel` of a lock that is not held is a no-op. -/
def rankedFrom (rank : Nat → Nat) : List Nat → List Op → Bool
  | held, [] => held.isEmpty
  | held, .acq l _ :: rest => held.all (fun h => rank h < rank l) && rankedFrom rank (l :: held) rest
  | held, .rel l :: rest => rankedFrom rank (held.erase l) rest
  | held, .work :: rest => rankedFrom rank held rest

/-- the rank discipline alone (no balance requirement): what a *prefix* of a ranked program satisfies -/
def rankedPrefixFrom (rank : Nat → Nat) : List Nat → List Op → Bool
  | _, [] => true
  | held, .acq l _ :: rest => held.all (fun h => rank h < rank l) && rankedPrefixFrom rank (l :: held) rest
  | held, .rel l :: rest => rankedPrefixFrom rank (held.erase l) rest
  | held, .work :: rest => rankedPrefixFrom rank held rest

/-- locks held after running a program sequentially from `held` -/
def finalHeld : List Nat → List Op → List Nat
  | held, [] => held
  | held, .acq l _ :: rest => finalHeld (l :: held) rest
  | held, .rel l :: rest => finalHeld (held.erase l) rest
  | held, .work :: rest => finalHeld held rest

/-- a whole program is ranked: rank discipline from the empty lock set, and balanced -/
def Ranked (rank : Nat → Nat) (p : List Op) : Prop := rankedFrom rank [] p = true

/-- a program prefix is rank-consistent -/
def RankedPrefix (rank : Nat → Nat) (p : List Op) : Prop := rankedPrefixFrom rank [] p = true

instance (rank : Nat → Nat) (p : List Op) : Decidable (Ranked rank p) := by unfold Ranked; infer_instance
instance (rank : Nat → Nat) (p : List Op) : Decidable (RankedPrefix rank p) := by
  unfold RankedPrefix; infer_instance

/-! ### recorded traces -/

/-- a recorded event `(thread, isAcquire, lock)`; `isAcquire = false` is a release -/
abbrev Event := Nat × Bool × Nat

def updHeld (held : Nat → List Nat) (t : Nat) (v : List Nat) : Nat → List Nat :=
  fun u => if u = t then v else held u

/-- walk over the trace keeping the set of locks every thread holds; each acquisition must have a rank
    strictly above all locks the acquiring thread holds at that moment -/
def checkFrom (rank : Nat → Nat) (held : Nat → List Nat) : List Event → Bool
  | [] => true
  | (t, true, l) :: es =>
      (held t).all (fun h => rank h < rank l) && checkFrom rank (updHeld held t (l :: held t)) es
  | (t, false, l) :: es => checkFrom rank (updHeld held t ((held t).erase l)) es

def checkTrace (rank : Nat → Nat) (events : List (Nat × Bool × Nat)) : Bool :=
  checkFrom rank (fun _ => []) events

/-- the program prefix thread `t` has executed according to the trace (the trace does not record the
    mode, `w` is used for every acquisition; the rank discipline does not look at it) -/
def proj (w : Bool) (t : Nat) : List Event → List Op
  | [] => []
  | (u, a, l) :: es =>
      if t = u then (if a then Op.acq l w else Op.rel l) :: proj w t es else proj w t es

/-- the events produced by thread `t` executing `op` (local work is not recorded) -/
def eventOf (t : Nat) : Op → List Event
  | .acq l _ => [(t, true, l)]
  | .rel l => [(t, false, l)]
  | .work => []

/-- the trace of a run from `st` along the labels (stops at the first label that cannot step) -/
def traceOf (wp : Bool) : State → List Label → List Event
  | _, [] => []
  | st, t :: ts =>
    match stepG wp st t with
    | none => []
    | some st' =>
      (match st[t]? with
        | some th => (match th.rest with | op :: _ => eventOf t op | [] => [])
        | none => []) ++ traceOf wp st' ts

/-! ### text formats (driver side; no theorem mentions these) -/

/-- label text: a thread index in decimal, optionally prefixed with `t` (`"3"` or `"t3"`); blanks ignored -/
def parseLabel (line : String) : Option Label :=
  let s := line.trimAscii.toString
  if s.startsWith "t" then (s.drop 1).toString.toNat? else s.toNat?

/-- event text: `"<thread> <kind> <lock>"`, thread/lock decimal, kind ∈ {A, acq, R, rel} -/
def parseEvent (line : String) : Option Event :=
  match (line.trimAscii.toString.splitOn " ").filter (· ≠ "") with
  | [t, k, l] => do
    let t ← parseLabel t
    let l ← l.toNat?
    if k == "A" || k == "acq" then pure (t, true, l)
    else if k == "R" || k == "rel" then pure (t, false, l)
    else none
  | _ => none

/-- operation text: `"W<lock>"` (write acquire), `"R<lock>"` (read acquire), `"U<lock>"` (release), `"."` (work) -/
def parseOp (tok : String) : Option Op :=
  if tok == "." then some .work
  else if tok.startsWith "W" then (tok.drop 1).toString.toNat?.map (Op.acq · true)
  else if tok.startsWith "R" then (tok.drop 1).toString.toNat?.map (Op.acq · false)
  else if tok.startsWith "U" then (tok.drop 1).toString.toNat?.map Op.rel
  else none

/-- program text: blank separated operations -/
def parseProg (line : String) : Option (List Op) :=
  ((line.trimAscii.toString.splitOn " ").filter (· ≠ "")).mapM parseOp

/-- replay a textual run: one label per line, empty lines ignored -/
def replayText (progs : List (List Op)) (lines : List String) : Option State := do
  let ls ← (lines.filter (fun l => l.trimAscii.toString ≠ "")).mapM parseLabel
  replay progs ls

/-- check a textual trace: one event per line, empty lines ignored; `none` = parse error -/
def checkTraceText (rank : Nat → Nat) (lines : List String) : Option Bool := do
  let es ← (lines.filter (fun l => l.trimAscii.toString ≠ "")).mapM parseEvent
  pure (checkTrace rank es)

end Rx.LockOrder
