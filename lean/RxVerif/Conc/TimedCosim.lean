/-
Co-simulation glue for the virtual-time LTSs of `Conc/Timed.lean` (`Timeout`, `Delay`, `Interval`, `Timer`, `Debounce`,
`Sample`, `Rounds`): text form of a recorded execution of harness/conc/src/timedlts.rs -> replay through the LTS's `step` ->
comparison of the LTS's `log` (the (instant, event) list) and `exitedAt` (the instants the library's threads exited) with
what the harness recorded.  No theorem here; used by `rxmodel cosim timed` (Driver/Main.lean).

payload := `<params> ; got=<records> exits=<instants> table=<ok|BAD> bad=<-|text> ; <labels>`
  params  := `kind=<k> d=<d> script=<entry,..> [trigger=<entry,..>] [unsub=<u>] [take=<c>] [rounds=<hold>:<pause>,..]`
             (entries: `Timed.parseEntry`)
  got     := `cb` stamps of the subscriber's callbacks, `n1@5,eT@25` (`Timed.outStr`), `-` if none
  exits   := per library thread, in spawn order, the instant of its `exit` event, `-` = still alive at the end
  labels  := `;`-separated  `<label>[!<rec>,..]@<lo>[.<at>.<hi>]`
             <label> = `tick <t>` | `run <tid>` (`Timed.parseLabel`);  `!<rec>,..` = the records the subscriber's callbacks
             stamped inside the step (`n1`, `c`, `e`, `eT`, `nu`): the step must append exactly these to the LTS's `log`;
             `lo .. hi` = positions, in the recorded event log, of the first / last event of the code section that IS the
             step, `at` = the event it is linearised at by default (the labels arrive sorted by `at`).

Linearisation.  An LTS micro-step is atomic, the code section it stands for is not (e.g. `finalize` clears the source's
observer and, several lock operations later, cancels the armed timer).  The check is the usual one for that situation:
the recorded execution must be LINEARISABLE with respect to the LTS, i.e. there is a total order of the steps that
  (1) keeps every thread's program order,
  (2) keeps real time: a section that ended before another began (`hi < lo`) comes first — in particular nothing moves
      across a `tick`, whose section is one event,
  (3) is a run of the LTS (`step` accepts every label), with exactly the stamped records appended at every step,
and the final `log` / `exitedAt` equal what the harness observed.  `search` tries the default order first (the sort by
`at`) and backtracks over the permitted alternatives only where `step` refuses; `moved=` counts the steps that were taken
out of the default order.  A bounded search (`budget` step evaluations) that finds nothing is a REJECT.
-/
import RxVerif.Conc.Timed

namespace Rx.Timed.Cosim

/-- value of `key=` in a blank-separated header -/
def field (hdr key : String) : Option String :=
  ((hdr.splitOn " ").filterMap fun w =>
    if w.startsWith (key ++ "=") then some (w.drop (key.length + 1)).toString else none).head?

structure Lab where
  lbl : Label
  outs : List String
  lo : Nat
  pt : Nat
  hi : Nat
  /-- position in the default order (unique) -/
  ix : Nat := 0
deriving Repr, Inhabited

def Lab.thread (l : Lab) : Option Nat := match l.lbl with | .run t => some t | .tick _ => none

def Lab.toStr (l : Lab) : String :=
  toString l.lbl ++ (if l.outs.isEmpty then "" else "!" ++ ",".intercalate l.outs) ++ "@" ++ toString l.pt

/-- `run 0!n1@37.43.45` / `tick 5@31` -/
def parseLab (s : String) : Option Lab :=
  match s.trimAscii.toString.splitOn "@" with
  | [l, pos] =>
    let (lt, outs) := match l.splitOn "!" with
      | [a, b] => (a, (b.splitOn ",").filter (· ≠ ""))
      | _ => (l, [])
    match parseLabel lt, (pos.splitOn ".").mapM (·.toNat?) with
    | some lbl, some [a] => some { lbl, outs, lo := a, pt := a, hi := a }
    | some lbl, some [lo, a, hi] => some { lbl, outs, lo, pt := a, hi }
    | _, _ => none
  | _ => none

/-- record name without the instant: `n1`, `c`, `e`, `eT`, `nu` -/
def recName (o : Out) : String := ((outStr o).splitOn "@").headD ""

/-- what the search needs to know about a model -/
structure Model (σ : Type) where
  step : σ → Label → Option σ
  log : σ → List Out

/-- `step`, and the step appended exactly the stamped records -/
def tryStep {σ : Type} (m : Model σ) (s : σ) (l : Lab) : Option σ :=
  match m.step s l.lbl with
  | some s' =>
    let n := (m.log s).length
    if ((m.log s').drop n).map recName = l.outs ∧ (m.log s').length = n + l.outs.length then some s' else none
  | none => none

/-- may `x` be next among the pending steps `pend` (in default order)?  No pending step of the same thread precedes it,
    and no pending section ended before `x` began -/
def eligible (pend : List Lab) (x : Lab) : Bool :=
  pend.all fun y =>
    y.ix == x.ix ||
    (!(decide (y.hi < x.lo)) && !(y.thread.isSome && y.thread == x.thread && decide (y.ix < x.ix)))

structure Res (σ : Type) where
  final : Option (σ × Nat) := none
  budget : Nat
  /-- diagnostics: most steps consumed on any branch, and what was refused there -/
  best : Nat := 0
  refused : String := ""

/-- depth-first search for a linearisation (fuel = number of steps still to place) -/
def search {σ : Type} (m : Model σ) : Nat → σ → List Lab → Nat → Nat → Res σ → Res σ
  | 0, s, _, _, moved, r => { r with final := some (s, moved) }
  | fuel + 1, s, pend, done, moved, r =>
    match pend with
    | [] => { r with final := some (s, moved) }
    | first :: _ =>
      (pend.filter (eligible pend)).foldl (fun (r : Res σ) x =>
        if r.final.isSome then r
        else if r.budget = 0 then r
        else
          let r := { r with budget := r.budget - 1 }
          match tryStep m s x with
          | none =>
            if done ≥ r.best then
              { r with best := done, refused := (if done > r.best then "" else r.refused ++ " ") ++ x.toStr }
            else r
          | some s' =>
            search m fuel s' (pend.filter (·.ix != x.ix)) (done + 1) (if x.ix == first.ix then moved else moved + 1) r) r

def showOpt : Option Nat → String
  | some n => toString n
  | none => "-"

def commaOuts (l : List Out) : String := if l.isEmpty then "-" else ",".intercalate (l.map outStr)

def commaExits (l : List (Option Nat)) : String := if l.isEmpty then "-" else ",".intercalate (l.map showOpt)

/-- run the search and compare the final ghost state with the harness's observation -/
def judge {σ : Type} (m : Model σ) (init : σ) (exits : σ → List (Option Nat)) (labs : List Lab) (impl : String) : String :=
  let labs := (List.range labs.length).zip labs |>.map fun (i, l) => { l with ix := i }
  let r := search m labs.length init labs 0 0 { budget := 400000 }
  match r.final with
  | none =>
    " REJECT no linearisation accepted by the LTS (" ++ (if r.budget = 0 then "search budget exhausted, " else "") ++
      toString r.best ++ " of " ++ toString labs.length ++ " steps placed; then refused: " ++ r.refused ++ ")"
  | some (s, moved) =>
    let model := "got=" ++ commaOuts (m.log s) ++ " exits=" ++ commaExits (exits s)
    if model == impl then " ok steps=" ++ toString labs.length ++ " moved=" ++ toString moved ++ " ghost " ++ model
    else " REJECT ghost state differs: model " ++ model ++ " ;; impl " ++ impl

def parseScript (s : String) : Option (List ((Wait × Ev) × Nat)) :=
  if s == "-" || s == "" then some [] else (s.splitOn ",").mapM parseEntry

def cosim (payload : String) : String :=
  match payload.splitOn " ; " with
  | [hdr, obs, labelsText] =>
    if field obs "table" != some "ok" then " REJECT lock table: " ++ obs
    else
    -- events the renderer could not map to a step of the LTS (code of another shape): the replay still runs on what was
    -- rendered, but such an execution is never accepted
    let note := fun (r : String) =>
      if field obs "bad" == some "-" then r
      else if (r.splitOn " REJECT ").length > 1 then r ++ " [renderer: " ++ (field obs "bad").getD "?" ++ "]"
      else " REJECT renderer: " ++ (field obs "bad").getD "?" ++ " (the LTS accepted what was rendered:" ++ r ++ ")"
    note <|
    let impl := "got=" ++ (field obs "got").getD "?" ++ " exits=" ++ (field obs "exits").getD "?"
    let texts := (labelsText.splitOn ";").filter (fun l => l.trimAscii.toString ≠ "")
    match texts.mapM parseLab with
    | none => " REJECT unparsable label " ++ ((texts.find? fun l => (parseLab l).isNone).getD "?")
    | some labs =>
      let d := ((field hdr "d").bind (·.toNat?)).getD 0
      let unsubAt := (field hdr "unsub").bind (·.toNat?)
      let take := (field hdr "take").bind (·.toNat?)
      match parseScript ((field hdr "script").getD "-"), parseScript ((field hdr "trigger").getD "-") with
      | some es, some ts =>
        let script := es.map (·.1)
        let handling := es.map (·.2)
        match (field hdr "kind").getD "?" with
        | "timeout" =>
          let p : Timeout.Params := { d, script, unsubAt, handling }
          judge ⟨Timeout.step p, (·.log)⟩ (Timeout.init p) (fun s => s.timers.map (·.exitedAt)) labs impl
        | "delay" =>
          let p : Delay.Params := { d, script, unsubAt, handling }
          judge ⟨Delay.step p, (·.log)⟩ (Delay.init p) (fun _ => []) labs impl
        | "interval" =>
          let p : Interval.Params := { d, unsubAt, take }
          judge ⟨Interval.step p, (·.log)⟩ (Interval.init p) (fun s => [s.w.exitedAt]) labs impl
        | "timer" =>
          let p : Timer.Params := { d, unsubAt }
          judge ⟨Timer.step p, (·.log)⟩ (Timer.init p) (fun s => [s.exitedAt]) labs impl
        | "debounce" =>
          let p : Debounce.Params := { d, script, unsubAt }
          judge ⟨Debounce.step p, (·.log)⟩ (Debounce.init p) (fun s => [s.exitedAt]) labs impl
        | "rounds" =>
          let rs := (((field hdr "rounds").getD "").splitOn ",").filterMap fun t =>
            match t.splitOn ":" with
            | [a, b] => match a.toNat?, b.toNat? with
              | some a, some b => some (a, b)
              | _, _ => none
            | _ => none
          let p : Rounds.Params := { d, rounds := rs }
          judge ⟨Rounds.step p, fun _ => []⟩ (Rounds.init p) (fun s => s.workers.map (·.exitedAt)) labs impl
        | "sample" =>
          let p : Sample.Params := { script, trigger := ts.map (·.1), unsubAt }
          judge ⟨Sample.step p, (·.log)⟩ (Sample.init p) (fun _ => []) labs impl
        | k => " REJECT unknown kind " ++ k
      | _, _ => " REJECT bad script"
  | _ => " REJECT malformed payload"

end Rx.Timed.Cosim
