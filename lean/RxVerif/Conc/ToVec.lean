/-
C18 — the `to_vec()` future (`/repo/src/operators/to_vec.rs`).

Two threads over the four `Arc<RwLock<_>>` cells of `struct ToVec` (lines 14-17: `buffer`, `done`, `err`, `waker`):

* `src`  — the source thread.  It runs a script (items, then `complete` | `error e` | nothing) through the three
  closures subscribed by `start` (lines 32-47).  The Observer (`/repo/src/observer.rs`) guarantees `next*` followed by
  at most one terminal, which is exactly the shape of `Script`.
* `exe`  — the executor thread: a minimal `block_on`:  `loop { if let Ready(r) = fut.poll(cx) { return r }  park() }`
  with the standard thread-park token (`wake` sets the token; `park` consumes it or blocks; spurious returns allowed).

One micro-step per RwLock acquisition / release (callback start is folded into its first acquisition, callback return
into its last release; plain reads / writes of the protected cell are folded into the release of the guard that protects
them — nobody else can observe the cell while the guard is held).

`poll` (lines 57-73):
  61  `let mut waker = self.waker.write()`                 exe acq_waker     (held to the end of `poll`)
  63  `if *self.done.read()`                               exe acq_done ; exe rel_done   (guard is a temporary of the
                                                            `if` condition: dropped before the branch is entered)
  64  `if let Some(err) = &*self.err.read()`               exe acq_err
  65/67 `Ready(Err(..))` / `Ready(Ok(buffer))`             exe rel_err       (guard dropped at the end of the `if` body)
  70  `*waker = Some(cx.waker().clone())` ; 71 `Pending`   \
  73  end of `poll`: `waker` guard dropped                 /  exe rel_waker  (store + release, or release + Ready)

callbacks (lines 33-46):
  33  `buff_next.write().unwrap().push(x)`                 src acq_buffer ; src rel_buffer
  35  `*err_error.write() = Some(e)`                       src acq_err ; src rel_err
  36/42 `*done.write() = true`                             src acq_done ; src rel_done
  37/43 `if let Some(w) = waker.read().unwrap().clone()`   src acq_waker
  38/44 `w.wake()`                                         src wake          (STILL holding `waker.read()`: the guard is
                                                            a temporary of the `if let` scrutinee)
  39/45 end of `if let`                                    src rel_waker
-/
import RxVerif.Data

namespace Rx.ToVec

/-- the terminal event of a source script -/
inductive Term where
  | complete
  | error (e : Nat)
deriving Repr, DecidableEq, Inhabited

/-- what the source thread does: `items` through `next`, then at most one terminal -/
structure Script where
  items : List Data
  term : Option Term
deriving Repr, DecidableEq, Inhabited

/-- the value the error callback stores into `err` (none for `complete` / silent scripts) -/
def Script.errVal (sc : Script) : Option Nat :=
  match sc.term with
  | some (.error e) => some e
  | _ => none

/-- `Poll::Ready` payload: `Ok(buffer)` (contents of the shared buffer at that moment) or `Err(e)` -/
inductive Res where
  | ok (buf : List Data)
  | err (e : Nat)
deriving Repr, DecidableEq, Inhabited

/-- the Ready value the property demands for a script -/
def Script.expected (sc : Script) : Option Res :=
  match sc.term with
  | some .complete => some (.ok sc.items)
  | some (.error e) => some (.err e)
  | none => none

inductive Tid where
  | src | exe
deriving Repr, DecidableEq, Inhabited

/-- program counter of the source thread -/
inductive SPc where
  | idle                  -- between callbacks (next item / terminal still to be delivered, or silent for ever)
  | nextHold (x : Data)   -- line 33: holds `buffer.write()`, `push(x)` + release pending
  | errHold               -- line 35: holds `err.write()`
  | doneAcq               -- line 36: error callback, about to take `done.write()`
  | doneHold              -- line 36 / 42: holds `done.write()`
  | wakerAcq              -- line 37 / 43: `done` written, about to take `waker.read()`
  | wakerHold             -- holds `waker.read()`, clone inspected next
  | woke                  -- line 38 / 44 executed, still holds `waker.read()`
  | fin                   -- terminal callback returned
deriving Repr, DecidableEq, Inhabited

/-- program counter of the executor thread -/
inductive XPc where
  | poll        -- about to call `poll` (line 61 `waker.write()`)
  | doneAcq     -- holds `waker.write()`; line 63 about to take `done.read()`
  | doneHold    -- holds `done.read()`
  | errAcq      -- saw `done`; line 64 about to take `err.read()`
  | errHold     -- holds `err.read()`
  | retReady    -- Ready value computed; `waker.write()` still held (line 73)
  | store       -- saw `!done`; line 70 store + line 73 release pending
  | park        -- `poll` returned Pending; about to park
  | ready       -- `block_on` returned
deriving Repr, DecidableEq, Inhabited

structure State where
  -- the four shared cells
  buffer : List Data          -- ghost reading: the sequence of items pushed so far
  done : Bool
  err : Option Nat
  waker : Option Nat          -- `Some(waker)`; the payload is the number of the poll that stored it (ghost identity)
  -- RwLock holders (with these two threads no lock ever has two readers: each cell is read by one thread only)
  lBuf : Option Tid
  lDone : Option Tid
  lErr : Option Tid
  lWaker : Option Tid
  -- source thread
  sp : SPc
  todo : List Data            -- items not yet handed to `next`
  -- executor thread
  xp : XPc
  ret : Option Res            -- local of `poll`: the Ready value being returned
  token : Bool                -- thread-park token (`woken`)
  -- ghost
  polls : Nat                 -- number of `poll` calls started
  spur : Nat                  -- spurious returns from `park`
  parks : Nat                 -- token-consuming returns from `park`
  wakes : Nat                 -- `wake()` calls
  result : Option Res         -- what `block_on` returned
deriving Repr, DecidableEq, Inhabited

def init (sc : Script) : State :=
  { buffer := [], done := false, err := none, waker := none,
    lBuf := none, lDone := none, lErr := none, lWaker := none,
    sp := .idle, todo := sc.items,
    xp := .poll, ret := none, token := false,
    polls := 0, spur := 0, parks := 0, wakes := 0, result := none }

inductive Kind where
  | acqBuf | relBuf | acqErr | relErr | acqDone | relDone | acqWaker | relWaker | wake | park | spurious
deriving Repr, DecidableEq, Inhabited

abbrev Label := Tid × Kind

/-- One micro-step.  `none` = the label is not enabled (wrong program point, or the lock is held by the other thread,
or the park token is absent).  Everything but (thread, kind) is determined by the state. -/
def step (sc : Script) (s : State) : Label → Option State
  -- ───────────── source thread ─────────────
  | (.src, .acqBuf) =>
    match s.sp, s.todo, s.lBuf with
    | .idle, x :: rest, none => some { s with sp := .nextHold x, todo := rest, lBuf := some .src }
    | _, _, _ => none
  | (.src, .relBuf) =>
    match s.sp with
    | .nextHold x => some { s with sp := .idle, buffer := s.buffer ++ [x], lBuf := none }
    | _ => none
  | (.src, .acqErr) =>
    match s.sp, s.todo, sc.term, s.lErr with
    | .idle, [], some (.error _), none => some { s with sp := .errHold, lErr := some .src }
    | _, _, _, _ => none
  | (.src, .relErr) =>
    match s.sp with
    | .errHold => some { s with sp := .doneAcq, err := sc.errVal, lErr := none }
    | _ => none
  | (.src, .acqDone) =>
    match s.sp, s.todo, sc.term, s.lDone with
    | .doneAcq, _, _, none => some { s with sp := .doneHold, lDone := some .src }
    | .idle, [], some .complete, none => some { s with sp := .doneHold, lDone := some .src }
    | _, _, _, _ => none
  | (.src, .relDone) =>
    match s.sp with
    | .doneHold => some { s with sp := .wakerAcq, done := true, lDone := none }
    | _ => none
  | (.src, .acqWaker) =>
    match s.sp, s.lWaker with
    | .wakerAcq, none => some { s with sp := .wakerHold, lWaker := some .src }
    | _, _ => none
  | (.src, .wake) =>
    match s.sp, s.waker with
    | .wakerHold, some _ => some { s with sp := .woke, token := true, wakes := s.wakes + 1 }
    | _, _ => none
  | (.src, .relWaker) =>
    match s.sp, s.waker with
    | .wakerHold, none => some { s with sp := .fin, lWaker := none }
    | .woke, _ => some { s with sp := .fin, lWaker := none }
    | _, _ => none
  -- ───────────── executor thread ─────────────
  | (.exe, .acqWaker) =>
    match s.xp, s.lWaker with
    | .poll, none => some { s with xp := .doneAcq, lWaker := some .exe, polls := s.polls + 1 }
    | _, _ => none
  | (.exe, .acqDone) =>
    match s.xp, s.lDone with
    | .doneAcq, none => some { s with xp := .doneHold, lDone := some .exe }
    | _, _ => none
  | (.exe, .relDone) =>
    match s.xp with
    | .doneHold => some { s with xp := if s.done then .errAcq else .store, lDone := none }
    | _ => none
  | (.exe, .acqErr) =>
    match s.xp, s.lErr with
    | .errAcq, none => some { s with xp := .errHold, lErr := some .exe }
    | _, _ => none
  | (.exe, .relErr) =>
    match s.xp with
    | .errHold =>
      some { s with xp := .retReady, lErr := none,
                    ret := some (match s.err with | some e => .err e | none => .ok s.buffer) }
    | _ => none
  | (.exe, .relWaker) =>
    match s.xp with
    | .retReady => some { s with xp := .ready, lWaker := none, result := s.ret }
    | .store => some { s with xp := .park, lWaker := none, waker := some s.polls }
    | _ => none
  | (.exe, .park) =>
    match s.xp, s.token with
    | .park, true => some { s with xp := .poll, token := false, parks := s.parks + 1 }
    | _, _ => none
  | (.exe, .spurious) =>
    match s.xp with
    | .park => some { s with xp := .poll, spur := s.spur + 1 }
    | _ => none
  | _ => none

/-- run a label list from a state -/
def runFrom (sc : Script) : State → List Label → Option State
  | s, [] => some s
  | s, l :: ls => match step sc s l with
    | some s' => runFrom sc s' ls
    | none => none

/-- replay a recorded run from the initial state; `none` = the run is not a run of the model -/
def replay (sc : Script) (ls : List Label) : Option State := runFrom sc (init sc) ls

inductive Reachable (sc : Script) : State → Prop where
  | init : Reachable sc (init sc)
  | step {s s' : State} {l : Label} : Reachable sc s → step sc s l = some s' → Reachable sc s'

theorem Reachable.runFrom {sc : Script} {s s' : State} (h : Reachable sc s) {ls : List Label}
    (hr : runFrom sc s ls = some s') : Reachable sc s' := by
  induction ls generalizing s with
  | nil => simp [ToVec.runFrom] at hr; exact hr ▸ h
  | cons l ls ih =>
    simp only [ToVec.runFrom] at hr
    split at hr
    · next s1 h1 => exact ih (Reachable.step h h1) hr
    · cases hr

theorem reachable_of_replay {sc : Script} {ls : List Label} {s : State} (h : replay sc ls = some s) :
    Reachable sc s := Reachable.init.runFrom h

theorem replay_of_reachable {sc : Script} {s : State} (h : Reachable sc s) : ∃ ls, replay sc ls = some s := by
  have app : ∀ (ls : List Label) (a b : State) (l : Label),
      runFrom sc a ls = some b → ∀ c, step sc b l = some c → runFrom sc a (ls ++ [l]) = some c := by
    intro ls
    induction ls with
    | nil => intro a b l h1 c h2; simp [ToVec.runFrom] at h1; subst h1; simp [ToVec.runFrom, h2]
    | cons x xs ih =>
      intro a b l h1 c h2
      simp only [ToVec.runFrom, List.cons_append] at h1 ⊢
      split at h1
      · next a1 ha1 => exact ih a1 b l h1 c h2
      · cases h1
  induction h with
  | init => exact ⟨[], rfl⟩
  | step _ hs ih =>
    obtain ⟨ls, hls⟩ := ih
    exact ⟨ls ++ [_], app ls _ _ _ hls _ hs⟩

/-! ### text format -/

def Tid.toStr : Tid → String
  | .src => "src"
  | .exe => "exe"

def Kind.toStr : Kind → String
  | .acqBuf => "acq_buffer" | .relBuf => "rel_buffer"
  | .acqErr => "acq_err" | .relErr => "rel_err"
  | .acqDone => "acq_done" | .relDone => "rel_done"
  | .acqWaker => "acq_waker" | .relWaker => "rel_waker"
  | .wake => "wake" | .park => "park" | .spurious => "spurious"

def labelToStr (l : Label) : String := l.1.toStr ++ " " ++ l.2.toStr

def parseTid : String → Option Tid
  | "src" => some .src
  | "exe" => some .exe
  | _ => none

def parseKind : String → Option Kind
  | "acq_buffer" => some .acqBuf | "rel_buffer" => some .relBuf
  | "acq_err" => some .acqErr | "rel_err" => some .relErr
  | "acq_done" => some .acqDone | "rel_done" => some .relDone
  | "acq_waker" => some .acqWaker | "rel_waker" => some .relWaker
  | "wake" => some .wake | "park" => some .park | "spurious" => some .spurious
  | _ => none

/-- `"<thread> <kind>"`, thread ∈ {src, exe}, kind as printed by `Kind.toStr`; blanks around / between are ignored -/
def parseLabel (line : String) : Option Label :=
  match (line.trimAscii.toString.splitOn " ").filter (· ≠ "") with
  | [t, k] => do
    let t ← parseTid t
    let k ← parseKind k
    pure (t, k)
  | _ => none

/-- script text: blank-separated integers (the items), optionally followed by `c` (complete) or `e<nat>` (error) -/
def parseScript (line : String) : Option Script :=
  let toks := (line.trimAscii.toString.splitOn " ").filter (· ≠ "")
  let rec go (ts : List String) (acc : List Data) : Option Script :=
    match ts with
    | [] => some ⟨acc.reverse, none⟩
    | t :: rest =>
      match t.toInt? with
      | some i => go rest (Data.int i :: acc)
      | none =>
        if rest ≠ [] then none
        else if t == "c" then some ⟨acc.reverse, some .complete⟩
        else if t.startsWith "e" then
          match (t.drop 1).toString.toNat? with
          | some e => some ⟨acc.reverse, some (.error e)⟩
          | none => none
        else none
  go toks []

/-- replay a textual run (one label per line; empty lines ignored) -/
def replayText (sc : Script) (lines : List String) : Option State := do
  let ls ← (lines.filter (fun l => l.trimAscii.toString ≠ "")).mapM parseLabel
  replay sc ls

def Res.toStr : Res → String
  | .ok b => "Ok[" ++ ",".intercalate (b.map Data.toStr) ++ "]"
  | .err e => "Err(" ++ toString e ++ ")"

/-- one-line observable summary of a state (for the driver) -/
def State.summary (s : State) : String :=
  "done=" ++ toString s.done ++ " polls=" ++ toString s.polls ++ " spurious=" ++ toString s.spur ++
  " wakes=" ++ toString s.wakes ++ " token=" ++ toString s.token ++
  " result=" ++ (match s.result with | some r => r.toStr | none => "pending") ++
  " pushed=[" ++ ",".intercalate (s.buffer.map Data.toStr) ++ "]"

end Rx.ToVec
