import RxVerif.Data
/-
Model C (concurrent): ONE `Observer` (src/observer.rs) shared by any number of threads.

All clones of an `Observer` alias the same four slots (`#[derive(Clone)]` over `Arc<RwLock<Option<..>>>`):
  fn_next, fn_error, fn_complete   : FunctionWrapper  (src/internals/function_wrapper.rs)
  fn_on_unsubscribe                : Arc<RwLock<Option<FunctionWrapper>>>   ("teardown" slot)

Granularity.  One label per RwLock acquisition (the read / take / clear done under that guard happens in the
same atomic step, and the guard is released in that step too, because in the Rust code the guard is a
temporary that is dropped before anything else observable happens), one label for the start and one for the
return of every user callback, one label for the start and one for the return of every call on the observer.
The ONLY guard that is held across a callback is the read guard on `fn_on_unsubscribe` in
`Observer::unsubscribe` (observer.rs:57-59: the `if let Some(f) = &*self.fn_on_unsubscribe.read().unwrap()`
scrutinee temporary lives until the end of the `if let` body, i.e. across `f.call(())`).  That guard therefore
gets an explicit acquire (`acqR teardown`) and release (`relR teardown`) label and a reader count; the final
`*self.fn_on_unsubscribe.write().unwrap() = None` (observer.rs:60) is blocked while the count is non-zero.

User callbacks and the teardown closure are opaque: between `cbStart` and `cbReturn` any other thread may take
any number of steps; the callback itself does not touch the observer (re-entrancy = sequential model).

Every step appends exactly one entry to the ghost `log`; the log is append-only and is the full trace with
the observed values (slot found present or not, result of `is_subscribed`).  Every entry carries the call id
`cid` = index in the log of the `callStart` entry of the call it belongs to.
-/
namespace Rx.ConcObs

/-- a call on the shared observer -/
inductive Op where
  | next (d : Data)      -- Observer::next        observer.rs:37-39
  | error (e : Nat)      -- Observer::error       observer.rs:40-46
  | complete             -- Observer::complete    observer.rs:47-52
  | unsubscribe          -- Observer::unsubscribe observer.rs:53-61
  | isSubscribed         -- Observer::is_subscribed observer.rs:62-64
deriving DecidableEq, Repr, Inhabited

/-- the RwLocks.  `tearFn` is the `inner` lock of the FunctionWrapper stored inside the teardown slot
    (read by `f.call(())` → `fetch_function`, function_wrapper.rs:51-57,59-65); nobody ever clears it. -/
inductive Slot where | next | error | complete | teardown | tearFn
deriving DecidableEq, Repr, Inhabited

/-- user callbacks -/
inductive Cb where | next | error | complete | teardown
deriving DecidableEq, Repr, Inhabited

/-- label kinds; a label is (thread id, kind); everything else is determined by the state -/
inductive Kind where
  | callStart (op : Op)  -- the thread enters `op` (only label with a free choice)
  | callReturn           -- the current call returns to the caller
  | cbStart (cb : Cb)    -- the fetched closure is invoked (no observer lock held, except teardown: see above)
  | cbReturn (cb : Cb)   -- the closure returns
  | acqR (sl : Slot)     -- `sl.read()` acquired; value inspected; guard dropped (kept only for `teardown` if Some)
  | acqW (sl : Slot)     -- `sl.write()` acquired; slot taken / cleared; guard dropped
  | relR (sl : Slot)     -- the read guard on `teardown` is dropped (end of the `if let` in unsubscribe)
deriving DecidableEq, Repr, Inhabited

structure Label where
  tid : Nat
  kind : Kind
deriving DecidableEq, Repr, Inhabited

/-- ghost log events = label kinds + what was observed -/
inductive Event where
  | callStart (op : Op)
  | callReturn (op : Op) (res : Option Bool)   -- `some b` only for `isSubscribed`
  | cbStart (cb : Cb)
  | cbReturn (cb : Cb)
  | acqR (sl : Slot) (found : Bool)            -- slot was `Some` when read
  | acqW (sl : Slot) (found : Bool)            -- slot was `Some` before it was set to `None`
  | relR (sl : Slot)
deriving DecidableEq, Repr, Inhabited

structure Entry where
  tid : Nat
  cid : Nat      -- index in the log of the `callStart` of the call this entry belongs to
  ev : Event
deriving DecidableEq, Repr, Inhabited

/-- program counter of a thread inside its current call -/
inductive Pc where
  | idle
  -- next(x) = fn_next.call_if_available(x)                     function_wrapper.rs:66-72
  | n0   -- fetch_function: fn_next.inner.read(), clone, drop    (:51-57)        label acqR next
  | n1   -- fetched Some(ff): about to run (ff.func)(x)          (:68)           label cbStart next
  | n2   -- inside the next callback                                              label cbReturn next
  -- error(x) / complete()                                       observer.rs:40-52
  | t0   -- fn_next.clear_if_available(): write, take, is_some   (fw :41-43)     label acqW next
  | t1   -- the OTHER terminal slot .clear()                     (fw :38-40)     label acqW complete|error
  | t2   -- own slot call_and_clear_if_available: write, clone, None (fw :74-83) label acqW error|complete
  | t3   -- got Some(f): about to run (f.func)(x)                (fw :85)        label cbStart error|complete
  | t4   -- inside the terminal callback                                          label cbReturn error|complete
  -- unsubscribe()                                               observer.rs:53-61
  | u0   -- fn_next.clear()                                      (:54)           label acqW next
  | u1   -- fn_error.clear()                                     (:55)           label acqW error
  | u2   -- fn_complete.clear()                                  (:56)           label acqW complete
  | u3   -- fn_on_unsubscribe.read(); Some → guard KEPT          (:57)           label acqR teardown
  | u4   -- f.call(()) → f.fetch_function (inner read lock)      (:58, fw:60)    label acqR tearFn
  | u5   -- about to run the teardown closure                    (fw :61)        label cbStart teardown
  | u6   -- inside the teardown closure (read guard still held)                   label cbReturn teardown
  | u7   -- end of `if let`: read guard dropped                  (:59)           label relR teardown
  | u8   -- *fn_on_unsubscribe.write() = None (waits for readers) (:60)          label acqW teardown
  -- is_subscribed() = next.exists() && error.exists() && complete.exists()   observer.rs:62-64 (short-circuit)
  | i0   -- fn_next.exists()                                     (fw :44-49)     label acqR next
  | i1   -- fn_error.exists()                                                     label acqR error
  | i2   -- fn_complete.exists()                                                  label acqR complete
  | ret (res : Option Bool)   -- about to return to the caller                    label callReturn
deriving DecidableEq, Repr, Inhabited

structure Thread where
  pc : Pc := .idle
  op : Op := .isSubscribed   -- current call (last call when idle; meaningless before the first call)
  cid : Nat := 0             -- log index of the current call's `callStart`
deriving DecidableEq, Repr, Inhabited

/-- the shared memory: `true` = slot holds `Some(closure)` -/
structure Shared where
  sNext : Bool := true
  sErr : Bool := true
  sCompl : Bool := true
  sTear : Bool := false      -- `fn_on_unsubscribe` is `None` until `set_on_unsubscribe`
  readers : Nat := 0         -- read guards currently held on `fn_on_unsubscribe`
deriving DecidableEq, Repr, Inhabited

structure State where
  sh : Shared
  threads : List Thread
  log : List Entry
deriving DecidableEq, Repr, Inhabited

def Shared.get (sh : Shared) : Slot → Bool
  | .next => sh.sNext
  | .error => sh.sErr
  | .complete => sh.sCompl
  | .teardown => sh.sTear
  | .tearFn => true

def Shared.clear (sh : Shared) : Slot → Shared
  | .next => { sh with sNext := false }
  | .error => { sh with sErr := false }
  | .complete => { sh with sCompl := false }
  | .teardown => { sh with sTear := false }
  | .tearFn => sh

def Op.isErr : Op → Bool
  | .error _ => true
  | _ => false

/-- slot of the terminal's own closure / of the other terminal / its callback kind -/
def Op.own (op : Op) : Slot := if op.isErr then .error else .complete
def Op.other (op : Op) : Slot := if op.isErr then .complete else .error
def Op.cb (op : Op) : Cb := if op.isErr then .error else .complete

def Op.entry : Op → Pc
  | .next _ => .n0
  | .error _ => .t0
  | .complete => .t0
  | .unsubscribe => .u0
  | .isSubscribed => .i0

/-- The unique next micro-step of a non-idle thread at `pc` inside call `op`:
    (label kind, new shared memory, new pc, logged event); `none` = idle or blocked. -/
def micro (sh : Shared) (pc : Pc) (op : Op) : Option (Kind × Shared × Pc × Event) :=
  match pc with
  | .idle => none
  | .n0 => some (.acqR .next, sh, if sh.sNext then .n1 else .ret none, .acqR .next sh.sNext)
  | .n1 => some (.cbStart .next, sh, .n2, .cbStart .next)
  | .n2 => some (.cbReturn .next, sh, .ret none, .cbReturn .next)
  | .t0 => some (.acqW .next, sh.clear .next, if sh.sNext then .t1 else .ret none, .acqW .next sh.sNext)
  | .t1 => some (.acqW op.other, sh.clear op.other, .t2, .acqW op.other (sh.get op.other))
  | .t2 => some (.acqW op.own, sh.clear op.own, if sh.get op.own then .t3 else .ret none,
                 .acqW op.own (sh.get op.own))
  | .t3 => some (.cbStart op.cb, sh, .t4, .cbStart op.cb)
  | .t4 => some (.cbReturn op.cb, sh, .ret none, .cbReturn op.cb)
  | .u0 => some (.acqW .next, sh.clear .next, .u1, .acqW .next sh.sNext)
  | .u1 => some (.acqW .error, sh.clear .error, .u2, .acqW .error sh.sErr)
  | .u2 => some (.acqW .complete, sh.clear .complete, .u3, .acqW .complete sh.sCompl)
  | .u3 => some (.acqR .teardown, { sh with readers := if sh.sTear then sh.readers + 1 else sh.readers },
                 if sh.sTear then .u4 else .u8, .acqR .teardown sh.sTear)
  | .u4 => some (.acqR .tearFn, sh, .u5, .acqR .tearFn true)
  | .u5 => some (.cbStart .teardown, sh, .u6, .cbStart .teardown)
  | .u6 => some (.cbReturn .teardown, sh, .u7, .cbReturn .teardown)
  | .u7 => some (.relR .teardown, { sh with readers := sh.readers - 1 }, .u8, .relR .teardown)
  | .u8 => if sh.readers = 0 then some (.acqW .teardown, sh.clear .teardown, .ret none, .acqW .teardown sh.sTear)
           else none
  | .i0 => some (.acqR .next, sh, if sh.sNext then .i1 else .ret (some false), .acqR .next sh.sNext)
  | .i1 => some (.acqR .error, sh, if sh.sErr then .i2 else .ret (some false), .acqR .error sh.sErr)
  | .i2 => some (.acqR .complete, sh, .ret (some sh.sCompl), .acqR .complete sh.sCompl)
  | .ret r => some (.callReturn, sh, .idle, .callReturn op r)

/-- One labelled step.  Deterministic: the label must be exactly the step the thread is about to take. -/
def step (s : State) (l : Label) : Option State :=
  match s.threads[l.tid]? with
  | none => none
  | some th =>
    if th.pc = .idle then
      match l.kind with
      | .callStart op =>
        some { sh := s.sh,
               threads := s.threads.set l.tid { pc := op.entry, op := op, cid := s.log.length },
               log := s.log ++ [⟨l.tid, s.log.length, .callStart op⟩] }
      | _ => none
    else
      match micro s.sh th.pc th.op with
      | none => none
      | some (k, sh', pc', ev) =>
        if k = l.kind then
          some { sh := sh',
                 threads := s.threads.set l.tid { th with pc := pc' },
                 log := s.log ++ [⟨l.tid, th.cid, ev⟩] }
        else none

/-- `n` threads, all idle; `tear` = a teardown closure was installed (`set_on_unsubscribe`) before sharing -/
def init (n : Nat) (tear : Bool) : State :=
  { sh := { sTear := tear }, threads := List.replicate n {}, log := [] }

def replay (s : State) : List Label → Option State
  | [] => some s
  | l :: ls => match step s l with
    | none => none
    | some s' => replay s' ls

inductive Reachable : State → Prop
  | init (n : Nat) (tear : Bool) : Reachable (init n tear)
  | step {s s' : State} {l : Label} : Reachable s → step s l = some s' → Reachable s'

theorem replay_reachable {s s' : State} (ls : List Label) (hs : Reachable s) (h : replay s ls = some s') :
    Reachable s' := by
  induction ls generalizing s with
  | nil => simp [replay] at h; exact h ▸ hs
  | cons l ls ih =>
    simp only [replay] at h
    split at h
    · simp at h
    · rename_i s1 h1; exact ih (Reachable.step hs h1) h

theorem reachable_iff_replay (s : State) :
    Reachable s ↔ ∃ n tear ls, replay (init n tear) ls = some s := by
  constructor
  · intro h
    induction h with
    | init n tear => exact ⟨n, tear, [], rfl⟩
    | @step s s' l _ hstep ih =>
      obtain ⟨n, tear, ls, hls⟩ := ih
      refine ⟨n, tear, ls ++ [l], ?_⟩
      have : ∀ (ls : List Label) (a b : State), replay a ls = some b → replay a (ls ++ [l]) = step b l := by
        intro ls
        induction ls with
        | nil => intro a b h; simp [replay] at h; subst h; simp only [List.nil_append, replay]; cases step a l <;> rfl
        | cons x xs ih2 =>
          intro a b h
          simp only [replay, List.cons_append] at h ⊢
          cases hx : step a x with
          | none => simp [hx] at h
          | some a' => simp only [hx] at h ⊢; exact ih2 a' b h
      rw [this ls _ _ hls, hstep]
  · rintro ⟨n, tear, ls, h⟩
    exact replay_reachable ls (Reachable.init n tear) h

/-- the label kind thread `i` would take next (for schedule exploration); `none` = idle, blocked or no such thread -/
def nextKind (s : State) (i : Nat) : Option Kind :=
  match s.threads[i]? with
  | none => none
  | some th => (micro s.sh th.pc th.op).map (·.1)

/-! ### text format (helpers; no theorem mentions them) -/

def Slot.toStr : Slot → String
  | .next => "next" | .error => "error" | .complete => "complete" | .teardown => "teardown" | .tearFn => "tearFn"

def Cb.toStr : Cb → String
  | .next => "next" | .error => "error" | .complete => "complete" | .teardown => "teardown"

def Op.toStr : Op → String
  | .next d => "next " ++ d.toStr
  | .error e => "error " ++ toString e
  | .complete => "complete"
  | .unsubscribe => "unsubscribe"
  | .isSubscribed => "isSubscribed"

def Kind.toStr : Kind → String
  | .callStart op => "callStart " ++ op.toStr
  | .callReturn => "callReturn"
  | .cbStart cb => "cbStart " ++ cb.toStr
  | .cbReturn cb => "cbReturn " ++ cb.toStr
  | .acqR sl => "acqR " ++ sl.toStr
  | .acqW sl => "acqW " ++ sl.toStr
  | .relR sl => "relR " ++ sl.toStr

def Label.toStr (l : Label) : String := toString l.tid ++ " " ++ l.kind.toStr

def boolStr (b : Bool) : String := if b then "true" else "false"

def Event.toStr : Event → String
  | .callStart op => "callStart " ++ op.toStr
  | .callReturn op none => "callReturn " ++ op.toStr
  | .callReturn op (some b) => "callReturn " ++ op.toStr ++ " = " ++ boolStr b
  | .cbStart cb => "cbStart " ++ cb.toStr
  | .cbReturn cb => "cbReturn " ++ cb.toStr
  | .acqR sl f => "acqR " ++ sl.toStr ++ " " ++ (if f then "some" else "none")
  | .acqW sl f => "acqW " ++ sl.toStr ++ " " ++ (if f then "some" else "none")
  | .relR sl => "relR " ++ sl.toStr

def Entry.toStr (e : Entry) : String := toString e.tid ++ " #" ++ toString e.cid ++ " " ++ e.ev.toStr

def parseSlot : String → Option Slot
  | "next" => some .next | "error" => some .error | "complete" => some .complete
  | "teardown" => some .teardown | "tearFn" => some .tearFn | _ => none

def parseCb : String → Option Cb
  | "next" => some .next | "error" => some .error | "complete" => some .complete
  | "teardown" => some .teardown | _ => none

/-- payload of `next`: an integer literal, `u` (unit), `T`/`F`; anything else / nothing = unit -/
def parseItem : List String → Data
  | [] => .unit
  | w :: _ => match w.toInt? with
    | some i => .int i
    | none => if w = "T" then .bool true else if w = "F" then .bool false else .unit

def parseOp : List String → Option Op
  | "next" :: rest => some (.next (parseItem rest))
  | "error" :: rest => some (.error ((rest.head?.bind String.toNat?).getD 0))
  | ["complete"] => some .complete
  | ["unsubscribe"] => some .unsubscribe
  | ["isSubscribed"] => some .isSubscribed
  | _ => none

/-- `<tid> <kind> [args]`, blank separated, e.g. `0 callStart next 5`, `1 acqW next`, `1 cbStart error`,
    `2 relR teardown`, `0 callReturn` (tokens after `callReturn` are ignored so that a recorded result may follow). -/
def parseLabel (line : String) : Option Label :=
  match (line.trimAscii.toString.splitOn " ").filter (· ≠ "") with
  | t :: k :: args =>
    match t.toNat? with
    | none => none
    | some tid =>
      let kind : Option Kind :=
        match k, args with
        | "callStart", args => (parseOp args).map .callStart
        | "callReturn", _ => some .callReturn
        | "cbStart", [c] => (parseCb c).map .cbStart
        | "cbReturn", [c] => (parseCb c).map .cbReturn
        | "acqR", [s] => (parseSlot s).map .acqR
        | "acqW", [s] => (parseSlot s).map .acqW
        | "relR", [s] => (parseSlot s).map .relR
        | _, _ => none
      kind.map fun k => ⟨tid, k⟩
  | _ => none

/-- replay a text trace (one label per line; empty lines and lines starting with `#` skipped).
    `Except.error (lineNo, reason)` on the first line that does not parse or is not the thread's next step. -/
def replayLines (s : State) (lines : List String) : Except (Nat × String) State :=
  let rec go (s : State) (n : Nat) : List String → Except (Nat × String) State
    | [] => .ok s
    | ln :: rest =>
      let t := ln.trimAscii.toString
      if t.isEmpty || t.startsWith "#" then go s (n + 1) rest else
      match parseLabel t with
      | none => .error (n, "parse: " ++ t)
      | some l => match step s l with
        | none => .error (n, "not enabled: " ++ l.toStr ++ " (thread expects " ++
            (match nextKind s l.tid with | some k => k.toStr | none => "callStart/none") ++ ")")
        | some s' => go s' (n + 1) rest
  go s 1 lines

def replayText (n : Nat) (tear : Bool) (text : String) : Except (Nat × String) State :=
  replayLines (init n tear) (text.splitOn "\n")

def State.logLines (s : State) : List String := s.log.map Entry.toStr

/-- shorthand for writing runs in Lean: `run n tear [(tid, kind), ...]` -/
def run (n : Nat) (tear : Bool) (ls : List (Nat × Kind)) : Option State :=
  replay (init n tear) (ls.map fun p => ⟨p.1, p.2⟩)

end Rx.ConcObs
