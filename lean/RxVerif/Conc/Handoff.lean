/-
C09 — `observe_on` / `subscribe_on` hand events to the scheduler (new-thread scheduler).

Rust code modelled (CURRENT tree):
* `/repo/src/operators/observe_on.rs` 36-79   (`ObserveOn::execute`)
* `/repo/src/operators/subscribe_on.rs` 36-63 (`SubscribeOn::execute`)
* `/repo/src/internals/stream_controller.rs` 84-115 (`sink_next`, `sink_error`, `sink_complete`), 132-145 (`finalize`)
* `/repo/src/observer.rs` 37-64 (`next`, `error`, `complete`, `unsubscribe`, `is_subscribed`)
* `/repo/src/internals/function_wrapper.rs` (`clear`, `clear_if_available`, `call_if_available`,
  `call_and_clear_if_available`: every slot access is one `RwLock` operation, the guard is dropped before the
  function is invoked)
* `/repo/src/schedulers/async_function_queue.rs`, `new_thread_scheduler.rs`: abstracted to an ATOMIC FIFO channel
  `post` (append, also after `stop`), `take` (pop the front unless `abort`), `stop` (clear + set `abort`);
  a worker that finds `abort` set leaves `scheduling` (`exit`).  (Refinement of the channel by the Mutex/Condvar
  code is a different work package.)

Threads: 0 = the thread on which the source emits, 1 = the scheduler's worker thread, 2 = a thread calling
`Subscription::unsubscribe` (optional).  One micro-step per slot/lock/queue operation and per callback start/return.
Every step is determined by (thread, state); the `kind` of the label is redundant and CHECKED by `step`.

Simplifications (all of them only ADD interleavings, none removes a behaviour of the code):
* `unscribers` (`RwLock<HashMap>`) is a Boolean "contains serial 0"; the read guard that `finalize` holds while it
  calls the upstream unsubscribers is not modelled (it can only delay `sink_complete`'s `remove`).
* `finalize` line 137 `if self.subscriber.is_subscribed()`: only the first of the three slot reads (`fn_next`) is
  modelled; if it were `true` the thread enters pc `nested` (the nested `subscriber.unsubscribe()`), which has no
  successor.  Theorem `finalize_never_nested` (C09.lean) shows this pc is unreachable.
* the upstream observer's `fn_on_unsubscribe` is `None` (a plain `Observable::create` source); its read / write
  (observer.rs 57, 60) inside the upstream unsubscriber have no effect and are not separate steps.
* the scheduler's worker blocked in `Condvar::wait` is a worker at pc `take` with `take` disabled (empty queue).

Ghost state (never read by a non-ghost field): `log`, `consumed`, `posted`, `taken`, `delivered`, `claimed`,
`termStarted`, `termReturned`, `unsubBegan`, `unsubEarly`, `unsubReturned`, `curLate`, `lateCb`.
-/
import RxVerif.Data

namespace Rx

def Ev.isErr : Ev → Bool
  | .error _ => true
  | _ => false

def Ev.isCompl : Ev → Bool
  | .complete => true
  | _ => false

namespace Handoff

/-- a well-formed script: items, then `complete` | `error e` | nothing -/
inductive Term where
  | none | complete | error (e : Nat)
deriving DecidableEq, Repr, Inhabited

def Term.events : Term → List Ev
  | .none => []
  | .complete => [.complete]
  | .error e => [.error e]

structure Script where
  items : List Data
  term : Term
deriving Repr, Inhabited

def Script.events (sc : Script) : List Ev := sc.items.map .next ++ sc.term.events

/-- thread ids -/
def srcT : Nat := 0
def workerT : Nat := 1
def unsubT : Nat := 2

/-- program counter inside `StreamController::finalize` (stream_controller.rs 132-145) -/
inductive FPc where
  | iter     -- 133 `unscribers.read()`: is there an upstream unsubscriber to call?
  | up0      -- 134 → observer.rs 204: upstream `fn_next.clear()`
  | up1      -- observer.rs 205: upstream `fn_error.clear()`
  | up2      -- observer.rs 206: upstream `fn_complete.clear()`
  | clear    -- 136 `unscribers.write().clear()`
  | chk      -- 137 `subscriber.is_subscribed()` (first read: `fn_next.exists()`)
  | lock     -- 140 `on_finalize.write()` acquired (held until 145)
  | stop     -- 141-143 `if let Some(f) { f.call(()) = scheduler.abort() = queue.stop(); *on_finalize = None }`
  | unlock   -- 145 guard dropped, `finalize` returns
  | nested   -- 138 nested `subscriber.unsubscribe()` — unreachable (theorem `finalize_never_nested`)
deriving DecidableEq, Repr, Inhabited

/-- source thread: inside `Observer::next/error/complete` of the observer built by `sctl.new_observer` -/
inductive SPc where
  | idle       -- between emissions
  | clrOther   -- terminal: `fn_next` claimed (observer.rs 42/48), about to clear the other terminal slot (43/49)
  | takeOwn    -- terminal: about to `call_and_clear_if_available` the own slot (44/50)
  | post       -- inside the closure (observe_on.rs 59-76), about to `scheduler.post(task)`
deriving DecidableEq, Repr, Inhabited

/-- worker thread: `scheduling` loop, the task = `sctl.sink_next/sink_error/sink_complete` -/
inductive WPc where
  | take       -- top of the loop: blocked in `wait_while` / about to pop / about to see `abort`
  | chk0 | chk1 | chk2   -- stream_controller.rs 85/93/102 `subscriber.is_subscribed()`: three slot reads
  | fetch      -- `sink_next` 86 → observer.rs 38 `fn_next.call_if_available`: fetch the function (read lock)
  | remove     -- `sink_complete` 103-107 `unscribers.write().remove(serial)`; `done_all` is always true here
  | claim      -- observer.rs 42/48 `fn_next.clear_if_available()`
  | clrOther   -- observer.rs 43/49 clear the other terminal slot
  | takeOwn    -- observer.rs 44/50 `call_and_clear_if_available` on the own slot
  | cbN        -- fetched `fn_next`, about to invoke it
  | inCbN      -- inside the subscriber's `next` callback
  | cbT        -- took the terminal function, about to invoke it
  | inCbT      -- inside the subscriber's terminal callback
  | fin (f : FPc)   -- inside `finalize` (88, 95, 97, 110, 113)
  | done       -- `scheduling` returned, the worker thread ended
deriving DecidableEq, Repr, Inhabited

/-- unsubscriber thread: `Subscription::unsubscribe` → `Observer::unsubscribe` (observer.rs 53-61) on the subscriber -/
inductive UPc where
  | idle       -- not called yet
  | c0 | c1 | c2   -- observer.rs 54-56: clear `fn_next`, `fn_error`, `fn_complete` of the subscriber
  | onUnsub    -- 57 read `fn_on_unsubscribe` = `Some(sctl.finalize)` (stream_controller.rs 34)
  | fin (f : FPc)  -- inside `sctl.finalize()`
  | ret        -- 60 `*fn_on_unsubscribe.write() = None`, return
  | done       -- returned (or: there is no unsubscriber)
deriving DecidableEq, Repr, Inhabited

inductive Kind where
  | emit       -- source: an `Observer::next/error/complete` call starts: read (item) / take (terminal) upstream `fn_next`
  | clrOther   -- source or worker: clear the other terminal slot
  | takeOwn    -- source or worker: `call_and_clear_if_available` on the own terminal slot
  | post       -- source: `scheduler.post(task)`
  | take       -- worker: pops the front task (requires `abort` unset and a non-empty queue)
  | exit       -- worker: sees `abort`, leaves `scheduling`
  | chk        -- worker: one slot read of `is_subscribed`
  | fetch      -- worker: `fn_next.call_if_available` fetches the function
  | remove     -- worker: `unscribers.write().remove(serial)`
  | claim      -- worker: `fn_next.clear_if_available()`
  | cbStart    -- worker: the subscriber's callback is entered
  | cbReturn   -- worker: the subscriber's callback returns
  | fIter | fUp | fClear | fChk | fLock | fStop | fUnlock   -- steps of `finalize` (see `FPc`)
  | unsubCall  -- unsubscriber: `Subscription::unsubscribe` called
  | clr        -- unsubscriber: clears one subscriber slot
  | onUnsub    -- unsubscriber: reads `fn_on_unsubscribe`, enters `finalize`
  | unsubRet   -- unsubscriber: `unsubscribe` returns
  | task       -- (subscribe_on) worker: administrative step inside the subscription task
deriving DecidableEq, Repr, Inhabited

structure Label where
  tid : Nat
  kind : Kind
deriving DecidableEq, Repr, Inhabited

/-- ghost log entries -/
inductive LEv where
  | post (e : Ev)      -- task for `e` appended to the queue
  | drop (e : Ev)      -- the upstream observer's slot was gone: `e` is not posted
  | take (e : Ev)      -- worker popped the task for `e`
  | cbStart (e : Ev)   -- subscriber callback for `e` entered
  | cbReturn (e : Ev)  -- subscriber callback for `e` returned
  | stop               -- `scheduler.abort()` executed
  | unsubRet           -- `unsubscribe()` returned
deriving DecidableEq, Repr, Inhabited

def FPc.kind : FPc → Kind
  | .iter => .fIter | .up0 => .fUp | .up1 => .fUp | .up2 => .fUp | .clear => .fClear
  | .chk => .fChk | .lock => .fLock | .stop => .fStop | .unlock => .fUnlock | .nested => .fChk

structure State where
  -- source thread
  todo : List Ev
  spc : SPc := .idle
  scur : Ev := .complete
  -- worker thread
  wpc : WPc := .take
  wcur : Ev := .complete
  -- unsubscriber thread
  upc : UPc
  -- scheduler channel
  queue : List Ev := []
  abort : Bool := false
  -- subscriber `s` (observer.rs): the three function slots
  sNext : Bool := true
  sErr : Bool := true
  sCompl : Bool := true
  -- the observer handed to the source (built by `sctl.new_observer`): its three slots
  upNext : Bool := true
  upErr : Bool := true
  upCompl : Bool := true
  -- StreamController
  unsc : Bool := true             -- `unscribers` contains the upstream unsubscriber (serial 0)
  onFin : Bool := true            -- `on_finalize` is `Some(scheduler.abort)`
  finLock : Bool := false         -- the `on_finalize` write lock is held
  -- ghost
  log : List (Nat × LEv) := []    -- newest first
  consumed : List Ev := []        -- events whose emission the source has started
  posted : List Ev := []          -- events posted so far
  taken : List Ev := []           -- events whose task the worker has popped
  delivered : List Ev := []       -- events whose subscriber callback has started
  claimed : Bool := false         -- the worker's `fn_next.clear_if_available()` succeeded
  termStarted : Bool := false     -- a terminal callback has started
  termReturned : Bool := false    -- a terminal callback has returned
  unsubBegan : Bool := false      -- the unsubscriber has cleared `fn_next`
  unsubEarly : Bool := false      -- … and no terminal callback had started at that moment
  unsubReturned : Bool := false   -- `unsubscribe()` has returned
  curLate : Bool := false         -- the current task was taken after `unsubscribe()` returned
  lateCb : Bool := false          -- a callback started for such a task
deriving Repr, Inhabited

structure Config where
  script : List Ev
  hasUnsub : Bool
deriving Repr, Inhabited

def init (cfg : Config) : State :=
  { todo := cfg.script, upc := if cfg.hasUnsub then .idle else .done }

/-- is the function slot of terminal `e` still present in the subscriber / the upstream observer -/
def State.ownS (s : State) (e : Ev) : Bool := (e.isErr && s.sErr) || (e.isCompl && s.sCompl)
def State.ownUp (s : State) (e : Ev) : Bool := (e.isErr && s.upErr) || (e.isCompl && s.upCompl)

/-- can `finalize` at pc `f` take its next micro-step?  (`lock` blocks while the `on_finalize` lock is held) -/
def finEnabled (s : State) : FPc → Bool
  | .lock => !s.finLock
  | .nested => false
  | _ => true

/-- the effect of one micro-step of `finalize` run by thread `t` -/
def finEffect (t : Nat) (s : State) : FPc → State
  | .up0 => { s with upNext := false }
  | .up1 => { s with upErr := false }
  | .up2 => { s with upCompl := false }
  | .clear => { s with unsc := false }
  | .lock => { s with finLock := true }
  | .stop => { s with queue := if s.onFin then [] else s.queue
                      abort := s.abort || s.onFin
                      onFin := false
                      log := if s.onFin then (t, .stop) :: s.log else s.log }
  | .unlock => { s with finLock := false }
  | _ => s

/-- the next pc inside `finalize`; `none` = `finalize` returns -/
def finNext (s : State) : FPc → Option FPc
  | .iter => some (if s.unsc then .up0 else .clear)
  | .up0 => some .up1
  | .up1 => some .up2
  | .up2 => some .clear
  | .clear => some .chk
  | .chk => some (if s.sNext then .nested else .lock)
  | .lock => some .stop
  | .stop => some .unlock
  | .unlock => none
  | .nested => some .nested

/-- `finalize` micro-step on the worker (returns to the top of the `scheduling` loop) -/
def finW (s : State) (f : FPc) : Option State :=
  match finEnabled s f with
  | true => some { finEffect workerT s f with wpc := match finNext s f with
                                                    | some f' => .fin f'
                                                    | none => .take }
  | false => none

/-- `finalize` micro-step on the unsubscriber (returns into `Observer::unsubscribe`, observer.rs 60) -/
def finU (s : State) (f : FPc) : Option State :=
  match finEnabled s f with
  | true => some { finEffect unsubT s f with upc := match finNext s f with
                                                   | some f' => .fin f'
                                                   | none => .ret }
  | false => none

def srcStep (s : State) (k : Kind) : Option State :=
  match s.spc, k with
  | .idle, .emit =>
    match s.todo with
    | [] => none
    | e :: rest =>
      some { s with todo := rest, scur := e, consumed := s.consumed ++ [e]
                    spc := if s.upNext then (if e.isTerminal then .clrOther else .post) else .idle
                    upNext := s.upNext && !e.isTerminal
                    log := if s.upNext then s.log else (srcT, .drop e) :: s.log }
  | .clrOther, .clrOther =>
    some { s with upCompl := s.upCompl && !s.scur.isErr, upErr := s.upErr && !s.scur.isCompl, spc := .takeOwn }
  | .takeOwn, .takeOwn =>
    some { s with upErr := s.upErr && !s.scur.isErr, upCompl := s.upCompl && !s.scur.isCompl
                  spc := if s.ownUp s.scur then .post else .idle
                  log := if s.ownUp s.scur then s.log else (srcT, .drop s.scur) :: s.log }
  | .post, .post =>
    some { s with queue := s.queue ++ [s.scur], posted := s.posted ++ [s.scur], spc := .idle
                  log := (srcT, .post s.scur) :: s.log }
  | _, _ => none

def wrkStep (s : State) (k : Kind) : Option State :=
  match s.wpc, k with
  | .take, .take =>
    if s.abort then none else
    match s.queue with
    | [] => none
    | e :: q => some { s with queue := q, wcur := e, wpc := .chk0, taken := s.taken ++ [e]
                              curLate := s.unsubReturned, log := (workerT, .take e) :: s.log }
  | .take, .exit => if s.abort then some { s with wpc := .done } else none
  | .chk0, .chk => some { s with wpc := if s.sNext then .chk1 else .fin .iter }
  | .chk1, .chk => some { s with wpc := if s.sErr then .chk2 else .fin .iter }
  | .chk2, .chk =>
    some { s with wpc := if s.sCompl then (match s.wcur with
                                           | .next _ => .fetch
                                           | .error _ => .claim
                                           | .complete => .remove) else .fin .iter }
  | .fetch, .fetch => some { s with wpc := if s.sNext then .cbN else .take }
  | .remove, .remove => some { s with unsc := false, wpc := .claim }
  | .claim, .claim =>
    some { s with wpc := if s.sNext then .clrOther else .fin .iter, sNext := false, claimed := s.claimed || s.sNext }
  | .clrOther, .clrOther =>
    some { s with sCompl := s.sCompl && !s.wcur.isErr, sErr := s.sErr && !s.wcur.isCompl, wpc := .takeOwn }
  | .takeOwn, .takeOwn =>
    some { s with sErr := s.sErr && !s.wcur.isErr, sCompl := s.sCompl && !s.wcur.isCompl
                  wpc := if s.ownS s.wcur then .cbT else .fin .iter }
  | .cbN, .cbStart =>
    some { s with wpc := .inCbN, delivered := s.delivered ++ [s.wcur], lateCb := s.lateCb || s.curLate
                  log := (workerT, .cbStart s.wcur) :: s.log }
  | .inCbN, .cbReturn => some { s with wpc := .take, log := (workerT, .cbReturn s.wcur) :: s.log }
  | .cbT, .cbStart =>
    some { s with wpc := .inCbT, delivered := s.delivered ++ [s.wcur], lateCb := s.lateCb || s.curLate
                  termStarted := true, log := (workerT, .cbStart s.wcur) :: s.log }
  | .inCbT, .cbReturn =>
    some { s with wpc := .fin .iter, termReturned := true, log := (workerT, .cbReturn s.wcur) :: s.log }
  | .fin .iter, .fIter => finW s .iter
  | .fin .up0, .fUp => finW s .up0
  | .fin .up1, .fUp => finW s .up1
  | .fin .up2, .fUp => finW s .up2
  | .fin .clear, .fClear => finW s .clear
  | .fin .chk, .fChk => finW s .chk
  | .fin .lock, .fLock => finW s .lock
  | .fin .stop, .fStop => finW s .stop
  | .fin .unlock, .fUnlock => finW s .unlock
  | _, _ => none

def unsStep (s : State) (k : Kind) : Option State :=
  match s.upc, k with
  | .idle, .unsubCall => some { s with upc := .c0 }
  | .c0, .clr => some { s with sNext := false, upc := .c1, unsubBegan := true, unsubEarly := !s.termStarted }
  | .c1, .clr => some { s with sErr := false, upc := .c2 }
  | .c2, .clr => some { s with sCompl := false, upc := .onUnsub }
  | .onUnsub, .onUnsub => some { s with upc := .fin .iter }
  | .fin .iter, .fIter => finU s .iter
  | .fin .up0, .fUp => finU s .up0
  | .fin .up1, .fUp => finU s .up1
  | .fin .up2, .fUp => finU s .up2
  | .fin .clear, .fClear => finU s .clear
  | .fin .chk, .fChk => finU s .chk
  | .fin .lock, .fLock => finU s .lock
  | .fin .stop, .fStop => finU s .stop
  | .fin .unlock, .fUnlock => finU s .unlock
  | .ret, .unsubRet => some { s with upc := .done, unsubReturned := true, log := (unsubT, .unsubRet) :: s.log }
  | _, _ => none

def step (s : State) (l : Label) : Option State :=
  match l.tid with
  | 0 => srcStep s l.kind
  | 1 => wrkStep s l.kind
  | 2 => unsStep s l.kind
  | _ => none

inductive Reachable (cfg : Config) : State → Prop
  | init : Reachable cfg (init cfg)
  | step {s s' l} : Reachable cfg s → step s l = some s' → Reachable cfg s'

def run : State → List Label → Option State
  | s, [] => some s
  | s, l :: ls => match step s l with
    | some s' => run s' ls
    | none => none

/-- replay a recorded trace from the initial state -/
def replay (cfg : Config) (ls : List Label) : Option State := run (init cfg) ls

/-- length of the longest prefix of the trace the model accepts (diagnostics) -/
def acceptedPrefix : State → List Label → Nat
  | _, [] => 0
  | s, l :: ls => match step s l with
    | some s' => acceptedPrefix s' ls + 1
    | none => 0

theorem reachable_of_run {cfg : Config} {s s' : State} {ls : List Label}
    (hs : Reachable cfg s) (h : run s ls = some s') : Reachable cfg s' := by
  induction ls generalizing s with
  | nil => simp [run] at h; exact h ▸ hs
  | cons l ls ih =>
    simp only [run] at h
    split at h
    · next s1 h1 => exact ih (.step hs h1) h
    · cases h

theorem reachable_of_replay {cfg : Config} {s : State} {ls : List Label}
    (h : replay cfg ls = some s) : Reachable cfg s := reachable_of_run .init h

theorem run_append (s : State) (a b : List Label) :
    run s (a ++ b) = (run s a).bind fun s' => run s' b := by
  induction a generalizing s with
  | nil => rfl
  | cons l a ih =>
    simp only [List.cons_append, run]
    split
    · exact ih _
    · rfl

/-- `Reachable` = "there is a label list that `replay` accepts" -/
theorem reachable_iff_replay {cfg : Config} {s : State} : Reachable cfg s ↔ ∃ ls, replay cfg ls = some s := by
  constructor
  · intro h
    induction h with
    | init => exact ⟨[], rfl⟩
    | @step s1 s2 l _ hs ih =>
      obtain ⟨ls, hl⟩ := ih
      refine ⟨ls ++ [l], ?_⟩
      simp only [replay] at hl ⊢
      rw [run_append, hl]
      simp [run, hs]
  · rintro ⟨ls, h⟩
    exact reachable_of_replay h

/-- events whose callback has started, oldest first, as recorded in the log -/
def cbStarts : List (Nat × LEv) → List Ev
  | [] => []
  | (_, .cbStart e) :: l => cbStarts l ++ [e]
  | _ :: l => cbStarts l

/-- number of callbacks that have started and not returned -/
def openCbs : List (Nat × LEv) → Nat
  | [] => 0
  | (_, .cbStart _) :: l => openCbs l + 1
  | (_, .cbReturn _) :: l => openCbs l - 1
  | _ :: l => openCbs l

/-- the worker has exited, or is parked on an empty queue; the source has finished its script -/
def State.quiescent (s : State) : Prop :=
  s.todo = [] ∧ s.spc = .idle ∧ (s.wpc = .done ∨ (s.wpc = .take ∧ s.queue = [] ∧ s.abort = false))

instance (s : State) : Decidable s.quiescent := by unfold State.quiescent; infer_instance

/-! ### text form of labels: `"<tid> <kind>"` -/

def Kind.toString : Kind → String
  | .emit => "emit" | .clrOther => "clrOther" | .takeOwn => "takeOwn" | .post => "post"
  | .take => "take" | .exit => "exit" | .chk => "chk" | .fetch => "fetch" | .remove => "remove"
  | .claim => "claim" | .cbStart => "cbStart" | .cbReturn => "cbReturn"
  | .fIter => "fIter" | .fUp => "fUp" | .fClear => "fClear" | .fChk => "fChk" | .fLock => "fLock"
  | .fStop => "fStop" | .fUnlock => "fUnlock"
  | .unsubCall => "unsubCall" | .clr => "clr" | .onUnsub => "onUnsub" | .unsubRet => "unsubRet"
  | .task => "task"

def Kind.all : List Kind :=
  [.emit, .clrOther, .takeOwn, .post, .take, .exit, .chk, .fetch, .remove, .claim, .cbStart, .cbReturn,
   .fIter, .fUp, .fClear, .fChk, .fLock, .fStop, .fUnlock, .unsubCall, .clr, .onUnsub, .unsubRet, .task]

def parseKind (w : String) : Option Kind := Kind.all.find? fun k => k.toString == w

def Label.toString (l : Label) : String := s!"{l.tid} {l.kind.toString}"

instance : ToString Label := ⟨Label.toString⟩

/-- `"<tid> <kind>"`: decimal thread id (0 source, 1 worker, 2 unsubscriber), blanks, kind name -/
def parseLabel (line : String) : Option Label :=
  match (line.trimAscii.toString.splitOn " ").filter (· ≠ "") with
  | [a, b] =>
    match a.toNat?, parseKind b with
    | some i, some k => some ⟨i, k⟩
    | _, _ => none
  | _ => none

/-- one label per line; empty lines and lines starting with `#` are skipped -/
def parseTrace (text : String) : Option (List Label) :=
  ((text.splitOn "\n").filter fun l => l.trimAscii.toString ≠ "" ∧ ¬ l.trimAscii.toString.startsWith "#").mapM parseLabel

/-- labels given compactly as pairs, for examples -/
def mk (l : List (Nat × Kind)) : List Label := l.map fun p => ⟨p.1, p.2⟩

/-! # subscribe_on

`/repo/src/operators/subscribe_on.rs` 36-63.  Thread 0 is the thread that subscribes: it builds the
`StreamController` (which makes `sctl.finalize` the subscriber's `fn_on_unsubscribe`), sets `on_finalize` and posts
ONE task (line 48); the subscription of the source — and, the source being synchronous, all its emissions — happen
inside that task on the worker (lines 49-61):
`sctl.new_observer` (registers the upstream unsubscriber, then RE-CHECKS the subscriber — stream_controller.rs 76-89:
if the subscription has ended meanwhile it removes the entry again and unsubscribes the fresh observer itself, so
that `inner_subscribe` does not start the source; kinds `chk`, `remove`, `fUp` are reused for these steps),
`inner_subscribe` (observable.rs 29: `is_subscribed` of
the fresh observer, three slot reads), then the source runs its script calling `observer.next/error/complete`,
whose closures call `sctl.sink_*` directly (same code as in observe_on, on the same thread).
Thread 2 is the optional unsubscriber, exactly as for observe_on. -/
namespace SubOn

inductive WPc where
  | take       -- top of the `scheduling` loop
  | newObs     -- subscribe_on.rs 52 `sctl.new_observer(..)`: registers the upstream unsubscriber
  | rchk0 | rchk1 | rchk2   -- stream_controller.rs 83 `self.subscriber.is_subscribed()`: re-check of the SUBSCRIBER's slots
  | rrem       -- … the subscription already ended: 87 `unscribers.write().remove(&serial)`
  | ruc0 | ruc1 | ruc2      -- 88 `observer.unsubscribe()` on the fresh observer: clear its three slots
  | sub0 | sub1 | sub2   -- observable.rs 29 `observer.is_subscribed()`: three reads of the fresh observer's slots
  | src        -- inside the source, between two emissions (or about to return)
  | uClrOther  -- source emits a terminal: upstream `fn_next` claimed, clear the other upstream terminal slot
  | uTakeOwn   -- … `call_and_clear_if_available` on the own upstream slot
  | chk0 | chk1 | chk2 | fetch | remove | claim | clrOther | takeOwn | cbN | inCbN | cbT | inCbT
               -- `sctl.sink_*`, as in observe_on
  | fin (f : FPc)
  | done
deriving DecidableEq, Repr, Inhabited

structure State where
  -- thread 0
  posted : Bool := false          -- the subscription task has been posted
  -- worker
  todo : List Ev                  -- what the source still has to emit
  wpc : WPc := .take
  wcur : Ev := .complete
  taskDone : Bool := false        -- the subscription task has returned
  -- unsubscriber
  upc : UPc
  -- scheduler channel (it only ever holds the one subscription task)
  queued : Bool := false
  abort : Bool := false
  sNext : Bool := true
  sErr : Bool := true
  sCompl : Bool := true
  upNext : Bool := true
  upErr : Bool := true
  upCompl : Bool := true
  unsc : Bool := false            -- `new_observer` has not run yet
  onFin : Bool := true
  finLock : Bool := false
  -- ghost
  log : List (Nat × LEv) := []
  consumed : List Ev := []        -- events whose emission the source has started
  delivered : List Ev := []
  skipped : Bool := false         -- `inner_subscribe` found the fresh observer already unsubscribed: source not run
  lateAttach : Bool := false      -- the unsubscriber had already cleared `fn_next` when `new_observer` registered the upstream
  claimed : Bool := false
  termStarted : Bool := false
  termReturned : Bool := false
  unsubBegan : Bool := false
  unsubEarly : Bool := false
  unsubReturned : Bool := false
  curLate : Bool := false         -- the current event's emission started after `unsubscribe()` returned
  lateCb : Bool := false
deriving Repr, Inhabited

def init (cfg : Config) : State :=
  { todo := cfg.script, upc := if cfg.hasUnsub then .idle else .done }

def State.ownS (s : State) (e : Ev) : Bool := (e.isErr && s.sErr) || (e.isCompl && s.sCompl)
def State.ownUp (s : State) (e : Ev) : Bool := (e.isErr && s.upErr) || (e.isCompl && s.upCompl)

def finEnabled (s : State) : FPc → Bool
  | .lock => !s.finLock
  | .nested => false
  | _ => true

def finEffect (t : Nat) (s : State) : FPc → State
  | .up0 => { s with upNext := false }
  | .up1 => { s with upErr := false }
  | .up2 => { s with upCompl := false }
  | .clear => { s with unsc := false }
  | .lock => { s with finLock := true }
  | .stop => { s with queued := s.queued && !s.onFin
                      abort := s.abort || s.onFin
                      onFin := false
                      log := if s.onFin then (t, .stop) :: s.log else s.log }
  | .unlock => { s with finLock := false }
  | _ => s

def finNext (s : State) : FPc → Option FPc
  | .iter => some (if s.unsc then .up0 else .clear)
  | .up0 => some .up1
  | .up1 => some .up2
  | .up2 => some .clear
  | .clear => some .chk
  | .chk => some (if s.sNext then .nested else .lock)
  | .lock => some .stop
  | .stop => some .unlock
  | .unlock => none
  | .nested => some .nested

/-- `finalize` on the worker: called from `sink_*` inside the source's emission; returns into the source -/
def finW (s : State) (f : FPc) : Option State :=
  match finEnabled s f with
  | true => some { finEffect workerT s f with wpc := match finNext s f with
                                                    | some f' => .fin f'
                                                    | none => .src }
  | false => none

def finU (s : State) (f : FPc) : Option State :=
  match finEnabled s f with
  | true => some { finEffect unsubT s f with upc := match finNext s f with
                                                   | some f' => .fin f'
                                                   | none => .ret }
  | false => none

/-- thread 0: `scheduler.post(task)` (subscribe_on.rs 48) -/
def srcStep (s : State) (k : Kind) : Option State :=
  match s.posted, k with
  | false, .post => some { s with posted := true, queued := true, log := (srcT, .post .complete) :: s.log }
  | _, _ => none

def wrkStep (s : State) (k : Kind) : Option State :=
  match s.wpc, k with
  | .take, .take => if s.abort then none else if s.queued then some { s with queued := false, wpc := .newObs } else none
  | .take, .exit => if s.abort then some { s with wpc := .done } else none
  | .newObs, .task => some { s with unsc := true, wpc := .rchk0, lateAttach := s.unsubBegan }
  | .rchk0, .chk => some { s with wpc := if s.sNext then .rchk1 else .rrem }
  | .rchk1, .chk => some { s with wpc := if s.sErr then .rchk2 else .rrem }
  | .rchk2, .chk => some { s with wpc := if s.sCompl then .sub0 else .rrem }
  | .rrem, .remove => some { s with unsc := false, wpc := .ruc0 }
  | .ruc0, .fUp => some { s with upNext := false, wpc := .ruc1 }
  | .ruc1, .fUp => some { s with upErr := false, wpc := .ruc2 }
  | .ruc2, .fUp => some { s with upCompl := false, wpc := .sub0 }
  | .sub0, .chk => some { s with wpc := if s.upNext then .sub1 else .take, taskDone := !s.upNext, skipped := !s.upNext }
  | .sub1, .chk => some { s with wpc := if s.upErr then .sub2 else .take, taskDone := !s.upErr, skipped := !s.upErr }
  | .sub2, .chk =>
    some { s with wpc := if s.upCompl then .src else .take, taskDone := !s.upCompl, skipped := !s.upCompl }
  | .src, .task =>
    match s.todo with
    | [] => some { s with wpc := .take, taskDone := true }     -- the source returns, the task returns
    | _ :: _ => none
  | .src, .emit =>
    match s.todo with
    | [] => none
    | e :: rest =>
      some { s with todo := rest, wcur := e, consumed := s.consumed ++ [e], curLate := s.unsubReturned
                    wpc := if s.upNext then (if e.isTerminal then .uClrOther else .chk0) else .src
                    upNext := s.upNext && !e.isTerminal
                    log := if s.upNext then s.log else (workerT, .drop e) :: s.log }
  | .uClrOther, .clrOther =>
    some { s with upCompl := s.upCompl && !s.wcur.isErr, upErr := s.upErr && !s.wcur.isCompl, wpc := .uTakeOwn }
  | .uTakeOwn, .takeOwn =>
    some { s with upErr := s.upErr && !s.wcur.isErr, upCompl := s.upCompl && !s.wcur.isCompl
                  wpc := if s.ownUp s.wcur then .chk0 else .src
                  log := if s.ownUp s.wcur then s.log else (workerT, .drop s.wcur) :: s.log }
  | .chk0, .chk => some { s with wpc := if s.sNext then .chk1 else .fin .iter }
  | .chk1, .chk => some { s with wpc := if s.sErr then .chk2 else .fin .iter }
  | .chk2, .chk =>
    some { s with wpc := if s.sCompl then (match s.wcur with
                                           | .next _ => .fetch
                                           | .error _ => .claim
                                           | .complete => .remove) else .fin .iter }
  | .fetch, .fetch => some { s with wpc := if s.sNext then .cbN else .src }
  | .remove, .remove => some { s with unsc := false, wpc := .claim }
  | .claim, .claim =>
    some { s with wpc := if s.sNext then .clrOther else .fin .iter, sNext := false, claimed := s.claimed || s.sNext }
  | .clrOther, .clrOther =>
    some { s with sCompl := s.sCompl && !s.wcur.isErr, sErr := s.sErr && !s.wcur.isCompl, wpc := .takeOwn }
  | .takeOwn, .takeOwn =>
    some { s with sErr := s.sErr && !s.wcur.isErr, sCompl := s.sCompl && !s.wcur.isCompl
                  wpc := if s.ownS s.wcur then .cbT else .fin .iter }
  | .cbN, .cbStart =>
    some { s with wpc := .inCbN, delivered := s.delivered ++ [s.wcur], lateCb := s.lateCb || s.curLate
                  log := (workerT, .cbStart s.wcur) :: s.log }
  | .inCbN, .cbReturn => some { s with wpc := .src, log := (workerT, .cbReturn s.wcur) :: s.log }
  | .cbT, .cbStart =>
    some { s with wpc := .inCbT, delivered := s.delivered ++ [s.wcur], lateCb := s.lateCb || s.curLate
                  termStarted := true, log := (workerT, .cbStart s.wcur) :: s.log }
  | .inCbT, .cbReturn =>
    some { s with wpc := .fin .iter, termReturned := true, log := (workerT, .cbReturn s.wcur) :: s.log }
  | .fin .iter, .fIter => finW s .iter
  | .fin .up0, .fUp => finW s .up0
  | .fin .up1, .fUp => finW s .up1
  | .fin .up2, .fUp => finW s .up2
  | .fin .clear, .fClear => finW s .clear
  | .fin .chk, .fChk => finW s .chk
  | .fin .lock, .fLock => finW s .lock
  | .fin .stop, .fStop => finW s .stop
  | .fin .unlock, .fUnlock => finW s .unlock
  | _, _ => none

def unsStep (s : State) (k : Kind) : Option State :=
  match s.upc, k with
  | .idle, .unsubCall => some { s with upc := .c0 }
  | .c0, .clr => some { s with sNext := false, upc := .c1, unsubBegan := true, unsubEarly := !s.termStarted }
  | .c1, .clr => some { s with sErr := false, upc := .c2 }
  | .c2, .clr => some { s with sCompl := false, upc := .onUnsub }
  | .onUnsub, .onUnsub => some { s with upc := .fin .iter }
  | .fin .iter, .fIter => finU s .iter
  | .fin .up0, .fUp => finU s .up0
  | .fin .up1, .fUp => finU s .up1
  | .fin .up2, .fUp => finU s .up2
  | .fin .clear, .fClear => finU s .clear
  | .fin .chk, .fChk => finU s .chk
  | .fin .lock, .fLock => finU s .lock
  | .fin .stop, .fStop => finU s .stop
  | .fin .unlock, .fUnlock => finU s .unlock
  | .ret, .unsubRet => some { s with upc := .done, unsubReturned := true, log := (unsubT, .unsubRet) :: s.log }
  | _, _ => none

def step (s : State) (l : Label) : Option State :=
  match l.tid with
  | 0 => srcStep s l.kind
  | 1 => wrkStep s l.kind
  | 2 => unsStep s l.kind
  | _ => none

inductive Reachable (cfg : Config) : State → Prop
  | init : Reachable cfg (init cfg)
  | step {s s' l} : Reachable cfg s → step s l = some s' → Reachable cfg s'

def run : State → List Label → Option State
  | s, [] => some s
  | s, l :: ls => match step s l with
    | some s' => run s' ls
    | none => none

def replay (cfg : Config) (ls : List Label) : Option State := run (init cfg) ls

def acceptedPrefix : State → List Label → Nat
  | _, [] => 0
  | s, l :: ls => match step s l with
    | some s' => acceptedPrefix s' ls + 1
    | none => 0

theorem reachable_of_run {cfg : Config} {s s' : State} {ls : List Label}
    (hs : Reachable cfg s) (h : run s ls = some s') : Reachable cfg s' := by
  induction ls generalizing s with
  | nil => simp [run] at h; exact h ▸ hs
  | cons l ls ih =>
    simp only [run] at h
    split at h
    · next s1 h1 => exact ih (.step hs h1) h
    · cases h

theorem reachable_of_replay {cfg : Config} {s : State} {ls : List Label}
    (h : replay cfg ls = some s) : Reachable cfg s := reachable_of_run .init h

end SubOn

end Handoff
end Rx
