import RxVerif.Conc.Sctl
import RxVerif.Conc.TakeAmbZip
/-
Co-simulation support for the C11 LTSs (`Sctl` = merge, `Take`, `Amb`, `Zip`): text formats and checked replay of the
label traces rendered by harness/conc/src/sctl.rs from the lock-level event log of the real code.

Payload of one recorded execution:   `<header> ; impl=<log> parked=<tids> ; <label>;<label>;…`
  header  `merge / 1 2 c / 11 e5 / unsub`   scripts in LTS thread order (= serial order)
          `take 2 / 1 2 c / 3 4`            `amb / 1 c / 11 12`           `zip / 1 2 / 11 12 / unsub`
  impl    what the subscriber's callbacks recorded: `<tid>:<ev>` comma separated (ev = n<item> | c | e<id>)
  label   `<tid> <act>` (`<tid> fpick <key>`); `<act>` must be the action name of the thread's program counter
          (`stepChecked`), so a trace is accepted only if every recorded lock operation is the one the LTS performs next.
After the replay the LTS's ghost state is compared with the harness's observation (`impl`), and every thread must be
finished.  Nothing here is used by a theorem; `stepChecked_sub`-style lemmas tie the checked step to `step`.
-/
namespace Rx.Conc

def wordsOf (t : String) : List String := (t.trimAscii.toString.splitOn " ").filter (· ≠ "")

def logStr (log : List (Nat × Ev)) : String :=
  ",".intercalate (log.map fun p => toString p.1 ++ ":" ++ p.2.toStr)

def natsStr (l : List Nat) : String := ",".intercalate (l.map toString)

/-- `1 2 3` -/
def parseInts (ws : List String) : Option (List Data) := ws.mapM fun w => w.toInt?.map Data.int

namespace Sctl

/-- `1 2 c` | `11 e5` | `unsub` -/
def parseScript (t : String) : Option Script :=
  let ws := wordsOf t
  if ws = ["unsub"] then some { items := [], unsub := true } else
  match ws.getLast? with
  | none => none
  | some e =>
    match parseInts ws.dropLast with
    | none => none
    | some items =>
      if e = "c" then some { items := items }
      else if e.startsWith "e" then (e.drop 1).toString.toNat?.map fun n => { items := items, err := some n }
      else none

/-- replay with diagnostics: the index (from 1) and text of the first label the LTS refuses -/
def replayChecked (s : State) (k : Nat) : List (String × Label) → Except String State
  | [] => .ok s
  | (a, l) :: rest =>
    match stepChecked s a l with
    | some s' => replayChecked s' (k + 1) rest
    | none =>
      let at_ := match s.threads[l.tid]? with
        | some th => th.pc.act
        | none => "no such thread"
      .error ("label " ++ toString k ++ " `" ++ toString l.tid ++ " " ++ a ++ "` not enabled: model thread is at `" ++ at_ ++ "`" ++
        (if at_ = a then " (blocked)" else ""))

theorem replayChecked_run {s s' : State} {k : Nat} {ls : List (String × Label)} (h : replayChecked s k ls = .ok s') :
    run s (ls.map (·.2)) = some s' := by
  induction ls generalizing s k with
  | nil => simp [replayChecked] at h; simp [run, h]
  | cons al rest ih =>
    obtain ⟨a, l⟩ := al
    simp only [replayChecked] at h
    cases hs : stepChecked s a l with
    | none => simp [hs] at h
    | some s1 =>
      simp only [hs] at h
      simp only [List.map_cons, run, stepChecked_sub hs]
      exact ih h

def cosim (scripts : List String) (impl : String) (labels : List String) : String :=
  match scripts.mapM parseScript, labels.mapM parseLabel with
  | none, _ => " REJECT bad script"
  | _, none => " REJECT unparsable label"
  | some scs, some ls =>
    match replayChecked (init scs) 1 ls with
    | .error m => " REJECT " ++ m
    | .ok s =>
      if !s.allDone then " REJECT end of trace: a model thread is not finished: " ++
        toString ((s.threads.map fun th => th.pc.act))
      else if logStr s.log ≠ impl then " REJECT ghost log differs: model " ++ logStr s.log ++ " impl " ++ impl
      else " ok steps=" ++ toString ls.length ++ " log=" ++ logStr s.log ++ " lastOut=[" ++ natsStr s.emptyObs ++ "] claim=" ++
        (match s.claim with | none => "-" | some t => t.ev.toStr)

end Sctl

/-- `1 2 c` | `3 4` : items and whether the thread calls `complete()` afterwards -/
def parseItemsFin (t : String) : Option (List Data × Bool) :=
  let ws := wordsOf t
  if ws.getLast? = some "c" then (parseInts ws.dropLast).map fun l => (l, true)
  else (parseInts ws).map fun l => (l, false)

/-- `<tid> <act>` -/
def parseTidAct (line : String) : Option (Nat × String) :=
  match wordsOf line with
  | [t, a] => t.toNat?.map fun n => (n, a)
  | _ => none

namespace Take

def Pc.act : Pc → String
  | .idle => "call" | .fetchI => "fetchI" | .count => "count" | .sub _ => "sub" | .fetch _ => "fetch" | .start _ => "start"
  | .cb _ => "cb" | .abort1 => "abort1" | .abort2 => "abort2" | .claimI => "claimI" | .tSub _ => "tsub"
  | .cRemove _ => "remove" | .tClaim _ => "claim" | .tClr _ => "clr" | .tTake _ => "take" | .tStart _ => "tstart"
  | .tCb _ => "tret" | .fin1 _ => "fin1" | .fin2 => "fin2"

def stepChecked (s : State) (act : String) (i : Nat) : Option State :=
  match s.threads[i]? with
  | none => none
  | some th => if th.pc.act = act then step s i else none

theorem stepChecked_sub {s s' : State} {act : String} {i : Nat} (h : stepChecked s act i = some s') :
    step s i = some s' := by
  unfold stepChecked at h
  split at h
  · cases h
  · split at h
    · exact h
    · cases h

def replayChecked (s : State) (k : Nat) : List (Nat × String) → Except String State
  | [] => .ok s
  | (i, a) :: rest =>
    match stepChecked s a i with
    | some s' => replayChecked s' (k + 1) rest
    | none =>
      let at_ := match s.threads[i]? with
        | some th => th.pc.act
        | none => "no such thread"
      .error ("label " ++ toString k ++ " `" ++ toString i ++ " " ++ a ++ "` not enabled: model thread is at `" ++ at_ ++ "`")

theorem replayChecked_run {s s' : State} {k : Nat} {ls : List (Nat × String)} (h : replayChecked s k ls = .ok s') :
    run s (ls.map (·.1)) = some s' := by
  induction ls generalizing s k with
  | nil => simp [replayChecked] at h; simp [run, h]
  | cons al rest ih =>
    obtain ⟨i, a⟩ := al
    simp only [replayChecked] at h
    cases hs : stepChecked s a i with
    | none => simp [hs] at h
    | some s1 =>
      simp only [hs] at h
      simp only [List.map_cons, run, stepChecked_sub hs]
      exact ih h

/-- finished, or (`parked`) stopped right after claiming the inner fn_next because the inner fn_complete was already
    cleared: the closure is not called — in the LTS that thread is simply never scheduled again (header of TakeAmbZip) -/
def Thread.done (parked : Bool) (th : Thread) : Bool :=
  (th.pc = .idle && th.todo.isEmpty && !th.fin) || (parked && th.pc = .tSub false && th.todo.isEmpty)

def cosim (count : Nat) (scripts : List String) (impl : String) (parked : List Nat) (labels : List String) : String :=
  match scripts.mapM parseItemsFin, labels.mapM parseTidAct with
  | none, _ => " REJECT bad script"
  | _, none => " REJECT unparsable label"
  | some scs, some ls =>
    match replayChecked (init count scs) 1 ls with
    | .error m => " REJECT " ++ m
    | .ok s =>
      if !((s.threads.zipIdx).all fun p => Thread.done (parked.contains p.2) p.1) then
        " REJECT end of trace: a model thread is not finished: " ++ toString (s.threads.map fun th => th.pc.act)
      else if logStr s.log ≠ impl then " REJECT ghost log differs: model " ++ logStr s.log ++ " impl " ++ impl
      else " ok steps=" ++ toString ls.length ++ " log=" ++ logStr s.log ++ " ctr=" ++ toString s.ctr

end Take

namespace Amb

def Pc.act : Pc → String
  | .idle => "call" | .fetchI => "fetchI" | .win => "win" | .sub => "sub" | .fetch => "fetch" | .start => "start" | .cb => "cb"
  | .abort1 => "abort1" | .abort2 => "abort2" | .claimI => "claimI" | .winC => "winC" | .fSub => "fsub"
  | .tClaim => "claim" | .tClr => "clr" | .tTake => "take" | .tStart => "tstart" | .tCb => "tret"
  | .fLock => "flock" | .fPick [] => "funlock" | .fPick _ => "fpick" | .fU _ _ => "fu" | .fClear => "fclear" | .fEnd => "fend"

/-- `<tid> <act>` or `<tid> fpick <key>` -/
def parseActLabel (line : String) : Option (String × Label) :=
  match wordsOf line with
  | [t, a] => t.toNat?.map fun n => (a, { tid := n })
  | [t, a, k] => match t.toNat?, k.toNat? with
    | some n, some j => some (a, { tid := n, pick := j })
    | _, _ => none
  | _ => none

def stepChecked (s : State) (act : String) (l : Label) : Option State :=
  match s.threads[l.tid]? with
  | none => none
  | some th => if th.pc.act = act then step s l else none

theorem stepChecked_sub {s s' : State} {act : String} {l : Label} (h : stepChecked s act l = some s') :
    step s l = some s' := by
  unfold stepChecked at h
  split at h
  · cases h
  · split at h
    · exact h
    · cases h

def replayChecked (s : State) (k : Nat) : List (String × Label) → Except String State
  | [] => .ok s
  | (a, l) :: rest =>
    match stepChecked s a l with
    | some s' => replayChecked s' (k + 1) rest
    | none =>
      let at_ := match s.threads[l.tid]? with
        | some th => th.pc.act
        | none => "no such thread"
      .error ("label " ++ toString k ++ " `" ++ toString l.tid ++ " " ++ a ++ "` not enabled: model thread is at `" ++ at_ ++ "`" ++
        (if at_ = a then " (blocked / key not pending)" else ""))

theorem replayChecked_run {s s' : State} {k : Nat} {ls : List (String × Label)} (h : replayChecked s k ls = .ok s') :
    run s (ls.map (·.2)) = some s' := by
  induction ls generalizing s k with
  | nil => simp [replayChecked] at h; simp [run, h]
  | cons al rest ih =>
    obtain ⟨a, l⟩ := al
    simp only [replayChecked] at h
    cases hs : stepChecked s a l with
    | none => simp [hs] at h
    | some s1 =>
      simp only [hs] at h
      simp only [List.map_cons, run, stepChecked_sub hs]
      exact ih h

def Thread.done (parked : Bool) (th : Thread) : Bool :=
  (th.pc = .idle && th.todo.isEmpty && !th.fin) || (parked && th.pc = .winC && th.todo.isEmpty)

def cosim (scripts : List String) (impl : String) (parked : List Nat) (labels : List String) : String :=
  match scripts.mapM parseItemsFin, labels.mapM parseActLabel with
  | none, _ => " REJECT bad script"
  | _, none => " REJECT unparsable label"
  | some scs, some ls =>
    match replayChecked (init scs) 1 ls with
    | .error m => " REJECT " ++ m
    | .ok s =>
      if !((s.threads.zipIdx).all fun p => Thread.done (parked.contains p.2) p.1) then
        " REJECT end of trace: a model thread is not finished: " ++ toString (s.threads.map fun th => th.pc.act)
      else if logStr s.log ≠ impl then " REJECT ghost log differs: model " ++ logStr s.log ++ " impl " ++ impl
      else " ok steps=" ++ toString ls.length ++ " log=" ++ logStr s.log ++ " winner=" ++
        (match s.winner with | none => "-" | some w => toString w)

end Amb

namespace Zip

def Pc.act : Pc → String
  | .idle => "call" | .push => "push" | .get => "get" | .chk _ => "chk" | .sub _ => "sub" | .fetch _ => "fetch"
  | .start _ => "start" | .cb => "cb"

/-- `<tid> <act>` or `unsub` -/
def parseActLabel (line : String) : Option (String × Label) :=
  match wordsOf line with
  | ["unsub"] => some ("unsub", .unsub)
  | [t, a] => t.toNat?.map fun n => (a, .th n)
  | _ => none

def stepChecked (s : State) (act : String) (l : Label) : Option State :=
  match l with
  | .unsub => step s l
  | .th i =>
    match s.threads[i]? with
    | none => none
    | some th => if th.pc.act = act then step s l else none

theorem stepChecked_sub {s s' : State} {act : String} {l : Label} (h : stepChecked s act l = some s') :
    step s l = some s' := by
  unfold stepChecked at h
  split at h
  · exact h
  · split at h
    · cases h
    · split at h
      · exact h
      · cases h

def replayChecked (s : State) (k : Nat) : List (String × Label) → Except String State
  | [] => .ok s
  | (a, l) :: rest =>
    match stepChecked s a l with
    | some s' => replayChecked s' (k + 1) rest
    | none =>
      let at_ := match l with
        | .th i => (match s.threads[i]? with
          | some th => toString i ++ " is at `" ++ th.pc.act ++ "`"
          | none => "no such thread")
        | .unsub => "-"
      .error ("label " ++ toString k ++ " `" ++ a ++ "` not enabled: model thread " ++ at_)

theorem replayChecked_run {s s' : State} {k : Nat} {ls : List (String × Label)} (h : replayChecked s k ls = .ok s') :
    run s (ls.map (·.2)) = some s' := by
  induction ls generalizing s k with
  | nil => simp [replayChecked] at h; simp [run, h]
  | cons al rest ih =>
    obtain ⟨a, l⟩ := al
    simp only [replayChecked] at h
    cases hs : stepChecked s a l with
    | none => simp [hs] at h
    | some s1 =>
      simp only [hs] at h
      simp only [List.map_cons, run, stepChecked_sub hs]
      exact ih h

def tupleStr (v : List Data) : String := "[" ++ ",".intercalate (v.map Data.toStr) ++ "]"

def zlogStr (log : List (Nat × List Data)) : String :=
  ",".intercalate (log.map fun p => toString p.1 ++ ":n" ++ tupleStr p.2)

/-- finished; a `parked` thread (its inner observer was unsubscribed by the unsubscriber's finalize, the rest of its
    script never reaches the operator) only has to be between two calls -/
def Thread.done (parked : Bool) (th : Thread) : Bool := th.pc = .idle && (parked || th.todo.isEmpty)

def cosim (scripts : List String) (impl : String) (parked : List Nat) (labels : List String) : String :=
  match scripts.mapM (fun t => parseInts (wordsOf t)), labels.mapM parseActLabel with
  | none, _ => " REJECT bad script"
  | _, none => " REJECT unparsable label"
  | some scs, some ls =>
    match replayChecked (init scs) 1 ls with
    | .error m => " REJECT " ++ m
    | .ok s =>
      if !((s.threads.zipIdx).all fun p => Thread.done (parked.contains p.2) p.1) then
        " REJECT end of trace: a model thread is not finished: " ++ toString (s.threads.map fun th => th.pc.act)
      else if zlogStr s.log ≠ impl then " REJECT ghost log differs: model " ++ zlogStr s.log ++ " impl " ++ impl
      else " ok steps=" ++ toString ls.length ++ " log=" ++ zlogStr s.log ++ " popped=" ++ toString s.popped.length ++
        " dropped=" ++ toString s.dropped.length ++ " left=" ++ toString (s.queues.map List.length)

end Zip

/-- one recorded execution of the `sctl` scenario kind -/
def sctlCosimPayload (model : String) (payload : String) : String :=
  match payload.splitOn " ; " with
  | [hdr, obsv, labels] =>
    let hs := hdr.splitOn " / "
    let ow := wordsOf obsv
    let impl := ((ow.find? (·.startsWith "impl=")).map fun w => (w.drop 5).toString).getD ""
    let parked := ((ow.find? (·.startsWith "parked=")).map fun w => ((w.drop 7).toString.splitOn ",").filterMap String.toNat?).getD []
    let ls := (labels.splitOn ";").filter fun l => l ≠ "" ∧ l ≠ "-"
    let op := wordsOf (hs.headD "")
    if hs.any (·.startsWith "BAD-IDS") then " REJECT lock identification failed: " ++ hdr else
    match model, op with
    | "sctl", ["merge"] => Sctl.cosim hs.tail impl ls
    | "take", ["take", n] => Take.cosim (n.toNat?.getD 0) hs.tail impl parked ls
    | "amb", ["amb"] => Amb.cosim hs.tail impl parked ls
    | "zip", ["zip"] => Zip.cosim hs.tail impl parked ls
    | _, _ => " REJECT scenario " ++ (hs.headD "") ++ " is not for model " ++ model
  | _ => " REJECT malformed payload"

end Rx.Conc
