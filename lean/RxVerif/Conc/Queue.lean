/-
C08 — the scheduler queue (`/repo/src/schedulers/async_function_queue.rs`) as a labelled transition system.

Thread 0 is the worker spawned by `NewThreadScheduler::new` (new_thread_scheduler.rs 14-16) running
`AsyncFunctionQueue::scheduling` (async_function_queue.rs 28-55).  Threads 1..n are posters, each with a program:
a list of calls `post t` (`IScheduler::post` → `AsyncFunctionQueue::post`, lines 57-64) or `abort`
(`IScheduler::abort` → `AsyncFunctionQueue::stop`, lines 66-71).  A task body (`cfg.body t`) is again a list of
calls; the worker executes it between `taskStart t` and `taskEnd t` (line 50, `f.call(())`), so tasks can post and
abort from inside.

One micro-step per lock operation / queue operation / callback start or return.  Every step is determined by
(thread id, state); the `kind` in the label is redundant information which `step` CHECKS (a recorded lock-level
trace is replayed with `replay`, and any disagreement between the trace and the model makes `replay` return `none`).

The `RwLock<bool>` `abort` is modelled by atomic read / write micro-steps: every `read()`/`write()` guard is a
temporary of an `if` condition (lines 36, 43) or of an assignment statement (line 69) and is dropped before the
next operation, i.e. the RwLock is never held across another lock operation.  All three accesses happen while
the accessing thread holds the queue mutex (theorem `abort_access_under_mutex` in `Theorems/C08.lean`).
-/
namespace Rx.Queue

/-- a scheduler call issued by a poster thread or from inside a task -/
inductive Call where
  | post (t : Nat)   -- `post(f)` where `f` is the task with id `t`
  | abort            -- `abort()` = `stop()`
deriving DecidableEq, Repr, Inhabited

/-- programs of the poster threads 1..n and the bodies of the tasks -/
structure Config where
  progs : List (List Call)
  body : Nat → List Call

/-- program counters.  `p*` = inside `post` (lines 57-64), `s*` = inside `stop` (lines 66-71),
`w*` = inside `scheduling` (lines 28-55) outside of a task. -/
inductive Pc where
  | idle                    -- between calls (poster: in its program; worker: inside `f.call(())`, line 50)
  | pLock (t : Nat)         -- line 61 before `lock()`
  | pPush (t : Nat)         -- line 62 before `push_back` (mutex held)
  | pNotify                 -- line 63 before `notify_one` (mutex held)
  | pUnlock                 -- line 64 guard drop (mutex held)
  | pRet                    -- line 64 return of `post`
  | sLock                   -- line 67 before `lock()`
  | sClear                  -- line 68 before `clear()` (mutex held)
  | sWrite                  -- line 69 before `*abort.write() = true` (mutex held)
  | sNotify                 -- line 70 before `notify_one` (mutex held)
  | sUnlock                 -- line 71 guard drop (mutex held)
  | sRet                    -- line 71 return of `stop`
  | wLock                   -- line 31 before `lock()`
  | wCond                   -- lines 35-40: `wait_while` evaluates its condition (mutex held): reads `abort`, then `is_empty`
  | wWait                   -- condition was true: about to `Condvar::wait` (mutex held)
  | wParked                 -- parked inside `Condvar::wait` (mutex released)
  | wReacq                  -- woken up, before re-acquiring the mutex inside `Condvar::wait`
  | wRead2                  -- line 43 before the second `abort.read()` (mutex held)
  | wPop                    -- line 46 before `pop_front` (mutex held)
  | wUnlock (f : Option Nat) -- line 48: end of block, guard drop; `f` = the value of the block
  | wStart (t : Nat)        -- line 49-50: `Some(f)`, before `f.call(())`
  | wExit                   -- line 51-52: `None`, before `break`
  | wExited                 -- `scheduling` has returned: the worker thread has terminated
deriving DecidableEq, Repr, Inhabited

structure Thread where
  todo : List Call          -- remaining calls (poster: of the program; worker: of the running task's body)
  pc : Pc
  cur : Option Nat          -- the task this thread is executing (between taskStart and taskEnd)
deriving DecidableEq, Repr, Inhabited

/-- ghost event log (append-only, chronological) -/
inductive GEv where
  | pop (t : Nat)           -- `pop_front` returned task `t`
  | start (t : Nat)         -- `f.call(())` entered for task `t`
  | abortSet                -- line 69 executed
  | abortRet                -- a `stop()` call returned
deriving DecidableEq, Repr, Inhabited

structure State where
  threads : List Thread
  queue : List Nat                   -- the `VecDeque` (front = head)
  holder : Option Nat := none        -- the `Mutex`: which thread holds it
  waiters : List Nat := []           -- the `Condvar`: threads parked and not yet notified
  abort : Bool := false              -- the `RwLock<bool>`
  -- ghost history
  pushed : List Nat := []            -- order of `push_back`
  started : List Nat := []           -- order of `f.call(())` entries
  finished : List Nat := []          -- order of `f.call(())` returns
  discarded : List Nat := []         -- removed by `clear()`
  runner : List (Nat × Nat) := []    -- (task, thread that ran it), one entry per start
  abortReturned : Bool := false      -- some `stop()` call has returned
  events : List GEv := []
deriving DecidableEq, Repr, Inhabited

/-- label kinds; see `Thread.kind` for the program points at which each is the expected one -/
inductive Kind where
  | callStart   -- a thread starts its next call: `post t` → `pLock t`, `abort` → `sLock`
  | lock        -- `Mutex::lock` succeeds (lines 31, 61, 67) or the re-acquisition at the end of `Condvar::wait`
  | push        -- line 62 `push_back`
  | clear       -- line 68 `clear`
  | abortWrite  -- line 69 `*abort.write() = true`
  | notify      -- lines 63 / 70 `notify_one`
  | unlock      -- mutex guard drop (lines 48, 64, 71)
  | callRet     -- `post` / `stop` returns
  | abortRead   -- lines 36(+39) / 43 `*abort.read()`
  | wait        -- `Condvar::wait`: atomically release the mutex and park
  | wake        -- the parked thread wakes up (notified or spuriously); it still has to re-acquire the mutex
  | pop         -- line 46 `pop_front`
  | taskStart   -- line 50 `f.call(())` entered
  | taskEnd     -- line 50 `f.call(())` returned
  | exit        -- line 52 `break`; `scheduling` returns
deriving DecidableEq, Repr, Inhabited

structure Label where
  tid : Nat
  kind : Kind
deriving DecidableEq, Repr, Inhabited

/-- the kind of the (unique) next micro-step of a thread, `none` if the thread has terminated -/
def Thread.kind (th : Thread) : Option Kind :=
  match th.pc with
  | .idle =>
    match th.todo, th.cur with
    | _ :: _, _ => some .callStart
    | [], some _ => some .taskEnd
    | [], none => none
  | .pLock _ => some .lock
  | .pPush _ => some .push
  | .pNotify => some .notify
  | .pUnlock => some .unlock
  | .pRet => some .callRet
  | .sLock => some .lock
  | .sClear => some .clear
  | .sWrite => some .abortWrite
  | .sNotify => some .notify
  | .sUnlock => some .unlock
  | .sRet => some .callRet
  | .wLock => some .lock
  | .wCond => some .abortRead
  | .wWait => some .wait
  | .wParked => some .wake
  | .wReacq => some .lock
  | .wRead2 => some .abortRead
  | .wPop => some .pop
  | .wUnlock _ => some .unlock
  | .wStart _ => some .taskStart
  | .wExit => some .exit
  | .wExited => none

/-- replace thread `i` -/
def upd (s : State) (i : Nat) (th : Thread) : State := { s with threads := s.threads.set i th }

/-- the next micro-step of thread `i` (whose current record is `th`); `none` = blocked (mutex busy) or terminated -/
def adv (cfg : Config) (s : State) (i : Nat) (th : Thread) : Option State :=
  match th.pc with
  | .idle =>
    match th.todo with
    | .post t :: rest => some (upd s i { th with todo := rest, pc := .pLock t })
    | .abort :: rest => some (upd s i { th with todo := rest, pc := .sLock })
    | [] =>
      match th.cur with
      | some t => some (upd { s with finished := s.finished ++ [t] } i { th with pc := .wLock, cur := none })
      | none => none
  -- post
  | .pLock t => if s.holder = none then some (upd { s with holder := some i } i { th with pc := .pPush t }) else none
  | .pPush t => some (upd { s with queue := s.queue ++ [t], pushed := s.pushed ++ [t] } i { th with pc := .pNotify })
  | .pNotify => some (upd { s with waiters := s.waiters.tail } i { th with pc := .pUnlock })
  | .pUnlock => some (upd { s with holder := none } i { th with pc := .pRet })
  | .pRet => some (upd s i { th with pc := .idle })
  -- stop
  | .sLock => if s.holder = none then some (upd { s with holder := some i } i { th with pc := .sClear }) else none
  | .sClear => some (upd { s with queue := [], discarded := s.discarded ++ s.queue } i { th with pc := .sWrite })
  | .sWrite => some (upd { s with abort := true, events := s.events ++ [.abortSet] } i { th with pc := .sNotify })
  | .sNotify => some (upd { s with waiters := s.waiters.tail } i { th with pc := .sUnlock })
  | .sUnlock => some (upd { s with holder := none } i { th with pc := .sRet })
  | .sRet => some (upd { s with abortReturned := true, events := s.events ++ [.abortRet] } i { th with pc := .idle })
  -- scheduling
  | .wLock => if s.holder = none then some (upd { s with holder := some i } i { th with pc := .wCond }) else none
  | .wCond =>
    some (upd s i { th with pc := if s.abort then .wRead2 else if s.queue.isEmpty then .wWait else .wRead2 })
  | .wWait => some (upd { s with holder := none, waiters := s.waiters ++ [i] } i { th with pc := .wParked })
  | .wParked => some (upd { s with waiters := s.waiters.erase i } i { th with pc := .wReacq })
  | .wReacq => if s.holder = none then some (upd { s with holder := some i } i { th with pc := .wCond }) else none
  | .wRead2 => some (upd s i { th with pc := if s.abort then .wUnlock none else .wPop })
  | .wPop =>
    some (upd { s with queue := s.queue.tail,
                       events := s.events ++ (match s.queue.head? with | some t => [.pop t] | none => []) }
              i { th with pc := .wUnlock s.queue.head? })
  | .wUnlock f =>
    some (upd { s with holder := none } i { th with pc := match f with | some t => .wStart t | none => .wExit })
  | .wStart t =>
    some (upd { s with started := s.started ++ [t], runner := s.runner ++ [(t, i)], events := s.events ++ [.start t] }
              i { todo := cfg.body t, pc := .idle, cur := some t })
  | .wExit => some (upd s i { th with pc := .wExited })
  | .wExited => none

/-- one labelled micro-step; `none` if thread `l.tid` does not exist, is blocked, or its next step is not of kind `l.kind` -/
def step (cfg : Config) (s : State) (l : Label) : Option State :=
  match s.threads[l.tid]? with
  | none => none
  | some th => if th.kind = some l.kind then adv cfg s l.tid th else none

def init (cfg : Config) : State :=
  { threads := { todo := [], pc := .wLock, cur := none } :: cfg.progs.map fun p => { todo := p, pc := .idle, cur := none }
    queue := [] }

inductive Reachable (cfg : Config) : State → Prop
  | init : Reachable cfg (init cfg)
  | step {s s' l} : Reachable cfg s → step cfg s l = some s' → Reachable cfg s'

/-- run a list of labels from `s` -/
def run (cfg : Config) : State → List Label → Option State
  | s, [] => some s
  | s, l :: ls => match step cfg s l with
    | some s' => run cfg s' ls
    | none => none

/-- replay a recorded trace from the initial state -/
def replay (cfg : Config) (ls : List Label) : Option State := run cfg (init cfg) ls

/-- length of the longest prefix of the trace the model accepts (diagnostics for the driver) -/
def acceptedPrefix (cfg : Config) : State → List Label → Nat
  | _, [] => 0
  | s, l :: ls => match step cfg s l with
    | some s' => acceptedPrefix cfg s' ls + 1
    | none => 0

/-! ### text form of labels: `"<tid> <kind>"` -/

def Kind.toString : Kind → String
  | .callStart => "callStart" | .lock => "lock" | .push => "push" | .clear => "clear"
  | .abortWrite => "abortWrite" | .notify => "notify" | .unlock => "unlock" | .callRet => "callRet"
  | .abortRead => "abortRead" | .wait => "wait" | .wake => "wake" | .pop => "pop"
  | .taskStart => "taskStart" | .taskEnd => "taskEnd" | .exit => "exit"

def Kind.all : List Kind :=
  [.callStart, .lock, .push, .clear, .abortWrite, .notify, .unlock, .callRet, .abortRead, .wait, .wake, .pop,
   .taskStart, .taskEnd, .exit]

def parseKind (w : String) : Option Kind := Kind.all.find? fun k => k.toString == w

def Label.toString (l : Label) : String := s!"{l.tid} {l.kind.toString}"

instance : ToString Label := ⟨Label.toString⟩

/-- `"<tid> <kind>"`: decimal thread id, blanks, kind name (see `Kind.toString`); surrounding blanks are ignored -/
def parseLabel (line : String) : Option Label :=
  match (line.trimAscii.toString.splitOn " ").filter (· ≠ "") with
  | [a, b] =>
    match a.toNat?, parseKind b with
    | some i, some k => some ⟨i, k⟩
    | _, _ => none
  | _ => none

/-- parse a whole trace, one label per line; empty lines and lines starting with `#` are skipped -/
def parseTrace (text : String) : Option (List Label) :=
  ((text.splitOn "\n").filter fun l => l.trimAscii.toString ≠ "" ∧ ¬ l.trimAscii.toString.startsWith "#").mapM parseLabel

/-- parse a call list such as `"post 1; abort; post 2"` (for the driver) -/
def parseCalls (text : String) : Option (List Call) :=
  ((text.splitOn ";").filter fun l => l.trimAscii.toString ≠ "").mapM fun c =>
    match (c.trimAscii.toString.splitOn " ").filter (· ≠ "") with
    | ["abort"] => some .abort
    | ["post", n] => n.toNat?.map .post
    | _ => none

end Rx.Queue

/-! ## DefaultScheduler (`/repo/src/schedulers/default_scheduler.rs`)

`post(f)` is `f();` (line 17): the task runs inline on the calling thread, inside the `post` call.  `abort()` is
`{}` (line 19).  Model: one calling thread with a call stack of frames; a task body is again a list of calls. -/
namespace Rx.DefaultSched
open Rx.Queue (Call Config)

inductive DEv where
  | start (t : Nat)    -- `f()` entered
  | fin (t : Nat)      -- `f()` returned
deriving DecidableEq, Repr, Inhabited

structure Frame where
  task : Option Nat    -- `none` = the caller's own program (bottom frame), `some t` = inside task `t`
  todo : List Call
deriving DecidableEq, Repr, Inhabited

structure State where
  stack : List Frame   -- head = innermost frame
  log : List DEv := []
deriving DecidableEq, Repr, Inhabited

def init (prog : List Call) : State := { stack := [⟨none, prog⟩] }

/-- one step of the (single) calling thread -/
def step (cfg : Config) (s : State) : Option State :=
  match s.stack with
  | [] => none
  | fr :: rest =>
    match fr.todo with
    | .post t :: cs =>
      some { stack := ⟨some t, cfg.body t⟩ :: { fr with todo := cs } :: rest, log := s.log ++ [.start t] }
    | .abort :: cs => some { stack := { fr with todo := cs } :: rest, log := s.log }
    | [] =>
      match fr.task with
      | some t => some { stack := rest, log := s.log ++ [.fin t] }
      | none => none

inductive Reachable (cfg : Config) (prog : List Call) : State → Prop
  | init : Reachable cfg prog (init prog)
  | step {s s'} : Reachable cfg prog s → step cfg s = some s' → Reachable cfg prog s'

/-- run at most `n` steps -/
def runN (cfg : Config) : Nat → State → State
  | 0, s => s
  | n + 1, s => match step cfg s with
    | some s' => runN cfg n s'
    | none => s

/-- bracket checker: `start t` opens `t`, `fin t` must close the innermost open task -/
def bracket (acc : Option (List Nat)) (e : DEv) : Option (List Nat) :=
  match acc, e with
  | some st, .start t => some (t :: st)
  | some (u :: st), .fin t => if u = t then some st else none
  | _, _ => none

/-- the stack of open (started, not finished) tasks according to the log; `none` if the log is not well nested -/
def openTasks (log : List DEv) : Option (List Nat) := log.foldl bracket (some [])

end Rx.DefaultSched
