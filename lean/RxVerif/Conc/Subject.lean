/-
Model C (lock-granularity LTS) of `Subject` used from several threads.
Rust sources followed: /repo/src/subjects/subject.rs (l.31-97), /repo/src/observer.rs (l.38-71),
/repo/src/observable.rs (l.23-40), /repo/src/internals/function_wrapper.rs (l.52-75).

Threads run arbitrary lists of calls `next v | subscribe o | unsubscribe o`.  One micro-step per lock operation /
callback start:

`Subject::next(v)` (subject.rs l.37-42)
  * `snap`    : `fetch_observers` — clone all observers out of the map under its read lock (l.31-35)
  * `fetch`   : `Observer::next` → `FunctionWrapper::call_if_available` → `fetch_function`: read `fn_next` under its
                read lock (function_wrapper.rs l.52-58); `None` ⇒ this observer is skipped
  * `deliver` : the fetched callback is invoked with NO lock held (function_wrapper.rs l.67-73); the model appends
                `(tid, call index, item)` to the observer's ghost log
  * `ret`     : the `for_each` is exhausted, `next` returns
`observable().subscribe(..)` with a FRESH observer `o` (observable.rs l.23-40, subject.rs l.63-95)
  * `isSub1`  : `inner_subscribe`: `observer.is_subscribed()`           (observable.rs l.29)
  * `isSub2`  : the source closure: `if !s.is_subscribed() return`      (subject.rs l.64-67)
  * `serial`  : `*serial += 1` under the serial write lock              (subject.rs l.68-72)
  * `setTd`   : `s.set_on_unsubscribe(..)` (write lock of `fn_on_unsubscribe`) (subject.rs l.76-85)
  * `insert`  : `observers.write().insert(serial, s)`                   (subject.rs l.87-91)
  (the `on_subscribe` / `on_unsubscribe` hooks are `None` for a plain subject and are not modelled)
`Observer::unsubscribe` of observer `o` (observer.rs l.55-62)
  * `clrNext`, `clrErr`, `clrCompl` : the three `clear()`s (only `fn_next` has a modelled effect)
  * `readTd`  : read `fn_on_unsubscribe`; `Some` ⇒ call the teardown
  * `remove`  : teardown: `observers.write().remove(&serial)`           (subject.rs l.78-82)
  * `clrTd`   : `*fn_on_unsubscribe.write() = None`

Abstractions (all sound for the safety theorems in `Theorems/C12.lean`):
  * `is_subscribed()` reads three slots one after the other; the slots only ever go from present to absent and
    `unsubscribe` clears `fn_next` first, so the conjunction is linearizable to one atomic read of `fn_next`.
  * The teardown runs while `unsubscribe` still holds the READ lock of `fn_on_unsubscribe` (observer.rs l.59-61), so a
    concurrent `setTd` would block meanwhile.  The model does not block it: it has MORE interleavings than the code.
  * `HashMap` iteration order is modelled as insertion order; no theorem depends on the order.
  * `subscribe o` is enabled only for an observer no earlier `subscribe` call used (`Observer::new` inside
    `Observable::subscribe` creates a fresh one each time).
State components indexed by thread id / observer id are total functions `Nat → _` (unused ids keep their defaults).
-/
import RxVerif.Data

namespace Rx.Conc.Subject

inductive Call where
  | next (v : Data)
  | subscribe (o : Nat)
  | unsubscribe (o : Nat)
deriving Repr, DecidableEq, Inhabited

/-- program counter inside the current call -/
inductive Pc where
  | idle
  | nx0 (k : Nat) (v : Data)                             -- next #k: about to snapshot the map
  | nxL (k : Nat) (v : Data) (snap : List Nat)           -- next #k: observers still to visit
  | nx2 (k : Nat) (v : Data) (o : Nat) (rest : List Nat) -- next #k: fetched a present `fn_next` of `o`, about to call it
  | s0 (o : Nat) | s1 (o : Nat) | s2 (o : Nat) | s3 (o : Nat) | s4 (o : Nat)
  | u0 (o : Nat) | u1 (o : Nat) | u2 (o : Nat) | u3 (o : Nat) | u4 (o : Nat) | u5 (o : Nat)
deriving Repr, DecidableEq, Inhabited

/-- kind of micro-step, the second component of a label -/
inductive Kind where
  | call | snap | fetch | deliver | ret
  | isSub1 | isSub2 | serial | setTd | insert
  | clrNext | clrErr | clrCompl | readTd | remove | clrTd
deriving Repr, DecidableEq, Inhabited

def Pc.kind : Pc → Kind
  | .idle => .call
  | .nx0 .. => .snap
  | .nxL _ _ [] => .ret
  | .nxL _ _ (_ :: _) => .fetch
  | .nx2 .. => .deliver
  | .s0 _ => .isSub1 | .s1 _ => .isSub2 | .s2 _ => .serial | .s3 _ => .setTd | .s4 _ => .insert
  | .u0 _ => .clrNext | .u1 _ => .clrErr | .u2 _ => .clrCompl | .u3 _ => .readTd | .u4 _ => .remove
  | .u5 _ => .clrTd

structure Obs where
  fnNext : Bool := true                      -- `fn_next` slot is present
  ser : Option Nat := none                   -- the `serial` local captured by the source / teardown closures
  td : Bool := false                         -- `fn_on_unsubscribe` is `Some`
  used : Option Nat := none                  -- ghost: thread whose `subscribe` call created this observer
  ins : Bool := false                        -- ghost: has been inserted into the map
  pre : Bool := false                        -- ghost: was registered in the initial state
  rlog : List (Nat × Nat × Data) := []       -- ghost: deliveries `(producer tid, call index, item)`, NEWEST FIRST
deriving Repr, Inhabited

structure Thread where
  todo : List Call := []
  pc : Pc := .idle
  cnt : Nat := 0                             -- ghost: number of `next` calls started so far
deriving Repr, Inhabited

structure State where
  obs : Nat → Obs
  map : List (Nat × Nat)                     -- the observer map: `(serial, observer id)`
  serial : Nat
  threads : Nat → Thread

def setObs (s : State) (o : Nat) (ob : Obs) : Nat → Obs := fun j => if j = o then ob else s.obs j
def setThr (s : State) (t : Nat) (th : Thread) : Nat → Thread := fun j => if j = t then th else s.threads j

/-- deliveries to observer `o` in delivery order -/
def State.received (s : State) (o : Nat) : List (Nat × Nat × Data) := (s.obs o).rlog.reverse

/-- one micro-step of thread `t` -/
def stepT (s : State) (t : Nat) : Option State :=
  let th := s.threads t
  match th.pc with
  | .idle =>
    match th.todo with
    | [] => none
    | .next v :: rest =>
      some { s with threads := setThr s t { todo := rest, pc := .nx0 th.cnt v, cnt := th.cnt + 1 } }
    | .subscribe o :: rest =>
      if (s.obs o).used.isSome then none
      else some { s with obs := setObs s o { s.obs o with used := some t }
                         threads := setThr s t { th with todo := rest, pc := .s0 o } }
    | .unsubscribe o :: rest => some { s with threads := setThr s t { th with todo := rest, pc := .u0 o } }
  | .nx0 k v => some { s with threads := setThr s t { th with pc := .nxL k v (s.map.map (·.2)) } }
  | .nxL _ _ [] => some { s with threads := setThr s t { th with pc := .idle } }
  | .nxL k v (o :: rest) =>
    some { s with threads := setThr s t { th with pc := if (s.obs o).fnNext then .nx2 k v o rest else .nxL k v rest } }
  | .nx2 k v o rest =>
    some { s with obs := setObs s o { s.obs o with rlog := (t, k, v) :: (s.obs o).rlog }
                  threads := setThr s t { th with pc := .nxL k v rest } }
  | .s0 o => some { s with threads := setThr s t { th with pc := if (s.obs o).fnNext then .s1 o else .idle } }
  | .s1 o => some { s with threads := setThr s t { th with pc := if (s.obs o).fnNext then .s2 o else .idle } }
  | .s2 o =>
    some { s with serial := s.serial + 1
                  obs := setObs s o { s.obs o with ser := some (s.serial + 1) }
                  threads := setThr s t { th with pc := .s3 o } }
  | .s3 o => some { s with obs := setObs s o { s.obs o with td := true }
                           threads := setThr s t { th with pc := .s4 o } }
  | .s4 o =>
    some { s with map := s.map ++ [((s.obs o).ser.getD 0, o)]
                  obs := setObs s o { s.obs o with ins := true }
                  threads := setThr s t { th with pc := .idle } }
  | .u0 o => some { s with obs := setObs s o { s.obs o with fnNext := false }
                           threads := setThr s t { th with pc := .u1 o } }
  | .u1 o => some { s with threads := setThr s t { th with pc := .u2 o } }
  | .u2 o => some { s with threads := setThr s t { th with pc := .u3 o } }
  | .u3 o => some { s with threads := setThr s t { th with pc := if (s.obs o).td then .u4 o else .u5 o } }
  | .u4 o =>
    some { s with map := s.map.filter (fun e => some e.1 != (s.obs o).ser)
                  threads := setThr s t { th with pc := .u5 o } }
  | .u5 o => some { s with obs := setObs s o { s.obs o with td := false }
                           threads := setThr s t { th with pc := .idle } }

abbrev Label := Nat × Kind

/-- labelled step: thread `l.1` performs the micro-step of kind `l.2` (disabled unless that is its next one) -/
def step (s : State) (l : Label) : Option State :=
  if (s.threads l.1).pc.kind = l.2 then stepT s l.1 else none

/-- `nPre` observers `0 .. nPre-1` are already registered (serials `1 .. nPre`), threads hold their programs -/
def init (progs : List (List Call)) (nPre : Nat) : State where
  obs := fun o => if o < nPre then
      { ser := some (o + 1), td := true, used := some 0, ins := true, pre := true } else {}
  map := (List.range nPre).map fun o => (o + 1, o)
  serial := nPre
  threads := fun t => { todo := progs.getD t [] }

def replayFrom (s : State) : List Label → Option State
  | [] => some s
  | l :: ls => match step s l with
    | some s' => replayFrom s' ls
    | none => none

def replay (progs : List (List Call)) (nPre : Nat) (ls : List Label) : Option State :=
  replayFrom (init progs nPre) ls

inductive Reachable (progs : List (List Call)) (nPre : Nat) : State → Prop
  | init : Reachable progs nPre (init progs nPre)
  | step {s s' : State} {l : Label} : Reachable progs nPre s → step s l = some s' → Reachable progs nPre s'

theorem reachable_of_replayFrom {progs nPre} {s s' : State} (h : Reachable progs nPre s) {ls : List Label}
    (hr : replayFrom s ls = some s') : Reachable progs nPre s' := by
  induction ls generalizing s with
  | nil => simp [replayFrom] at hr; subst hr; exact h
  | cons l ls ih =>
    simp only [replayFrom] at hr
    split at hr
    · rename_i s1 hs; exact ih (.step h hs) hr
    · simp at hr

theorem reachable_of_replay {progs nPre} {s : State} {ls : List Label}
    (hr : replay progs nPre ls = some s) : Reachable progs nPre s :=
  reachable_of_replayFrom .init hr

/-- thread `t` has finished its program -/
def State.done (s : State) (t : Nat) : Prop := (s.threads t).pc = .idle ∧ (s.threads t).todo = []

instance (s : State) (t : Nat) : Decidable (s.done t) := by unfold State.done; exact inferInstance

/-- number of labels of `ls` that can be replayed from `s` (debugging aid for drivers) -/
def replayCount (s : State) : List Label → Nat
  | [] => 0
  | l :: ls => match step s l with
    | some s' => replayCount s' ls + 1
    | none => 0

/-! ### text form of labels: `<tid> <kind>` e.g. `0 snap` -/

def Kind.toStr : Kind → String
  | .call => "call" | .snap => "snap" | .fetch => "fetch" | .deliver => "deliver" | .ret => "ret"
  | .isSub1 => "isSub1" | .isSub2 => "isSub2" | .serial => "serial" | .setTd => "setTd" | .insert => "insert"
  | .clrNext => "clrNext" | .clrErr => "clrErr" | .clrCompl => "clrCompl" | .readTd => "readTd"
  | .remove => "remove" | .clrTd => "clrTd"

def Kind.all : List Kind :=
  [.call, .snap, .fetch, .deliver, .ret, .isSub1, .isSub2, .serial, .setTd, .insert,
   .clrNext, .clrErr, .clrCompl, .readTd, .remove, .clrTd]

def parseKind (w : String) : Option Kind := Kind.all.find? (fun k => k.toStr == w)

def parseLabel (line : String) : Option Label :=
  match (line.trimAscii.toString.splitOn " ").filter (· ≠ "") with
  | [t, k] => do
    let t ← t.toNat?
    let k ← parseKind k
    pure (t, k)
  | _ => none

def Label.toStr (l : Label) : String := toString l.1 ++ " " ++ l.2.toStr

/-- the labels enabled in `s` among threads `0 .. n-1` (for drivers / exhaustive exploration) -/
def enabled (s : State) (n : Nat) : List Label :=
  (List.range n).filterMap fun t =>
    let l := (t, (s.threads t).pc.kind)
    if (step s l).isSome then some l else none

end Rx.Conc.Subject
