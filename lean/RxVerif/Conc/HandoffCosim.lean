/-
Co-simulation of `Rx.Handoff` / `Rx.Handoff.SubOn` (Conc/Handoff.lean) against executions recorded from the
instrumented crate by `harness/conc/src/handoff.rs`.

The harness does NOT name LTS label kinds.  It renders every recorded lock acquisition on one of the nine modelled
locks, every critical section of the scheduler's queue mutex and every harness stamp as an OBSERVABLE OPERATION
`<tid> <op>`:

  r:<lock> / w:<lock>   read / write acquisition; locks  sN sE sC sU  (subscriber slots, `fn_on_unsubscribe`),
                        uN uE uC (slots of the observer handed to the source), unsc, fin (`unscribers`, `on_finalize`);
                        the uN operation that starts an emission carries the event: `r:uN@n1`, `w:uN@c`, `w:uN@e3`
  rel:fin               the `on_finalize` write guard is dropped;  noStop: no scheduler stop happened under that guard
  q:post q:take q:exit q:stop   one critical section of the queue mutex (the LTS's atomic channel operations)
  cbStart <ev> / cbReturn <ev> / unsubCall / srcDone      stamps of the harness's subscriber / unsubscriber / source

`expect s t` lists, for thread `t` in LTS state `s`, the micro-steps the LTS could take next together with the operation
each of them performs on the real locks (read off the Rust lines quoted in Handoff.lean).  A recorded operation is
accepted iff it is the operation of one of those steps AND `Handoff.step` accepts that step's label; so the program
counter of the LTS decides which `Kind` an operation is, and the recorded lock identity is checked against it.
-/
import RxVerif.Conc.Handoff

namespace Rx.Handoff.Cosim

/-- operation performed by the `finalize` micro-step at pc `f` (stream_controller.rs 132-145) -/
def finOp (onFin : Bool) : FPc → Kind × String
  | .iter => (.fIter, "r:unsc")
  | .up0 => (.fUp, "w:uN")
  | .up1 => (.fUp, "w:uE")
  | .up2 => (.fUp, "w:uC")
  | .clear => (.fClear, "w:unsc")
  | .chk => (.fChk, "r:sN")
  | .lock => (.fLock, "w:fin")
  | .stop => (.fStop, if onFin then "q:stop" else "noStop")
  | .unlock => (.fUnlock, "rel:fin")
  | .nested => (.fChk, "-")

/-- the other / the own terminal slot of the event being processed -/
def otherSlot (e : Ev) : String := if e.isErr then "C" else "E"
def ownSlot (e : Ev) : String := if e.isErr then "E" else "C"

/-- the operation that starts the emission of `e` on the observer handed to the source -/
def emitOp (e : Ev) : String := (if e.isTerminal then "w:uN@" else "r:uN@") ++ e.toStr

def unsExpect (upc : UPc) (onFin : Bool) : List (Kind × String) :=
  match upc with
  | .idle => [(.unsubCall, "unsubCall")]
  | .c0 => [(.clr, "w:sN")]
  | .c1 => [(.clr, "w:sE")]
  | .c2 => [(.clr, "w:sC")]
  | .onUnsub => [(.onUnsub, "r:sU")]
  | .fin f => [finOp onFin f]
  | .ret => [(.unsubRet, "w:sU")]
  | .done => []

/-- observe_on: next micro-steps of thread `t` with their operations -/
def expect (s : State) : Nat → List (Kind × String)
  | 0 =>
    match s.spc with
    | .idle => match s.todo with
      | [] => []
      | e :: _ => [(.emit, emitOp e)]
    | .clrOther => [(.clrOther, "w:u" ++ otherSlot s.scur)]
    | .takeOwn => [(.takeOwn, "w:u" ++ ownSlot s.scur)]
    | .post => [(.post, "q:post")]
  | 1 =>
    match s.wpc with
    | .take => [(.take, "q:take"), (.exit, "q:exit")]
    | .chk0 => [(.chk, "r:sN")]
    | .chk1 => [(.chk, "r:sE")]
    | .chk2 => [(.chk, "r:sC")]
    | .fetch => [(.fetch, "r:sN")]
    | .remove => [(.remove, "w:unsc")]
    | .claim => [(.claim, "w:sN")]
    | .clrOther => [(.clrOther, "w:s" ++ otherSlot s.wcur)]
    | .takeOwn => [(.takeOwn, "w:s" ++ ownSlot s.wcur)]
    | .cbN => [(.cbStart, "cbStart " ++ s.wcur.toStr)]
    | .inCbN => [(.cbReturn, "cbReturn " ++ s.wcur.toStr)]
    | .cbT => [(.cbStart, "cbStart " ++ s.wcur.toStr)]
    | .inCbT => [(.cbReturn, "cbReturn " ++ s.wcur.toStr)]
    | .fin f => [finOp s.onFin f]
    | .done => []
  | 2 => unsExpect s.upc s.onFin
  | _ => []

/-- subscribe_on: next micro-steps of thread `t` with their operations -/
def expectSub (s : SubOn.State) : Nat → List (Kind × String)
  | 0 => if s.posted then [] else [(.post, "q:post")]
  | 1 =>
    match s.wpc with
    | .take => [(.take, "q:take"), (.exit, "q:exit")]
    | .newObs => [(.task, "w:unsc")]           -- `new_observer` registers the upstream unsubscriber
    | .rchk0 => [(.chk, "r:sN")]               -- … and re-checks the subscriber (stream_controller.rs 83)
    | .rchk1 => [(.chk, "r:sE")]
    | .rchk2 => [(.chk, "r:sC")]
    | .rrem => [(.remove, "w:unsc")]           -- dead: remove the entry again, unsubscribe the fresh observer
    | .ruc0 => [(.fUp, "w:uN")]
    | .ruc1 => [(.fUp, "w:uE")]
    | .ruc2 => [(.fUp, "w:uC")]
    | .sub0 => [(.chk, "r:uN")]
    | .sub1 => [(.chk, "r:uE")]
    | .sub2 => [(.chk, "r:uC")]
    | .src => match s.todo with
      | [] => [(.task, "srcDone")]
      | e :: _ => [(.emit, emitOp e)]
    | .uClrOther => [(.clrOther, "w:u" ++ otherSlot s.wcur)]
    | .uTakeOwn => [(.takeOwn, "w:u" ++ ownSlot s.wcur)]
    | .chk0 => [(.chk, "r:sN")]
    | .chk1 => [(.chk, "r:sE")]
    | .chk2 => [(.chk, "r:sC")]
    | .fetch => [(.fetch, "r:sN")]
    | .remove => [(.remove, "w:unsc")]
    | .claim => [(.claim, "w:sN")]
    | .clrOther => [(.clrOther, "w:s" ++ otherSlot s.wcur)]
    | .takeOwn => [(.takeOwn, "w:s" ++ ownSlot s.wcur)]
    | .cbN => [(.cbStart, "cbStart " ++ s.wcur.toStr)]
    | .inCbN => [(.cbReturn, "cbReturn " ++ s.wcur.toStr)]
    | .cbT => [(.cbStart, "cbStart " ++ s.wcur.toStr)]
    | .inCbT => [(.cbReturn, "cbReturn " ++ s.wcur.toStr)]
    | .fin f => [finOp s.onFin f]
    | .done => []
  | 2 => unsExpect s.upc s.onFin
  | _ => []

/-- `"<tid> <op>"` (the operation may contain blanks) -/
def parseOp (l : String) : Option (Nat × String) :=
  match l.trimAscii.toString.splitOn " " with
  | a :: rest@(_ :: _) => a.toNat?.map fun t => (t, " ".intercalate rest)
  | _ => none

def showExpect (l : List (Kind × String)) : String :=
  if l.isEmpty then "nothing (the thread has no step)" else " | ".intercalate (l.map fun p => p.2 ++ " (" ++ p.1.toString ++ ")")

/-- generic replay: `exp` names the candidate steps, `stp` is the LTS's `step`.  Returns the final state and the
resolved label trace (newest first), or the index (from 1) of the first refused operation and why. -/
def replayOps {σ : Type} (exp : σ → Nat → List (Kind × String)) (stp : σ → Label → Option σ) :
    σ → Nat → List Label → List String → Except String (σ × List Label)
  | s, _, acc, [] => .ok (s, acc)
  | s, k, acc, l :: rest =>
    match parseOp l with
    | none => .error s!"operation {k} unparsable: {l}"
    | some (t, op) =>
      match (exp s t).find? (·.2 == op) with
      | none => .error s!"operation {k}: thread {t} did `{op}`, the LTS expects {showExpect (exp s t)}"
      | some (kind, _) =>
        match stp s ⟨t, kind⟩ with
        | none => .error s!"operation {k}: `{t} {op}` is the LTS step `{t} {kind.toString}`, which is not enabled"
        | some s' => replayOps exp stp s' (k + 1) (⟨t, kind⟩ :: acc) rest

/-! ### soundness of the replay: an accepted execution IS a run of the LTS

Whatever `exp` proposes, a step is only taken through `step`; so the resolved label trace of an accepted execution is
accepted by `Handoff.run`, and the final state is `Reachable` — the theorems of Theorems/C09.lean apply to it. -/

theorem replayOps_run (exp : State → Nat → List (Kind × String)) :
    ∀ (ops : List String) (s : State) (k : Nat) (acc : List Label) (s' : State) (tr : List Label),
      replayOps exp step s k acc ops = .ok (s', tr) → ∃ ls, tr = ls.reverse ++ acc ∧ run s ls = some s'
  | [], s, k, acc, s', tr, h => by
    simp only [replayOps, Except.ok.injEq, Prod.mk.injEq] at h
    obtain ⟨rfl, rfl⟩ := h
    exact ⟨[], rfl, rfl⟩
  | l :: rest, s, k, acc, s', tr, h => by
    simp only [replayOps] at h
    split at h
    · cases h
    · next t op _ =>
      split at h
      · cases h
      · next kind _ _ =>
        split at h
        · cases h
        · next s1 hs1 =>
          obtain ⟨ls, htr, hrun⟩ := replayOps_run exp rest s1 (k + 1) _ s' tr h
          refine ⟨⟨t, kind⟩ :: ls, ?_, ?_⟩
          · simp [htr]
          · simp [run, hs1, hrun]

theorem accepted_reachable {cfg : Config} {ops : List String} {st : State} {tr : List Label}
    (h : replayOps expect step (init cfg) 1 [] ops = .ok (st, tr)) : Reachable cfg st := by
  obtain ⟨ls, _, hrun⟩ := replayOps_run expect ops _ _ _ _ _ h
  exact reachable_of_run .init hrun

theorem replayOps_runSub (exp : SubOn.State → Nat → List (Kind × String)) :
    ∀ (ops : List String) (s : SubOn.State) (k : Nat) (acc : List Label) (s' : SubOn.State) (tr : List Label),
      replayOps exp SubOn.step s k acc ops = .ok (s', tr) → ∃ ls, tr = ls.reverse ++ acc ∧ SubOn.run s ls = some s'
  | [], s, k, acc, s', tr, h => by
    simp only [replayOps, Except.ok.injEq, Prod.mk.injEq] at h
    obtain ⟨rfl, rfl⟩ := h
    exact ⟨[], rfl, rfl⟩
  | l :: rest, s, k, acc, s', tr, h => by
    simp only [replayOps] at h
    split at h
    · cases h
    · next t op _ =>
      split at h
      · cases h
      · next kind _ _ =>
        split at h
        · cases h
        · next s1 hs1 =>
          obtain ⟨ls, htr, hrun⟩ := replayOps_runSub exp rest s1 (k + 1) _ s' tr h
          refine ⟨⟨t, kind⟩ :: ls, ?_, ?_⟩
          · simp [htr]
          · simp [SubOn.run, hs1, hrun]

theorem accepted_reachableSub {cfg : Config} {ops : List String} {st : SubOn.State} {tr : List Label}
    (h : replayOps expectSub SubOn.step (SubOn.init cfg) 1 [] ops = .ok (st, tr)) : SubOn.Reachable cfg st := by
  obtain ⟨ls, _, hrun⟩ := replayOps_runSub expectSub ops _ _ _ _ _ h
  exact SubOn.reachable_of_run .init hrun

/-- script text: blank-separated tokens, integer = item, `c` = complete, `e<nat>` = error, in ANY order -/
def parseScript (text : String) : Option (List Ev) :=
  ((text.trimAscii.toString.splitOn " ").filter (· ≠ "")).mapM fun t =>
    match t.toInt? with
    | some i => some (Ev.next (.int i))
    | none =>
      if t == "c" then some .complete
      else if t.startsWith "e" then (t.drop 1).toString.toNat?.map Ev.error
      else none

def field (hdr key : String) : String :=
  (((hdr.splitOn " ").filterMap fun t => if t.startsWith (key ++ "=") then some (t.drop (key.length + 1)).toString else none).headD "")

def bstr (b : Bool) : String := if b then "T" else "F"

/-- what the harness's subscriber saw: `got=1:n1,1:c` (LTS thread id : event) -/
def parseGot (g : String) : List (String × String) :=
  ((g.splitOn ",").filter (· ≠ "")).map fun x =>
    match x.splitOn ":" with
    | [a, b] => (a, b)
    | _ => ("?", x)

/-- end-of-run comparison of the LTS's ghost state with what the harness observed by its own means -/
def compare (delivered : List Ev) (workerDone quiescent upcDone : Bool) (got : List (String × String)) (wexit : String) :
    Option String :=
  if delivered.map Ev.toStr ≠ got.map (·.2) then
    some s!"ghost mismatch: LTS delivered {delivered.map Ev.toStr}, the subscriber saw {got.map (·.2)}"
  else if got.any (·.1 ≠ "1") then
    some s!"ghost mismatch: a callback ran on a thread that is not the scheduler's worker: {got.map (·.1)}"
  else if bstr workerDone ≠ wexit then
    some s!"ghost mismatch: LTS worker done={bstr workerDone}, worker thread exited={wexit}"
  else if !quiescent then some "the run ended (every thread finished) in an LTS state that is not quiescent"
  else if !upcDone then some "the run ended with the LTS's unsubscriber in the middle of `unsubscribe`"
  else none

/-- one recorded execution: `hdr ; got=… wexit=… ; op;op;…` -/
def cosim (payload : String) : String :=
  match payload.splitOn " ; " with
  | [hdr, obs, ops] =>
    if field hdr "table" ≠ "ok" then " REJECT lock table could not be identified" else
    let scriptText := ((hdr.splitOn "script=").getD 1 "")
    match parseScript scriptText with
    | none => " REJECT bad script"
    | some script =>
      let cfg : Config := { script := script, hasUnsub := field hdr "unsub" ≠ "none" }
      let got := parseGot (field obs "got")
      let wexit := field obs "wexit"
      let opl := (ops.splitOn ";").filter (·.trimAscii.toString ≠ "")
      if field hdr "mode" == "observe" then
        match replayOps expect step (init cfg) 1 [] opl with
        | .error m => " REJECT " ++ m
        | .ok (st, tr) =>
          match compare st.delivered (st.wpc == .done) (decide st.quiescent) (st.upc == .done) got wexit with
          | some m => " REJECT " ++ m
          | none => s!" ok steps={tr.length} delivered={st.delivered.map Ev.toStr} posted={st.posted.length} taken={st.taken.length}" ++
              s!" dropped={st.consumed.length - st.posted.length} abort={bstr st.abort} unsubEarly={bstr st.unsubEarly} lateCb={bstr st.lateCb}"
      else
        match replayOps expectSub SubOn.step (SubOn.init cfg) 1 [] opl with
        | .error m => " REJECT " ++ m
        | .ok (st, tr) =>
          -- the channel only ever holds the one subscription task: quiescent = the worker has left `scheduling`
          match compare st.delivered (st.wpc == .done) (st.wpc == .done) (st.upc == .done) got wexit with
          | some m => " REJECT " ++ m
          | none => s!" ok steps={tr.length} delivered={st.delivered.map Ev.toStr} consumed={st.consumed.length}" ++
              s!" skipped={bstr st.skipped} lateAttach={bstr st.lateAttach} taskDone={bstr st.taskDone} abort={bstr st.abort} unsubEarly={bstr st.unsubEarly} lateCb={bstr st.lateCb}"
  | _ => " REJECT malformed payload"

end Rx.Handoff.Cosim
