import RxVerif.Data
/-
Subjects as pure sequential state machines (properties C10 / C13), mirroring the fields of
  src/subjects/subject.rs            `observers` (serial ↦ Observer), `serial`
  src/subjects/behavior_subject.rs   `last_item`, `last_error`
  src/subjects/replay_subject.rs     `items`, `was_error`, `was_completed`
  src/subjects/async_subject.rs      `last_item`, `ended` (the subscriber itself is registered in the inner Subject)
and the Observer semantics of src/observer.rs (a terminal is delivered once and ends `next`;
`unsubscribe` clears the callbacks and runs `fn_on_unsubscribe` once).

Subscribers are *test subscribers*: `subscribe o` is `observable().subscribe(next, error, complete)` whose
callbacks only record what they get (no call back into the subject).  `o` names that subscribe call: the
public API builds a fresh `Observer` on each `subscribe`, so an id is used once — a repeated `subscribe o`
is ignored (for an observer that is already dead this is exactly `inner_subscribe`'s `is_subscribed` gate).

HashMap iteration order is modelled as insertion order; no statement below depends on it.
-/
namespace Rx.SubjM

inductive Kind where
  | plain
  | behavior (init : Data)
  | replay
  | async
deriving DecidableEq, Repr, Inhabited

/-- the test subscriber's own `Observer` is what sits in the inner Subject's map (no forwarder in between):
    plain Subject, and AsyncSubject (`subject.observable().inner_subscribe(s)`, async_subject.rs) -/
def Kind.isPlain : Kind → Bool
  | .plain => true
  | .async => true
  | _ => false

def Kind.isReplay : Kind → Bool
  | .replay => true
  | _ => false

inductive Call where
  | subscribe (o : Nat)
  | unsubscribe (o : Nat)
  | next (v : Data)
  | error (e : Nat)
  | complete
deriving DecidableEq, Repr, Inhabited

/-- AsyncSubject.ended (async_subject.rs `enum Ended`) -/
inductive Ended where
  | completed
  | failed (e : Nat)
deriving DecidableEq, Repr, Inhabited

/-- Everything that belongs to one `subscribe` call: the test subscriber `o` itself and the private
    observer the derived subjects put between the inner `Subject` and `o`
    (behavior / replay: the forwarding `Observer` made by `subject.observable().subscribe(..)`).
    For `plain` and `async` there is no inner observer:
    `o` itself sits in the map and `inHook` is the serial captured by `o`'s own `fn_on_unsubscribe`. -/
structure ObsSt where
  seen : Bool := false          -- `Observer::new` has happened for this id
  alive : Bool := false         -- o.fn_next present (= `is_subscribed`, the three callbacks go together here)
  log : List Ev := []           -- what o's callbacks recorded
  hook : Bool := false          -- o.fn_on_unsubscribe is `Some`
  inAlive : Bool := false       -- inner observer's fn_next present
  inHook : Option Nat := none   -- serial removed by the registered observer's fn_on_unsubscribe (`None` once it ran)
  armed : Bool := false         -- behavior/replay: `sbsc` is `Some` and its fn_unsubscribe not yet taken
deriving DecidableEq, Repr, Inhabited

structure State where
  observers : List (Nat × Nat) := []    -- Subject.observers: (serial, id), insertion ordered
  serial : Nat := 0                     -- Subject.serial
  lastItem : Option Data := none        -- BehaviorSubject.last_item / AsyncSubject.last_item
  lastError : Option Nat := none        -- BehaviorSubject.last_error
  items : List Data := []               -- ReplaySubject.items
  wasError : Option Nat := none         -- ReplaySubject.was_error
  wasCompleted : Bool := false          -- ReplaySubject.was_completed
  ended : Option Ended := none          -- AsyncSubject.ended
  obs : Nat → ObsSt := fun _ => {}
deriving Inhabited

def init : Kind → State
  | .behavior v => { lastItem := some v }
  | _ => {}

def upd (f : Nat → ObsSt) (o : Nat) (r : ObsSt) : Nat → ObsSt := fun i => if i = o then r else f i

def registered (st : State) : List Nat := st.observers.map (·.2)
def logOf (st : State) (o : Nat) : List Ev := (st.obs o).log
def aliveOf (st : State) (o : Nat) : Bool := (st.obs o).alive

/-! ### Observer (src/observer.rs:37-52) for a test subscriber -/

/-- `Observer::next/error/complete`: gated on `fn_next`; a terminal takes all three callbacks.
    (`fn_on_unsubscribe` is NOT run by a terminal.) -/
def ObsSt.recv (r : ObsSt) (ev : Ev) : ObsSt :=
  { r with log := if r.alive then r.log ++ [ev] else r.log, alive := r.alive && !ev.isTerminal }

/-- What the observer registered in the inner Subject does with an event (one callback start..return).
  * plain, async: it is `o`.
  * behavior / replay (behavior_subject.rs:79-85, replay_subject.rs:87-93): a fresh `Observer` whose callbacks
    forward to `o`; its own terminal gate closes first. -/
def recvK (k : Kind) (ev : Ev) (r : ObsSt) : ObsSt :=
  match k with
  | .plain | .async => r.recv ev
  | .behavior _ | .replay =>
    { r with
      log := if r.inAlive && r.alive then r.log ++ [ev] else r.log
      alive := if r.inAlive then r.alive && !ev.isTerminal else r.alive
      inAlive := r.inAlive && !ev.isTerminal }

/-- `fetch_observers().into_iter().for_each(..)` (subject.rs:37-52): every observer of the snapshot, in order -/
def deliver (k : Kind) (ev : Ev) : List (Nat × Nat) → (Nat → ObsSt) → (Nat → ObsSt)
  | [], f => f
  | p :: rest, f => deliver k ev rest (upd f p.2 (recvK k ev (f p.2)))

/-! ### next / error / complete on the subject -/

def newLastItem (k : Kind) (ev : Ev) (old : Option Data) : Option Data :=
  match k, ev with
  | .behavior _, .next v => some v          -- behavior_subject.rs:27
  | .behavior _, .complete => none          -- behavior_subject.rs:35
  | _, _ => old

def newLastError (k : Kind) (ev : Ev) (old : Option Nat) : Option Nat :=
  match k, ev with
  | .behavior _, .error e => some e         -- behavior_subject.rs:31
  | _, _ => old

def newItems (k : Kind) (ev : Ev) (old : List Data) : List Data :=
  match k, ev with
  | .replay, .next v => old ++ [v]          -- replay_subject.rs:29
  | _, _ => old

def newWasError (k : Kind) (ev : Ev) (old : Option Nat) : Option Nat :=
  match k, ev with
  | .replay, .error e => some e             -- replay_subject.rs:33
  | _, _ => old

def newWasCompleted (k : Kind) (ev : Ev) (old : Bool) : Bool :=
  match k, ev with
  | .replay, .complete => true              -- replay_subject.rs:37
  | _, _ => old

/-- `next(v)` / `error(e)` / `complete()`: store (behavior, replay), then `Subject::{next,error,complete}` on the
    inner Subject: snapshot the map, clear it on a terminal, call every observer of the snapshot.
    (For `.async` this is the inner `self.subject.{next,error,complete}`; the AsyncSubject's own methods are
    `emitK` below.) -/
def emit (k : Kind) (st : State) (ev : Ev) : State :=
  { st with
    lastItem := newLastItem k ev st.lastItem
    lastError := newLastError k ev st.lastError
    items := newItems k ev st.items
    wasError := newWasError k ev st.wasError
    wasCompleted := newWasCompleted k ev st.wasCompleted
    observers := if ev.isTerminal then [] else st.observers
    obs := deliver k ev st.observers st.obs }

/-- AsyncSubject::{next, error, complete} (async_subject.rs): `next` only stores, and nothing at all happens once
    `ended` is set; `error` records, then `subject.error`; `complete` records, then `subject.next(last)` (if any),
    then `subject.complete`.  The other kinds: `emit`. -/
def emitK (k : Kind) (st : State) (ev : Ev) : State :=
  match k with
  | .async =>
    if st.ended.isSome then st else
    match ev with
    | .next v => { st with lastItem := some v }
    | .error e => emit .async { st with ended := some (.failed e) } (.error e)
    | .complete =>
      let st1 := { st with ended := some .completed }
      let st2 := match st.lastItem with
        | some v => emit .async st1 (.next v)
        | none => st1
      emit .async st2 .complete
  | k => emit k st ev

/-! ### subscribe -/

/-- what `Subject::observable`'s closure reports / what the replay hand-over still has to do -/
structure Pending where
  fresh : Bool := false          -- a new observer went into the map
  len : Option Nat := none       -- argument of the `on_subscribe(len)` call (subject.rs:85-92)
  history : List Data := []      -- replay_subject.rs:60 snapshot
deriving DecidableEq, Repr, Inhabited

/-- subject.rs:66-89: `serial += 1`, `set_on_unsubscribe(remove serial)`, `observers.insert(serial, s)` -/
def register (st : State) (o : Nat) (r : ObsSt) : State :=
  { st with
    serial := st.serial + 1
    observers := st.observers ++ [(st.serial + 1, o)]
    obs := upd st.obs o { r with inHook := some (st.serial + 1) } }

/-- what a completed AsyncSubject hands a subscriber: the last item, if any, then `complete` -/
def asyncHandover (last : Option Data) : List Ev :=
  (match last with | some v => [.next v] | none => []) ++ [.complete]

/-- `observable().subscribe(..)` up to and including the subject's `on_subscribe(len)` call site.
  * plain (subject.rs:61-93).
  * behavior (behavior_subject.rs:43-86): stored error → `s.error`, return; stored item → `s.next`, else
    `s.complete`, return; then (still subscribed) hook + forwarder registered, `sbsc` stored.
  * replay (replay_subject.rs:46-66 and ready_set_go.rs:12): hook, history snapshot, forwarder registered.
  * async (async_subject.rs `observable`): stored error → `s.error`; completed → `s.next(last)` (if any),
    `s.complete`; otherwise `subject.observable().inner_subscribe(s)` = the plain registration. -/
def subscribeA (k : Kind) (st : State) (o : Nat) : State × Pending :=
  if (st.obs o).seen then (st, {}) else
  match k with
  | .plain =>
    (register st o { seen := true, alive := true, hook := true },
     { fresh := true, len := some (st.observers.length + 1) })
  | .behavior _ =>
    match st.lastError with
    | some e => ({ st with obs := upd st.obs o { seen := true, log := [.error e] } }, {})
    | none =>
      match st.lastItem with
      | none => ({ st with obs := upd st.obs o { seen := true, log := [.complete] } }, {})
      | some v =>
        (register st o { seen := true, alive := true, log := [.next v], hook := true, inAlive := true, armed := true },
         { fresh := true, len := some (st.observers.length + 1) })
  | .replay =>
    (register st o { seen := true, alive := true, hook := true, inAlive := true },
     { fresh := true, len := some (st.observers.length + 1), history := st.items })
  | .async =>
    match st.ended with
    | some (.failed e) => ({ st with obs := upd st.obs o { seen := true, log := [.error e] } }, {})
    | some .completed => ({ st with obs := upd st.obs o { seen := true, log := asyncHandover st.lastItem } }, {})
    | none =>
      (register st o { seen := true, alive := true, hook := true },
       { fresh := true, len := some (st.observers.length + 1) })

/-- replay_subject.rs:70-84: the closure `f` of `ready_set_go`, run after the live subscription exists:
    `was_error` / `was_completed` are read NOW, the snapshot is replayed, then the stored terminal. -/
def handOver (r : ObsSt) (hist : List Data) (we : Option Nat) (wc : Bool) : ObsSt :=
  let r1 := hist.foldl (fun r x => r.recv (.next x)) r
  match we with
  | some e => r1.recv (.error e)
  | none => if wc then r1.recv .complete else r1

/-- replay_subject.rs:68-94 up to `*sbsc.write().unwrap() = Some(live.clone())`: the hand-over, run after
    `on_subscribe` returned, then `sbsc` is stored -/
def subscribeH (k : Kind) (st : State) (o : Nat) (p : Pending) : State :=
  match k with
  | .replay =>
    if p.fresh then
      { st with
        obs := upd st.obs o { (handOver (st.obs o) p.history st.wasError st.wasCompleted) with armed := true } }
    else st
  | _ => st

/-- replay_subject.rs:95-99 `if !s_alive.is_subscribed() { live.unsubscribe(); }`: the subscriber ended during
    the replay (stored terminal), so the live subscription is taken (`armed`) and its forwarder unsubscribed:
    callbacks cleared, its fn_on_unsubscribe removes its serial from the map and calls `on_unsubscribe(len)`
    (subject.rs:74-83).  `o`'s own fn_on_unsubscribe stays in place (it finds `sbsc` already taken).
    Returns the `len` of that `on_unsubscribe` call, if one is made. -/
def reap (st : State) (o : Nat) : State × Option Nat :=
  let r := st.obs o
  let dead : Bool := !r.alive && r.armed
  let obsv := match r.inHook with
    | some s => if dead then st.observers.filter (fun p => p.1 != s) else st.observers
    | none => st.observers
  ({ st with
     observers := obsv
     obs := upd st.obs o
       { r with
         armed := r.armed && r.alive
         inAlive := r.inAlive && !dead
         inHook := if dead then none else r.inHook } },
   if dead && r.inHook.isSome then some obsv.length else none)

/-- the rest of `subscribe` after `on_subscribe` returned (replay only: hand-over, store `sbsc`, reap) -/
def subscribeB (k : Kind) (st : State) (o : Nat) (p : Pending) : State × Option Nat :=
  if k.isReplay && p.fresh then reap (subscribeH k st o p) o else (subscribeH k st o p, none)

/-! ### unsubscribe -/

/-- `Subscription::unsubscribe` of the handle returned to the test subscriber = `o.unsubscribe()`
    (observer.rs:53-60): clear the callbacks, run fn_on_unsubscribe, forget it.
  * plain, async: the hook removes `serial` from the map and calls `on_unsubscribe(len)` (subject.rs:74-83).
  * behavior / replay: the hook unsubscribes `sbsc` (once: `armed`), i.e. the forwarder, whose hook does the above.
  Returns the argument of the `on_unsubscribe(len)` call if one is made.  No handle exists before
  `subscribe o`, so the call is ignored then. -/
def unsubscribeN (k : Kind) (st : State) (o : Nat) : State × Option Nat :=
  if !(st.obs o).seen then (st, none) else
  let r := st.obs o
  let runs : Bool := r.hook && (k.isPlain || r.armed)
  let obsv := match r.inHook with
    | some s => if runs then st.observers.filter (fun p => p.1 != s) else st.observers
    | none => st.observers
  ({ st with
     observers := obsv
     obs := upd st.obs o
       { r with
         alive := false
         hook := false
         inAlive := r.inAlive && !runs
         armed := r.armed && !r.hook
         inHook := if runs then none else r.inHook } },
   if runs && r.inHook.isSome then some obsv.length else none)

/-! ### the machine -/

def Call.toEv? : Call → Option Ev
  | .next v => some (.next v)
  | .error e => some (.error e)
  | .complete => some .complete
  | _ => none

def step (k : Kind) (st : State) : Call → State
  | .subscribe o => (subscribeB k (subscribeA k st o).1 o (subscribeA k st o).2).1
  | .unsubscribe o => (unsubscribeN k st o).1
  | .next v => emitK k st (.next v)
  | .error e => emitK k st (.error e)
  | .complete => emitK k st .complete

def runFrom (k : Kind) (st : State) (cs : List Call) : State := cs.foldl (step k) st
def run (k : Kind) (cs : List Call) : State := runFrom k (init k) cs

/-! ### text front end (ints as items):  `sub 1` `unsub 1` `next 5` `error 2` `complete` -/

def parseCall (s : String) : Option Call :=
  match s.trimAscii.toString.splitOn " " with
  | ["sub", n] => n.toNat?.map .subscribe
  | ["unsub", n] => n.toNat?.map .unsubscribe
  | ["next", v] => v.toInt?.map fun i => .next (.int i)
  | ["error", e] => e.toNat?.map .error
  | ["complete"] => some .complete
  | _ => none

def parseKind (s : String) : Option Kind :=
  match s.trimAscii.toString.splitOn " " with
  | ["plain"] => some .plain
  | ["behavior", v] => v.toInt?.map fun i => .behavior (.int i)
  | ["replay"] => some .replay
  | ["async"] => some .async
  | _ => none

/-- `runText "replay" "sub 0;next 1;complete" [0]` ↦ `"0:n1,c|reg="` (logs of the listed ids, registered ids) -/
def runText (kind : String) (calls : String) (ids : List Nat) : String :=
  match parseKind kind, (calls.splitOn ";").mapM parseCall with
  | some k, some cs =>
    let st := run k cs
    " ".intercalate (ids.map fun o => toString o ++ ":" ++ ",".intercalate ((logOf st o).map Ev.toStr))
      ++ "|reg=" ++ ",".intercalate ((registered st).map toString)
  | _, _ => "PARSE-ERROR"

end Rx.SubjM
