import RxVerif.Data
/-
Model B: operator kernels.  A kernel is the decision logic of the three closures an operator passes
to `StreamController::new_observer`, as a pure Mealy machine: state × input ↦ state × actions.
The machine (`Machine/Lib.lean: stdOp`) executes exactly these definitions; `Theorems/C02.lean`
proves them equal to the ReactiveX list functions.
-/
namespace Rx

/-- what an operator closure does with its StreamController, in program order -/
inductive Act where
  | emit (d : Data)          -- sctl.sink_next(d)
  | emitAll (ds : List Data) -- for d in ds { if !sctl.is_subscribed() { break }; sctl.sink_next(d) }
  | fail (e : Nat)           -- sctl.sink_error(e)
  | complete                 -- sctl.sink_complete(&serial)
  | abortSelf                -- sctl.upstream_abort_observe(&serial)
  | finalize                 -- sctl.finalize()
deriving Repr, DecidableEq, Inhabited

/-- which guard on the state cell is alive while the actions run (C07) -/
inductive Hold where | none | read | write
deriving Repr, DecidableEq, Inhabited

structure Kernel (σ : Type) where
  init : σ
  onNext : σ → Data → σ × List Act
  onError : σ → Nat → σ × List Act := fun s e => (s, [.fail e])
  onComplete : σ → σ × List Act := fun s => (s, [.complete])
  enc : σ → Data
  dec : Data → σ
  holdNext : Hold := .none
  holdComplete : Hold := .none

/-! ### the single-source operators of the crate -/

def Data.optEnc : Option Data → Data
  | none => .lnil
  | some d => .lcons d .lnil
def Data.optDec : Data → Option Data
  | .lcons d _ => some d
  | _ => none

def kMap (f : Fn) : Kernel Unit :=
  { init := (), onNext := fun _ x => ((), [.emit (f.app x)]), enc := fun _ => .unit, dec := fun _ => () }

/-- `map(|x| Some(x))`, the first half of `with_end` in src/operators/sequence_equal.rs -/
def kSome : Kernel Unit :=
  { init := (), onNext := fun _ x => ((), [.emit (Data.optEnc (some x))]), enc := fun _ => .unit, dec := fun _ => () }

def kFilter (p : Pred) : Kernel Unit :=
  { init := (), onNext := fun _ x => ((), if p.app x then [.emit x] else []),
    enc := fun _ => .unit, dec := fun _ => () }

def kTake (count : Nat) : Kernel Nat :=
  { init := 0
    onNext := fun n x =>
      (n + 1, (if n < count then [.emit x] else []) ++
              (if n + 1 ≥ count then [.abortSelf, .complete, .finalize] else []))
    enc := fun n => .int n, dec := fun d => d.toInt.toNat }

def kSkip (count : Nat) : Kernel Nat :=
  { init := 0
    onNext := fun n x => (n + 1, if n ≥ count then [.emit x] else [])
    enc := fun n => .int n, dec := fun d => d.toInt.toNat }

def kTakeWhile (p : Pred) : Kernel Unit :=
  { init := ()
    onNext := fun _ x => ((), if p.app x then [.emit x] else [.abortSelf, .complete])
    enc := fun _ => .unit, dec := fun _ => () }

/-- state: still skipping? -/
def kSkipWhile (p : Pred) : Kernel Bool :=
  { init := true
    onNext := fun skipping x =>
      if skipping && p.app x then (true, []) else (false, [.emit x])
    enc := fun b => .bool b, dec := fun d => d.toBool }

def kTakeLast (count : Nat) : Kernel (List Data) :=
  { init := []
    onNext := fun q x => (let q' := q ++ [x]; if q'.length > count then q'.drop 1 else q', [])
    onComplete := fun q => (q, [.emitAll q, .complete])
    enc := Data.ofList, dec := Data.toList
    holdComplete := .read }

def kSkipLast (count : Nat) : Kernel (List Data) :=
  { init := []
    onNext := fun q x =>
      let q' := q ++ [x]
      if q'.length > count then (q'.drop 1, match q'.head? with | some y => [.emit y] | none => [])
      else (q', [])
    enc := Data.ofList, dec := Data.toList }

def kDistinct : Kernel (Option Data) :=
  { init := none
    onNext := fun last x =>
      match last with
      | some y => if y != x then (some x, [.emit x]) else (some y, [])
      | none => (some x, [.emit x])
    enc := Data.optEnc, dec := Data.optDec }

def kScan (f : Fn2) : Kernel (Option Data) :=
  { init := none
    onNext := fun acc x =>
      let r := match acc with | some a => f.app a x | none => x
      (some r, [.emit r])
    enc := Data.optEnc, dec := Data.optDec
    holdNext := .none }

/-- reduce / sum / min / max share one shape: fold, emit the accumulator (if any) on completion -/
def kFold (f : Data → Data → Data) : Kernel (Option Data) :=
  { init := none
    onNext := fun acc x => (some (match acc with | some a => f a x | none => x), [])
    onComplete := fun acc => (acc, (match acc with | some a => [.emit a] | none => []) ++ [.complete])
    enc := Data.optEnc, dec := Data.optDec
    holdComplete := .read }

def kReduce (f : Fn2) : Kernel (Option Data) := kFold f.app
def kSum : Kernel (Option Data) := kFold fun a b => .int (a.toInt + b.toInt)
def kMin : Kernel (Option Data) := kFold fun a b => if b.toInt < a.toInt then b else a
def kMax : Kernel (Option Data) := kFold fun a b => if b.toInt > a.toInt then b else a

def kCount : Kernel Nat :=
  { init := 0
    onNext := fun n _ => (n + 1, [])
    onComplete := fun n => (n, [.emit (.int n), .complete])
    enc := fun n => .int n, dec := fun d => d.toInt.toNat }

/-- `time_interval` (src/operators/time_interval.rs): the time elapsed since the previous item — nothing for the
    first item, one duration for every later item and one more at completion.  The durations themselves are not
    modelled (the harness maps them to `()`); the state is "a start time has been stored". -/
def kTimeInterval : Kernel Bool :=
  { init := false
    onNext := fun started _ => (true, if started then [.emit .unit] else [])
    onComplete := fun started => (started, (if started then [.emit .unit] else []) ++ [.complete])
    enc := fun b => .bool b, dec := fun d => d.toBool }

def kSumAndCount : Kernel (Option Data × Nat) :=
  { init := (none, 0)
    onNext := fun (acc, n) x =>
      ((some (match acc with | some a => .int (a.toInt + x.toInt) | none => x), n + 1), [])
    onComplete := fun (acc, n) =>
      ((acc, n), (match acc with | some a => [.emit (.pair a (.int n))] | none => []) ++ [.complete])
    enc := fun (acc, n) => .pair (Data.optEnc acc) (.int n)
    dec := fun d => match d with | .pair a (.int n) => (Data.optDec a, n.toNat) | _ => (none, 0)
    holdComplete := .read }

def kContains (target : Data) : Kernel Unit :=
  { init := ()
    onNext := fun _ x => ((), if x == target then [.abortSelf, .emit (.bool true), .complete] else [])
    onComplete := fun _ => ((), [.emit (.bool false), .complete])
    enc := fun _ => .unit, dec := fun _ => () }

def kDefaultIfEmpty (dflt : Data) : Kernel Bool :=
  { init := false
    onNext := fun _ x => (true, [.emit x])
    onComplete := fun emitted => (emitted, (if emitted then [] else [.emit dflt]) ++ [.complete])
    enc := fun b => .bool b, dec := fun d => d.toBool }

def kIgnoreElements : Kernel Unit :=
  { init := (), onNext := fun _ _ => ((), []), enc := fun _ => .unit, dec := fun _ => () }

def kBuffer (count : Nat) : Kernel (List Data) :=
  { init := []
    onNext := fun buf x =>
      let b := buf ++ [x]
      if b.length == count then ([], [.emit (Data.ofList b)]) else (b, [])
    onComplete := fun buf =>
      (buf, (if buf.length > 0 then [.emit (Data.ofList buf)] else []) ++ [.complete])
    enc := Data.ofList, dec := Data.toList
    holdComplete := .read }

def kMaterialize : Kernel Unit :=
  { init := ()
    onNext := fun _ x => ((), [.emit (.mNext x)])
    onError := fun _ e => ((), [.emit (.mErr e), .complete])
    onComplete := fun _ => ((), [.emit .mComplete, .complete])
    enc := fun _ => .unit, dec := fun _ => () }

def kDematerialize : Kernel Unit :=
  { init := ()
    onNext := fun _ x =>
      ((), match x with
        | .mNext d => [.emit d]
        | .mErr e => [.fail e]
        | .mComplete => [.abortSelf, .complete]
        | _ => [.emit .unit])   -- ill-typed input (only reachable through the shrinker): harness maps it to Next(unit)
    enc := fun _ => .unit, dec := fun _ => () }

/-- plain forwarding (first/last/element_at wrappers, map_to_any, tap's data path) -/
def kId : Kernel Unit :=
  { init := (), onNext := fun _ x => ((), [.emit x]), enc := fun _ => .unit, dec := fun _ => () }

end Rx
