import RxVerif.Kernel.Run
/-
Recovery operators `retry`, `retry_when`, `on_error_resume_next` driven by a *flaky* cold source with a
subscriber attached directly downstream.  Pure, total mirror of

  src/operators/retry.rs                 l.22-62   (`execute`, inner `fn do_subscribe(n, max_retry, source, sctl)`)
  src/operators/retry_when.rs            l.30-68   (`execute`, inner `fn do_subscribe(predicate, source, sctl)`)
  src/operators/on_error_resume_next.rs  l.24-64   (`execute`)
  src/internals/stream_controller.rs     l.9-150  (`StreamController`)

Flaky source: a list of attempts `List Stream`; the k-th subscription (k = 1, 2, …) plays the k-th stream,
the last one again from then on (`attemptAt`).  The source is cold and polite: it runs synchronously
inside `inner_subscribe`, and stops emitting once its observer has been unsubscribed.

`Ctl` is the state of one `StreamController` (stream_controller.rs l.9-18):
  serial      `serial: Arc<RwLock<i32>>`                          next observer serial
  registered  keys of `unscribers: HashMap<i32, FunctionWrapper>` (serial ↦ `observer.unsubscribe()`)
  cancelled   serials of upstream observers on which `unsubscribe()` has been called (what the
              polite source looks at)
  alive       `subscriber.is_subscribed()` of the downstream observer
  out         events delivered to the downstream observer (ghost history)
  subs        number of `source.inner_subscribe` calls made (ghost counter)
-/
namespace Rx

structure Ctl where
  serial : Nat := 0
  registered : List Nat := []
  cancelled : List Nat := []
  alive : Bool := true
  out : List Ev := []
  subs : Nat := 0
deriving Repr, DecidableEq, Inhabited

namespace Ctl

/-- `finalize` (l.132-145): call every registered unsubscriber, clear the map, unsubscribe downstream.
(`on_finalize` is never set by these three operators.) -/
def finalize (c : Ctl) : Ctl :=
  { c with cancelled := c.cancelled ++ c.registered, registered := [], alive := false }

/-- `new_observer` (l.47-82): take the serial, bump the counter, register the unsubscriber. -/
def newObserver (c : Ctl) : Nat × Ctl :=
  (c.serial, { c with serial := c.serial + 1, registered := c.serial :: c.registered })

/-- `sink_next` (l.84-90) -/
def sinkNext (c : Ctl) (x : Data) : Ctl :=
  if c.alive then { c with out := c.out ++ [Ev.next x] } else c.finalize

/-- `sink_error` (l.92-99): `subscriber.error(e)` closes the downstream observer, then `finalize`. -/
def sinkError (c : Ctl) (e : Nat) : Ctl :=
  if c.alive then ({ c with out := c.out ++ [Ev.error e], alive := false }).finalize else c.finalize

/-- `sink_complete(&serial)` (l.101-115): forget the own serial (WITHOUT unsubscribing it); complete
downstream only when no other upstream observer is registered any more. -/
def sinkComplete (c : Ctl) (serial : Nat) : Ctl :=
  if c.alive then
    let c1 := { c with registered := c.registered.filter (· != serial) }
    if c1.registered.isEmpty then ({ c1 with out := c1.out ++ [Ev.complete], alive := false }).finalize
    else c1
  else c.finalize

/-- `upstream_abort_observe(&serial)` (l.124-130): remove the serial and, if it was there, unsubscribe it. -/
def abortObserve (c : Ctl) (serial : Nat) : Ctl :=
  if serial ∈ c.registered then
    { c with registered := c.registered.filter (· != serial), cancelled := c.cancelled ++ [serial] }
  else c

/-- the polite cold source emitting its items into the observer `serial`, whose `next` closure is
`move |_, x| sctl_next.sink_next(x)` in all three operators -/
def feed (c : Ctl) (serial : Nat) : List Data → Ctl
  | [] => c
  | x :: xs => if serial ∈ c.cancelled then c else (c.sinkNext x).feed serial xs

/-- `source.inner_subscribe(observer serial)` for a source playing stream `s`, as far as it is the same in
all three operators: items go to `sink_next`, `complete` goes to `sink_complete(&serial)`.
Result: the controller afterwards and `some e` iff the observer's *error* closure is now to be run with `e`
(an unsubscribed observer drops every event). -/
def playInto (c : Ctl) (serial : Nat) (s : Stream) : Ctl × Option Nat :=
  let c2 := c.feed serial s.1
  if serial ∈ c2.cancelled then (c2, none)
  else match s.2 with
    | .silent => (c2, none)
    | .complete => (c2.sinkComplete serial, none)
    | .error e => (c2, some e)

end Ctl

/-- the stream played by the flaky source at its (i+1)-th subscription -/
def attemptAt (attempts : List Stream) (i : Nat) : Stream :=
  attempts.getD i (attempts.getLastD ([], .silent))

/-- `do_subscribe` of retry.rs l.26-57 and of retry_when.rs l.34-63.  The two functions are the same text
except for the condition guarding the resubscription (`max_retry == 0 || n < max_retry` resp.
`predicate.call(e.clone())`) — here the parameter `again n e`; `n` is the Rust argument `n` (1 at the
first call; retry_when has no such argument, its `again` ignores it).  `fuel` bounds the recursion depth
(Rust: the recursion is nested inside the error closure and unbounded).
   sctl.new_observer(..)                         → `newObserver`, one more subscription
   source.inner_subscribe(..)                    → `playInto` with attempt number n
   error closure, `again`:  upstream_abort_observe(&serial); do_subscribe(n + 1, ..)
   error closure, otherwise: sink_error(e)                                             -/
def resubGo (again : Nat → Nat → Bool) (attempts : List Stream) : Nat → Nat → Ctl → Ctl
  | 0, _, c => c
  | fuel+1, n, c =>
    let (serial, c1) := c.newObserver
    let c1 := { c1 with subs := c1.subs + 1 }
    match c1.playInto serial (attemptAt attempts (n - 1)) with
    | (c2, none) => c2
    | (c2, some e) =>
      if again n e then resubGo again attempts fuel (n + 1) (c2.abortObserve serial)
      else c2.sinkError e

/-- retry.rs l.43: `if max_retry == 0 || n < max_retry` -/
def retryAgain (max : Nat) (n : Nat) (_e : Nat) : Bool := max == 0 || decide (n < max)

/-- retry_when.rs l.50: `if predicate.call(e.clone())` -/
def retryWhenAgain (p : Nat → Bool) (_n : Nat) (e : Nat) : Bool := p e

/-- `source.retry(max)` subscribed once (retry.rs l.59-60: `StreamController::new(s); do_subscribe(1, count, ..)`):
(events delivered downstream, number of subscriptions made to the source) -/
def retryRun (max : Nat) (attempts : List Stream) (fuel : Nat) : List Ev × Nat :=
  let c := resubGo (retryAgain max) attempts fuel 1 {}
  (c.out, c.subs)

/-- `source.retry_when(p)` subscribed once (retry_when.rs l.65-66) -/
def retryWhenRun (p : Nat → Bool) (attempts : List Stream) (fuel : Nat) : List Ev × Nat :=
  let c := resubGo (retryWhenAgain p) attempts fuel 1 {}
  (c.out, c.subs)

/-- `source.on_error_resume_next(f)` subscribed once (on_error_resume_next.rs l.27-63), the source playing `s`,
`f e` being a cold polite observable playing `f e : Stream`.
   error closure: upstream_abort_observe(&serial); f.call(e).inner_subscribe(sctl_error.new_observer(
                    sink_next, |_, ee| sink_error(ee), |serial| sink_complete(&serial)))            -/
def resumeGo (f : Nat → Stream) (s : Stream) (c : Ctl) : Ctl :=
  let (serial, c1) := c.newObserver
  let c1 := { c1 with subs := c1.subs + 1 }
  match c1.playInto serial s with
  | (c2, none) => c2
  | (c2, some e) =>
    let c3 := c2.abortObserve serial
    let (serial', c4) := c3.newObserver
    let c4 := { c4 with subs := c4.subs + 1 }
    match c4.playInto serial' (f e) with
    | (c5, none) => c5
    | (c5, some ee) => c5.sinkError ee

/-- l.30 `StreamController::new(s)`: a fresh controller -/
def resumeCtl (f : Nat → Stream) (s : Stream) : Ctl := resumeGo f s {}

def resumeRun (f : Nat → Stream) (s : Stream) : List Ev := (resumeCtl f s).out

/-- a polite cold source given as an event script (`oFlaky`/`oScript` of Machine/Lib.lean) plays the stream
made of the script's events up to and including its first terminal -/
def Stream.ofScript : List Ev → Stream
  | [] => ([], .silent)
  | .next d :: evs => (d :: (Stream.ofScript evs).1, (Stream.ofScript evs).2)
  | .error e :: _ => ([], .error e)
  | .complete :: _ => ([], .complete)

/-- cheap text rendering of a run: events (`Ev.toStr`: n<item> / e<payload> / c) separated by blanks, then
` | ` and the subscription count, e.g. `n1 n2 n3 e8 | 2` -/
def retryText (r : List Ev × Nat) : String :=
  " ".intercalate (r.1.map Ev.toStr) ++ " | " ++ toString r.2

def retryScriptText (max : Nat) (scripts : List (List Ev)) (fuel : Nat) : String :=
  retryText (retryRun max (scripts.map Stream.ofScript) fuel)

def retryWhenScriptText (p : EPred) (scripts : List (List Ev)) (fuel : Nat) : String :=
  retryText (retryWhenRun p.app (scripts.map Stream.ofScript) fuel)

end Rx
