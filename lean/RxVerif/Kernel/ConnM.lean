import RxVerif.Kernel.SubjM
/-
Connectables (property C13) on top of the subject machines:
  src/operators/publish.rs     `Publish { sbj: Subject, source }`, `connect()` = `source.subscribe(→ sbj)`
  src/operators/ref_count.rs   `RefCount { subject: Subject, source, subscription }` + `connecting`, `cancelled`
  src/operators/replay.rs      `Replay { subject: ReplaySubject, source, subscription }` + the same two flags
The hooks of ref_count / replay are the `on_subscribe(len)` / `on_unsubscribe(len)` slots of the inner Subject
(subject.rs:80-82, 90-92): `SubjM.subscribeA` / `SubjM.unsubscribeN` report the `len` they are called with,
and the replay hand-over (`SubjM.subscribeB`) runs after `on_subscribe` has returned, as in the Rust; if it ends
the subscriber, the forwarder is unsubscribed again, which is one more `on_unsubscribe(len)` call.

The source is either HOT (it emits when the environment says so, to every source observer that is still
subscribed) or COLD (a script `List Ev` emitted synchronously inside `source.subscribe`, i.e. inside `connect()`
or inside the first `subscribe`).  A source observer is the `Observer` built by `source.subscribe(next → sbj.next,
error → sbj.error, complete → sbj.complete)`; `conns` has one flag per such observer ever made (its `fn_next` is
present).  `Subscription::unsubscribe` (take-once) of a handle only clears that flag; clearing is idempotent, so
the take-once bit is not modelled.
-/
namespace Rx.ConnM
open Rx.SubjM (Pending)

inductive Kind where
  | publish | refCount | replay
deriving DecidableEq, Repr, Inhabited

inductive Src where
  | hot
  | cold (script : List Ev)
deriving DecidableEq, Repr, Inhabited

/-- the inner subject -/
def Kind.subj : Kind → SubjM.Kind
  | .publish => .plain
  | .refCount => .plain
  | .replay => .replay

def Kind.counts : Kind → Bool
  | .publish => false
  | _ => true

inductive Call where
  | subscribe (o : Nat)
  | unsubscribe (o : Nat)
  | connect
  | disconnect
  | srcNext (v : Data)
  | srcError (e : Nat)
  | srcComplete
deriving DecidableEq, Repr, Inhabited

structure State where
  sub : SubjM.State := {}
  conns : List Bool := []             -- source observers ever made; `true` = still subscribed
  connecting : Bool := false          -- ref_count.rs:36 / replay.rs:36
  cancelled : Bool := false           -- ref_count.rs:37 / replay.rs:37
  subscription : Option Nat := none   -- `self.subscription`: index of the stored source subscription
  emitted : List Data := []           -- ghost: items a source observer accepted (and forwarded)
deriving Inhabited

def sourceSubscriptions (st : State) : Nat := st.conns.length
def sourceLive (st : State) : Bool := st.conns.any id
def logOf (st : State) (o : Nat) : List Ev := SubjM.logOf st.sub o
def present (st : State) (o : Nat) : Prop := o ∈ SubjM.registered st.sub ∧ SubjM.aliveOf st.sub o = true

/-- ghost bookkeeping: the items source observers let through -/
def accept (ev : Ev) (old : List Data) : List Data :=
  match ev with
  | .next v => old ++ [v]
  | _ => old

/-- one callback of source observer `i` (observer.rs:37-52: gated on `fn_next`, a terminal takes it first),
    forwarding into the subject (publish.rs:31-39, ref_count.rs:76-84, replay.rs:76-84) -/
def connRecv (k : Kind) (st : State) (i : Nat) (ev : Ev) : State :=
  if st.conns[i]? = some true then
    { st with
      conns := if ev.isTerminal then st.conns.set i false else st.conns
      sub := SubjM.emit k.subj st.sub ev
      emitted := accept ev st.emitted }
  else st

/-- `source.subscribe(..)`: a new source observer; a cold source runs its script on it before returning -/
def connectSource (k : Kind) (src : Src) (st : State) : State :=
  let st1 := { st with conns := st.conns ++ [true] }
  match src with
  | .hot => st1
  | .cold script => script.foldl (fun s ev => connRecv k s st.conns.length ev) st1

/-- ref_count.rs:57-90 / replay.rs:57-90 -/
def onSubscribe (k : Kind) (src : Src) (st : State) (len : Option Nat) : State :=
  if len = some 1 ∧ st.connecting = false then
    let st1 := connectSource k src { st with connecting := true }
    { st1 with
      subscription := some st.conns.length
      conns := if st1.cancelled then st1.conns.set st.conns.length false else st1.conns }
  else st

/-- ref_count.rs:41-50 / replay.rs:41-50 -/
def onUnsubscribe (st : State) (len : Option Nat) : State :=
  if len = some 0 then
    { st with
      conns := match st.subscription with
        | some i => st.conns.set i false
        | none => st.conns
      cancelled := st.cancelled || st.subscription.isNone }
  else st

/-- a hot source emits to every source observer, in subscription order -/
def hotEmit (k : Kind) (st : State) (ev : Ev) : State :=
  (List.range st.conns.length).foldl (fun s i => connRecv k s i ev) st

def step (k : Kind) (src : Src) (st : State) : Call → State
  | .subscribe o =>
    let a := SubjM.subscribeA k.subj st.sub o
    let st1 := { st with sub := a.1 }
    let st2 := if k.counts then onSubscribe k src st1 a.2.len else st1
    let b := SubjM.subscribeB k.subj st2.sub o a.2
    let st3 := { st2 with sub := b.1 }
    if k.counts then onUnsubscribe st3 b.2 else st3    -- replay: a subscriber ended by the hand-over is reaped
  | .unsubscribe o =>
    let u := SubjM.unsubscribeN k.subj st.sub o
    let st1 := { st with sub := u.1 }
    if k.counts then onUnsubscribe st1 u.2 else st1
  | .connect => if k.counts then st else connectSource k src st                       -- publish.rs:26-41
  | .disconnect => if k.counts then st else { st with conns := st.conns.map fun _ => false }
  | .srcNext v => match src with
    | .hot => hotEmit k st (.next v)
    | .cold _ => st
  | .srcError e => match src with
    | .hot => hotEmit k st (.error e)
    | .cold _ => st
  | .srcComplete => match src with
    | .hot => hotEmit k st .complete
    | .cold _ => st

def init : State := {}
def runFrom (k : Kind) (src : Src) (st : State) (cs : List Call) : State := cs.foldl (step k src) st
def run (k : Kind) (src : Src) (cs : List Call) : State := runFrom k src init cs

/-! ### text front end:
  `sub 1` `unsub 1` `connect` `disconnect` `src-next 5` `src-error 2` `src-complete`;
  kinds `publish` `ref_count` `replay`; sources `hot` or `cold n1 n2 c` / `cold n1 e3` -/

def parseCall (s : String) : Option Call :=
  match s.trimAscii.toString.splitOn " " with
  | ["sub", n] => n.toNat?.map .subscribe
  | ["unsub", n] => n.toNat?.map .unsubscribe
  | ["connect"] => some .connect
  | ["disconnect"] => some .disconnect
  | ["src-next", v] => v.toInt?.map fun i => .srcNext (.int i)
  | ["src-error", e] => e.toNat?.map .srcError
  | ["src-complete"] => some .srcComplete
  | _ => none

def parseKind (s : String) : Option Kind :=
  match s.trimAscii.toString with
  | "publish" => some .publish
  | "ref_count" => some .refCount
  | "replay" => some .replay
  | _ => none

def parseEv (s : String) : Option Ev :=
  if s == "c" then some .complete
  else if s.startsWith "n" then (s.drop 1).toString.toInt?.map fun i => .next (.int i)
  else if s.startsWith "e" then (s.drop 1).toString.toNat?.map .error
  else none

def parseSrc (s : String) : Option Src :=
  match s.trimAscii.toString.splitOn " " with
  | ["hot"] => some .hot
  | "cold" :: evs => (evs.mapM parseEv).map .cold
  | _ => none

/-- `runText "replay" "cold n1 n2 c" "sub 0;sub 1" [0,1]` ↦ logs, source subscriptions ever made, live flag -/
def runText (kind src calls : String) (ids : List Nat) : String :=
  match parseKind kind, parseSrc src, (calls.splitOn ";").mapM parseCall with
  | some k, some s, some cs =>
    let st := run k s cs
    " ".intercalate (ids.map fun o => toString o ++ ":" ++ ",".intercalate ((logOf st o).map Ev.toStr))
      ++ "|subs=" ++ toString (sourceSubscriptions st) ++ " live=" ++ toString (sourceLive st)
      ++ " reg=" ++ ",".intercalate ((SubjM.registered st.sub).map toString)
  | _, _, _ => "PARSE-ERROR"

end Rx.ConnM
