import RxVerif.Data
/-
C03 — the combining operators of `src/operators/*.rs` as pure history machines.

Setting: `k` HOT sources, all silent while the operator subscribes to them, then driven one event at a
time.  A history is the global arrival order `List (source index × event)`.  Source 0 is the receiver
`self`, sources 1.. are the `observables` slice in order; for take_until / skip_until / sample /
switch_on_next: 0 = source, 1 = trigger / target.

Every operator owns one `StreamController` (src/internals/stream_controller.rs); `Ctl` is its state:
  alive : `subscriber.is_subscribed()`
  reg   : the keys of the `unscribers` map (one per `new_observer`)
  live  : the inner observers whose callbacks are still installed (`Observer::fn_next.exists()`):
          an inner observer loses them when it receives a terminal (src/observer.rs `error`/`complete`
          clear `fn_next` BEFORE running the closure) or when it is unsubscribed (`finalize`,
          `upstream_abort_observe`).  A hot source delivers an event into the operator iff its observer
          is live; otherwise the event is not seen at all.
Inner observers are named by their SOURCE INDEX.  The Rust serial of source `i` is `k-1-i` for merge/amb
(`sbs.pop()` pops from the back), `i` for zip/concat (`pop_front`, creation order), `1-i` for
take_until/skip_until/sample; serials are only ever compared for equality, so the renaming is harmless.

One `step` = one event of one source run to completion through the closures of the operator (the
sequential order of C03); the second component is what the downstream subscriber receives.
-/
namespace Rx.Comb

abbrev History := List (Nat × Ev)

def _root_.Rx.Ev.isError : Ev → Bool
  | .error _ => true
  | _ => false

def _root_.Rx.Ev.isNext : Ev → Bool
  | .next _ => true
  | _ => false

/-! ### well-formed histories: a source emits only while it has not signalled a terminal -/

/-- `R` = the sources that have not yet terminated -/
def wfFrom (R : List Nat) : History → Bool
  | [] => true
  | (i, ev) :: H => R.contains i && wfFrom (if ev.isTerminal then R.filter (· != i) else R) H

/-- all source indices `< k`; per source `next*` then at most one terminal -/
def WellFormed (k : Nat) (H : History) : Prop := wfFrom (List.range k) H = true

instance (k : Nat) (H : History) : Decidable (WellFormed k H) := by unfold WellFormed; infer_instance

/-! ### StreamController -/

structure Ctl where
  alive : Bool
  reg : List Nat
  live : List Nat
deriving Repr, DecidableEq, Inhabited

namespace Ctl

/-- after `n` calls of `new_observer`, all of them subscribed to silent hot sources -/
def init (n : Nat) : Ctl := { alive := true, reg := List.range n, live := List.range n }

/-- `new_observer` + `inner_subscribe` on a hot source: serial `i` enters the map, observer `i` is live -/
def addObserver (c : Ctl) (i : Nat) : Ctl := { c with reg := c.reg ++ [i], live := c.live ++ [i] }

/-- the observer's own callbacks are gone (it received a terminal): src/observer.rs:40-52 -/
def kill (c : Ctl) (i : Nat) : Ctl := { c with live := c.live.filter (· != i) }

/-- stream_controller.rs:132-145: every registered observer is unsubscribed, the map cleared, the
    subscriber unsubscribed -/
def finalize (c : Ctl) : Ctl :=
  { alive := false, reg := [], live := c.live.filter fun i => !c.reg.contains i }

/-- stream_controller.rs:84-90 -/
def sinkNext (c : Ctl) (d : Data) : Ctl × List Ev :=
  if c.alive then (c, [.next d]) else (c.finalize, [])

/-- stream_controller.rs:92-99 -/
def sinkError (c : Ctl) (e : Nat) : Ctl × List Ev :=
  if c.alive then (c.finalize, [.error e]) else (c.finalize, [])

/-- stream_controller.rs:101-115 -/
def sinkComplete (c : Ctl) (i : Nat) : Ctl × List Ev :=
  if c.alive then
    if (c.reg.filter (· != i)).isEmpty then
      ({ c with reg := c.reg.filter (· != i) }.finalize, [.complete])
    else ({ c with reg := c.reg.filter (· != i) }, [])
  else (c.finalize, [])

/-- stream_controller.rs:117-122 -/
def sinkCompleteForce (c : Ctl) : Ctl × List Ev :=
  if c.alive then (c.finalize, [.complete]) else (c.finalize, [])

/-- stream_controller.rs:124-130: only if the serial is still in the map -/
def abort (c : Ctl) (i : Nat) : Ctl :=
  if c.reg.contains i then
    { c with reg := c.reg.filter (· != i), live := c.live.filter (· != i) }
  else c

/-- observer `i` would still run its closure -/
def isLive (c : Ctl) (i : Nat) : Bool := c.live.contains i

end Ctl

/-- drive a machine through a history, collecting what the subscriber receives -/
def runFrom {σ : Type} (step : σ → Nat × Ev → σ × List Ev) : σ → History → List Ev
  | _, [] => []
  | s, p :: H => (step s p).2 ++ runFrom step (step s p).1 H

def finalFrom {σ : Type} (step : σ → Nat × Ev → σ × List Ev) : σ → History → σ
  | s, [] => s
  | s, p :: H => finalFrom step (step s p).1 H

/-! ### merge (src/operators/merge.rs:21-50) -/
namespace merge

def step (c : Ctl) (p : Nat × Ev) : Ctl × List Ev :=
  if c.isLive p.1 then
    match p.2 with
    | .next d => c.sinkNext d                        -- :34-36
    | .error e => (c.kill p.1).sinkError e           -- :37-39
    | .complete => (c.kill p.1).sinkComplete p.1     -- :40
  else (c, [])

def run (k : Nat) (H : History) : List Ev := runFrom step (Ctl.init k) H

end merge

/-! ### amb (src/operators/amb.rs:22-81) -/
namespace amb

structure State where
  ctl : Ctl
  winner : Option Nat
deriving Repr, DecidableEq, Inhabited

/-- `is_win` (:27-35) -/
def isWin (s : State) (i : Nat) : Bool :=
  match s.winner with
  | some w => i == w
  | none => true

def claim (s : State) (i : Nat) : Option Nat :=
  match s.winner with
  | some w => some w
  | none => some i

def step (s : State) (p : Nat × Ev) : State × List Ev :=
  if s.ctl.isLive p.1 then
    if isWin s p.1 then
      match p.2 with
      | .next d => ({ ctl := (s.ctl.sinkNext d).1, winner := claim s p.1 }, (s.ctl.sinkNext d).2)        -- :51-53
      | .error e =>                                                                                     -- :58-60
        ({ ctl := ((s.ctl.kill p.1).sinkError e).1, winner := claim s p.1 }, ((s.ctl.kill p.1).sinkError e).2)
      | .complete =>                                                                                    -- :65-67
        ({ ctl := ((s.ctl.kill p.1).sinkCompleteForce).1, winner := claim s p.1 },
          ((s.ctl.kill p.1).sinkCompleteForce).2)
    else
      -- a loser aborts itself (:55, :62, :69)
      ({ ctl := (if p.2.isTerminal then s.ctl.kill p.1 else s.ctl).abort p.1, winner := claim s p.1 }, [])
  else (s, [])

def init (k : Nat) : State := { ctl := Ctl.init k, winner := none }

def run (k : Nat) (H : History) : List Ev := runFrom step (init k) H

end amb

/-! ### concat (src/operators/concat.rs:25-88): only source 0 is subscribed at first; the completion of
the current source subscribes the next pending one (`complete_and_next`), the last one completes the
whole.  Hot sources do not replay: what a pending source emits before its turn is never seen. -/
namespace concat

structure State where
  ctl : Ctl
  next : Nat      -- index of the next source to subscribe (front of the `observables` queue)
  k : Nat
deriving Repr, DecidableEq, Inhabited

def step (s : State) (p : Nat × Ev) : State × List Ev :=
  if s.ctl.isLive p.1 then
    match p.2 with
    | .next d => ({ s with ctl := (s.ctl.sinkNext d).1 }, (s.ctl.sinkNext d).2)                          -- :50-52 / :73-75
    | .error e => ({ s with ctl := ((s.ctl.kill p.1).sinkError e).1 }, ((s.ctl.kill p.1).sinkError e).2)  -- :53-55
    | .complete =>                                                                                       -- :32-64
      if s.next < s.k then
        ({ s with ctl := (s.ctl.kill p.1).addObserver s.next, next := s.next + 1 }, [])
      else
        ({ s with ctl := ((s.ctl.kill p.1).sinkCompleteForce).1 }, ((s.ctl.kill p.1).sinkCompleteForce).2)
  else (s, [])

def init (k : Nat) : State := { ctl := Ctl.init 1, next := 1, k := k }

def run (k : Nat) (H : History) : List Ev := runFrom step (init k) H

end concat

/-! ### zip (src/operators/zip.rs:28-96) -/
namespace zip

structure State where
  ctl : Ctl
  queues : List (List Data)
deriving Repr, DecidableEq, Inhabited

/-- the `while let Some(items) = get()` loop (:50-68); `alive` cannot change inside it because the
    downstream of the model is passive -/
def drain (alive : Bool) : Nat → List (List Data) → List (List Data) × List Ev
  | 0, qs => (qs, [])
  | fuel+1, qs =>
    if qs.all (fun q => !q.isEmpty) then            -- filled == re.len()
      if alive then
        ((drain alive fuel (qs.map List.tail)).1,
          .next (Data.ofList (qs.map fun q => q.headD .unit)) :: (drain alive fuel (qs.map List.tail)).2)
      else (qs.map List.tail, [])                    -- items popped, then `break`
    else (qs, [])

def step (s : State) (p : Nat × Ev) : State × List Ev :=
  if s.ctl.isLive p.1 then
    match p.2 with
    | .next d =>                                                                                         -- :41-69
      let qs := s.queues.modify p.1 (· ++ [d])
      ({ s with queues := (drain s.ctl.alive ((qs.getD p.1 []).length + 1) qs).1 },
        (drain s.ctl.alive ((qs.getD p.1 []).length + 1) qs).2)
    | .error e => ({ s with ctl := ((s.ctl.kill p.1).sinkError e).1 }, ((s.ctl.kill p.1).sinkError e).2)  -- :81-83
    | .complete =>                                                                                       -- :84-86
      ({ s with ctl := ((s.ctl.kill p.1).sinkComplete p.1).1 }, ((s.ctl.kill p.1).sinkComplete p.1).2)
  else (s, [])

def init (k : Nat) : State := { ctl := Ctl.init k, queues := List.replicate k [] }

def run (k : Nat) (H : History) : List Ev := runFrom step (init k) H

end zip

/-! ### operators layered over zip (sequence_equal; combine_latest was one too before the repair of F9): an outer controller with ONE observer (serial 0) subscribed to the
zip Observable.  That observer IS zip's subscriber: when the outer controller unsubscribes it (finalize /
upstream_abort_observe), `set_on_unsubscribe` (stream_controller.rs:32-35) finalizes zip's controller.
The zip step is run first and its (at most one) output events are then fed to the outer closures; events
reaching a dead outer observer are dropped, as in the code (`fn_next` cleared). -/

structure Over where
  z : zip.State
  o : Ctl
deriving Repr, DecidableEq, Inhabited

def Over.init (k : Nat) : Over := { z := zip.init k, o := Ctl.init 1 }

/-- propagate the death of the outer observer to zip's controller -/
def Over.sync (z : zip.State) (o : Ctl) : Over :=
  { z := if o.isLive 0 then z else { z with ctl := z.ctl.finalize }, o := o }

/-! ### combine_latest (src/operators/combine_latest.rs after the F9 repair): ONE StreamController, one inner observer
per source (serial = source index, as in zip), and a cell `latest` with one slot per source.  `next` of source `i`
stores the item in slot `i`; if every slot is filled the vector of the latest items is built (both under the write
guard of the cell), the guard is released and `sink_next(combine_f(vector))` is called.  `error` ⇒ `sink_error`;
`complete` of source `i` ⇒ `sink_complete(serial)`: the output completes when all sources have completed; a source
that has completed keeps its latest value. -/
namespace combineLatest

structure State where
  ctl : Ctl
  latest : List (Option Data)
deriving Repr, DecidableEq, Inhabited

def step (f : List Data → Data) (s : State) (p : Nat × Ev) : State × List Ev :=
  if s.ctl.isLive p.1 then
    match p.2 with
    | .next d =>
      if (s.latest.set p.1 (some d)).all Option.isSome then
        ({ ctl := (s.ctl.sinkNext (f ((s.latest.set p.1 (some d)).map fun x => x.getD .unit))).1,
           latest := s.latest.set p.1 (some d) },
         (s.ctl.sinkNext (f ((s.latest.set p.1 (some d)).map fun x => x.getD .unit))).2)
      else ({ s with latest := s.latest.set p.1 (some d) }, [])
    | .error e => ({ s with ctl := ((s.ctl.kill p.1).sinkError e).1 }, ((s.ctl.kill p.1).sinkError e).2)
    | .complete =>
      ({ s with ctl := ((s.ctl.kill p.1).sinkComplete p.1).1 }, ((s.ctl.kill p.1).sinkComplete p.1).2)
  else (s, [])

def init (k : Nat) : State := { ctl := Ctl.init k, latest := List.replicate k none }

/-- `combine_f` defaults to "collect into a list" so that code and spec outputs are comparable -/
def run (k : Nat) (H : History) (f : List Data → Data := Data.ofList) : List Ev :=
  runFrom (step f) (init k) H

/-- `combine_f` = left fold of a binary function over the tuple (the form used by the case language:
    `(combine_latest <fn2> p ps…)`, `oCombineLatest` in Machine/Lib.lean) -/
def foldFn2 (f : Fn2) (l : List Data) : Data :=
  match l with
  | a :: rest => rest.foldl f.app a
  | [] => .unit

def runFn2 (f : Fn2) (k : Nat) (H : History) : List Ev := run k H (foldFn2 f)

end combineLatest

namespace sequenceEqualCode

def allSame (l : List Data) : Bool := l.all fun i => i == l.headD .unit

/-- outer closures of src/operators/sequence_equal.rs:31-47 -/
def feed : Ctl → List Ev → Ctl × List Ev
  | o, [] => (o, [])
  | o, ev :: evs =>
    if o.isLive 0 then
      match ev with
      | .next v =>
        if allSame v.toList then feed o evs
        else
          -- :35-37  upstream_abort_observe; sink_next(false); sink_complete(serial)
          let o1 := o.abort 0
          let r1 := o1.sinkNext (.bool false)
          let r2 := r1.1.sinkComplete 0
          ((feed r2.1 evs).1, r1.2 ++ r2.2 ++ (feed r2.1 evs).2)
      | .error e => ((feed ((o.kill 0).sinkError e).1 evs).1, ((o.kill 0).sinkError e).2 ++ (feed ((o.kill 0).sinkError e).1 evs).2)
      | .complete =>
        -- :44-45  sink_next(true); sink_complete(serial)
        let o1 := o.kill 0
        let r1 := o1.sinkNext (.bool true)
        let r2 := r1.1.sinkComplete 0
        ((feed r2.1 evs).1, r1.2 ++ r2.2 ++ (feed r2.1 evs).2)
    else feed o evs

def step (s : Over) (p : Nat × Ev) : Over × List Ev :=
  (Over.sync (zip.step s.z p).1 (feed s.o (zip.step s.z p).2).1, (feed s.o (zip.step s.z p).2).2)

def run (k : Nat) (H : History) : List Ev := runFrom step (Over.init k) H

end sequenceEqualCode

/-! ### sequence_equal (src/operators/sequence_equal.rs after the F10 repair): every sequence is compared together
with its END.  `with_end(o) = o.map(|x| Some(x)).concat(&[just(None)])`: an item `d` of source `i` reaches zip as
`Some(d)`; a completion of source `i` makes `concat` subscribe `just(None)`, so zip's observer `i` first receives
the item `None` and then the completion; an error is passed on unchanged.  The tuples are zipped and compared by the
closures of `sequenceEqualCode` (first tuple with unequal components ⇒ `false, complete`; zip completes ⇒
`true, complete`; error ⇒ that error).  `Some(d)` / `None` are encoded as `Data.optEnc` does (Kernel/Basic.lean):
`[d]` / `[]`. -/
namespace sequenceEqual

def endSome (d : Data) : Data := .lcons d .lnil
def endNone : Data := .lnil

/-- one event of source `p.1`, as zip's observers see it -/
def step (s : Over) (p : Nat × Ev) : Over × List Ev :=
  match p.2 with
  | .next d => sequenceEqualCode.step s (p.1, .next (endSome d))
  | .error e => sequenceEqualCode.step s (p.1, .error e)
  | .complete =>
    ((sequenceEqualCode.step (sequenceEqualCode.step s (p.1, .next endNone)).1 (p.1, .complete)).1,
      (sequenceEqualCode.step s (p.1, .next endNone)).2 ++
        (sequenceEqualCode.step (sequenceEqualCode.step s (p.1, .next endNone)).1 (p.1, .complete)).2)

def run (k : Nat) (H : History) : List Ev := runFrom step (Over.init k) H

/-- the history as zip's observers see it -/
def withEnd : History → History
  | [] => []
  | (i, .next d) :: H => (i, .next (endSome d)) :: withEnd H
  | (i, .error e) :: H => (i, .error e) :: withEnd H
  | (i, .complete) :: H => (i, .next endNone) :: (i, .complete) :: withEnd H

end sequenceEqual

/-! ### take_until (src/operators/take_until.rs:30-63): 0 = source, 1 = trigger -/
namespace takeUntil

def step (c : Ctl) (p : Nat × Ev) : Ctl × List Ev :=
  if c.isLive p.1 then
    if p.1 == 0 then
      match p.2 with
      | .next d => c.sinkNext d                          -- :51-53
      | .error e => (c.kill 0).sinkError e               -- :54-56
      | .complete => (c.kill 0).sinkCompleteForce        -- :57
    else if p.1 == 1 then
      match p.2 with
      | .next _ => c.sinkCompleteForce                   -- :37-39
      | _ => (c.kill 1, [])                              -- :40-41  `|_, _| {}`, `|_| {}`
    else (c, [])
  else (c, [])

def run (_k : Nat) (H : History) : List Ev := runFrom step (Ctl.init 2) H

end takeUntil

/-! ### skip_until (src/operators/skip_until.rs:33-71) -/
namespace skipUntil

structure State where
  ctl : Ctl
  enable : Bool
deriving Repr, DecidableEq, Inhabited

def step (s : State) (p : Nat × Ev) : State × List Ev :=
  if s.ctl.isLive p.1 then
    if p.1 == 0 then
      match p.2 with
      | .next d =>                                                                                        -- :57-61
        ({ s with ctl := if s.enable then (s.ctl.sinkNext d).1 else s.ctl },
          if s.enable then (s.ctl.sinkNext d).2 else [])
      | .error e => ({ s with ctl := ((s.ctl.kill 0).sinkError e).1 }, ((s.ctl.kill 0).sinkError e).2)     -- :62-64
      | .complete => ({ s with ctl := ((s.ctl.kill 0).sinkCompleteForce).1 }, ((s.ctl.kill 0).sinkCompleteForce).2) -- :65
    else if p.1 == 1 then
      match p.2 with
      | .next _ => ({ ctl := s.ctl.abort 1, enable := true }, [])                                         -- :42-45
      | _ => ({ s with ctl := s.ctl.kill 1 }, [])                                                         -- :46-47
    else (s, [])
  else (s, [])

def init : State := { ctl := Ctl.init 2, enable := false }

def run (_k : Nat) (H : History) : List Ev := runFrom step init H

end skipUntil

/-! ### sample (src/operators/sample.rs:31-74) -/
namespace sample

structure State where
  ctl : Ctl
  value : Option Data
deriving Repr, DecidableEq, Inhabited

def step (s : State) (p : Nat × Ev) : State × List Ev :=
  if s.ctl.isLive p.1 then
    if p.1 == 0 then
      match p.2 with
      | .next d => ({ s with value := some d }, [])                                                       -- :62-64
      | .error e => ({ s with ctl := ((s.ctl.kill 0).sinkError e).1 }, ((s.ctl.kill 0).sinkError e).2)     -- :65-67
      | .complete => ({ s with ctl := ((s.ctl.kill 0).sinkCompleteForce).1 }, ((s.ctl.kill 0).sinkCompleteForce).2) -- :68
    else if p.1 == 1 then
      match p.2 with
      | .next _ =>                                                                                        -- :40-50
        match s.value with
        | some v => ({ ctl := (s.ctl.sinkNext v).1, value := none }, (s.ctl.sinkNext v).2)
        | none => (s, [])
      | _ => ({ s with ctl := s.ctl.kill 1 }, [])                                                         -- :51-52
    else (s, [])
  else (s, [])

def init : State := { ctl := Ctl.init 2, value := none }

def run (_k : Nat) (H : History) : List Ev := runFrom step init H

end sample

/-! ### switch_on_next (src/operators/switch_on_next.rs:22-67): 0 = source, 1 = target -/
namespace switchOnNext

structure State where
  ctl : Ctl
  emitted : Bool
deriving Repr, DecidableEq, Inhabited

def step (s : State) (p : Nat × Ev) : State × List Ev :=
  if s.ctl.isLive p.1 then
    if p.1 == 0 then
      match p.2 with
      | .next d =>                                                                                        -- :35-41
        ({ s with ctl := if s.emitted then s.ctl.abort 0 else (s.ctl.sinkNext d).1 },
          if s.emitted then [] else (s.ctl.sinkNext d).2)
      | .error e => ({ s with ctl := ((s.ctl.kill 0).sinkError e).1 }, ((s.ctl.kill 0).sinkError e).2)     -- :42-44
      | .complete => ({ s with ctl := ((s.ctl.kill 0).sinkComplete 0).1 }, ((s.ctl.kill 0).sinkComplete 0).2) -- :45
    else if p.1 == 1 then
      match p.2 with
      | .next d => ({ ctl := (s.ctl.sinkNext d).1, emitted := true }, (s.ctl.sinkNext d).2)                -- :55-58
      | .error e => ({ s with ctl := ((s.ctl.kill 1).sinkError e).1 }, ((s.ctl.kill 1).sinkError e).2)     -- :59-61
      | .complete => ({ s with ctl := ((s.ctl.kill 1).sinkCompleteForce).1 }, ((s.ctl.kill 1).sinkCompleteForce).2) -- :62
    else (s, [])
  else (s, [])

def init : State := { ctl := Ctl.init 2, emitted := false }

def run (_k : Nat) (H : History) : List Ev := runFrom step init H

end switchOnNext

/-! ### flat_map (src/operators/flat_map.rs:27-60) over a hot outer source (index 0) whose items select
hot inner sources: item `x` is mapped to the source with index `inner x`.  `subs` lists the observers in
creation order as (serial, source index); serial 0 is the outer observer.  A hot source broadcasts an event
to the observers that were subscribed to it when the event started (snapshot). -/
namespace flatMap

structure State where
  ctl : Ctl
  subs : List (Nat × Nat)
  nextSerial : Nat
deriving Repr, DecidableEq, Inhabited

/-- default selector used by `runOp`: item `n` ↦ source `n mod k` (the convention of `fm_ref s0 … s(k-1)`
    in Machine/Case.lean) -/
def defaultInner (k : Nat) (d : Data) : Nat := (d.toInt.emod k).toNat

/-- one observer receives one event -/
def deliver (inner : Data → Nat) (s : State) (serial : Nat) (ev : Ev) : State × List Ev :=
  if s.ctl.isLive serial then
    if serial == 0 then
      match ev with
      | .next x =>                                                                                        -- :36-52
        ({ ctl := s.ctl.addObserver s.nextSerial, subs := s.subs ++ [(s.nextSerial, inner x)],
           nextSerial := s.nextSerial + 1 }, [])
      | .error e => ({ s with ctl := ((s.ctl.kill 0).sinkError e).1 }, ((s.ctl.kill 0).sinkError e).2)     -- :53-55
      | .complete => ({ s with ctl := ((s.ctl.kill 0).sinkComplete 0).1 }, ((s.ctl.kill 0).sinkComplete 0).2) -- :56-58
    else
      match ev with
      | .next d => ({ s with ctl := (s.ctl.sinkNext d).1 }, (s.ctl.sinkNext d).2)                          -- :42-44
      | .error e => ({ s with ctl := ((s.ctl.kill serial).sinkError e).1 }, ((s.ctl.kill serial).sinkError e).2) -- :45-47
      | .complete =>                                                                                      -- :48-50
        ({ s with ctl := ((s.ctl.kill serial).sinkComplete serial).1 }, ((s.ctl.kill serial).sinkComplete serial).2)
  else (s, [])

def broadcast (inner : Data → Nat) (ev : Ev) : State → List Nat → State × List Ev
  | s, [] => (s, [])
  | s, serial :: rest =>
    ((broadcast inner ev (deliver inner s serial ev).1 rest).1,
      (deliver inner s serial ev).2 ++ (broadcast inner ev (deliver inner s serial ev).1 rest).2)

def step (inner : Data → Nat) (s : State) (p : Nat × Ev) : State × List Ev :=
  broadcast inner p.2 s ((s.subs.filter (·.2 == p.1)).map (·.1))

def init : State := { ctl := Ctl.init 1, subs := [(0, 0)], nextSerial := 1 }

def run (k : Nat) (H : History) (inner : Data → Nat := defaultInner k) : List Ev :=
  runFrom (step inner) init H

end flatMap

/-! ### utils::ready_set_go (src/utils/ready_set_go.rs:11-14): `o.inner_subscribe(s); f();`
A hot source seen from one observer: it receives what is emitted while it is registered, up to and
including the first terminal. -/
namespace readySetGo

structure Hot where
  registered : Bool := false
  stopped : Bool := false
  got : List Ev := []
deriving Repr, DecidableEq, Inhabited

def Hot.subscribe (h : Hot) : Hot := { h with registered := true }

def Hot.emit (h : Hot) (ev : Ev) : Hot :=
  if h.registered && !h.stopped then { h with got := h.got ++ [ev], stopped := ev.isTerminal } else h

/-- the action `f` is a list of emissions into the hot source -/
def Hot.act (h : Hot) (action : List Ev) : Hot := action.foldl Hot.emit h

/-- as written: subscribe, then run the action -/
def run (action : List Ev) : List Ev := (Hot.act (Hot.subscribe {}) action).got

/-- the order ready_set_go exists to avoid: run the action, then subscribe -/
def runLate (action : List Ev) : List Ev := (Hot.subscribe (Hot.act {} action)).got

end readySetGo

/-! ### dispatcher and text format -/

/-- operator names: merge concat zip combine_latest amb take_until skip_until sample switch_on_next
    sequence_equal flat_map; unknown names give `[]` (use `knownOp` to tell) -/
def runOp (name : String) (k : Nat) (H : History) : List Ev :=
  if name == "merge" then merge.run k H
  else if name == "concat" then concat.run k H
  else if name == "zip" then zip.run k H
  else if name == "combine_latest" then combineLatest.run k H
  else if name == "amb" then amb.run k H
  else if name == "take_until" then takeUntil.run k H
  else if name == "skip_until" then skipUntil.run k H
  else if name == "sample" then sample.run k H
  else if name == "switch_on_next" then switchOnNext.run k H
  else if name == "sequence_equal" then sequenceEqual.run k H
  else if name == "flat_map" then flatMap.run k H
  else []

def opNames : List String :=
  ["merge", "concat", "zip", "combine_latest", "amb", "take_until", "skip_until", "sample",
   "switch_on_next", "sequence_equal", "flat_map"]

def knownOp (name : String) : Bool := opNames.contains name

/-- split a character list at blanks -/
def splitBlank : List Char → List Char → List (List Char)
  | cur, [] => if cur.isEmpty then [] else [cur.reverse]
  | cur, c :: cs =>
    if c == ' ' || c == '\t' || c == '\n' || c == '\r' then
      (if cur.isEmpty then [] else [cur.reverse]) ++ splitBlank [] cs
    else splitBlank (c :: cur) cs

/-- one history label `<src>:n<int>` | `<src>:e<nat>` | `<src>:c`, e.g. `0:n5`, `1:n-3`, `2:e7`, `0:c` -/
def parseLabel (tok : String) : Option (Nat × Ev) :=
  let cs := tok.toList
  let src := cs.takeWhile (· != ':')
  let rest := (cs.dropWhile (· != ':')).drop 1
  match (String.ofList src).toNat?, rest with
  | some i, 'n' :: v => (String.ofList v).toInt?.map fun n => (i, .next (.int n))
  | some i, 'e' :: v => (String.ofList v).toNat?.map fun e => (i, .error e)
  | some i, ['c'] => some (i, .complete)
  | _, _ => none

/-- blank-separated labels -/
def parseHistory (s : String) : Option History :=
  (splitBlank [] s.toList).mapM fun t => parseLabel (String.ofList t)

def showLabel (p : Nat × Ev) : String := toString p.1 ++ ":" ++ p.2.toStr

def showHistory (H : History) : String := " ".intercalate (H.map showLabel)

def showEvs (l : List Ev) : String := " ".intercalate (l.map Ev.toStr)

/-- text in, text out: `runOpText "merge" 2 "0:n1 1:n2 0:c 1:c" = some "n1 n2 c"` -/
def runOpText (name : String) (k : Nat) (s : String) : Option String :=
  if knownOp name then (parseHistory s).map fun H => showEvs (runOp name k H) else none

end Rx.Comb
