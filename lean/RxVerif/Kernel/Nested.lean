import RxVerif.Kernel.Run
/-
Model B for the two operators whose ITEMS are observables: `window_with_count` and `group_by`.

A test subscriber that receives an observable subscribes to it at once, from inside its `next` callback (that is what
the harness and model A's `testSub` do, and what the crate's own tests of the two operators do).  The k-th observable
announced to the root subscriber is therefore observed by subscriber k (the root is subscriber 0), and one run is
described by the GLOBAL trace of `(subscriber, event)` pairs in delivery order.

The machines below are the decision logic of the three closures of
  src/operators/window_with_count.rs   (`n`: items in the current window, `sbj`: the current window's subject)
  src/operators/group_by.rs            (`sbj_map`: key ↦ subject, insertion order = announcement order)
over a cold, well-formed source with a directly attached, passive root subscriber.
Theorems/C02d.lean proves them equal to the ReactiveX characterisation (Spec/Nested.lean).
-/
namespace Rx.Nested

abbrev Trace := List (Nat × Ev)

/-- what subscriber `s` saw -/
def proj (s : Nat) (t : Trace) : List Ev := t.filterMap fun p => if p.1 == s then some p.2 else none

@[simp] theorem proj_nil (s : Nat) : proj s [] = [] := rfl
@[simp] theorem proj_append (s : Nat) (a b : Trace) : proj s (a ++ b) = proj s a ++ proj s b := by
  simp [proj, List.filterMap_append]
theorem proj_cons (s : Nat) (p : Nat × Ev) (t : Trace) :
    proj s (p :: t) = (if p.1 == s then [p.2] else []) ++ proj s t := by
  simp only [proj, List.filterMap_cons]
  split <;> rename_i h <;> split at h <;> simp_all

/-- the terminal of the outer stream as seen by subscriber `s` -/
def endFor (s : Nat) (e : Ending) : Trace := e.toEvs.map fun ev => (s, ev)

/-! ### window_with_count -/

structure WinSt where
  k : Nat := 0     -- `*n`: items already in the current window
  w : Nat := 0     -- windows announced so far; while `k > 0` the current window's subscriber is `w`
deriving Repr, DecidableEq, Inhabited

/-- the `next` closure: decide under the locks (`open`, `close`), then announce / feed / complete the window -/
def winNext (count : Nat) (st : WinSt) (x : Data) : WinSt × Trace :=
  let opn := st.k == 0
  let w := if opn then st.w + 1 else st.w
  let close := st.k + 1 == count
  ({ k := if close then 0 else st.k + 1, w := w },
   (if opn then [(0, Ev.next (.obs w))] else []) ++ [(w, Ev.next x)] ++ (if close then [(w, Ev.complete)] else []))

/-- the `error` / `complete` closures: the current subject first (it has a subscriber only while a window is open),
    then the outer subscriber -/
def winEnd (st : WinSt) (e : Ending) : Trace :=
  (if st.k == 0 then [] else endFor st.w e) ++ endFor 0 e

def winRunFrom (count : Nat) : WinSt → List Data → Ending → Trace
  | st, [], e => winEnd st e
  | st, x :: xs, e => (winNext count st x).2 ++ winRunFrom count (winNext count st x).1 xs e

def winRun (count : Nat) (s : Stream) : Trace := winRunFrom count {} s.1 s.2

/-! ### group_by -/

def keyOf (key : Fn) (x : Data) : Int := (key.app x).toInt

/-- the keys that have a group, in announcement order (`sbj_map`; the facade's map iterates in insertion order);
    the group announced i-th (0-based) is observed by subscriber i + 1 -/
abbrev Groups := List Int

/-- position of the first occurrence -/
def pos (k : Int) : List Int → Nat
  | [] => 0
  | a :: as => if a == k then 0 else pos k as + 1

/-- the `next` closure: look the key up; a new key creates a subject, announces it, then feeds it -/
def grpNext (key : Fn) (g : Groups) (x : Data) : Groups × Trace :=
  let k := keyOf key x
  if k ∈ g then (g, [(pos k g + 1, Ev.next x)])
  else (g ++ [k], [(0, Ev.next (.obs (g.length + 1))), (g.length + 1, Ev.next x)])

/-- terminals go to every group (a snapshot of the map, in its order), then to the outer subscriber -/
def grpEnd (g : Groups) (e : Ending) : Trace :=
  (List.range g.length).flatMap (fun i => endFor (i + 1) e) ++ endFor 0 e

def grpRunFrom (key : Fn) : Groups → List Data → Ending → Trace
  | g, [], e => grpEnd g e
  | g, x :: xs, e => (grpNext key g x).2 ++ grpRunFrom key (grpNext key g x).1 xs e

def grpRun (key : Fn) (s : Stream) : Trace := grpRunFrom key [] s.1 s.2

def Trace.toStr (t : Trace) : String :=
  " ".intercalate (t.map fun p => "s" ++ toString p.1 ++ ":" ++ p.2.toStr)

end Rx.Nested
