import RxVerif.Kernel.Basic
/-
Semantics of a kernel driven by a cold, polite source (one that checks `is_subscribed` before every
emission) with a subscriber attached directly downstream.

`alive`     : the downstream observer is still subscribed (no terminal delivered, not finalized)
`cancelled` : the operator's upstream observer has been unsubscribed — the source stops emitting
These are exactly the two facts the StreamController calls of `src/internals/stream_controller.rs`
change, for an operator with a single upstream:
  sink_next        alive → deliver              | ¬alive → finalize (cancels upstream)
  sink_error       alive → deliver, finalize    | ¬alive → finalize
  sink_complete    alive → forget own serial, deliver complete, finalize (own upstream is NOT
                   unsubscribed: it is no longer registered) | ¬alive → finalize (cancels upstream)
  upstream_abort_observe  cancels upstream
  finalize         cancels upstream (if still registered), unsubscribes downstream
-/
namespace Rx

inductive Ending where
  | complete | error (e : Nat) | silent
deriving Repr, DecidableEq, Inhabited

abbrev Stream := List Data × Ending

def Ending.toEvs : Ending → List Ev
  | .complete => [.complete]
  | .error e => [.error e]
  | .silent => []

def Stream.toEvs (s : Stream) : List Ev := s.1.map .next ++ s.2.toEvs

structure KRun where
  alive : Bool := true
  cancelled : Bool := false
  registered : Bool := true     -- own serial still in the controller's map
  out : List Ev := []
deriving Repr, DecidableEq, Inhabited

def KRun.act (r : KRun) : Act → KRun
  | .emit d =>
    if r.alive then { r with out := r.out ++ [.next d] }
    else { r with cancelled := r.cancelled || r.registered, registered := false }
  | .emitAll ds =>
    if r.alive then { r with out := r.out ++ ds.map .next } else r
  | .fail e =>
    if r.alive then
      { r with out := r.out ++ [.error e], alive := false, cancelled := r.cancelled || r.registered, registered := false }
    else { r with cancelled := r.cancelled || r.registered, registered := false }
  | .complete =>
    if r.alive then { r with out := r.out ++ [.complete], alive := false, registered := false }
    else { r with cancelled := r.cancelled || r.registered, registered := false }
  | .abortSelf => { r with cancelled := true, registered := false }
  | .finalize => { r with alive := false, cancelled := r.cancelled || r.registered, registered := false }

def KRun.acts (r : KRun) (as : List Act) : KRun := as.foldl KRun.act r

/-- feed the items; the polite source stops as soon as its observer has been cancelled -/
def Kernel.feed {σ} (K : Kernel σ) : σ → KRun → List Data → σ × KRun
  | st, r, [] => (st, r)
  | st, r, x :: xs =>
    if r.cancelled then (st, r)
    else
      let (st', as) := K.onNext st x
      K.feed st' (r.acts as) xs

def Kernel.finish {σ} (K : Kernel σ) (st : σ) (r : KRun) : Ending → KRun
  | .silent => r
  | .complete => if r.cancelled then r else r.acts (K.onComplete st).2
  | .error e => if r.cancelled then r else r.acts (K.onError st e).2

/-- what a directly attached subscriber observes -/
def Kernel.run {σ} (K : Kernel σ) (s : Stream) : List Ev :=
  let (st, r) := K.feed K.init {} s.1
  (K.finish st r s.2).out

/-- and whether the source was told to stop before it ran out of events (C06) -/
def Kernel.runFull {σ} (K : Kernel σ) (s : Stream) : KRun :=
  let (st, r) := K.feed K.init {} s.1
  K.finish st r s.2

end Rx
