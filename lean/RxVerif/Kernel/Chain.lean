import RxVerif.Kernel.Run
/-
Model B for operator CHAINS.

`chainRun Ks s`   : the specification — each stage's `Kernel.run`, the output log of one stage read as a
                    `Stream` being the input of the next (first kernel innermost).
`CSt`, `deliver`, `finC`, `unsubO`, `scriptC` : the "flat chain machine": the handful of Booleans the n
                    StreamControllers of a chain `stdOp Kₙ (… (stdOp K₁ src))` keep, with the exact call
                    structure of src/internals/stream_controller.rs (downstream deliveries recurse towards
                    the subscriber, `unsubscribe`/`finalize` cascade towards the source).
Stages are numbered from the SUBSCRIBER's end: observer `0` is the subscriber's root observer, stage `j`
sits between observer `j+1` (its upstream observer, created by `new_observer`) and observer `j` (its
`subscriber`); observer `n` is the one handed to the source.
-/
namespace Rx

/-- a kernel of any state type -/
structure AnyKernel where
  σ : Type
  K : Kernel σ

/-- a kernel seen through its state cell: states are `Data` -/
structure DK where
  init : Data
  onNext : Data → Data → Data × List Act
  onError : Data → Nat → Data × List Act
  onComplete : Data → Data × List Act
  holdNext : Hold
  holdComplete : Hold

instance : Inhabited DK := ⟨⟨.unit, fun s _ => (s, []), fun s _ => (s, []), fun s => (s, []), .none, .none⟩⟩

def Kernel.dk {σ} (K : Kernel σ) : DK where
  init := K.enc K.init
  onNext := fun st x => (K.enc (K.onNext (K.dec st) x).1, (K.onNext (K.dec st) x).2)
  onError := fun st e => (K.enc (K.onError (K.dec st) e).1, (K.onError (K.dec st) e).2)
  onComplete := fun st => (K.enc (K.onComplete (K.dec st)).1, (K.onComplete (K.dec st)).2)
  holdNext := K.holdNext
  holdComplete := K.holdComplete

def DK.kernel (D : DK) : Kernel Data where
  init := D.init
  onNext := D.onNext
  onError := D.onError
  onComplete := D.onComplete
  enc := id
  dec := id
  holdNext := D.holdNext
  holdComplete := D.holdComplete

/-! ### the specification -/

/-- a log read as a stream: items up to the first terminal; `silent` when no terminal was logged -/
def evsStream : List Ev → Stream
  | [] => ([], .silent)
  | .next d :: l => (d :: (evsStream l).1, (evsStream l).2)
  | .error e :: _ => ([], .error e)
  | .complete :: _ => ([], .complete)

def chainRunEvs : List AnyKernel → List Ev → List Ev
  | [], l => l
  | A :: Ks, l => chainRunEvs Ks (A.K.run (evsStream l))

def chainRun (Ks : List AnyKernel) (s : Stream) : List Ev := chainRunEvs Ks s.toEvs

/-! ### the flat chain machine -/

def upd {α} (f : Nat → α) (i : Nat) (v : α) : Nat → α := fun k => if k = i then v else f k

structure CSt where
  sub : Nat → Bool      -- observer j still has its three callbacks
  ar : Nat → Bool       -- observer j still has its teardown (`finalize` of stage j)
  rg : Nat → Bool       -- stage j: upstream observer still registered in the controller's map
  st : Nat → Data       -- stage j: content of the kernel's state cell
  out : List Ev         -- what the subscriber has seen

def CSt.clear (x : CSt) (j : Nat) : CSt := { x with sub := upd x.sub j false, ar := upd x.ar j false }
def CSt.unreg (x : CSt) (j : Nat) : CSt := { x with rg := upd x.rg j false }

/-- `finalize` of stage `j`; `up` = `unsubscribe` of its upstream observer `j+1`.  (The re-entrant
    `finalize` run as observer `j`'s teardown finds an empty map and a dead subscriber: no effect.) -/
def finF (up : CSt → CSt) (j : Nat) (x : CSt) : CSt :=
  let x1 := (if x.rg j then up x else x).unreg j
  if x1.sub j then x1.clear j else x1

/-- `unsubscribe` of observer `j`, `m` stages further up -/
def unsubO : Nat → Nat → CSt → CSt
  | 0, j, x => x.clear j
  | m+1, j, x => if x.ar j then finF (unsubO m (j+1)) j (x.clear j) else x.clear j

section
variable (n : Nat) (ks : Nat → DK)

def upO (j : Nat) : CSt → CSt := unsubO (n - (j + 1)) (j + 1)
def finC (j : Nat) : CSt → CSt := finF (upO n j) j

variable (dn : Ev → CSt → CSt)

def sinkNextC (i : Nat) (d : Data) (x : CSt) : CSt :=
  if x.sub i then dn (.next d) x else finC n i x

def emitAllC (i : Nat) : List Data → CSt → CSt
  | [], x => x
  | d :: ds, x => if x.sub i then emitAllC i ds (sinkNextC n dn i d x) else x

def actC (i : Nat) (a : Act) (x : CSt) : CSt :=
  match a with
  | .emit d => sinkNextC n dn i d x
  | .emitAll ds => emitAllC n dn i ds x
  | .fail e => if x.sub i then finC n i (dn (.error e) x) else finC n i x
  | .complete => if x.sub i then finC n i (dn .complete (x.unreg i)) else finC n i x
  | .abortSelf => if x.rg i then upO n i (x.unreg i) else x.unreg i
  | .finalize => finC n i x

def actsC (i : Nat) (as : List Act) (x : CSt) : CSt := as.foldl (fun x a => actC n dn i a x) x

end

/-- delivery of one event into observer `j` (`Observer::next/error/complete`) -/
def deliver (n : Nat) (ks : Nat → DK) : Nat → Ev → CSt → CSt
  | 0, ev, x =>
    if x.sub 0 then
      { x with sub := if ev.isTerminal then upd x.sub 0 false else x.sub, out := x.out ++ [ev] }
    else x
  | j+1, ev, x =>
    if x.sub (j+1) then
      match ev with
      | .next d =>
        actsC n (deliver n ks j) j ((ks j).onNext (x.st j) d).2
          { x with st := upd x.st j ((ks j).onNext (x.st j) d).1 }
      | .error e =>
        actsC n (deliver n ks j) j ((ks j).onError (x.st j) e).2
          { x with sub := upd x.sub (j+1) false, st := upd x.st j ((ks j).onError (x.st j) e).1 }
      | .complete =>
        actsC n (deliver n ks j) j ((ks j).onComplete (x.st j)).2
          { x with sub := upd x.sub (j+1) false, st := upd x.st j ((ks j).onComplete (x.st j)).1 }
    else x

/-- the polite script feeding observer `n` -/
def scriptC (n : Nat) (ks : Nat → DK) : List Ev → CSt → CSt
  | [], x => x
  | ev :: evs, x => if x.sub n then scriptC n ks evs (deliver n ks n ev x) else x

def CSt.init (n : Nat) (ks : Nat → DK) : CSt :=
  { sub := fun _ => true, ar := fun j => decide (j < n), rg := fun _ => true,
    st := fun j => (ks j).init, out := [] }

/-- stage numbering from the subscriber's end: the LAST kernel of the list is stage 0 -/
def ksOf (Ks : List AnyKernel) : Nat → DK := fun j =>
  match Ks.reverse[j]? with
  | some A => A.K.dk
  | none => default

def chainFlat (Ks : List AnyKernel) (s : Stream) : CSt :=
  scriptC Ks.length (ksOf Ks) s.toEvs (CSt.init Ks.length (ksOf Ks))

end Rx
