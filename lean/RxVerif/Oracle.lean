import RxVerif.Sexp
/-
Property predicates evaluated on observation lines (of the implementation or of the model).
These are the decidable definitions the theorem statements use, applied to the text protocol.

An observation line:  ID | recs ; S=.. L=.. O=.. st=.. [#tok u=.. o=.. i=..] | ...
-/
namespace Rx.Oracle
open Rx

inductive ORec where
  | ev (s : Nat) (kind : Char) (payload : String)      -- kind ∈ n e c
  | probe (k : Nat) (kind : Char) (payload : String)   -- kind ∈ + ?
  | tap (k : Nat) (kind : Char) (payload : String)
deriving Repr, DecidableEq, Inhabited

structure StepObs where
  recs : List ORec
  subs : List Bool
  live : List Bool
  counts : List Nat
  status : String
  toks : Option (Int × Int × Int)
deriving Repr, Inhabited

def parseRec (t : String) : Option ORec :=
  match t.toList with
  | 's' :: rest =>
    let ds := rest.takeWhile Char.isDigit
    match rest.drop ds.length with
    | ':' :: k :: payload => (String.ofList ds).toNat?.map fun s => .ev s k (String.ofList payload)
    | _ => none
  | 'p' :: rest =>
    let ds := rest.takeWhile Char.isDigit
    match rest.drop ds.length with
    | k :: payload => (String.ofList ds).toNat?.map fun n => .probe n k (String.ofList payload)
    | _ => none
  | 't' :: rest =>
    let ds := rest.takeWhile Char.isDigit
    match rest.drop ds.length with
    | ':' :: k :: payload => (String.ofList ds).toNat?.map fun n => .tap n k (String.ofList payload)
    | _ => none
  | _ => none

def flags (s : String) : List Bool := s.toList.map (· == 'T')

def field (toks : List String) (pfx : String) : Option String :=
  (toks.find? (·.startsWith pfx)).map fun t => (t.drop pfx.length).toString

def parseStep (s : String) : Option StepObs :=
  match s.splitOn " ; " with
  | [recs, rest] =>
    let rtoks := (recs.splitOn " ").filter (· ≠ "")
    let toks := (rest.splitOn " ").filter (· ≠ "")
    match rtoks.mapM parseRec with
    | none => none
    | some rs =>
      let tk := match field toks "u=", field toks "o=", field toks "i=" with
        | some u, some o, some i => match u.toInt?, o.toInt?, i.toInt? with
          | some u, some o, some i => some (u, o, i)
          | _, _, _ => none
        | _, _, _ => none
      some {
        recs := rs
        subs := flags ((field toks "S=").getD "")
        live := flags ((field toks "L=").getD "")
        counts := (((field toks "O=").getD "").splitOn ",").filterMap String.toNat?
        status := (field toks "st=").getD "?"
        toks := tk }
  | _ => none

def parseLine (l : String) : Option (String × List StepObs) :=
  match l.splitOn " | " with
  | id :: steps => (steps.mapM parseStep).map fun ss => (id.trimAscii.toString, ss)
  | _ => none

/-! ### C01: observer contract -/

/-- `next*` then at most one terminal, nothing after — on the list of "is terminal" flags -/
def ContractB : List Bool → Bool
  | [] => true
  | t :: rest => if t then rest.isEmpty else ContractB rest

def logOf (steps : List StepObs) (s : Nat) : List Char :=
  (steps.flatMap (·.recs)).filterMap fun r => match r with
    | .ev s' k _ => if s' == s then some k else none
    | _ => none

def usersOf (steps : List StepObs) : List Nat :=
  ((steps.flatMap (·.recs)).filterMap fun r => match r with | .ev s _ _ => some s | _ => none).eraseDups

def contract (steps : List StepObs) : Option String :=
  (usersOf steps).findSome? fun s =>
    let l := logOf steps s
    if ContractB (l.map (· != 'n')) then none
    else some s!"subscriber {s} saw {String.ofList l}"

/-- the observer attached with `tap(next, error, complete)` is a subscriber too: within ONE subscription of the
    tapped observable its callbacks see `next*` then at most one terminal (the driver applies this only to cases
    in which every tap is subscribed exactly once) -/
def contractTap (steps : List StepObs) : Option String :=
  let recs := steps.flatMap (·.recs)
  let tags := (recs.filterMap fun r => match r with | .tap k _ _ => some k | _ => none).eraseDups
  tags.findSome? fun k =>
    let l := recs.filterMap fun r => match r with
      | .tap k' c _ => if k' == k then some c else none
      | _ => none
    if ContractB (l.map (· != 'n')) then none
    else some s!"tap observer {k} saw {String.ofList l}"

/-! ### C05: nothing after unsubscribe returned; is_subscribed is true on a prefix that ends at the
    first terminal or unsubscribe -/

/-- `unsubAt`: for each step index, the user unsubscribed by that step (from the case text);
    `selfUnsub`: the case contains reactions that unsubscribe from inside a callback — then a
    subscriber that received an event in a step may legitimately be unsubscribed at its end. -/
def c05 (steps : List StepObs) (unsubAt : List (Option Nat)) (selfUnsub : Bool) : Option String := Id.run do
  let mut ended : List Nat := []       -- users whose subscription ended in an earlier step
  let mut i := 0
  for st in steps do
    for r in st.recs do
      match r with
      | .ev s _ _ =>
        if ended.contains s then
          return some s!"subscriber {s} got an event in step {i} after its subscription had ended"
      | _ => pure ()
    let endedNow := (unsubAt.getD i none).toList ++
      (st.recs.filterMap fun r => match r with | .ev s k _ => if k != 'n' then some s else none | _ => none)
    if st.status == "ok" then
      let mut j := 0
      for b in st.subs do
        -- a reaction may unsubscribe this or ANOTHER subscriber: any delivery in this step can explain it
        let gotEvent := st.recs.any fun r => match r with | .ev _ _ _ => true | _ => false
        if b && (ended.contains j || endedNow.contains j) then
          return some s!"is_subscribed of subscriber {j} is still true after its subscription ended (step {i})"
        if !b && !(ended.contains j) && !(endedNow.contains j) then
          if selfUnsub && gotEvent then ended := j :: ended
          else return some s!"is_subscribed of subscriber {j} is false although it neither ended nor unsubscribed (step {i})"
        j := j + 1
    ended := endedNow ++ ended
    i := i + 1
  return none

/-! ### C06: once the (single) root subscription ended, every instrumented source sees
    is_subscribed = false before its next emission, no stashed observer is live, no subject holds
    an observer -/
def c06 (steps : List StepObs) (unsubAt : List (Option Nat)) : Option String := Id.run do
  let mut ended := false
  let mut i := 0
  for st in steps do
    for r in st.recs do
      match r with
      | .ev 0 k _ => if k != 'n' then ended := true
      | .probe p '?' "T" =>
        if ended then return some s!"source {p} still saw is_subscribed()=true before an emission after the subscription had ended (step {i})"
      | _ => pure ()
    if unsubAt.getD i none == some 0 then ended := true
    if ended && st.status == "ok" then
      if st.live.any id then return some s!"an observer handed to a source is still subscribed after the subscription ended (step {i})"
      if st.counts.any (· > 0) then return some s!"a subject still holds an observer after the subscription ended (step {i})"
    i := i + 1
  return none

/-! ### C10: a subject holds no observer whose subscription has ended (single-subject cases: every live
    subscription accounts for exactly one registration), and none at all right after its terminal
    (`termAt` marks the steps that call `error` / `complete` on it) -/
def c10 (steps : List StepObs) (termAt : List Bool) : Option String := Id.run do
  let mut i := 0
  let mut usersBefore := 0
  for st in steps do
    if st.status == "ok" then
      let held := st.counts.foldl (· + ·) 0
      let live := (st.subs.filter id).length
      if held > live then
        return some s!"the subject holds {held} observers but only {live} subscriptions are live (step {i})"
      -- subscribers that arrived DURING the terminal call (from inside a callback) arrived after the
      -- terminal's broadcast: like any later subscriber of a plain / async subject they are accepted
      let arrivedDuring := ((st.subs.drop usersBefore).filter id).length
      if termAt.getD i false && held > arrivedDuring then
        return some s!"the subject still holds an observer right after its terminal (step {i})"
      usersBefore := st.subs.length
    i := i + 1
  return none

/-! ### C07: no deadlock, no livelock -/
def c07 (steps : List StepObs) : Option String :=
  steps.findSome? fun st =>
    if st.status == "deadlock" then some "a lock was re-acquired by the thread that holds it"
    else if st.status == "budget" then some "step budget exhausted (livelock)"
    else none

/-! ### C17: after all subscriptions ended and the handles were dropped, no token is alive -/
def c17 (steps : List StepObs) : Option String := Id.run do
  let mut prevAllEnded := false
  for st in steps do
    match st.toks with
    | some (u, o, i) =>
      if prevAllEnded && (u != 0 || o != 0 || i != 0) then
        return some s!"live tokens after drop: user-callbacks={u} operator-closures={o} items={i}"
    | none => pure ()
    prevAllEnded := st.status == "ok" && st.subs.all (· == false)
  return none

/-! ### C14: every subscriber of the same observable saw the same sequence -/
def c14 (steps : List StepObs) : Option String :=
  let recs := steps.flatMap (·.recs)
  let logs := (usersOf steps).map fun s =>
    recs.filterMap fun r => match r with
      | .ev s' k p => if s' == s then some (k, p) else none
      | _ => none
  match logs with
  | [] => none
  | l0 :: rest =>
    match rest.findIdx? (· != l0) with
    | some i => some s!"subscriber {i + 1} saw a different sequence than subscriber 0"
    | none => none

end Rx.Oracle
