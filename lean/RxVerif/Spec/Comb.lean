import RxVerif.Kernel.Comb
/-
C03 — the ReactiveX characterisations of the combining operators, as plain list functions of the history
(global arrival order of the events of `k` hot sources).  Nothing here mentions a StreamController.
They are meant to be read for WELL-FORMED histories (`Rx.Comb.WellFormed`).
-/
namespace Rx.Comb

/-! ### vocabulary -/

/-- the events of source `i`, in order -/
def srcEvents (i : Nat) (H : History) : List Ev := (H.filter (·.1 == i)).map (·.2)

/-- the items of source `i`, in order -/
def srcItems (i : Nat) (H : History) : List Data :=
  H.filterMap fun p => if p.1 == i then (match p.2 with | .next d => some d | _ => none) else none

/-- all items of the history in arrival order -/
def itemsOf (H : History) : List Ev := (H.map (·.2)).filter Ev.isNext

/-- payload of the first error event -/
def firstError (H : History) : Option Nat :=
  H.findSome? fun p => match p.2 with | .error e => some e | _ => none

/-- the part of the history before the first error -/
def beforeError (H : History) : History := H.takeWhile fun p => !p.2.isError

def completedIn (H : History) (i : Nat) : Bool := H.any fun p => p.1 == i && p.2 == .complete

def allCompleted (k : Nat) (H : History) : Bool := (List.range k).all (completedIn H)

/-- `error e` if an error occurred (the first one); else `complete` iff every source in `R` completed -/
def terminalOf (R : List Nat) (H : History) : List Ev :=
  match firstError H with
  | some e => [.error e]
  | none => if R.all (completedIn H) then [.complete] else []

/-! ### merge: every item of every source in arrival order up to the first error; then that error;
otherwise `complete` once every source has completed (for a well-formed history that is its last event) -/

def mergeSpec (k : Nat) (H : History) : List Ev :=
  itemsOf (beforeError H) ++ terminalOf (List.range k) H

/-! ### amb: mirror exactly the first source to signal, terminal included -/

def ambSpec (H : History) : List Ev :=
  match H with
  | [] => []
  | p :: _ => srcEvents p.1 H

/-! ### concat over hot sources: source `i` counts only after sources `0..i-1` have completed (each seen in
its own turn).  `concatSeen s H` = the events of `H` that belong to the source whose turn it is, starting
at turn `s`; the turn advances when that source completes. -/

def concatSeen : Nat → History → History
  | _, [] => []
  | s, p :: H =>
    if p.1 == s then p :: concatSeen (if p.2 == .complete then s + 1 else s) H
    else concatSeen s H

def concatSpec (k : Nat) (H : History) : List Ev :=
  itemsOf (beforeError (concatSeen 0 H)) ++
    match firstError (concatSeen 0 H) with
    | some e => [.error e]
    | none => if completedIn (concatSeen 0 H) (k - 1) then [.complete] else []

/-! ### zip: the n-th output is the tuple of the n-th items of every source (`zipRows` = transpose
truncated to the shortest column; `zipRows_getElem?` in Theorems/C03 gives the index form) -/

def zipRowsAux : Nat → List (List Data) → List (List Data)
  | 0, _ => []
  | fuel+1, cs =>
    if cs.all (fun c => !c.isEmpty) then
      (cs.map fun c => c.headD .unit) :: zipRowsAux fuel (cs.map List.tail)
    else []

/-- the number of rows is bounded by the length of the first column -/
def zipRows (cs : List (List Data)) : List (List Data) := zipRowsAux (cs.headD []).length cs

/-- item columns of the sources `0..k-1` -/
def columns (k : Nat) (H : History) : List (List Data) := (List.range k).map fun i => srcItems i H

def tupleEv (row : List Data) : Ev := .next (Data.ofList row)

/-- ReactiveX zip completes as soon as a source completes with nothing left to pair; the characterisation
    below is the one the CODE satisfies: tuples of the items before the first error, then that error,
    otherwise `complete` only once EVERY source has completed (`zip_spec`, and `zip_completion_late`) -/
def zipSpec (k : Nat) (H : History) : List Ev :=
  (zipRows (columns k (beforeError H))).map tupleEv ++ terminalOf (List.range k) H

/-- the ReactiveX completion rule, for comparison: some source has completed and all its items are paired -/
def zipRxCompletes (k : Nat) (H : History) : Bool :=
  (List.range k).any fun i => completedIn H i && (srcItems i H).length == (zipRows (columns k H)).length

/-! ### combine_latest (ReactiveX): on each item, once every source has emitted, the tuple of the latest item of
every source (a source that has completed keeps its latest value; a source that completes without an item makes the
output silent); the first error ends the output at once; `complete` when every source has completed.  The case
language applies `combine_f` (a left fold of a binary function) to every tuple: `CombEval.foldEv`. -/

/-- the latest item of every source, once every source has emitted -/
def latestRow (k : Nat) (pre : History) : Option (List Data) :=
  if (columns k pre).all (fun c => !c.isEmpty) then some ((columns k pre).map fun c => c.getLastD .unit)
  else none

/-- `pre` = what has already happened -/
def clItems (k : Nat) : History → History → List Ev
  | _, [] => []
  | pre, p :: H =>
    (if p.2.isNext then ((latestRow k (pre ++ [p])).map tupleEv).toList else []) ++ clItems k (pre ++ [p]) H

def combineLatestSpec (k : Nat) (H : History) : List Ev :=
  clItems k [] (beforeError H) ++ terminalOf (List.range k) H

/-! ### take_until / skip_until / sample: 0 = source, 1 = trigger; only trigger ITEMS gate -/

def isTrigItem (p : Nat × Ev) : Bool := p.1 == 1 && p.2.isNext

/-- the source is mirrored up to the first trigger item; if the source has not terminated by then the
    output completes there -/
def takeUntilSpec (H : History) : List Ev :=
  let src := srcEvents 0 (H.takeWhile fun p => !isTrigItem p)
  if src.any Ev.isTerminal then src
  else if H.any isTrigItem then src ++ [.complete] else src

/-- source items before the first trigger item are dropped, everything else of the source (including a
    terminal that comes before the first trigger item) is mirrored -/
def skipUntilSpec (H : History) : List Ev :=
  (srcEvents 0 (H.takeWhile fun p => !isTrigItem p)).filter Ev.isTerminal ++
    srcEvents 0 (H.dropWhile fun p => !isTrigItem p)

/-- `cur` = source items since the last trigger item; one chunk per trigger item -/
def sampleChunks : List Data → History → List (List Data)
  | _, [] => []
  | cur, p :: H =>
    if p.1 == 0 then
      match p.2 with
      | .next d => sampleChunks (cur ++ [d]) H
      | _ => sampleChunks cur H
    else if isTrigItem p then cur :: sampleChunks [] H
    else sampleChunks cur H

/-- at each trigger item the latest source item since the previous trigger item, if any; the source's
    terminal is mirrored and ends the output -/
def sampleSpec (H : History) : List Ev :=
  (sampleChunks [] (H.takeWhile fun p => !(p.1 == 0 && p.2.isTerminal))).filterMap
      (fun c => c.getLast?.map Ev.next) ++
    (srcEvents 0 H).filter Ev.isTerminal

/-! ### sequence_equal (ReactiveX): the sequences are compared position by position, a sequence's END counting as
its last element (`endColumns`: the items of a source as `Some(d)` = `[d]`, followed by `None` = `[]` once the source
has completed — the encoding of `Data.optEnc`).
  * `false, complete` as soon as some position that EVERY source has reached (item or end) carries two different
    elements — so `1 2` against `1` is decided when the shorter source completes and the longer one has its second
    item, whichever comes last; with more than two sources the position must be reached by all of them (this is the
    timing of the code, which zips the extended sequences);
  * an error ends the output with that error if it arrives before such a position is complete
    (only the part of the history before the first error is compared);
  * otherwise `true, complete` when every source has completed (then all extended sequences are equal);
  * nothing while undecided. -/

/-- the items of source `i` followed by its end marker, if it has completed -/
def endColumn (i : Nat) (H : History) : List Data :=
  (srcItems i H).map (fun d => Data.lcons d .lnil) ++ (if completedIn H i then [Data.lnil] else [])

def endColumns (k : Nat) (H : History) : List (List Data) := (List.range k).map fun i => endColumn i H

/-- all components of a tuple are equal -/
def rowSame (row : List Data) : Bool := row.all fun x => x == row.headD .unit

def sequenceEqualSpec (k : Nat) (H : History) : List Ev :=
  if (zipRows (endColumns k (beforeError H))).all rowSame then
    match firstError H with
    | some e => [.error e]
    | none => if allCompleted k H then [.next (.bool true), .complete] else []
  else [.next (.bool false), .complete]

/-! ### flat_map over hot sources: an inner source counts from the moment an outer item selected it; a source
selected `n` times is subscribed `n` times and every event of it is delivered `n` times.
`fmSeen inner S H` = the outer events, and the events of the inner sources selected so far (`S`, with
multiplicity). -/

def fmSeen (inner : Data → Nat) : List Nat → History → History
  | _, [] => []
  | S, p :: H =>
    if p.1 == 0 then
      p :: fmSeen inner (match p.2 with | .next x => S ++ [inner x] | _ => S) H
    else List.replicate (S.count p.1) p ++ fmSeen inner S H

/-- items of all selected inner sources in arrival order up to the first error (of the outer or a selected
    inner source); `complete` iff the outer source and every selected inner source completed -/
def flatMapSpec (inner : Data → Nat) (H : History) : List Ev :=
  let S := fmSeen inner [] H
  itemsOf ((beforeError S).filter (·.1 != 0)) ++
    terminalOf (0 :: (srcItems 0 S).map inner) S

/-! ### dispatcher -/

/-- same names as `runOp`; `none` for an unknown name -/
def specOp (name : String) (k : Nat) (H : History) : Option (List Ev) :=
  if name == "merge" then some (mergeSpec k H)
  else if name == "concat" then some (concatSpec k H)
  else if name == "zip" then some (zipSpec k H)
  else if name == "combine_latest" then some (combineLatestSpec k H)
  else if name == "amb" then some (ambSpec H)
  else if name == "take_until" then some (takeUntilSpec H)
  else if name == "skip_until" then some (skipUntilSpec H)
  else if name == "sample" then some (sampleSpec H)
  else if name == "sequence_equal" then some (sequenceEqualSpec k H)
  else if name == "flat_map" then some (flatMapSpec (flatMap.defaultInner k) H)
  else none

def specOpText (name : String) (k : Nat) (s : String) : Option String :=
  match parseHistory s with
  | some H => (specOp name k H).map showEvs
  | none => none

end Rx.Comb
