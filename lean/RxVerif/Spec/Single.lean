import RxVerif.Kernel.Run
/-
ReactiveX list semantics of the single-source operators (DESIGN Appendix A): stream transformers
`Stream → Stream` written with the standard list functions.  Conventions the crate's own asserted
tests pin down are noted where they apply.
-/
namespace Rx.Spec
open Rx

def map (f : Fn) (s : Stream) : Stream := (s.1.map f.app, s.2)
def filter (p : Pred) (s : Stream) : Stream := (s.1.filter p.app, s.2)

/-- `take n`: completes right after the n-th item; `take 0` completes at the first item (convention) -/
def take (n : Nat) (s : Stream) : Stream :=
  if n = 0 then (if s.1 = [] then ([], s.2) else ([], .complete))
  else if n ≤ s.1.length then (s.1.take n, .complete) else s

def skip (n : Nat) (s : Stream) : Stream := (s.1.drop n, s.2)

def takeWhile (p : Pred) (s : Stream) : Stream :=
  if s.1.all p.app then s else (s.1.takeWhile p.app, .complete)

def skipWhile (p : Pred) (s : Stream) : Stream := (s.1.dropWhile p.app, s.2)

def takeLast (n : Nat) (s : Stream) : Stream :=
  match s.2 with
  | .complete => (s.1.drop (s.1.length - n), .complete)
  | e => ([], e)

def skipLast (n : Nat) (s : Stream) : Stream := (s.1.take (s.1.length - n), s.2)

def dedup : List Data → List Data
  | [] => []
  | [x] => [x]
  | x :: y :: rest => if x = y then dedup (y :: rest) else x :: dedup (y :: rest)

def distinctUntilChanged (s : Stream) : Stream := (dedup s.1, s.2)

def scanl1 (f : Data → Data → Data) : List Data → List Data
  | [] => []
  | x :: xs => x :: go x xs
where go (acc : Data) : List Data → List Data
  | [] => []
  | y :: ys => f acc y :: go (f acc y) ys

def scan (f : Fn2) (s : Stream) : Stream := (scanl1 f.app s.1, s.2)

def foldl1 (f : Data → Data → Data) : List Data → Option Data
  | [] => none
  | x :: xs => some (xs.foldl f x)

/-- aggregate operators: one item (if any) on completion, nothing but the terminal otherwise -/
def aggregate (r : Option Data) (s : Stream) : Stream :=
  match s.2 with
  | .complete => (r.toList, .complete)
  | e => ([], e)

def reduce (f : Fn2) (s : Stream) : Stream := aggregate (foldl1 f.app s.1) s
def sum (s : Stream) : Stream := aggregate (foldl1 (fun a b => .int (a.toInt + b.toInt)) s.1) s
def min (s : Stream) : Stream := aggregate (foldl1 (fun a b => if b.toInt < a.toInt then b else a) s.1) s
def max (s : Stream) : Stream := aggregate (foldl1 (fun a b => if b.toInt > a.toInt then b else a) s.1) s
def count (s : Stream) : Stream := aggregate (some (.int s.1.length)) s
def sumAndCount (s : Stream) : Stream :=
  aggregate ((foldl1 (fun a b => .int (a.toInt + b.toInt)) s.1).map fun t => .pair t (.int s.1.length)) s

def contains (t : Data) (s : Stream) : Stream :=
  if s.1.any (· == t) then ([.bool true], .complete) else aggregate (some (.bool false)) s

def all (p : Pred) (s : Stream) : Stream :=
  if s.1.all p.app then aggregate (some (.bool true)) s else ([.bool false], .complete)

def defaultIfEmpty (d : Data) (s : Stream) : Stream :=
  if s.1 = [] ∧ s.2 = .complete then ([d], .complete) else s

def ignoreElements (s : Stream) : Stream := ([], s.2)
/-- `time_interval` with the durations abstracted to `()`: one per item after the first, one more at completion -/
def timeInterval (s : Stream) : Stream :=
  ((s.1.drop 1).map (fun _ => Data.unit) ++ (if s.1 ≠ [] ∧ s.2 = .complete then [Data.unit] else []), s.2)
def startWith (ys : List Data) (s : Stream) : Stream := (ys ++ s.1, s.2)
def first (s : Stream) : Stream := take 1 s
def last (s : Stream) : Stream := takeLast 1 s

/-- 1-based; past the end: nothing but the source's terminal; `element_at 0` behaves like `take 0` -/
def elementAt (n : Nat) (s : Stream) : Stream := skip (n - 1) (take n s)

/-- full chunks of size `n` as they fill; the non-empty remainder only on completion (n ≥ 1) -/
def chunks (n : Nat) : Nat → List Data → List (List Data)
  | 0, _ => []
  | _, [] => []
  | fuel+1, xs => if xs.length < n then [xs] else xs.take n :: chunks n fuel (xs.drop n)

def bufferWithCount (n : Nat) (s : Stream) : Stream :=
  let cs := chunks n (s.1.length + 1) s.1
  let full := cs.filter (·.length == n)
  match s.2 with
  | .complete => (cs.map Data.ofList, .complete)
  | e => (full.map Data.ofList, e)

def materialize (s : Stream) : Stream :=
  match s.2 with
  | .complete => (s.1.map .mNext ++ [.mComplete], .complete)
  | .error e => (s.1.map .mNext ++ [.mErr e], .complete)
  | .silent => (s.1.map .mNext, .silent)

/-- stops at the first terminal material -/
def dematItems : List Data → List Data × Option Ending
  | [] => ([], none)
  | .mNext d :: rest => let (xs, t) := dematItems rest; (d :: xs, t)
  | .mErr e :: _ => ([], some (.error e))
  | .mComplete :: _ => ([], some .complete)
  | _ :: rest => let (xs, t) := dematItems rest; (.unit :: xs, t)

def dematerialize (s : Stream) : Stream :=
  match dematItems s.1 with
  | (xs, some t) => (xs, t)
  | (xs, none) => (xs, s.2)

def identity (s : Stream) : Stream := s

end Rx.Spec
