import RxVerif.Spec.Single
import RxVerif.Machine.Case
import RxVerif.Kernel.Retry
import RxVerif.Spec.Retry
import RxVerif.Spec.Nested
/-
Evaluating the ReactiveX specification (and, independently, the chain of kernel runs) on a case of the
fragment "one subscriber, a chain of single-source operators over one cold well-formed source".
The check compares these with what the implementation delivered (C02, C04).
-/
namespace Rx.Spec
open Rx Sexp

def wellFormed : List Ev → Option Stream
  | [] => some ([], .silent)
  | [.complete] => some ([], .complete)
  | [.error e] => some ([], .error e)
  | .next d :: rest => (wellFormed rest).map fun s => (d :: s.1, s.2)
  | _ => none

def evsToStream (l : List Ev) : Stream :=
  (l.filterMap fun e => match e with | .next d => some d | _ => none,
   match l.getLast? with
   | some .complete => .complete
   | some (.error e) => .error e
   | _ => .silent)

/-- one operator layer: its list specification, and the same layer as a kernel run -/
def layer (head : String) (args : List Sexp) : Option ((Stream → Stream) × (Stream → Stream)) :=
  let k {σ} (K : Kernel σ) : Stream → Stream := fun s => evsToStream (K.run s)
  match head, args with
  | "map", [f] => (parseFn f).map fun f => (map f, k (kMap f))
  | "filter", [p] => (parsePred p).map fun p => (filter p, k (kFilter p))
  | "take", [n] => n.asNat.map fun n => (take n, k (kTake n))
  | "skip", [n] => n.asNat.map fun n => (skip n, k (kSkip n))
  | "take_while", [p] => (parsePred p).map fun p => (takeWhile p, k (kTakeWhile p))
  | "skip_while", [p] => (parsePred p).map fun p => (skipWhile p, k (kSkipWhile p))
  | "take_last", [n] => n.asNat.map fun n => (takeLast n, k (kTakeLast n))
  | "skip_last", [n] => n.asNat.map fun n => (skipLast n, k (kSkipLast n))
  | "first", [] => some (first, fun s => k kId (k (kTake 1) s))
  | "last", [] => some (last, fun s => k kId (k (kTakeLast 1) s))
  | "element_at", [n] => n.asNat.map fun n => (elementAt n, fun s => k kId (k (kSkip (n - 1)) (k (kTake n) s)))
  | "distinct_until_changed", [] => some (distinctUntilChanged, k kDistinct)
  | "scan", [f] => (parseFn2 f).map fun f => (scan f, k (kScan f))
  | "reduce", [f] => (parseFn2 f).map fun f => (reduce f, k (kReduce f))
  | "sum", [] => some (sum, k kSum)
  | "min", [] => some (min, k kMin)
  | "max", [] => some (max, k kMax)
  | "count", [] => some (count, k kCount)
  | "sum_and_count", [] => some (sumAndCount, k kSumAndCount)
  | "contains", [v] => (parseData v).map fun v => (contains v, k (kContains v))
  | "all", [p] => (parsePred p).map fun p => (all p, all p)
  | "default_if_empty", [v] => (parseData v).map fun v => (defaultIfEmpty v, k (kDefaultIfEmpty v))
  | "ignore_elements", [] => some (ignoreElements, k kIgnoreElements)
  | "start_with", [.list (.atom "l" :: vs)] => (vs.mapM parseData).map fun ys => (startWith ys, startWith ys)
  | "buffer_with_count", [n] => n.asNat.map fun n => (bufferWithCount n, k (kBuffer n))
  | "materialize", [] => some (materialize, k kMaterialize)
  | "dematerialize", [] => some (dematerialize, k kDematerialize)
  | "map_to_any", [] => some (identity, k kId)
  | "tap", [_] => some (identity, k kId)
  | "timestamp", [] => some (identity, k kId)
  | "observe_on_d", [] => some (identity, k kId)
  | "subscribe_on_d", [] => some (identity, k kId)
  | "delay0", [] => some (identity, k kId)
  | "time_interval", [] => some (timeInterval, k kTimeInterval)
  | _, _ => none

/-- (spec stream, kernel-chain stream) of a pipeline in the fragment -/
partial def evalPipe : Sexp → Option (Stream × Stream)
  | .list [.atom "just", v] => (parseData v).map fun d => (([d], .complete), ([d], .complete))
  | .list (.atom "from_iter" :: vs) => (vs.mapM parseData).map fun ds => ((ds, .complete), (ds, .complete))
  | .list (.atom "from_iter_lazy" :: vs) => (vs.mapM parseData).map fun ds => ((ds, .complete), (ds, .complete))
  | .list [.atom "range", a, n] => do
      let a ← a.asInt; let n := (← n.asInt).toNat      -- a non-positive count is the empty range
      let ds := (List.range n).map fun (i : Nat) => Data.int (a + (i : Int))
      some ((ds, .complete), (ds, .complete))
  | .list [.atom "empty"] => some (([], .complete), ([], .complete))
  | .list [.atom "never"] => some (([], .silent), ([], .silent))
  | .list [.atom "error", e] => e.asNat.map fun e => (([], .error e), ([], .error e))
  | .list [.atom "start", v] => (parseData v).map fun d => (([d], .complete), ([d], .complete))
  | .list [.atom "defer", p] => evalPipe p
  | .list [.atom "timer_d"] => some (([.unit], .complete), ([.unit], .complete))
  -- the endless counter under `take n`: interval(d) emits 0,1,2,.. until unsubscribed.  Spec: the first n; kernel
  -- side: the take kernel over a silent prefix that is one item longer than it needs
  | .list [.atom "take", n, .list [.atom "interval_d"]] => n.asNat.map fun n =>
      let pre (m : Nat) : List Data := (List.range m).map fun (i : Nat) => Data.int (i : Int)
      ((pre n, .complete), evsToStream ((kTake n).run (pre (n + 1), .silent)))
  | .list [.atom "from_result_ok", v] => (parseData v).map fun d => (([d], .complete), ([d], .complete))
  | .list [.atom "from_result_err", e] => e.asNat.map fun e => (([], .error e), ([], .error e))
  | .list (.atom "cold" :: _ :: evs) => do
      let s ← (evs.mapM parseEv) >>= wellFormed
      some (s, s)
  | .list (.atom h :: rest) =>
      match rest.getLast? with
      | some inner => do
          let (f, g) ← layer h rest.dropLast
          let (s, t) ← evalPipe inner
          some (f s, g t)
      | none => none
  | _ => none

def evStr (l : List Ev) : String := " ".intercalate (l.map fun e => "s0:" ++ e.toStr)

/-- `ID | <spec events> | <kernel-chain events>` or `ID -` when the case is outside the fragment -/
def specLine (line : String) : String :=
  match Sexp.parse line with
  | some (.list [.atom "case", .atom id, .list [.atom "sub", .list [.atom "window_with_count", n, inner], .list [.atom "react"]]]) =>
    -- items are observables: the global (subscriber, event) trace.  Spec side: the chunk-by-chunk trace of
    -- Spec/Nested.lean over the list spec of the inner pipeline; kernel side: the pure machine of the operator's
    -- closures (Kernel/Nested.lean) over the kernel chain of the inner pipeline (C02d: window_trace / _root / _inner)
    match n.asNat, evalPipe inner with
    | some n, some (s, t) =>
      if n == 0 then id ++ " -" else
      id ++ " | " ++ (windowTrace n 0 (windowChunks n s) s.2).toStr ++ " | " ++ (Rx.Nested.winRun n t).toStr
    | _, _ => id ++ " -"
  | some (.list [.atom "case", .atom id, .list [.atom "sub", .list [.atom "group_by", f, inner], .list [.atom "react"]]]) =>
    -- group_by: the pure machine on both streams; its per-subscriber projections are the ReactiveX characterisation
    -- (C02d: group_root / group_inner); the order of the groups' terminals is the map's insertion order
    match parseFn f, evalPipe inner with
    | some f, some (s, t) => id ++ " | " ++ (Rx.Nested.grpRun f s).toStr ++ " | " ++ (Rx.Nested.grpRun f t).toStr
    | _, _ => id ++ " -"
  | some (.list [.atom "case", .atom id, .list [.atom "sub", p, .list [.atom "react"]]]) =>
    match evalPipe p with
    | some (s, t) => id ++ " | " ++ evStr s.toEvs ++ " | " ++ evStr t.toEvs
    | none => id ++ " -"
  | some (.list [.atom "case", .atom id, .list [.atom "counter", _],
      .list [.atom "sub", .list [.atom op, arg, .list (.atom "flaky" :: _ :: _ :: scripts)], .list [.atom "react"]]]) =>
    -- recovery operators over a flaky source: spec (Spec/Retry.lean) and pure mirror (Kernel/Retry.lean)
    match scripts.mapM (fun s => match s with | .list evs => evs.mapM parseEv | _ => none) with
    | some ss =>
      let attempts := ss.map Stream.ofScript
      if attempts.isEmpty then id ++ " -" else
      match op with
      | "retry" =>
        match arg.asNat with
        | some n =>
          if n == 0 && attempts.all (fun a => match a.2 with | .error _ => true | _ => false) then id ++ " -" else
          let fuel := attempts.length + n + 1
          id ++ " | " ++ evStr (retrySpec n attempts).1 ++ " | " ++ evStr (retryRun n attempts fuel).1
        | none => id ++ " -"
      | "retry_when" =>
        match parseEPred arg with
        | some p =>
          let fuel := attempts.length + 1
          id ++ " | " ++ evStr (retryWhenSpec p.app attempts).1 ++ " | " ++ evStr (retryWhenRun p.app attempts fuel).1
        | none => id ++ " -"
      | _ => id ++ " -"
    | none => id ++ " -"
  | some (.list (.atom "case" :: .atom id :: _)) => id ++ " -"
  | _ => "PARSE-ERROR " ++ line

end Rx.Spec
