import RxVerif.Kernel.Run
/-
List-level specification of `retry`, `retry_when`, `on_error_resume_next` over a flaky cold source.
Independent of `Kernel/Retry.lean` (only `Stream`, `Ending`, `Ev` are shared).

A flaky source is a non-empty list of attempts; attempt number i (1-based) is the i-th element, the last
element for every i beyond the end of the list.

  k  = number of the first attempt that does NOT fail retryably   (`firstStop`, `none` = there is none)
  retry(max):     retryable = "ends with an error";  m = k if max = 0, else min k max  (max = TOTAL number of
                  subscriptions allowed — crate convention; so retry(1) never resubscribes)
  retry_when(p):  retryable = "ends with an error e with p e";  m = k
  output = items of attempts 1..m in order, then the terminal of attempt m;  subscriptions = m.
-/
namespace Rx.Spec
open Rx

/-- attempt number `i+1` of the flaky source (0-based `i`): the list repeats its last element forever -/
def attemptNo : List Stream → Nat → Stream
  | [], _ => ([], .silent)
  | [s], _ => s
  | s :: _ :: _, 0 => s
  | _ :: s' :: rest, i+1 => attemptNo (s' :: rest) i

/-- 1-based number of the first attempt that is not `retryable`; `none` if every attempt (hence, the list
repeating its last element, every attempt ever made) is retryable -/
def firstStop (retryable : Stream → Bool) : List Stream → Option Nat
  | [] => none
  | s :: rest => if retryable s then (firstStop retryable rest).map (· + 1) else some 1

/-- the stream ends with an error -/
def failed (s : Stream) : Bool :=
  match s.2 with
  | .error _ => true
  | _ => false

/-- the stream ends with an error that satisfies `p` -/
def failedWith (p : Nat → Bool) (s : Stream) : Bool :=
  match s.2 with
  | .error e => p e
  | _ => false

/-- items of attempts 1..m in order, then the terminal of attempt m; m subscriptions -/
def attemptsUpTo (attempts : List Stream) (m : Nat) : List Ev × Nat :=
  ((List.range m).flatMap (fun i => (attemptNo attempts i).1.map Ev.next) ++ (attemptNo attempts (m - 1)).2.toEvs, m)

/-- number of subscriptions `retry(max)` makes.  `max = 0` over a source that never stops failing has no
finite behaviour (the Rust recursion does not return); the value 0 there is a placeholder. -/
def retryCount (max : Nat) (attempts : List Stream) : Nat :=
  match firstStop failed attempts with
  | some k => if max = 0 then k else min k max
  | none => max

def retrySpec (max : Nat) (attempts : List Stream) : List Ev × Nat :=
  attemptsUpTo attempts (retryCount max attempts)

/-- `retry_when(p)`; `none` = no finite behaviour (every attempt fails with an error satisfying `p`) -/
def retryWhenSpec? (p : Nat → Bool) (attempts : List Stream) : Option (List Ev × Nat) :=
  (firstStop (failedWith p) attempts).map (attemptsUpTo attempts)

def retryWhenSpec (p : Nat → Bool) (attempts : List Stream) : List Ev × Nat :=
  attemptsUpTo attempts ((firstStop (failedWith p) attempts).getD 0)

/-- `on_error_resume_next(f)`: the items of `s`, then — if `s` ends with `error e` — everything `f e` plays,
otherwise the terminal of `s` -/
def resumeSpec (f : Nat → Stream) (s : Stream) : List Ev :=
  s.1.map Ev.next ++
    (match s.2 with
     | .error e => (f e).toEvs
     | t => t.toEvs)

end Rx.Spec
