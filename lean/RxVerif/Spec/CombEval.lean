import RxVerif.Kernel.Comb
import RxVerif.Spec.Comb
import RxVerif.Kernel.SubjM
import RxVerif.Kernel.ConnM
import RxVerif.Machine.Case
/-
Direct ties for C03 / C10 / C13: a case that drives plain hot subjects through ONE combining operator
(resp. one subject / one connectable subscribed directly) is translated into the history (call
sequence) of the pure machines `Rx.Comb` / `Rx.SubjM` / `Rx.ConnM` and into the ReactiveX spec, so that
the check can compare  implementation = code machine (theorem LHS) = spec (theorem RHS).
-/
namespace Rx.CombEval
open Rx Sexp

def foldEv (f : Fn2) : Ev → Ev
  | .next d => (match d.toList with
      | a :: rest => .next (rest.foldl f.app a)
      | [] => .next .unit)
  | e => e

def evStr (l : List Ev) : String := " ".intercalate (l.map fun e => "s0:" ++ e.toStr)

def indexOf? (names : List String) (n : String) : Option Nat :=
  let i := names.findIdx (· == n)
  if i < names.length then some i else none

/-- `(case ID (subject n plain)... (sub (OP [fn] (ref n0) (ref n1) ...) (react)) (hnext ..)...)` -/
def combLine (line : String) : String :=
  match Sexp.parse line with
  | some (.list (.atom "case" :: .atom id :: steps)) =>
    let decls := steps.takeWhile fun s => match s with | .list (.atom "subject" :: _) => true | _ => false
    let rest := steps.drop decls.length
    let plain := decls.all fun s => match s with | .list [.atom "subject", _, .atom "plain"] => true | _ => false
    match rest with
    | .list [.atom "sub", .list (.atom op :: args), .list [.atom "react"]] :: drive =>
      if !plain || !Comb.knownOp op then id ++ " -" else
      let (fn2, srcArgs) := if op == "combine_latest" then (args.head?.bind parseFn2, args.drop 1) else (none, args)
      let names := srcArgs.filterMap fun a => match a with | .list [.atom "ref", .atom n] => some n | _ => none
      if names.length != srcArgs.length || names.eraseDups.length != names.length || names.isEmpty ||
         (op == "combine_latest" && fn2.isNone) || op == "flat_map" then id ++ " -" else
      let hist := drive.mapM fun s => match s with
        | .list [.atom "hnext", .atom n, v] => do some ((← indexOf? names n), Ev.next (← parseData v))
        | .list [.atom "herror", .atom n, e] => do some ((← indexOf? names n), Ev.error (← e.asNat))
        | .list [.atom "hcomplete", .atom n] => do some ((← indexOf? names n), Ev.complete)
        | _ => none
      match hist with
      | none => id ++ " -"
      | some H =>
        let k := names.length
        let post : List Ev → List Ev := match fn2 with | some f => fun l => l.map (foldEv f) | none => fun l => l
        let code := post (Comb.runOp op k H)
        let spec := (Comb.specOp op k H).map post
        id ++ " | " ++ evStr code ++ " | " ++ (match spec with | some s => evStr s | none => "-") ++
          " | wf=" ++ (if Comb.wfFrom (List.range k) H then "T" else "F")
    | _ => id ++ " -"
  | _ => "PARSE-ERROR " ++ line

/-- ReactiveX AsyncSubject on a call sequence: nothing before the terminal; on completion every current
    subscriber gets the LAST item the subject ever received (if any) and `complete`; on error just the
    error; a subscriber arriving after the terminal gets the same hand-over at once.
    Returns the log of each subscriber id `0..n-1`. -/
def asyncRx (cs : List SubjM.Call) (n : Nat) : List (List Ev) :=
  let rec go (cs : List SubjM.Call) (last : Option Data) (term : Option Ev) (live : List Nat)
      (logs : List (List Ev)) : List (List Ev) :=
    match cs with
    | [] => logs
    | c :: rest =>
      let handover : List Ev := match term with
        | some (.error e) => [.error e]
        | some _ => (match last with | some d => [.next d] | none => []) ++ [.complete]
        | none => []
      match c with
      | .next d => if term.isSome then go rest last term live logs else go rest (some d) term live logs
      | .subscribe o =>
        if term.isSome then go rest last term live (logs.modify o fun _ => handover)
        else go rest last term (live ++ [o]) logs
      | .unsubscribe o => go rest last term (live.filter (· != o)) logs
      | .error e =>
        if term.isSome then go rest last term live logs
        else go rest last (some (.error e)) [] (live.foldl (fun l o => l.modify o fun _ => [.error e]) logs)
      | .complete =>
        if term.isSome then go rest last term live logs
        else
          let h : List Ev := (match last with | some d => [.next d] | none => []) ++ [.complete]
          go rest last (some .complete) [] (live.foldl (fun l o => l.modify o fun _ => h) logs)
  go cs none none [] (List.replicate n [])

/-- `(case ID (subject a KIND [v]) step...)` with every subscription `(sub (ref a) (react))` -/
def subjLine (line : String) : String :=
  match Sexp.parse line with
  | some (.list (.atom "case" :: .atom id :: .list (.atom "subject" :: .atom nm :: .atom kind :: init) :: steps)) =>
    let k : Option SubjM.Kind := match kind, init with
      | "plain", [] => some .plain
      | "replay", [] => some .replay
      | "async", [] => some .async
      | "behavior", [v] => (parseData v).map .behavior
      | _, _ => none
    -- user ids are allocated in subscription order
    let rec go (ss : List Sexp) (next : Nat) (acc : List SubjM.Call) : Option (List SubjM.Call × Nat) :=
      match ss with
      | [] => some (acc.reverse, next)
      | .list [.atom "sub", .list [.atom "ref", .atom n], .list [.atom "react"]] :: r =>
        if n == nm then go r (next + 1) (.subscribe next :: acc) else none
      | .list [.atom "unsub", u] :: r => match u.asNat with
        | some u => go r next (.unsubscribe u :: acc)
        | none => none
      | .list [.atom "hnext", .atom n, v] :: r => match parseData v with
        | some d => if n == nm then go r next (.next d :: acc) else none
        | none => none
      | .list [.atom "herror", .atom n, e] :: r => match e.asNat with
        | some e => if n == nm then go r next (.error e :: acc) else none
        | none => none
      | .list [.atom "hcomplete", .atom n] :: r => if n == nm then go r next (.complete :: acc) else none
      | _ => none
    match k, go steps 0 [] with
    | some k, some (cs, n) =>
      let st := SubjM.run k cs
      let rx : String := match k with
        | .async => " | rx: " ++ " ".intercalate (((asyncRx cs n).zipIdx).flatMap fun (l, o) => l.map fun e => "s" ++ toString o ++ ":" ++ e.toStr)
        | _ => ""
      id ++ " | " ++ " ".intercalate ((List.range n).flatMap fun o => (SubjM.logOf st o).map fun e => "s" ++ toString o ++ ":" ++ e.toStr) ++
        " | reg=" ++ toString (SubjM.registered st).length ++ rx
    | _, _ => id ++ " -"
  | some (.list (.atom "case" :: .atom id :: _)) => id ++ " -"
  | _ => "PARSE-ERROR " ++ line

/-- `(case ID [(subject a plain)] (conn x KIND SRC) step...)`, SRC = `(ref a)` (hot) or `(cold tag ev...)`, every
    subscription `(sub (ref x) (react))` -/
def connLine (line : String) : String :=
  match Sexp.parse line with
  | some (.list (.atom "case" :: .atom id :: steps)) =>
    let (hotName, rest) : Option String × List Sexp := match steps with
      | .list [.atom "subject", .atom a, .atom "plain"] :: r => (some a, r)
      | r => (none, r)
    match rest with
    | .list [.atom "conn", .atom x, .atom kind, srcE] :: drive =>
      let src : Option ConnM.Src := match srcE, hotName with
        | .list [.atom "ref", .atom a], some h => if a == h then some .hot else none
        | .list (.atom "cold" :: _ :: evs), _ => (evs.mapM parseEv).map .cold
        | _, _ => none
      let rec go (ss : List Sexp) (next : Nat) (acc : List ConnM.Call) : Option (List ConnM.Call × Nat) :=
        match ss with
        | [] => some (acc.reverse, next)
        | .list [.atom "sub", .list [.atom "ref", .atom n], .list [.atom "react"]] :: r =>
          if n == x then go r (next + 1) (.subscribe next :: acc) else none
        | .list [.atom "unsub", u] :: r => match u.asNat with
          | some u => go r next (.unsubscribe u :: acc)
          | none => none
        | .list [.atom "connect", .atom n] :: r => if n == x then go r next (.connect :: acc) else none
        | .list [.atom "disconnect", .atom n] :: r => if n == x then go r next (.disconnect :: acc) else none
        | .list [.atom "hnext", .atom n, v] :: r => match parseData v with
          | some d => if some n == hotName then go r next (.srcNext d :: acc) else none
          | none => none
        | .list [.atom "herror", .atom n, e] :: r => match e.asNat with
          | some e => if some n == hotName then go r next (.srcError e :: acc) else none
          | none => none
        | .list [.atom "hcomplete", .atom n] :: r => if some n == hotName then go r next (.srcComplete :: acc) else none
        | _ => none
      match ConnM.parseKind kind, src, go drive 0 [] with
      | some k, some s, some (cs, n) =>
        let st := ConnM.run k s cs
        id ++ " | " ++ " ".intercalate ((List.range n).flatMap fun o => (ConnM.logOf st o).map fun e => "s" ++ toString o ++ ":" ++ e.toStr) ++
          " | subs=" ++ toString (ConnM.sourceSubscriptions st) ++ " reg=" ++ toString (SubjM.registered st.sub).length
      | _, _, _ => id ++ " -"
    | _ => id ++ " -"
  | _ => "PARSE-ERROR " ++ line

end Rx.CombEval
