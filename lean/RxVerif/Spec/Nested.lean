import RxVerif.Spec.Single
import RxVerif.Kernel.Nested
/-
ReactiveX characterisation of the two operators whose items are observables (C02), stated per subscriber:

* `window_with_count n` (n ≥ 1): the source's items are cut into the same chunks `buffer_with_count n` emits
  (`Spec.chunks`); the root subscriber receives one observable per chunk, in order, then the source's terminal;
  the subscriber of the j-th observable receives exactly chunk j, then `complete` if the chunk is full, otherwise
  (the source ended inside the window) the source's terminal.
* `group_by key`: the root subscriber receives one observable per distinct key, in order of first occurrence, then the
  source's terminal; the subscriber of the observable announced for key `k` receives exactly the items whose key is
  `k`, in source order, then the source's terminal.
-/
namespace Rx.Spec
open Rx Rx.Nested

/-! ### window_with_count -/

def windowChunks (count : Nat) (s : Stream) : List (List Data) := chunks count (s.1.length + 1) s.1

/-- what the root subscriber sees -/
def windowRoot (count : Nat) (s : Stream) : List Ev :=
  (List.range (windowChunks count s).length).map (fun j => Ev.next (.obs (j + 1))) ++ s.2.toEvs

/-- what the subscriber of the j-th window (0-based) sees -/
def windowInner (count : Nat) (s : Stream) (j : Nat) : List Ev :=
  match (windowChunks count s)[j]? with
  | none => []
  | some c => c.map Ev.next ++ (if c.length == count then [Ev.complete] else s.2.toEvs)

/-- the whole trace, structurally over the chunk list: window `w+1` is announced, carries its chunk, and ends -/
def windowTrace (count : Nat) : Nat → List (List Data) → Ending → Trace
  | _, [], e => endFor 0 e
  | w, c :: cs, e =>
    (0, Ev.next (.obs (w + 1))) :: c.map (fun x => (w + 1, Ev.next x)) ++
      ((if c.length == count then [(w + 1, Ev.complete)] else endFor (w + 1) e) ++ windowTrace count (w + 1) cs e)

/-! ### group_by -/

/-- the distinct keys in order of first occurrence, starting from the keys already known -/
def addKeys (key : Fn) : List Int → List Data → List Int
  | ks, [] => ks
  | ks, x :: xs => addKeys key (if keyOf key x ∈ ks then ks else ks ++ [keyOf key x]) xs

def keysOf (key : Fn) (xs : List Data) : List Int := addKeys key [] xs

def groupRoot (key : Fn) (s : Stream) : List Ev :=
  (List.range (keysOf key s.1).length).map (fun j => Ev.next (.obs (j + 1))) ++ s.2.toEvs

/-- what the subscriber of the group of key `k` sees -/
def groupInner (key : Fn) (s : Stream) (k : Int) : List Ev :=
  (s.1.filter fun x => keyOf key x == k).map Ev.next ++ s.2.toEvs

end Rx.Spec
