/-
S-expressions: the one text representation shared by the case generator (python), the Rust harness and
the Lean driver.  Atoms are runs of non-blank, non-parenthesis ASCII characters.
-/
namespace Rx

inductive Sexp where
  | atom (s : String)
  | list (xs : List Sexp)
deriving Repr, Inhabited

namespace Sexp

partial def toStr : Sexp → String
  | .atom s => s
  | .list xs => "(" ++ " ".intercalate (xs.map toStr) ++ ")"

instance : ToString Sexp := ⟨toStr⟩

/-- tokens: "(" | ")" | atom -/
def tokenize (s : String) : List String := Id.run do
  let mut out : Array String := #[]
  let mut cur : String := ""
  for c in s.toList do
    if c == '(' || c == ')' then
      if cur != "" then out := out.push cur; cur := ""
      out := out.push (String.singleton c)
    else if c == ' ' || c == '\t' || c == '\n' || c == '\r' then
      if cur != "" then out := out.push cur; cur := ""
    else
      cur := cur.push c
  if cur != "" then out := out.push cur
  return out.toList

/-- parse one expression from a token list; fuel = number of tokens bounds the recursion -/
def parseTokens : Nat → List String → Option (Sexp × List String)
  | 0, _ => none
  | _, [] => none
  | fuel+1, t :: rest =>
    if t == "(" then
      let rec items (f : Nat) (ts : List String) (acc : List Sexp) : Option (Sexp × List String) :=
        match f, ts with
        | 0, _ => none
        | _, [] => none
        | f+1, ")" :: r => some (.list acc.reverse, r)
        | f+1, ts => match parseTokens fuel ts with
          | some (e, r) => if r.length < ts.length then items f r (e :: acc) else none
          | none => none
      items (rest.length + 1) rest []
    else if t == ")" then none
    else some (.atom t, rest)

def parse (s : String) : Option Sexp :=
  let ts := tokenize s
  match parseTokens (ts.length + 1) ts with
  | some (e, []) => some e
  | _ => none

def asAtom : Sexp → Option String
  | .atom s => some s
  | _ => none

def asInt (e : Sexp) : Option Int := e.asAtom >>= String.toInt?
def asNat (e : Sexp) : Option Nat := e.asAtom >>= String.toNat?

end Sexp
end Rx
