import RxVerif.Machine.Lib
import RxVerif.Machine.Inv
import RxVerif.Kernel.Run
/-
SIM, part 1: a weakest-precondition calculus for the fuel-indexed interpreter `run`, and the
representation predicate `Rep` that ties a world to the handful of facts one subscription through
`stdOp` depends on (root observer, upstream observer, the controller's map cell, the kernel's state
cell, the on_finalize slot, the held guards, the log of the new subscriber).  Every primitive the
StreamController macros perform is lifted to a rule on `Rep`.
-/
namespace Rx.Sim

/-- `p`, run on top of ANY continuation stack from `w`, finishes after finitely many steps in a world
    satisfying `Q`, and the rest of the stack then continues from that world. -/
def WP (p : Prog) (w : World) (Q : World → Prop) : Prop :=
  ∃ n w', Q w' ∧ ∀ fuel st, run (fuel + n) (p :: st) w = run fuel st w'

theorem WP.conseq {p w} {Q Q' : World → Prop} (h : WP p w Q) (hq : ∀ w', Q w' → Q' w') : WP p w Q' := by
  obtain ⟨n, w', hQ, hr⟩ := h
  exact ⟨n, w', hq _ hQ, hr⟩

theorem WP.done {w} {Q : World → Prop} (h : Q w) : WP .done w Q :=
  ⟨1, w, h, fun _ _ => rfl⟩

theorem WP.seq {p q w} {Q : World → Prop} (h : WP p w fun w1 => WP q w1 Q) : WP (p ;; q) w Q := by
  obtain ⟨n1, w1, ⟨n2, w2, hQ, h2⟩, h1⟩ := h
  refine ⟨n2 + n1 + 1, w2, hQ, fun fuel st => ?_⟩
  rw [show fuel + (n2 + n1 + 1) = fuel + n2 + n1 + 1 by omega]
  simp only [run]
  rw [h1 (fuel + n2) (q :: st), h2 fuel st]

/-- calling a closure `f` with `k` waiting below it on the stack -/
theorem WP.call {f k w} {Q : World → Prop} (h : WP f w fun w1 => WP k w1 Q) :
    ∃ n w', Q w' ∧ ∀ fuel st, run (fuel + n) (f :: k :: st) w = run fuel st w' := by
  obtain ⟨n1, w1, ⟨n2, w2, hQ, h2⟩, h1⟩ := h
  refine ⟨n2 + n1, w2, hQ, fun fuel st => ?_⟩
  rw [show fuel + (n2 + n1) = fuel + n2 + n1 by omega]
  rw [h1 (fuel + n2) (k :: st), h2 fuel st]

theorem WP.ite {b : Bool} {p q : Prog} {w} {Q : World → Prop}
    (h : WP (bif b then p else q) w Q) : WP (if b then p else q) w Q := by
  cases b <;> simpa using h

/-! ### the configuration of one subscription and the representation predicate -/

structure Cfg where
  R : Nat        -- root observer of the new subscriber
  U : Nat        -- upstream observer created by `new_observer`
  sU : Nat       -- id of the new subscriber
  cs : Nat       -- cell: serial counter
  cm : Nat       -- cell: unscribers map
  cc : Nat       -- cell: kernel state
  fin : Nat      -- slot: on_finalize
  hn : Data → Prog
  he : Nat → Prog
  hc : Prog
  base : Nat → List Ev

def Cfg.sc (c : Cfg) : Sctl := ⟨c.R, c.cs, c.cm, c.fin⟩

structure Cfg.Ok (c : Cfg) : Prop where
  RU : c.R ≠ c.U
  mc : c.cm ≠ c.cc

def onU (c : Cfg) : Bool → Option Prog
  | true => some c.sc.finalize
  | false => none

def xR (c : Cfg) : Bool → Bool → Obs
  | true, ar => ⟨some (.user c.sU), some (.user c.sU), some (.user c.sU), onU c ar⟩
  | false, ar => ⟨none, none, none, onU c ar⟩

def xU (c : Cfg) : Bool → Obs
  | true => ⟨some (.code c.hn), some (.code c.he), some (.code c.hc), none⟩
  | false => ⟨none, none, none, none⟩

def mapD (c : Cfg) : Bool → Data
  | true => Data.ofList [.pair (.int 0) (.int c.U)]
  | false => .lnil

/-- `al`: root observer subscribed; `ar`: its teardown (`finalize`) still in place; `ul`: upstream
    observer subscribed; `rg`: upstream still registered in the map; `H`: guards held; `cs`: content
    of the kernel's state cell; `out`: what the new subscriber has seen. -/
structure Rep (c : Cfg) (al ul rg : Bool) (H : List (LockId × Bool)) (cs : Data) (out : List Ev)
    (w : World) : Prop where
  status : w.status = .ok
  held : w.held = H
  obsR : ∃ ar, w.obs[c.R]? = some (xR c al ar)
  obsU : w.obs[c.U]? = some (xU c ul)
  map : w.cells[c.cm]? = some (mapD c rg)
  cst : w.cells[c.cc]? = some cs
  slot : w.slots[c.fin]? = some none
  user : ∃ u, w.users[c.sU]? = some u ∧ u.react = fun _ _ _ => .done
  log : logOf w c.sU = out
  others : ∀ s', s' ≠ c.sU → logOf w s' = c.base s'

/-- the only guard that may be alive while StreamController code runs: the kernel's own state cell -/
def OnlyCc (c : Cfg) (H : List (LockId × Bool)) : Prop := ∀ p ∈ H, p.1 = .cell c.cc

theorem OnlyCc.nil (c : Cfg) : OnlyCc c [] := by intro p hp; cases hp
theorem OnlyCc.one (c : Cfg) (b : Bool) : OnlyCc c [(.cell c.cc, b)] := by
  intro p hp; simp at hp; subst hp; rfl

theorem OnlyCc.noconf {c : Cfg} {H} (h : OnlyCc c H) (l : LockId) (hl : l ≠ .cell c.cc) (wr : Bool) :
    (H.any fun (l', w') => l' == l && (wr || w')) = false := by
  rw [List.any_eq_false]
  intro p hp
  have := h p hp
  obtain ⟨l', w'⟩ := p
  simp only at this
  subst this
  simp
  intro e; exact absurd e.symm hl

theorem set_get_same {α} {l : List α} {i : Nat} {x : α} (d : α) (h : l[i]? = some x) :
    (l.set i d)[i]? = some d := by
  have : i < l.length := by
    rcases Nat.lt_or_ge i l.length with hlt | hge
    · exact hlt
    · rw [List.getElem?_eq_none hge] at h; cases h
  simp [this]

theorem set_get_other {α} {l : List α} {i j : Nat} (d : α) (h : i ≠ j) :
    (l.set i d)[j]? = l[j]? := by
  simp [h]

section prims
variable {c : Cfg} {al ul rg : Bool} {H : List (LockId × Bool)} {cs : Data} {out : List Ev}
  {w : World} {Q : World → Prop}

theorem rep_isSubR {k : Bool → Prog} (h : Rep c al ul rg H cs out w) (hk : WP (k al) w Q) :
    WP (.obsIsSub c.R k) w Q := by
  obtain ⟨n, w', hQ, hr⟩ := hk
  refine ⟨n + 1, w', hQ, fun fuel st => ?_⟩
  show run (fuel + n + 1) _ _ = _
  obtain ⟨ar, hR⟩ := h.obsR
  have e : (xR c al ar).isSub = al := by cases al <;> rfl
  simp only [run, hR, e]
  exact hr fuel st

theorem rep_isSubU {k : Bool → Prog} (h : Rep c al ul rg H cs out w) (hk : WP (k ul) w Q) :
    WP (.obsIsSub c.U k) w Q := by
  obtain ⟨n, w', hQ, hr⟩ := hk
  refine ⟨n + 1, w', hQ, fun fuel st => ?_⟩
  show run (fuel + n + 1) _ _ = _
  have e : (xU c ul).isSub = ul := by cases ul <;> rfl
  simp only [run, h.obsU, e]
  exact hr fuel st

/-- `next` into a live root observer: the subscriber records it; its reaction does nothing -/
theorem rep_nextR_alive {d : Data} {k : Prog} (h : Rep c true ul rg H cs out w)
    (hk : ∀ w', Rep c true ul rg H cs (out ++ [.next d]) w' → WP k w' Q) :
    WP (.obsNext c.R d k) w Q := by
  obtain ⟨u, hu, hre⟩ := h.user
  obtain ⟨ar, hR⟩ := h.obsR
  have hrep : Rep c true ul rg H cs (out ++ [.next d]) (w.emit (.ev c.sU (.next d))) :=
    { h with
      log := by rw [logOf_emit_same, h.log]
      others := fun s' hs => by rw [logOf_emit_other _ _ _ _ (Ne.symm hs)]; exact h.others s' hs }
  obtain ⟨n, w', hQ, hr⟩ := hk _ hrep
  refine ⟨n + 2, w', hQ, fun fuel st => ?_⟩
  show run (fuel + n + 1 + 1) _ _ = _
  simp only [run, hR, xR, hu, hre]
  exact hr fuel st

theorem rep_nextR_dead {d : Data} {k : Prog} (h : Rep c false ul rg H cs out w)
    (hk : WP k w Q) : WP (.obsNext c.R d k) w Q := by
  obtain ⟨n, w', hQ, hr⟩ := hk
  refine ⟨n + 1, w', hQ, fun fuel st => ?_⟩
  show run (fuel + n + 1) _ _ = _
  obtain ⟨ar, hR⟩ := h.obsR
  simp only [run, hR, xR]
  exact hr fuel st

theorem getElem?_setObs_same {w : World} {o : Nat} {x : Obs} (f : Obs → Obs) (h : w.obs[o]? = some x) :
    (w.setObs o f).obs[o]? = some (f x) := by
  rw [getElem?_setObs]; simp [h]

theorem getElem?_setObs_other {w : World} {o o' : Nat} (f : Obs → Obs) (h : o ≠ o') :
    (w.setObs o f).obs[o']? = w.obs[o']? := by
  rw [getElem?_setObs]; simp [h]

theorem rep_errorR_alive (ok : c.Ok) {e : Nat} {k : Prog} (h : Rep c true ul rg H cs out w)
    (hk : ∀ w', Rep c false ul rg H cs (out ++ [.error e]) w' → WP k w' Q) :
    WP (.obsError c.R e k) w Q := by
  obtain ⟨u, hu, hre⟩ := h.user
  obtain ⟨ar, hR⟩ := h.obsR
  have hrep : Rep c false ul rg H cs (out ++ [.error e])
      ((w.setObs c.R Obs.cleared).emit (.ev c.sU (.error e))) :=
    { h with
      obsR := by
        refine ⟨ar, ?_⟩
        show (w.setObs c.R Obs.cleared).obs[c.R]? = _
        rw [getElem?_setObs_same _ hR]; rfl
      obsU := by
        show (w.setObs c.R Obs.cleared).obs[c.U]? = _
        rw [getElem?_setObs_other _ ok.RU]; exact h.obsU
      log := by rw [logOf_emit_same]; show logOf w c.sU ++ _ = _; rw [h.log]
      others := fun s' hs => by
        rw [logOf_emit_other _ _ _ _ (Ne.symm hs)]; exact h.others s' hs }
  obtain ⟨n, w', hQ, hr⟩ := hk _ hrep
  refine ⟨n + 2, w', hQ, fun fuel st => ?_⟩
  show run (fuel + n + 1 + 1) _ _ = _
  simp only [run, hR, xR, hu, hre]
  exact hr fuel st

theorem rep_completeR_alive (ok : c.Ok) {k : Prog} (h : Rep c true ul rg H cs out w)
    (hk : ∀ w', Rep c false ul rg H cs (out ++ [.complete]) w' → WP k w' Q) :
    WP (.obsComplete c.R k) w Q := by
  obtain ⟨u, hu, hre⟩ := h.user
  obtain ⟨ar, hR⟩ := h.obsR
  have hrep : Rep c false ul rg H cs (out ++ [.complete])
      ((w.setObs c.R Obs.cleared).emit (.ev c.sU .complete)) :=
    { h with
      obsR := by
        refine ⟨ar, ?_⟩
        show (w.setObs c.R Obs.cleared).obs[c.R]? = _
        rw [getElem?_setObs_same _ hR]; rfl
      obsU := by
        show (w.setObs c.R Obs.cleared).obs[c.U]? = _
        rw [getElem?_setObs_other _ ok.RU]; exact h.obsU
      log := by rw [logOf_emit_same]; show logOf w c.sU ++ _ = _; rw [h.log]
      others := fun s' hs => by
        rw [logOf_emit_other _ _ _ _ (Ne.symm hs)]; exact h.others s' hs }
  obtain ⟨n, w', hQ, hr⟩ := hk _ hrep
  refine ⟨n + 2, w', hQ, fun fuel st => ?_⟩
  show run (fuel + n + 1 + 1) _ _ = _
  simp only [run, hR, xR, hu, hre]
  exact hr fuel st

theorem rep_errorR_dead {e : Nat} {k : Prog} (h : Rep c false ul rg H cs out w)
    (hk : WP k w Q) : WP (.obsError c.R e k) w Q := by
  obtain ⟨n, w', hQ, hr⟩ := hk
  refine ⟨n + 1, w', hQ, fun fuel st => ?_⟩
  show run (fuel + n + 1) _ _ = _
  obtain ⟨ar, hR⟩ := h.obsR
  simp only [run, hR, xR]
  exact hr fuel st

theorem rep_completeR_dead {k : Prog} (h : Rep c false ul rg H cs out w)
    (hk : WP k w Q) : WP (.obsComplete c.R k) w Q := by
  obtain ⟨n, w', hQ, hr⟩ := hk
  refine ⟨n + 1, w', hQ, fun fuel st => ?_⟩
  show run (fuel + n + 1) _ _ = _
  obtain ⟨ar, hR⟩ := h.obsR
  simp only [run, hR, xR]
  exact hr fuel st

/-- `unsubscribe` on the root observer: slots cleared, the teardown (if still there) is taken and run -/
theorem rep_unsubR (ok : c.Ok) {k : Prog} (h : Rep c al ul rg H cs out w)
    (hk1 : ∀ w', Rep c false ul rg H cs out w' → WP c.sc.finalize w' fun w1 => WP k w1 Q)
    (hk0 : ∀ w', Rep c false ul rg H cs out w' → WP k w' Q) :
    WP (.obsUnsub c.R k) w Q := by
  obtain ⟨ar, hR⟩ := h.obsR
  have hrep : Rep c false ul rg H cs out
      (w.setObs c.R fun x => { x.cleared with onUnsub := none }) :=
    { h with
      obsR := by
        refine ⟨false, ?_⟩
        show (w.setObs c.R _).obs[c.R]? = _
        rw [getElem?_setObs_same _ hR]; cases al <;> rfl
      obsU := by
        show (w.setObs c.R _).obs[c.U]? = _
        rw [getElem?_setObs_other _ ok.RU]; exact h.obsU }
  cases ar with
  | true =>
    obtain ⟨n, w', hQ, hr⟩ := WP.call (hk1 _ hrep)
    refine ⟨n + 1, w', hQ, fun fuel st => ?_⟩
    show run (fuel + n + 1) _ _ = _
    have e : (xR c al true).onUnsub = some c.sc.finalize := by cases al <;> rfl
    simp only [run, hR, e]
    exact hr fuel st
  | false =>
    obtain ⟨n, w', hQ, hr⟩ := hk0 _ hrep
    refine ⟨n + 1, w', hQ, fun fuel st => ?_⟩
    show run (fuel + n + 1) _ _ = _
    have e : (xR c al false).onUnsub = none := by cases al <;> rfl
    simp only [run, hR, e]
    exact hr fuel st

theorem rep_unsubU (ok : c.Ok) {k : Prog} (h : Rep c al ul rg H cs out w)
    (hk : ∀ w', Rep c al false rg H cs out w' → WP k w' Q) :
    WP (.obsUnsub c.U k) w Q := by
  have hrep : Rep c al false rg H cs out
      (w.setObs c.U fun x => { x.cleared with onUnsub := none }) :=
    { h with
      obsR := by
        obtain ⟨ar, hR⟩ := h.obsR
        refine ⟨ar, ?_⟩
        show (w.setObs c.U _).obs[c.R]? = _
        rw [getElem?_setObs_other _ (Ne.symm ok.RU)]; exact hR
      obsU := by
        show (w.setObs c.U _).obs[c.U]? = _
        rw [getElem?_setObs_same _ h.obsU]; cases ul <;> rfl }
  obtain ⟨n, w', hQ, hr⟩ := hk _ hrep
  refine ⟨n + 1, w', hQ, fun fuel st => ?_⟩
  show run (fuel + n + 1) _ _ = _
  have e : (xU c ul).onUnsub = none := by cases ul <;> rfl
  simp only [run, h.obsU, e]
  exact hr fuel st

/-! deliveries into the upstream observer (what the source does) -/

theorem rep_nextU_live {d : Data} {k : Prog} (h : Rep c al true rg H cs out w)
    (hk : WP (c.hn d) w fun w1 => WP k w1 Q) : WP (.obsNext c.U d k) w Q := by
  obtain ⟨n, w', hQ, hr⟩ := WP.call hk
  refine ⟨n + 1, w', hQ, fun fuel st => ?_⟩
  show run (fuel + n + 1) _ _ = _
  simp only [run, h.obsU, xU]
  exact hr fuel st

theorem rep_errorU_live (ok : c.Ok) {e : Nat} {k : Prog} (h : Rep c al true rg H cs out w)
    (hk : ∀ w', Rep c al false rg H cs out w' → WP (c.he e) w' fun w1 => WP k w1 Q) :
    WP (.obsError c.U e k) w Q := by
  have hrep : Rep c al false rg H cs out (w.setObs c.U Obs.cleared) :=
    { h with
      obsR := by
        obtain ⟨ar, hR⟩ := h.obsR
        refine ⟨ar, ?_⟩
        show (w.setObs c.U _).obs[c.R]? = _
        rw [getElem?_setObs_other _ (Ne.symm ok.RU)]; exact hR
      obsU := by
        show (w.setObs c.U _).obs[c.U]? = _
        rw [getElem?_setObs_same _ h.obsU]; rfl }
  obtain ⟨n, w', hQ, hr⟩ := WP.call (hk _ hrep)
  refine ⟨n + 1, w', hQ, fun fuel st => ?_⟩
  show run (fuel + n + 1) _ _ = _
  simp only [run, h.obsU, xU]
  exact hr fuel st

theorem rep_completeU_live (ok : c.Ok) {k : Prog} (h : Rep c al true rg H cs out w)
    (hk : ∀ w', Rep c al false rg H cs out w' → WP c.hc w' fun w1 => WP k w1 Q) :
    WP (.obsComplete c.U k) w Q := by
  have hrep : Rep c al false rg H cs out (w.setObs c.U Obs.cleared) :=
    { h with
      obsR := by
        obtain ⟨ar, hR⟩ := h.obsR
        refine ⟨ar, ?_⟩
        show (w.setObs c.U _).obs[c.R]? = _
        rw [getElem?_setObs_other _ (Ne.symm ok.RU)]; exact hR
      obsU := by
        show (w.setObs c.U _).obs[c.U]? = _
        rw [getElem?_setObs_same _ h.obsU]; rfl }
  obtain ⟨n, w', hQ, hr⟩ := WP.call (hk _ hrep)
  refine ⟨n + 1, w', hQ, fun fuel st => ?_⟩
  show run (fuel + n + 1) _ _ = _
  simp only [run, h.obsU, xU]
  exact hr fuel st

/-! cells -/

theorem rep_readMap {g : Bool} {k : Data → Prog} (h : Rep c al ul rg H cs out w)
    (hg : g = true ∨ OnlyCc c H) (ok : c.Ok) (hk : WP (k (mapD c rg)) w Q) :
    WP (.cellRead c.cm g k) w Q := by
  obtain ⟨n, w', hQ, hr⟩ := hk
  refine ⟨n + 1, w', hQ, fun fuel st => ?_⟩
  show run (fuel + n + 1) _ _ = _
  have hc : (!g && w.conflicts (.cell c.cm) false) = false := by
    rcases hg with rfl | hg
    · rfl
    · have := hg.noconf (.cell c.cm) (by intro e; exact ok.mc (LockId.cell.inj e)) false
      simp only [World.conflicts, h.held, this, Bool.and_false]
  simp only [run, hc, h.map, Option.getD_some]
  exact hr fuel st

theorem rep_writeMap {g : Bool} {rg' : Bool} {k : Prog} (h : Rep c al ul rg H cs out w)
    (hg : g = true ∨ OnlyCc c H) (ok : c.Ok)
    (hk : ∀ w', Rep c al ul rg' H cs out w' → WP k w' Q) :
    WP (.cellWrite c.cm g (mapD c rg') k) w Q := by
  have hrep : Rep c al ul rg' H cs out { w with cells := w.cells.set c.cm (mapD c rg') } :=
    { h with
      map := set_get_same _ h.map
      cst := by
        show (w.cells.set c.cm _)[c.cc]? = _
        rw [set_get_other _ ok.mc]; exact h.cst }
  obtain ⟨n, w', hQ, hr⟩ := hk _ hrep
  refine ⟨n + 1, w', hQ, fun fuel st => ?_⟩
  show run (fuel + n + 1) _ _ = _
  have hc : (!g && w.conflicts (.cell c.cm) true) = false := by
    rcases hg with rfl | hg
    · rfl
    · have := hg.noconf (.cell c.cm) (by intro e; exact ok.mc (LockId.cell.inj e)) true
      simp only [World.conflicts, h.held, this, Bool.and_false]
  simp only [run, hc]
  exact hr fuel st

theorem rep_readSt {k : Data → Prog} (h : Rep c al ul rg [] cs out w)
    (hk : WP (k cs) w Q) : WP (.cellRead c.cc false k) w Q := by
  obtain ⟨n, w', hQ, hr⟩ := hk
  refine ⟨n + 1, w', hQ, fun fuel st => ?_⟩
  show run (fuel + n + 1) _ _ = _
  have hc : (!false && w.conflicts (.cell c.cc) false) = false := by
    simp [World.conflicts, h.held]
  simp only [run, hc, h.cst, Option.getD_some]
  exact hr fuel st

theorem rep_writeSt (ok : c.Ok) {d : Data} {k : Prog} (h : Rep c al ul rg [] cs out w)
    (hk : ∀ w', Rep c al ul rg [] d out w' → WP k w' Q) :
    WP (.cellWrite c.cc false d k) w Q := by
  have hrep : Rep c al ul rg [] d out { w with cells := w.cells.set c.cc d } :=
    { h with
      cst := set_get_same _ h.cst
      map := by
        show (w.cells.set c.cc _)[c.cm]? = _
        rw [set_get_other _ (Ne.symm ok.mc)]; exact h.map }
  obtain ⟨n, w', hQ, hr⟩ := hk _ hrep
  refine ⟨n + 1, w', hQ, fun fuel st => ?_⟩
  show run (fuel + n + 1) _ _ = _
  have hc : (!false && w.conflicts (.cell c.cc) true) = false := by
    simp [World.conflicts, h.held]
  simp only [run, hc]
  exact hr fuel st

/-! guards -/

theorem rep_lockAcq {l : LockId} {wr : Bool} {k : Prog} (h : Rep c al ul rg H cs out w)
    (hc : (H.any fun (l', w') => l' == l && (wr || w')) = false)
    (hk : ∀ w', Rep c al ul rg ((l, wr) :: H) cs out w' → WP k w' Q) :
    WP (.lockAcq l wr k) w Q := by
  have hrep : Rep c al ul rg ((l, wr) :: H) cs out { w with held := (l, wr) :: w.held } :=
    { h with held := by show (l, wr) :: w.held = _; rw [h.held] }
  obtain ⟨n, w', hQ, hr⟩ := hk _ hrep
  refine ⟨n + 1, w', hQ, fun fuel st => ?_⟩
  show run (fuel + n + 1) _ _ = _
  have hc' : w.conflicts l wr = false := by simp only [World.conflicts, h.held, hc]
  simp only [run, hc']
  exact hr fuel st

/-- releasing the guard that was acquired last -/
theorem rep_lockRel {l : LockId} {wr : Bool} {k : Prog} (h : Rep c al ul rg ((l, wr) :: H) cs out w)
    (hk : ∀ w', Rep c al ul rg H cs out w' → WP k w' Q) :
    WP (.lockRel l k) w Q := by
  have hrep : Rep c al ul rg H cs out (w.release l) :=
    { h with
      held := by
        show w.held.eraseP _ = _
        rw [h.held]; simp }
  obtain ⟨n, w', hQ, hr⟩ := hk _ hrep
  refine ⟨n + 1, w', hQ, fun fuel st => ?_⟩
  show run (fuel + n + 1) _ _ = _
  simp only [run]
  exact hr fuel st

/-- `on_finalize` was never set by `stdOp`: the call-and-clear finds nothing -/
theorem rep_slotCall {d : Data} {clear : Bool} {k : Prog} (h : Rep c al ul rg H cs out w)
    (hk : WP k w Q) : WP (.slotCall c.fin d clear k) w Q := by
  obtain ⟨n, w', hQ, hr⟩ := hk
  refine ⟨n + 1, w', hQ, fun fuel st => ?_⟩
  show run (fuel + n + 1) _ _ = _
  simp only [run, h.slot]
  exact hr fuel st

theorem rep_probe {t : Nat} {d : Data} {k : Prog} (h : Rep c al ul rg H cs out w)
    (hk : ∀ w', Rep c al ul rg H cs out w' → WP k w' Q) : WP (.probe t d k) w Q := by
  have hrep : Rep c al ul rg H cs out (w.emit (.probe t d)) :=
    { h with
      log := by rw [logOf_emit_probe]; exact h.log
      others := fun s' hs => by rw [logOf_emit_probe]; exact h.others s' hs }
  obtain ⟨n, w', hQ, hr⟩ := hk _ hrep
  refine ⟨n + 1, w', hQ, fun fuel st => ?_⟩
  show run (fuel + n + 1) _ _ = _
  simp only [run]
  exact hr fuel st

end prims

end Rx.Sim
