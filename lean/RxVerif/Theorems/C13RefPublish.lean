import RxVerif.Theorems.C13RefConn
/-
C13-REF, publish — model A's `publishConnect` (Machine/Subjects.lean, publish.rs:26-41) over a plain hot source
refines `ConnM` (kind `.publish`, source `.hot`).

World of `progP`: cells 0,1 = hot source H (observers, serial), 2,3 = the connectable's subject S, 4 = the list of
`Subscription` handles `connect()` returned (what the test keeps to `disconnect`), 5+i = armed flag of handle i;
slots 0,1 / 2,3 = hooks of H / S (never set); observable 0 = `H.observable`, 1 = `S.observable`.
-/
namespace Rx.CRef
open Rx.Sim Rx.SubjM Rx.Ref Rx.RefR

def Hp : Subj := ⟨0, 1, 0, 1⟩
def Sp : Subj := ⟨2, 3, 2, 3⟩
def acellP (i : Nat) : Nat := 5 + i
def fnP : Data → Prog := fun x => Sp.next x
def feP : Nat → Prog := fun e => Sp.error e
def fcP : Prog := Sp.complete

/-- the handles stored by the test, oldest first -/
def handlesFrom (k : Nat) : List Nat → List Data
  | [] => []
  | c :: cs => .pair (.int (c : Nat)) (.int (acellP k : Nat)) :: handlesFrom (k + 1) cs

theorem handlesFrom_append (c : Nat) : ∀ (k : Nat) (cs : List Nat),
    handlesFrom k (cs ++ [c]) = handlesFrom k cs ++ [.pair (.int (c : Nat)) (.int (acellP (k + cs.length) : Nat))]
  | k, [] => by simp [handlesFrom]
  | k, x :: cs => by
    simp only [List.cons_append, handlesFrom, List.length_cons]
    rw [handlesFrom_append c (k + 1) cs, show k + 1 + cs.length = k + (cs.length + 1) by omega]

structure ExtrasP (cobs : List Nat) (w : World) : Prop where
  held : w.held = []
  slots : ∀ i, i < 4 → w.slots[i]? = some none
  obsvS : w.obsvs[1]? = some Sp.observable
  cn : w.cells[4]? = some (Data.ofList (handlesFrom 0 cobs))
  nCells : w.cells.length = 5 + cobs.length

theorem ExtrasP.touch {cobs w w' J K} (h : ExtrasP cobs w) (t : Touch J K w w') (hK : ¬ K 4) : ExtrasP cobs w' :=
  ⟨t.held ▸ h.held, fun i hi => t.slots ▸ h.slots i hi, t.obsvs ▸ h.obsvS,
   by rw [t.cells _ hK]; exact h.cn, t.cellsLen ▸ h.nCells⟩

/-- the users' side of a publish world -/
def URp (roots cobs : List Nat) (w : World) (s : SubjM.State) : Prop :=
  Glob roots cobs w ∧ UsersPart Sp roots none w s.observers s.serial s.obs ∧ ExtrasP cobs w

/-- the simulation relation for `publish` over a hot source -/
def RelP (roots cobs : List Nat) (armed : List Bool) (w : World) (st : ConnM.State) : Prop :=
  HotInv (URp roots cobs) Hp fnP feP fcP acellP roots cobs w (liveFrom 0 cobs st.conns) st armed

theorem codeBody_P (ev : Ev) : codeBody ev fnP feP fcP = evCall Sp ev := by cases ev <;> rfl

theorem notInRoots_cob {roots cobs w} (g : Glob roots cobs w) {i : Nat} (hi : i < cobs.length) :
    ¬ InRoots roots (rootAt cobs i) := by
  intro hm
  exact (List.nodup_append.1 g.nodup).2.2 _ hm _ (rootAt_mem hi) rfl

theorem URp.conn {roots cobs w s} (h : URp roots cobs w s) (i : Nat) (hi : i < cobs.length) :
    URp roots cobs (w.setObs (rootAt cobs i) Obs.cleared) s := by
  obtain ⟨g, U, X⟩ := h
  refine ⟨g.touch (Touch.setObs (J := fun _ => True) (K := NoCell) w _ _ trivial), ?_, ?_⟩
  · exact U.frame rfl rfl rfl
      (fun u hu => getElem?_setObs_other _ (fun e => g.root_ne_cob hu hi e.symm)) (fun _ => rfl)
  · exact ⟨X.held, X.slots, X.obsvS, X.cn, X.nCells⟩

theorem URp.cell0 {roots cobs w s} (h : URp roots cobs w s) (d : Data) :
    URp roots cobs { w with cells := w.cells.set Hp.observers d } s := by
  obtain ⟨g, U, X⟩ := h
  refine ⟨⟨g.status, g.nObs, g.rootsLt, g.cobsLt, g.nodup⟩, ?_, ?_⟩
  · exact U.frame (set_get_other _ (by decide)) (set_get_other _ (by decide)) rfl (fun _ _ => rfl) (fun _ => rfl)
  · exact ⟨X.held, X.slots, X.obsvS, by show (w.cells.set _ _)[4]? = _; rw [set_get_other _ (by decide)]; exact X.cn,
      by simp [X.nCells]⟩

theorem URp.emit {roots cobs w s} (ev : Ev) (hh : SlotReads w.held) (h : URp roots cobs w s) :
    WP (codeBody ev fnP feP fcP) w (fun w' => URp roots cobs w' (emit .plain s ev) ∧
      Touch (InRoots roots) (IsCell 2) w w') := by
  obtain ⟨g, U, X⟩ := h
  rw [codeBody_P]
  refine (emitS_spec hh g U ev).conseq ?_
  rintro w' ⟨U', t⟩
  exact ⟨⟨g.touch t, U', X.touch t (by intro e; cases e)⟩, t⟩

/-! ### the calls -/

def srcEv : Ev → ConnM.Call
  | .next v => .srcNext v
  | .error e => .srcError e
  | .complete => .srcComplete

/-- a hot source event: `H.next/error/complete` = `ConnM.hotEmit` -/
theorem srcP_spec {roots cobs armed w st} (h : RelP roots cobs armed w st) (ev : Ev) :
    WP (evCall Hp ev) w (fun w' => RelP roots cobs armed w' (ConnM.step .publish .hot st (srcEv ev))) := by
  have : ConnM.step .publish .hot st (srcEv ev) = ConnM.hotEmit .publish st ev := by cases ev <;> rfl
  rw [this]
  exact hotEmit_spec .publish (H := Hp) (fn := fnP) (fe := feP) (fc := fcP) (acell := acellP) (roots := roots)
    (cobs := cobs) (UR := URp roots cobs) (J := InRoots roots) (K := IsCell 2)
    (fun i hi => notInRoots_cob h.glob hi)
    ⟨by simp [IsCell, Hp], by simp [IsCell, Hp], fun i _ => by simp [IsCell, acellP]; omega⟩
    (fun i _ => by simp [acellP, Hp])
    (fun w s i hi hu => URp.conn hu i hi) (fun w s d hu => URp.cell0 hu d)
    (fun w s ev hh _ hu => URp.emit ev hh hu) ev h

theorem stepP_subscribe (st : ConnM.State) (o : Nat) :
    ConnM.step .publish .hot st (.subscribe o) = { st with sub := SubjM.step .plain st.sub (.subscribe o) } := rfl

theorem stepP_unsubscribe (st : ConnM.State) (o : Nat) :
    ConnM.step .publish .hot st (.unsubscribe o) = { st with sub := SubjM.step .plain st.sub (.unsubscribe o) } := rfl

theorem plain_subscribe_fresh (s : SubjM.State) (n : Nat) (hu : (s.obs n).seen = false) :
    SubjM.step .plain s (.subscribe n) =
      { s with serial := s.serial + 1, observers := s.observers ++ [(s.serial + 1, n)],
               obs := upd s.obs n (freshRec s.serial) } := by
  simp [SubjM.step, subscribeA, subscribeB, subscribeH, Kind.isReplay, hu, register, freshRec]

theorem subscribeP_spec {roots cobs armed w st} (h : RelP roots cobs armed w st) :
    WP (.userSub 1 noReact .done) w (fun w' =>
      RelP (roots ++ [w.obs.length]) cobs armed w' (ConnM.step .publish .hot st (.subscribe roots.length))) := by
  obtain ⟨g, U, X⟩ := h.ur
  have hu : (st.sub.obs roots.length).seen = false := (View.eq (U.unseen _ (Nat.le_refl _))).1
  rw [stepP_subscribe, plain_subscribe_fresh _ _ hu]
  refine userSub_pre X.obsvS h.held U ?_
  refine slotTail_none h.held (X.slots 2 (by decide)) (wp_userReady (WP.done ?_))
  have g1 := subUser_glob (S := Sp) g st.sub.observers st.sub.serial
  have U1 := (subUser_users g U).ready
  rw [U.nUsers]
  refine ⟨⟨g1.status, g1.nObs, g1.rootsLt, g1.cobsLt, g1.nodup⟩, h.held,
    ⟨⟨g1.status, g1.nObs, g1.rootsLt, g1.cobsLt, g1.nodup⟩, U1, ?_⟩, ?_⟩
  · exact ⟨X.held, X.slots, X.obsvS,
      by show (subUserWorld Sp w roots st.sub.observers st.sub.serial).cells[4]? = _
         rw [subUser_cells Sp w roots st.sub.observers st.sub.serial (by decide) (by decide)]; exact X.cn,
      by show (subUserWorld Sp w roots st.sub.observers st.sub.serial).cells.length = _
         rw [subUser_cellsLen]; exact X.nCells⟩
  · refine h.conns.frame ?_ ?_ ?_ ?_
    · exact subUser_cells Sp w roots st.sub.observers st.sub.serial (by decide) (by decide)
    · exact subUser_cells Sp w roots st.sub.observers st.sub.serial (by decide) (by decide)
    · intro i hi
      exact subUser_obs_lt Sp w roots st.sub.observers st.sub.serial
        (g.cobsLt _ (rootAt_mem (h.conns.lenC ▸ hi)))
    · intro i hi
      exact subUser_cells Sp w roots st.sub.observers st.sub.serial (by simp [acellP, Sp]; omega) (by simp [acellP, Sp]; omega)

theorem unsubscribeP_spec {roots cobs armed w st} (h : RelP roots cobs armed w st) (u : Nat) :
    WP (.userUnsub u .done) w (fun w' => RelP roots cobs armed w' (ConnM.step .publish .hot st (.unsubscribe u))) := by
  obtain ⟨g, U, X⟩ := h.ur
  rw [stepP_unsubscribe]
  show WP _ w (fun w' => RelP roots cobs armed w' { st with sub := (unsubscribeN .plain st.sub u).1 })
  by_cases hlive : u < roots.length ∧ (st.sub.obs u).hook = true
  · obtain ⟨hu, hk⟩ := hlive
    obtain ⟨s0, hin⟩ : ∃ s0, (st.sub.obs u).inHook = some s0 := by
      have := U.hookIff u; rw [hk] at this
      cases hi : (st.sub.obs u).inHook with
      | none => rw [hi] at this; simp at this
      | some s0 => exact ⟨s0, rfl⟩
    refine userUnsub_pre h.held U hu hk hin ?_
    refine slotTail_none h.held (X.slots 3 (by decide)) (WP.done ?_)
    have g1 := unsubUser_glob (S := Sp) g u st.sub.observers s0
    have U1 := plainUnsub_live (U.seen u hu) hk hin (unsubUser_users (s := s0) g U hu)
    refine ⟨g1, h.held, ⟨g1, U1, ?_⟩, ?_⟩
    · exact ⟨X.held, X.slots, X.obsvS,
        by rw [unsubUser_cells Sp w roots u st.sub.observers s0 (by decide)]; exact X.cn,
        by rw [unsubUser_cellsLen]; exact X.nCells⟩
    · refine h.conns.frame ?_ ?_ ?_ ?_
      · exact unsubUser_cells Sp w roots u st.sub.observers s0 (by decide)
      · exact unsubUser_cells Sp w roots u st.sub.observers s0 (by decide)
      · intro i hi
        exact unsubUser_obs_other Sp w roots u st.sub.observers s0
          (fun e => g.root_ne_cob hu (h.conns.lenC ▸ hi) e.symm)
      · intro i hi
        exact unsubUser_cells Sp w roots u st.sub.observers s0 (by simp [acellP, Sp]; omega)
  · have hk : u < roots.length → (st.sub.obs u).hook = false := by
      intro hu
      cases hk : (st.sub.obs u).hook with
      | false => rfl
      | true => exact absurd ⟨hu, hk⟩ hlive
    refine userUnsub_noop U u hk ?_
    exact ⟨h.glob, h.held, ⟨g, plainUnsub_noop U u hk, X⟩, h.conns⟩

/-- `(connect x)` of the case runner: `Publish::connect`, the returned handle is appended to the test's list -/
def connectProgG (hid : Nat) (S : Subj) (cn : Nat) : Prog :=
  publishConnect (fun o => .obsvSub hid o .done) S fun hd =>
    .cellRead cn false fun l => .cellWrite cn false (Data.ofList (l.toList ++ [hd])) .done

def connectProgP : Prog := connectProgG 0 Sp 4

/-- `Publish::connect` (publish.rs:26-41) = `ConnM.connectSource` -/
theorem connectP_spec {roots cobs armed w st} (h : RelP roots cobs armed w st) :
    WP connectProgP w (fun w' =>
      RelP roots (cobs ++ [w.obs.length]) (armed ++ [true]) w' (ConnM.step .publish .hot st .connect)) := by
  obtain ⟨g, U, X⟩ := h.ur
  have hst : ConnM.step .publish .hot st .connect = { st with conns := st.conns ++ [true] } := rfl
  rw [hst]
  have hm : st.conns.length = cobs.length := h.conns.lenC.symm
  unfold connectProgP connectProgG publishConnect
  refine connect_pre (H := Hp) (fn := fnP) (fe := feP) (fc := fcP) (hmap := liveFrom 0 cobs st.conns)
    (m := st.conns.length) h.held h.conns.obsv (X.slots 0 (by decide)) h.conns.ne h.conns.cellO h.conns.cellS
    (fun p hp => by have := (liveFrom_keys 0 cobs st.conns p hp).2; omega) ?_
  have hcl : (connWorld Hp fnP feP fcP w (liveFrom 0 cobs st.conns) st.conns.length).held = [] := X.held
  refine wp_cellRead hcl ?_
  refine wp_cellWrite hcl ?_
  have hcn : (connWorld Hp fnP feP fcP w (liveFrom 0 cobs st.conns) st.conns.length).cells[4]? =
      some (Data.ofList (handlesFrom 0 cobs)) := by
    rw [connWorld_cells Hp fnP feP fcP w _ _ (by decide) (by decide) (by rw [X.nCells]; omega)]; exact X.cn
  rw [hcn]
  simp only [Option.getD_some, Data.toList_ofList]
  refine WP.done ?_
  have hnew : acellP st.conns.length = w.cells.length := by rw [X.nCells, hm]; rfl
  have C1 := connWorld_conns h.conns g (fun i _ => by simp [acellP, Hp]; omega) hnew
  have g1 := connWorld_glob (H := Hp) (fn := fnP) (fe := feP) (fc := fcP) g (liveFrom 0 cobs st.conns) st.conns.length
  have hcl4 : 4 < (connWorld Hp fnP feP fcP w (liveFrom 0 cobs st.conns) st.conns.length).cells.length := by
    rw [connWorld_cellsLen, X.nCells]; omega
  -- the final world only differs from `connWorld ..` in cell 4
  refine ⟨⟨g1.status, g1.nObs, g1.rootsLt, g1.cobsLt, g1.nodup⟩, h.held,
    ⟨⟨g1.status, g1.nObs, g1.rootsLt, g1.cobsLt, g1.nodup⟩, ?_, ?_⟩, ?_⟩
  · refine U.frame ?_ ?_ rfl ?_ (fun _ => rfl)
    · show ((connWorld Hp fnP feP fcP w _ _).cells.set 4 _)[2]? = _
      rw [set_get_other _ (by decide)]
      exact connWorld_cells Hp fnP feP fcP w _ _ (by decide) (by decide) (lt_of_getElem?_some U.cellO)
    · show ((connWorld Hp fnP feP fcP w _ _).cells.set 4 _)[3]? = _
      rw [set_get_other _ (by decide)]
      exact connWorld_cells Hp fnP feP fcP w _ _ (by decide) (by decide) (lt_of_getElem?_some U.cellS)
    · intro u hu
      exact connWorld_obs_lt Hp fnP feP fcP w (liveFrom 0 cobs st.conns) st.conns.length (g.rootsLt _ (rootAt_mem hu))
  · refine ⟨X.held, X.slots, X.obsvS, ?_, ?_⟩
    · show ((connWorld Hp fnP feP fcP w _ _).cells.set 4 _)[4]? = _
      rw [set_get_same _ hcn, handlesFrom_append, Nat.zero_add, ← hm, hnew]
    · show ((connWorld Hp fnP feP fcP w _ _).cells.set 4 _).length = _
      rw [List.length_set, connWorld_cellsLen, X.nCells]; simp; omega
  · refine C1.frame ?_ ?_ (fun _ _ => rfl) ?_
    · exact set_get_other _ (by decide)
    · exact set_get_other _ (by decide)
    · intro i _; exact set_get_other _ (by simp [acellP]; omega)

/-! ### disconnect -/

def KP (i : Nat) : Prop := i = 0 ∨ 5 ≤ i

theorem URp.touchConns {roots cobs w w' s} (h : URp roots cobs w s) (t : Touch (InList cobs) KP w w')
    (htr : w'.trace = w.trace) : URp roots cobs w' s := by
  obtain ⟨g, U, X⟩ := h
  refine ⟨g.touch t, ?_, X.touch t (by simp [KP])⟩
  refine U.frame (t.cells _ (by simp [KP, Sp])) (t.cells _ (by simp [KP, Sp])) t.users ?_ ?_
  · intro u hu
    refine t.obs _ (fun hm => ?_)
    exact (List.nodup_append.1 g.nodup).2.2 _ (rootAt_mem hu) _ hm rfl
  · intro u; simp only [logOf, htr]

theorem drop_cons_rootAt (l : List Nat) (k : Nat) (h : k < l.length) : l.drop k = rootAt l k :: l.drop (k + 1) :=
  drop_cons_getD l k 0 h

theorem disconnect_loop {roots cobs} : ∀ (n k : Nat) (st : ConnM.State) (armed : List Bool) (w : World),
    k + n = cobs.length → RelP roots cobs armed w st →
    WP (forEach (handlesFrom k (cobs.drop k)) subUnsub) w (fun w' =>
      RelP roots cobs ((List.range' k n).foldl (fun l i => l.set i false) armed) w'
        { st with conns := (List.range' k n).foldl (fun l i => l.set i false) st.conns }) := by
  intro n
  induction n with
  | zero =>
    intro k st armed w hk h
    have : cobs.drop k = [] := List.drop_eq_nil_iff.2 (by omega)
    rw [this]
    exact WP.done h
  | succ n ih =>
    intro k st armed w hk h
    have hkc : k < cobs.length := by omega
    have hkl : k < st.conns.length := by rw [← h.conns.lenC]; exact hkc
    rw [drop_cons_rootAt cobs k hkc, List.range'_succ, List.foldl_cons, List.foldl_cons]
    simp only [handlesFrom, forEach]
    refine WP.seq ?_
    obtain ⟨g, U, X⟩ := h.ur
    refine (srcUnsub_spec (K := KP) h.held h.conns g (X.slots 1 (by decide))
      (fun i _ => by simp [acellP, Hp]; omega) (fun i j _ _ e => by simp [acellP] at e; exact e)
      ⟨by simp [KP, Hp], fun i _ => by simp [KP, acellP]⟩ hkl).conseq ?_
    rintro w1 ⟨C1, t1, htr⟩
    have h1 : RelP roots cobs (armed.set k false) w1 { st with conns := st.conns.set k false } :=
      ⟨h.glob.touch t1, t1.held ▸ h.held, h.ur.touchConns t1 htr, C1⟩
    exact ih (k + 1) _ _ w1 (by omega) h1

/-- `(disconnect x)` of the case runner: every stored handle is unsubscribed -/
def disconnectProgG (cn : Nat) : Prog := .cellRead cn false fun l => forEach l.toList subUnsub

def disconnectProgP : Prog := disconnectProgG 4

/-- dropping every handle `connect()` returned = `ConnM`'s `disconnect` -/
theorem disconnectP_spec {roots cobs armed w st} (h : RelP roots cobs armed w st) :
    WP disconnectProgP w (fun w' =>
      RelP roots cobs (armed.map fun _ => false) w' (ConnM.step .publish .hot st .disconnect)) := by
  obtain ⟨g, U, X⟩ := h.ur
  have hst : ConnM.step .publish .hot st .disconnect = { st with conns := st.conns.map fun _ => false } := rfl
  rw [hst]
  unfold disconnectProgP disconnectProgG
  refine wp_cellRead X.held ?_
  rw [X.cn]
  simp only [Option.getD_some, Data.toList_ofList]
  have := disconnect_loop cobs.length 0 st armed w (by omega) h
  simp only [List.drop_zero] at this
  have e1 := foldSet_all_eq st.conns
  have e2 := foldSet_all_eq armed
  rw [← h.conns.lenC] at e1
  rw [h.conns.lenA, ← h.conns.lenC] at e2
  rw [e1, e2] at this
  exact this

end Rx.CRef
