import RxVerif.Theorems.C13RefColdReplayHooks
/-
C13-REF, replay over a COLD source: the two hooks of replay.rs (= ref_count.rs:41-90) and the family instance.
-/
namespace Rx.CRef
open Rx.Sim Rx.SubjM Rx.Ref Rx.RefR

/-- `on_subscribe(len)` (replay.rs:57-90) on the cold source = `ConnM.onSubscribe` -/
theorem onSubHookRc_spec {script L cobs cacs armed pend unst Hd w st}
    (h : RelRpc script L cobs cacs armed pend unst Hd w st) (len1 : Nat) :
    WP (onSubHook rcR srcC fnR feR fcR (.int (len1 : Nat))) w (fun w' => ∃ cobs' cacs' armed',
      RelRpc script L cobs' cacs' armed' pend unst Hd w' (ConnM.onSubscribe .replay (.cold script) st (some len1))) := by
  obtain ⟨g, U, X, hs⟩ := h.inv.ur
  unfold onSubHook
  have hti : (Data.int (len1 : Nat)).toInt = (len1 : Int) := rfl
  simp only [hti]
  by_cases h1 : len1 = 1
  · subst h1
    simp only [Int.natCast_one, beq_self_eq_true, ↓reduceIte]
    refine wp_cellReadG h.inv.held ?_
    rw [show w.cells[rcR.connected]? = some (.bool st.connecting) from X.cellG]
    simp only [Option.getD_some, toBool_bool]
    cases hc : st.connecting with
    | true =>
      simp only [↓reduceIte]
      refine WP.done ⟨cobs, cacs, armed, ?_⟩
      rw [onSubscribe_skip_cold .replay script st 1 (by simp [hc])]; exact h
    | false =>
      simp only [Bool.false_eq_true, ↓reduceIte]
      refine wp_cellWriteG h.inv.held ?_
      have hm : st.conns.length = cobs.length := h.inv.conns.lenC.symm
      have h9 : 9 < w.cells.length := lt_of_getElem?_some X.cellN
      generalize hw1 : ({ w with cells := w.cells.set rcR.connected (.bool true) } : World) = w1
      have hobs1 : w1.obs = w.obs := by rw [← hw1]
      have g1 : Glob (L.roots ++ L.fwds) cobs w1 := by
        rw [← hw1]; exact ⟨g.status, g.nObs, g.rootsLt, g.cobsLt, g.nodup⟩
      have hs1 : w1.obsvs[0]? = some (coldSrc script) := by rw [← hw1]; exact hs
      have hheld1 : SlotReads w1.held := by rw [← hw1]; exact h.inv.held
      have U1 : UsersPartR L pend unst w1 st.sub := by
        rw [← hw1]
        refine U.frameW rfl (by simp) (fun i _ h6 => set_get_other _ (by simp [rcR]; omega)) ?_ (fun _ _ => rfl)
          (fun _ => rfl)
        intro c hc
        exact set_get_other _ (by have := (U.cellsGe c hc).1; simp [rcR]; omega)
      have X1 : ExtrasR L cobs cacs Hd true st.subscription st.cancelled w1 := by
        rw [← hw1]
        exact
          { X with
            cellG := set_get_same _ X.cellG
            cellB := by show (w.cells.set 7 _)[8]? = _; rw [set_get_other _ (by decide)]; exact X.cellB
            cellN := by show (w.cells.set 7 _)[9]? = _; rw [set_get_other _ (by decide)]; exact X.cellN
            caGe := fun c hc => by simpa using X.caGe c hc }
      have C1 : ConnsPartC fnR feR fcR (rootAt cacs) cobs w1 st.conns armed := by
        rw [← hw1]
        refine h.inv.conns.frame (fun _ _ => rfl) (fun i hi => set_get_other _ ?_) rfl
        have := (X.caGe _ (rootAt_mem (l := cacs) (i := i)
          (by rw [X.lenCa, h.inv.conns.lenC, ← h.full]; exact hi))).1
        simp [rcR]; omega
      have g2 := coldConn_glob (fn := fnR) (fe := feR) (fc := fcR) g1
      have h0 : ColdInv (URrc script L (cobs ++ [w1.obs.length]) cobs cacs pend unst Hd true st.subscription
          st.cancelled) fnR feR fcR (rootAt cacs) (L.roots ++ L.fwds) (cobs ++ [w1.obs.length])
          (coldConnWorld fnR feR fcR w1) { st with connecting := true, conns := st.conns ++ [true] } armed := by
        refine ⟨g2, hheld1, ⟨g2, ?_, { X1 with }, hs1⟩, C1.connect g1 h.full⟩
        exact U1.frameW rfl (Nat.le_refl _) (fun _ _ _ => rfl) (fun _ _ => rfl)
          (fun j hj => coldConn_obs_lt _ _ _ w1 (g1.rootsLt _ hj)) (fun u => logOf_emit_probe _ _ _ u)
      have hloop := coldLoop .replay
        (UR := URrc script L (cobs ++ [w1.obs.length]) cobs cacs pend unst Hd true st.subscription st.cancelled)
        (J := JR L) (K := KR) (acell := rootAt cacs) (fn := fnR) (fe := feR) (fc := fcR)
        (roots := L.roots ++ L.fwds) (cobs := cobs ++ [w1.obs.length]) (armed := armed) st.conns.length
        (fun i hi => notInRoots_cob g2 hi) (fun i _ => not_KR_rootAt X i)
        (fun w s i hi hu => hu.conn i hi) (fun w s t d hu => hu.probe t d)
        (fun w s ev hh _ hu => URrc.emit ev hh hu) script _ _ (by simp) h0
      have hroot : rootAt (cobs ++ [w1.obs.length]) st.conns.length = w1.obs.length := by
        rw [hm, rootAt_append_last]
      rw [hroot] at hloop
      refine connectCold_pre hs1 hloop ?_
      intro w2 h2
      rw [hobs1] at h2 ⊢
      have hmid := connectedRc_mid h h2
      have hheld2 : SlotReads ({ w2 with cells := w2.cells ++ [.bool true] } : World).held := h2.held
      refine wp_cellWriteG hheld2 ?_
      refine wp_cellReadG hheld2 ?_
      show WP _ (armStore w2 8 w.obs.length) _
      have X2 := h2.ur.2.2.1
      have h92 : 9 < w2.cells.length := lt_of_getElem?_some X2.cellN
      have hcn9 : (armStore w2 8 w.obs.length).cells[rcR.cancelled]? = some (.bool st.cancelled) := by
        show ((w2.cells ++ _).set 8 _)[9]? = _
        rw [set_get_other _ (by decide), get_app_lt _ _ _ h92]; exact X2.cellN
      rw [show ((w2.cells ++ [Data.bool true]).set rcR.subscription
        (.pair (.int (w.obs.length : Nat)) (.int (w2.cells.length : Nat))))[rcR.cancelled]? = _ from hcn9]
      simp only [Option.getD_some, toBool_bool]
      rw [onSubscribe_fire_cold .replay script st hc]
      cases hcn : st.cancelled with
      | false =>
        simp only [Bool.false_eq_true, ↓reduceIte]
        exact WP.done ⟨_, _, _, hmid⟩
      | true =>
        simp only [↓reduceIte]
        have hmc : st.conns.length = cacs.length := by rw [hm, X.lenCa]
        have e1 : w.obs.length = rootAt (cobs ++ [w.obs.length]) st.conns.length := by
          rw [hm, rootAt_append_last]
        have e2 : w2.cells.length = rootAt (cacs ++ [w2.cells.length]) st.conns.length := by
          rw [hmc, rootAt_append_last]
        have eprog : subUnsub (.pair (.int (w.obs.length : Nat)) (.int (w2.cells.length : Nat))) =
            subUnsub (.pair (.int (rootAt (cobs ++ [w.obs.length]) st.conns.length : Nat))
              (.int (rootAt (cacs ++ [w2.cells.length]) st.conns.length : Nat))) := by rw [← e1, ← e2]
        rw [eprog]
        have hlenF : (coldFold .replay script st).conns.length = st.conns.length + 1 := by
          unfold coldFold; rw [foldRecv_len]; simp
        refine (srcUnsubRc_spec hmid (i := st.conns.length)
          (by show _ < (coldFold _ _ _).conns.length; omega)).conseq ?_
        intro w' h'
        exact ⟨_, _, _, h'⟩
  · have : ((len1 : Int) == 1) = false := by
      rw [beq_eq_false_iff_ne]; intro e; exact h1 (by omega)
    simp only [this, Bool.false_eq_true, ↓reduceIte]
    refine WP.done ⟨cobs, cacs, armed, ?_⟩
    rw [onSubscribe_skip_cold .replay script st len1 (by simp [h1])]; exact h

end Rx.CRef
