import RxVerif.Theorems.C13RefReplayUnsub
/-
C13-REF, replay: `subscribe` of a test user (replay_subject.rs:46-100 with the `on_subscribe` hook of replay.rs
firing inside `subject.observable()`), part 1: storing `sbsc` for the subscription that was pending.
-/
namespace Rx.CRef
open Rx.Sim Rx.SubjM Rx.Ref Rx.RefR

theorem rootAt_getD_lt {l : List Nat} {x i : Nat} (h : i < l.length) : rootAt (l ++ [x]) i = rootAt l i :=
  rootAt_append_lt l x h

/-- the pending subscription `n` gets its `sbsc` stored (armed flag allocated at the end of the cells); its
    observers, log and the inner map may change at the same time — the users' side -/
theorem URr.storeUser {L cobs cacs pend Hd cg sb cn w n} {s : SubjM.State}
    (hur : URr L cobs cacs pend (some n) Hd cg sb cn w s)
    (w' : World) (r' : ObsSt) (O' : List (Nat × Nat))
    (hstatus : w'.status = w.status) (hheld : w'.held = w.held) (hslots : w'.slots = w.slots)
    (hobsvs : w'.obsvs = w.obsvs) (hobsLen : w'.obs.length = w.obs.length)
    (hclen : w'.cells.length = w.cells.length + 1)
    (hcell2 : w'.cells[2]? = some (encMap (mapL L O')))
    (hcells : ∀ i, i ≠ 2 → i ≠ rootAt L.sbs n → i < w.cells.length → w'.cells[i]? = w.cells[i]?)
    (hsb : w'.cells[rootAt L.sbs n]? = some (handleL (L.store w.cells.length) n))
    (hac : w'.cells[w.cells.length]? = some (.bool r'.armed))
    (husers : w'.users = w.users)
    (hothers : ∀ i, i ≠ rootAt L.roots n → i ≠ rootAt L.fwds n → w'.obs[i]? = w.obs[i]?)
    (hlogs : ∀ u, u ≠ n → logOf w' u = logOf w u)
    (hroot : w'.obs[rootAt L.roots n]? = some (rootOfL (rootAt L.sbs n) n r'))
    (hfwd : w'.obs[rootAt L.fwds n]? = some (fwdOfL (rootAt L.roots n) r'))
    (hlog : logOf w' n = r'.log) (hhook : r'.hook = (s.obs n).hook) (hseen : r'.seen = true)
    (hdead : r'.hook = false → r'.alive = false)
    (hkeys : ∀ p ∈ O', p.1 ≤ s.serial) (hreg : ∀ p ∈ O', p.2 < L.roots.length) :
    URr (L.store w.cells.length) cobs cacs pend none Hd cg sb cn w'
      { s with observers := O', obs := upd s.obs n r' } := by
  obtain ⟨g, U, X⟩ := hur
  have hn : n + 1 = L.roots.length := U.unstLast n rfl
  have hnl : n < L.roots.length := by omega
  have hacsl : L.acs.length = n := by have := U.lenA; simp at this; omega
  have h9 : 9 < w.cells.length := lt_of_getElem?_some X.cellN
  have UN := U.users n hnl
  have hsbn := U.sb_ge hnl
  have g' : Glob (L.roots ++ L.fwds) cobs w' :=
    ⟨hstatus ▸ g.status, hobsLen ▸ g.nObs, fun r hr => hobsLen ▸ g.rootsLt r hr,
     fun c hc => hobsLen ▸ g.cobsLt c hc, g.nodup⟩
  have hlf : n < L.fwds.length := U.lenF ▸ hnl
  have hacs' : ∀ u, u < n → rootAt (L.acs ++ [w.cells.length]) u = rootAt L.acs u :=
    fun u hu => rootAt_append_lt _ _ (by omega)
  have hacn : rootAt (L.acs ++ [w.cells.length]) n = w.cells.length := by rw [← hacsl, rootAt_append_last]
  have U' : UsersPartR (L.store w.cells.length) pend none w'
      { s with observers := O', obs := upd s.obs n r' } := by
    refine
      { lenF := U.lenF, lenS := U.lenS
        lenA := by simp [LayR.store, hacsl]; omega
        unstLast := fun _ hx => by cases hx
        cellO := hcell2
        cellS := by rw [hcells 3 (by omega) (by omega) (by omega)]; exact U.cellS
        cellI := by rw [hcells 4 (by omega) (by omega) (by omega)]; exact U.cellI
        cellE := by rw [hcells 5 (by omega) (by omega) (by omega)]; exact U.cellE
        cellC := by rw [hcells 6 (by omega) (by omega) (by omega)]; exact U.cellC
        nUsers := husers ▸ U.nUsers
        users := ?_
        unseen := ?_, quiet := ?_
        keys := hkeys, regBound := hreg
        cellsNodup := ?_, cellsGe := ?_ }
    · intro u hu
      by_cases e : u = n
      · subst e
        simp only [upd, ↓reduceIte]
        obtain ⟨rd, h1, h2⟩ := UN.user
        exact ⟨⟨rd, by rw [husers, hhook]; exact h1, h2⟩, hroot, hfwd,
          (by show w'.cells[rootAt L.sbs u]? = _; simpa using hsb),
          (fun _ => by show w'.cells[rootAt (L.acs ++ [w.cells.length]) u]? = _; rw [hacn]; exact hac),
          (fun x => by cases x), hlog, hseen, hdead⟩
      · have hun : u < n := by have : u < L.roots.length := hu; omega
        have UU := U.users u hu
        have hst : (some n : Option Nat) ≠ some u := fun x => e (Option.some.inj x).symm
        simp only [upd, e, ↓reduceIte]
        obtain ⟨rd, h1, h2⟩ := UU.user
        have hsbu := U.sb_ge hu
        have hacu := U.ac_ge hu hst
        refine ⟨⟨rd, by rw [husers]; exact h1, h2⟩, ?_, ?_, ?_, ?_, (fun x => by cases x), ?_, UU.seen, UU.dead⟩
        all_goals (try dsimp only [LayR.store])
        · rw [hothers _ (fun x => e (GlobR.root_inj g hu hnl x)) (GlobR.root_ne_fwd g hu hlf)]; exact UU.root
        · rw [hothers _ (fun x => GlobR.root_ne_fwd g hnl (U.lenF ▸ hu) x.symm)
            (fun x => e (GlobR.fwd_inj g (U.lenF ▸ hu) hlf x))]; exact UU.fwd
        · show w'.cells[rootAt L.sbs u]? = _
          rw [hcells _ (by omega) (fun x => e (U.sb_inj hu hnl x)) hsbu.2]
          have := UU.sb
          simp only [hst, ↓reduceIte] at this
          simp only [reduceCtorEq, ↓reduceIte, handleL, hacs' u hun]
          exact this
        · intro _
          show w'.cells[rootAt (L.acs ++ [w.cells.length]) u]? = _
          rw [hacs' u hun, hcells _ (by omega) (fun x => U.sb_ne_ac hnl u x.symm) hacu.2]
          exact UU.ac hst
        · rw [hlogs u e]; exact UU.log
    · intro u hu
      have : u ≠ n := by have : L.roots.length ≤ u := hu; omega
      simp only [upd, this, ↓reduceIte]; exact U.unseen u hu
    · intro u hu
      have : u ≠ n := by have : L.roots.length ≤ u := hu; omega
      rw [hlogs u this]; exact U.quiet u hu
    · show (L.sbs ++ (L.acs ++ [w.cells.length])).Nodup
      rw [← List.append_assoc, List.nodup_append]
      refine ⟨U.cellsNodup, by simp, ?_⟩
      intro a ha b hb
      simp at hb; subst hb
      have := (U.cellsGe a ha).2; omega
    · intro c hc
      rw [hclen]
      have hc' : c ∈ (L.sbs ++ L.acs) ++ [w.cells.length] := by
        simpa [LayR.store, List.append_assoc] using hc
      rcases List.mem_append.1 hc' with hc' | hc'
      · have := U.cellsGe c hc'; omega
      · simp at hc'; subst hc'; omega
  refine ⟨g', U', ?_⟩
  exact
    { X with
      held := hheld ▸ X.held, slot0 := hslots ▸ X.slot0, slot1 := hslots ▸ X.slot1, slot2 := hslots ▸ X.slot2
      slot3 := hslots ▸ X.slot3, obsvS := hobsvs ▸ X.obsvS
      cellG := by rw [hcells 7 (by omega) (by omega) (by omega)]; exact X.cellG
      cellB := by rw [hcells 8 (by omega) (by omega) (by omega)]; exact X.cellB
      cellN := by rw [hcells 9 (by omega) (by omega) (by omega)]; exact X.cellN
      caGe := fun c hc => by rw [hclen]; have := X.caGe c hc; omega
      caDisj := fun c hc hm => by
        have hm' : c ∈ (L.sbs ++ L.acs) ++ [w.cells.length] := by
          simpa [LayR.store, List.append_assoc] using hm
        rcases List.mem_append.1 hm' with hm' | hm'
        · exact X.caDisj c hc hm'
        · simp at hm'; subst hm'; have := (X.caGe _ hc).2; omega }

/-- the same at the level of the whole relation -/
theorem RelRp.storeUser {L cobs cacs armed pend Hd w st n} (h : RelRp L cobs cacs armed pend (some n) Hd w st)
    (w' : World) (r' : ObsSt) (O' : List (Nat × Nat))
    (hstatus : w'.status = w.status) (hheld : w'.held = w.held) (hslots : w'.slots = w.slots)
    (hobsvs : w'.obsvs = w.obsvs) (hobsLen : w'.obs.length = w.obs.length)
    (hclen : w'.cells.length = w.cells.length + 1)
    (hcell2 : w'.cells[2]? = some (encMap (mapL L O')))
    (hcells : ∀ i, i ≠ 2 → i ≠ rootAt L.sbs n → i < w.cells.length → w'.cells[i]? = w.cells[i]?)
    (hsb : w'.cells[rootAt L.sbs n]? = some (handleL (L.store w.cells.length) n))
    (hac : w'.cells[w.cells.length]? = some (.bool r'.armed))
    (husers : w'.users = w.users)
    (hothers : ∀ i, i ≠ rootAt L.roots n → i ≠ rootAt L.fwds n → w'.obs[i]? = w.obs[i]?)
    (hlogs : ∀ u, u ≠ n → logOf w' u = logOf w u)
    (hroot : w'.obs[rootAt L.roots n]? = some (rootOfL (rootAt L.sbs n) n r'))
    (hfwd : w'.obs[rootAt L.fwds n]? = some (fwdOfL (rootAt L.roots n) r'))
    (hlog : logOf w' n = r'.log) (hhook : r'.hook = (st.sub.obs n).hook) (hseen : r'.seen = true)
    (hdead : r'.hook = false → r'.alive = false)
    (hkeys : ∀ p ∈ O', p.1 ≤ st.sub.serial) (hreg : ∀ p ∈ O', p.2 < L.roots.length) :
    RelRp (L.store w.cells.length) cobs cacs armed pend none Hd w'
      { st with sub := { st.sub with observers := O', obs := upd st.sub.obs n r' } } := by
  have hur' := h.ur.storeUser w' r' O' hstatus hheld hslots hobsvs hobsLen hclen hcell2 hcells hsb hac husers hothers
    hlogs hroot hfwd hlog hhook hseen hdead hkeys hreg
  obtain ⟨g, U, X⟩ := h.ur
  have hn : n + 1 = L.roots.length := U.unstLast n rfl
  have hnl : n < L.roots.length := by omega
  have hlf : n < L.fwds.length := U.lenF ▸ hnl
  have h9 : 9 < w.cells.length := lt_of_getElem?_some X.cellN
  have hsbn := U.sb_ge hnl
  refine ⟨hur'.1, hheld ▸ h.held, hur', ?_⟩
  refine h.conns.frame (hcells 0 (by decide) (by omega) (by omega)) (hcells 1 (by decide) (by omega) (by omega)) ?_ ?_ hobsvs
  · intro i hi
    have hic : i < cobs.length := h.conns.lenC ▸ hi
    exact hothers _ (fun e => GlobR.root_ne_cob g hnl hic e.symm) (fun e => GlobR.fwd_ne_cob g hlf hic e.symm)
  · intro i hi
    have hm := rootAt_mem (l := cacs) (i := i) (by rw [X.lenCa, h.conns.lenC]; exact hi)
    have := X.caGe _ hm
    refine hcells _ (by omega) (fun e => ?_) this.2
    exact X.caDisj _ hm (e ▸ List.mem_append_left _ (rootAt_mem (U.lenS ▸ hnl)))

/-! ### the `SubjM` side of the hand-over -/

def liveRecS (s1 : Nat) (items : List Data) : ObsSt :=
  { seen := true, alive := true, hook := true, inAlive := true, inHook := some s1, armed := true, log := items.map .next }

theorem subscribeB_replay_eq (s : SubjM.State) (n s1 : Nat) (l : Option Nat) (H : List Data)
    (hr : s.obs n = regRec s1) :
    subscribeB .replay s n { fresh := true, len := l, history := H } =
      match termOf s.wasError s.wasCompleted with
      | none => ({ s with obs := upd s.obs n (liveRecS s1 H) }, none)
      | some t =>
        ({ s with observers := s.observers.filter (fun p => p.1 != s1), obs := upd s.obs n (deadRec H t) },
         some (s.observers.filter (fun p => p.1 != s1)).length) := by
  simp only [subscribeB, Kind.isReplay, Bool.and_self, ↓reduceIte, subscribeH, hr]
  rw [handOver_eq _ _ _ _ (by rfl)]
  cases termOf s.wasError s.wasCompleted with
  | none => simp [reap, upd_upd, liveRecS, regRec]
  | some t => simp [reap, upd_upd, deadRec, regRec]

end Rx.CRef
