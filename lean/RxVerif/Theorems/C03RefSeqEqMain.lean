import RxVerif.Theorems.C03RefSeqEqStep
/-
C03-REF, sequence_equal, part 14: one history entry = `Comb.sequenceEqual.step`; the whole history.
-/
namespace Rx.SeqRef
open Rx.Sim Rx.Ref Rx.Comb Rx.CRef

variable {k : Nat}

theorem ok_notlive_seq (R : List Nat) (qs : List (List Data)) (i : Nat) (ev : Ev) (hi : R.contains i = false) :
    sequenceEqual.step (okS R qs) (i, ev) = (okS R qs, []) := by
  cases ev with
  | next d => exact ok_notlive R qs i _ hi
  | error e => exact ok_notlive R qs i _ hi
  | complete =>
    simp only [sequenceEqual.step]
    rw [ok_notlive R qs i _ hi, ok_notlive R qs i _ hi]; rfl

/-- one history entry -/
theorem step_spec (s : Over) (out : List Ev) (w : World) (p : Nat × Ev) (h : QRel k s out w) :
    WP (callOf (sjs k) p) w (QRel k (sequenceEqual.step s p).1 (out ++ (sequenceEqual.step s p).2)) := by
  obtain ⟨i, ev⟩ := p
  obtain ⟨σ, hg, hout, hcorr⟩ := h
  rcases hcorr with ⟨R, qs, rfl, hc⟩ | ⟨hd, hs⟩
  · -- nothing has ended yet
    have hnoop : R.contains i = false →
        WP (callOf (sjs k) (i, ev)) w (QRel k (sequenceEqual.step (okS R qs) (i, ev)).1
          (out ++ (sequenceEqual.step (okS R qs) (i, ev)).2)) := by
      intro hR
      rw [ok_notlive_seq R qs i ev hR, List.append_nil]
      rcases Nat.lt_or_ge i k with hi | hi
      · rw [callOf_lt hi]
        exact (subjNoop_spec hg hi (hc.chD i hi hR) ev).conseq fun w1 h1 => ⟨σ, h1, hout, .inl ⟨R, qs, rfl, hc⟩⟩
      · rw [callOf_ge hi]; exact WP.done ⟨σ, hg, hout, .inl ⟨R, qs, rfl, hc⟩⟩
    cases hR : R.contains i with
    | false => exact hnoop hR
    | true =>
      have hi : i < k := hc.rlt i (by simpa using hR)
      rw [callOf_lt hi]
      have hl := hc.chL i hi hR
      have hreg : σ.reg.contains i = true := by rw [hc.reg]; exact hR
      cases ev with
      | next d =>
        obtain ⟨e1, e2⟩ := corr_next hc hR (Data.optEnc (some d))
        refine (subjNext_spec hg hc.ready hi hl d).conseq fun w1 h1 => ⟨_, h1, ?_, e2⟩
        rw [e1, hout]; rfl
      | error e =>
        obtain ⟨e1, e2⟩ := corr_error hc hi hR e
        refine (subjError_spec hg hc.ready hi hl e).conseq fun w1 h1 => ⟨_, h1, ?_, e2⟩
        rw [e1, hout]; rfl
      | complete =>
        obtain ⟨e1, e2⟩ := corr_complete hc hi hR w.obs.length
        refine (subjComplete_spec hg hc.ready hi hl hreg).conseq fun w1 h1 => ⟨_, h1, ?_, e2⟩
        rw [e1, hout]
  · -- everything is over
    obtain ⟨e1, e2⟩ := dead_step s hd (i, ev)
    rw [e1, List.append_nil]
    rcases Nat.lt_or_ge i k with hi | hi
    · rw [callOf_lt hi]
      exact (subjNoop_spec hg hi (hs i hi) ev).conseq fun w1 h1 => ⟨σ, h1, hout, .inr ⟨e2, hs⟩⟩
    · rw [callOf_ge hi]; exact WP.done ⟨σ, hg, hout, .inr ⟨e2, hs⟩⟩

theorem drive_seq (H : History) (s : Over) (out : List Ev) (w : World) (h : QRel k s out w) :
    WP (drive (sjs k) H) w (QRel k (finalFrom sequenceEqual.step s H) (out ++ runFrom sequenceEqual.step s H)) :=
  drive_spec sequenceEqual.step (QRel k) (callOf (sjs k)) step_spec H s out w h

end Rx.SeqRef
