import RxVerif.Conc.Timed
/-
C16 — timer logic in virtual time (model: `RxVerif/Conc/Timed.lean`).

"interval(d) emits 0,1,2,... at d, 2d, 3d,... after subscription until unsubscribed; timer(d) emits once at d and
completes; delay(d) hands each item on d after receiving it, preserving order; timeout(d) passes items through and fails
with a TimedOut error exactly when more than d elapses after an item with no successor and no completion; sample and
debounce only ever deliver items the source emitted, in source order, none twice."

All theorems quantify over every period, every script and EVERY interleaving (every label list accepted by `step`);
they are proved by invariants over `Reach`.  This file also holds the invariants shared with `C15.lean`
(`IW.Inv`, `IW.TInv`, `Timeout.Inv`, `Debounce.Inv`, `Timer.Inv`).
`Timeout` follows operators/timeout.rs at HEAD 11cd3c1 (on_finalize cancels the armed timer; re-check after the store)
and has consumer handling times (`Params.handling`): the downstream callback blocks the source thread inside `sink_next`.

Main theorems: `Interval.interval_ticks` (+ `interval_emits`, `interval_only`, `interval_tie_delivered/_dropped`),
`Timer.timer_once`, `Delay.delay_times` (+ `expected_events`, `expected_sorted`, `expected_rel/abs`; with consumer
handling times `Params.handling`),
`Timeout.timeout_exact` (+ `expected_no_gap`, `expected_gap`, `timeout_never_fires_on_slow_consumer`,
`timeout_tie_fires/_passes`),
`Debounce.debounce_subsequence`, `Sample.sample_subsequence`; for the executable expectations of the model file
(`expectedLine`): `Interval.interval_expected`, `Interval.interval_take_expected`, `Timer.timer_expected`.
-/
namespace Rx.Timed

theorem reach_induct {σ ℓ : Type} {step : σ → ℓ → Option σ} {init : σ} (P : σ → Prop)
    (h0 : P init) (hs : ∀ s l s', P s → step s l = some s' → P s') : ∀ s, Reach step init s → P s := by
  intro s ⟨ls, h⟩
  induction ls generalizing init with
  | nil => simp [runFrom] at h; subst h; exact h0
  | cons l ls ih =>
    simp only [runFrom] at h
    split at h
    · next s' hs' => exact ih (hs _ _ _ h0 hs') h
    · contradiction

theorem Src.start_props (now : Nat) (r : Script) :
    ((Src.start now r).pc = .sleeping ∨ (Src.start now r).pc = .done) ∧ (Src.start now r).rest = r ∧
    (Src.start now r).base = now ∧ ((Src.start now r).pc = .done ↔ r = []) ∧
    (∀ (w : Wait) (ev : Ev) (r' : Script), r = (w, ev) :: r' → (Src.start now r).wake = w.wake now) ∧
    now ≤ (Src.start now r).wake := by
  cases r with
  | nil => simp [Src.start]
  | cons a r => obtain ⟨w, ev⟩ := a; simp [Src.start]; exact w.le_wake now

@[simp] theorem Src.start_rest (now : Nat) (r : Script) : (Src.start now r).rest = r :=
  (Src.start_props now r).2.1

namespace IW

def stepBound : WPc → Nat
  | .emit => 0 | .top => 1 | .sleeping => 2 | .abort => 3 | .ret => 4 | .exited => 5

structure Inv (d now : Nat) (w : IW) : Prop where
  sub_iff : w.sub = true ↔ w.endedAt = none
  ended_le : ∀ e : Nat, w.endedAt = some e → e ≤ now
  sl_now : w.pc = .sleeping → now ≤ w.wake ∧ w.wake ≤ now + d
  sl_end : w.pc = .sleeping → ∀ e : Nat, w.endedAt = some e → w.wake ≤ e + d
  run_end : (w.pc = .top ∨ w.pc = .emit) → ∀ e : Nat, w.endedAt = some e → now = e
  ab_end : (w.pc = .abort ∨ w.pc = .ret) → ∃ e : Nat, w.endedAt = some e ∧ now ≤ e + d
  ex_end : w.pc = .exited → ∃ e x : Nat, w.endedAt = some e ∧ w.exitedAt = some x ∧ x ≤ e + d ∧ x ≤ now
  exitedAt_pc : ∀ x : Nat, w.exitedAt = some x → w.pc = .exited
  sleeps : w.sleepsAfterEnd ≤ 1 ∧ (w.sub = true → w.sleepsAfterEnd = 0) ∧
           ((w.pc = .top ∨ w.pc = .emit) → w.sleepsAfterEnd = 0)
  steps : w.stepsAfterEnd ≤ stepBound w.pc ∧ (w.sub = true → w.stepsAfterEnd = 0)

theorem inv_init (d now : Nat) : Inv d now {} := by
  constructor <;> simp [stepBound]

theorem inv_new (d now b : Nat) : Inv d now { born := b } := by
  constructor <;> simp [stepBound]

theorem localStep_inv {d now : Nat} {w w' : IW} (h : Inv d now w) (hs : w.localStep d now = some w') :
    Inv d now w' := by
  obtain ⟨pc, wake, n, sub, endedAt, sl, st, ex, born⟩ := w
  obtain ⟨h1, h2, h3, h4, h5, h6, h7, h8, h9, h10⟩ := h
  cases pc <;> simp [localStep] at hs
  · subst hs; cases sub <;> cases endedAt <;> (constructor <;> simp_all [late, stepBound] <;> omega)
  · obtain ⟨hw, hs⟩ := hs
    subst hs; cases sub <;> cases endedAt <;> (constructor <;> simp_all [late, stepBound] <;> omega)
  · subst hs; cases sub <;> cases endedAt <;> (constructor <;> simp_all [late, stepBound] <;> omega)
  · subst hs; cases sub <;> cases endedAt <;> (constructor <;> simp_all [late, stepBound] <;> omega)

theorem emitted_inv {d now : Nat} {w : IW} (stop : Bool) (h : Inv d now w) (hp : w.pc = .emit) :
    Inv d now (w.emitted now stop) := by
  obtain ⟨pc, wake, n, sub, endedAt, sl, st, ex, born⟩ := w
  obtain ⟨h1, h2, h3, h4, h5, h6, h7, h8, h9, h10⟩ := h
  simp at hp; subst hp
  cases sub <;> cases endedAt <;> cases stop <;> (constructor <;> simp_all [emitted, late, stepBound] <;> omega)

theorem cancel_inv {d now : Nat} {w : IW} (h : Inv d now w) : Inv d now (w.cancel now) := by
  obtain ⟨pc, wake, n, sub, endedAt, sl, st, ex, born⟩ := w
  obtain ⟨h1, h2, h3, h4, h5, h6, h7, h8, h9, h10⟩ := h
  cases sub <;> cases endedAt <;> cases pc <;> (constructor <;> simp_all [cancel, stepBound] <;> omega)

theorem tick_inv {d now t' : Nat} {w : IW} (h : Inv d now w) (ht : now < t') (ha : w.allowsTick now t' = true) :
    Inv d t' w := by
  obtain ⟨pc, wake, n, sub, endedAt, sl, st, ex, born⟩ := w
  obtain ⟨h1, h2, h3, h4, h5, h6, h7, h8, h9, h10⟩ := h
  cases pc <;> simp [allowsTick] at ha <;>
    cases sub <;> cases endedAt <;> cases ex <;> (constructor <;> simp_all [stepBound] <;> omega)

/-- a worker whose subscription ended at `e` has left its scheduler thread once the clock passed `e + d` -/
theorem exited_after {d now e : Nat} {w : IW} (h : Inv d now w) (he : w.endedAt = some e) (hn : e + d < now) :
    w.pc = .exited := by
  obtain ⟨h1, h2, h3, h4, h5, h6, h7, h8, h9, h10⟩ := h
  cases hp : w.pc <;> simp_all <;> omega

theorem localStep_spec {d now : Nat} {w w' : IW} (hw : w.localStep d now = some w') :
    w'.n = w.n ∧ w'.sub = w.sub ∧ w'.endedAt = w.endedAt ∧ w'.born = w.born ∧ w'.pc ≠ .top ∧
    (w'.pc = .sleeping → w.pc = .top ∧ w'.wake = now + d) ∧
    (w'.pc = .emit → w.pc = .sleeping ∧ w.wake ≤ now ∧ w.sub = true) ∧
    (w.pc = .exited → False) ∧ (w.pc = .emit → False) := by
  obtain ⟨pc, wake, n, sub, endedAt, sl, st, ex, born⟩ := w
  cases pc <;> simp [localStep] at hw
  · subst hw; simp
  · obtain ⟨hw0, hw⟩ := hw; subst hw; cases sub <;> simp [hw0]
  · subst hw; simp
  · subst hw; simp

/-- extra facts about a worker that serves `interval(d).take(1)` (the timers of `timeout`): while its observer is
    subscribed it is in its first round, started at `born` -/
structure TInv (d now : Nat) (w : IW) : Prop where
  born_le : w.born ≤ now
  first : w.sub = true → w.n = 0 ∧ (w.pc = .top ∨ w.pc = .sleeping ∨ w.pc = .emit)
  top : w.sub = true → w.pc = .top → now = w.born
  sl : w.sub = true → w.pc = .sleeping → w.wake = w.born + d
  em : w.sub = true → w.pc = .emit → now = w.born + d
  ended : ∀ e : Nat, w.endedAt = some e → e ≤ w.born + d

theorem tinv_new (d now : Nat) : TInv d now { born := now } := by
  constructor <;> simp

theorem localStep_tinv {d now : Nat} {w w' : IW} (h : Inv d now w) (ht : TInv d now w)
    (hs : w.localStep d now = some w') : TInv d now w' := by
  obtain ⟨pc, wake, n, sub, endedAt, sl, st, ex, born⟩ := w
  obtain ⟨h1, h2, h3, h4, h5, h6, h7, h8, h9, h10⟩ := h
  obtain ⟨t1, t2, t3, t4, t5, t6⟩ := ht
  cases pc <;> simp [localStep] at hs
  · subst hs; constructor <;> grind
  · obtain ⟨hw, hs⟩ := hs
    subst hs; constructor <;> grind
  · subst hs; constructor <;> grind
  · subst hs; constructor <;> grind

theorem emitted_tinv {d now : Nat} {w : IW} (_h : Inv d now w) (ht : TInv d now w) (hp : w.pc = .emit) :
    TInv d now (w.emitted now true) := by
  obtain ⟨t1, t2, t3, t4, t5, t6⟩ := ht
  constructor <;> grind [emitted]

theorem cancel_tinv {d now : Nat} {w : IW} (h : Inv d now w) (ht : TInv d now w) : TInv d now (w.cancel now) := by
  obtain ⟨h1, h2, h3, h4, h5, h6, h7, h8, h9, h10⟩ := h
  obtain ⟨t1, t2, t3, t4, t5, t6⟩ := ht
  constructor <;> grind [cancel]

theorem tick_tinv {d now t' : Nat} {w : IW} (ht : TInv d now w) (hlt : now < t') (ha : w.allowsTick now t' = true) :
    TInv d t' w := by
  obtain ⟨t1, t2, t3, t4, t5, t6⟩ := ht
  constructor <;> grind [allowsTick]

end IW

def ticks (d m : Nat) : List Out := (List.range m).map fun k => ((k + 1) * d, Ev.next (.int k))

theorem ticks_succ (d m : Nat) : ticks d (m + 1) = ticks d m ++ [((m + 1) * d, Ev.next (.int m))] := by
  simp [ticks, List.range_succ]

namespace Interval

structure Inv (p : Params) (s : State) : Prop where
  iw : IW.Inv p.d s.now s.w
  top_now : s.w.pc = .top → s.now = s.w.n * p.d
  sl_wake : s.w.pc = .sleeping → s.w.wake = (s.w.n + 1) * p.d
  emit_now : s.w.pc = .emit → s.now = (s.w.n + 1) * p.d
  u_wait : s.udone = false → ∀ u : Nat, p.unsubAt = some u → s.now ≤ u
  u_none : p.unsubAt = none → s.udone = true
  sub_u : s.w.sub = true → s.udone = false ∨ p.unsubAt = none
  take_sub : s.w.sub = true → ∀ c : Nat, p.take = some c → s.w.n = 0 ∨ s.w.n < c
  /-- between the two halves of a completing tick the worker is still inside `s.next(n)` -/
  half_emit : s.half = true → s.w.pc = .emit

theorem inv_init (p : Params) : Inv p (init p) := by
  constructor <;> simp [init, IW.inv_init]
  · cases p.unsubAt <;> simp

theorem timely {p : Params} {s : State} (h : Inv p s) (hs : s.w.sub = true) (k : Nat)
    (hk : (k + 1) * p.d < s.now) : k < s.w.n := by
  obtain ⟨iw, h1, h2, h3, h4, h5, h6, h7, h8⟩ := h
  cases hp : s.w.pc
  · rw [h1 hp] at hk; have := Nat.lt_of_mul_lt_mul_right hk; omega
  · have := (iw.sl_now hp).1; rw [h2 hp] at this
    exact Nat.lt_of_add_lt_add_right (Nat.lt_of_mul_lt_mul_right (Nat.lt_of_lt_of_le hk this))
  · rw [h3 hp] at hk; exact Nat.lt_of_add_lt_add_right (Nat.lt_of_mul_lt_mul_right hk)
  · obtain ⟨e, he, _⟩ := iw.ab_end (Or.inl hp); have := iw.sub_iff.1 hs; simp_all
  · obtain ⟨e, he, _⟩ := iw.ab_end (Or.inr hp); have := iw.sub_iff.1 hs; simp_all
  · obtain ⟨e, x, he, _⟩ := iw.ex_end hp; have := iw.sub_iff.1 hs; simp_all

theorem step_inv {p : Params} {s s' : State} {l : Label} (h : Inv p s) (hs : step p s l = some s') : Inv p s' := by
  obtain ⟨iw, h1, h2, h3, h4, h5, h6, h7, h8⟩ := h
  cases l with
  | tick t' =>
    simp only [step] at hs
    split at hs
    · next hc =>
      obtain ⟨c1, c2, c3⟩ := hc
      injection hs with hs; subst hs
      have iw' := IW.tick_inv iw c1 c2
      constructor <;> simp_all [uAllowsTick]
      · intro hp; simp [IW.allowsTick, hp] at c2
      · intro hp; simp [IW.allowsTick, hp] at c2
      · intro hu u hu'; simp [hu, hu'] at c3; omega
    · contradiction
  | run tid =>
    match tid with
    | 0 =>
      simp only [step] at hs
      split at hs
      · next hp =>
        split at hs
        · -- second half of a completing tick
          next hh =>
          injection hs with hs; subst hs
          have iw' := IW.emitted_inv true iw hp
          constructor <;> simp_all [IW.emitted]
        · split at hs
          · -- first half: only `log` and `half` change
            next hh hc =>
            injection hs with hs; subst hs
            constructor <;> simp_all
          · next hh hc =>
            injection hs with hs; subst hs
            have iw' := IW.emitted_inv (completes p s.w) iw hp
            constructor <;> simp_all [IW.emitted]
            · intro hsub hc c hc'
              simp [completes, hsub, hc'] at hc
              omega
      · next hp =>
        split at hs
        · next w' hw =>
          injection hs with hs; subst hs
          have iw' := IW.localStep_inv iw hw
          obtain ⟨f1, f2, f3, fb, f4, f5, f6, f7, f8⟩ := IW.localStep_spec hw
          constructor <;> simp_all
          · intro hq; have := f5 hq; simp_all [Nat.succ_mul]
          · intro hq; have := f6 hq; have := iw.sl_now this.1; simp_all; omega
        · contradiction
    | 1 =>
      simp only [step] at hs
      split at hs
      · next u hu =>
        split at hs
        · next hc =>
          injection hs with hs; subst hs
          have iw' := IW.cancel_inv iw
          constructor <;> simp_all [IW.cancel]
        · contradiction
      · contradiction
    | n + 2 => simp [step] at hs

/-- the completion record `take(c)` produces: at the tick on which `nn + 1 >= c` first holds -/
def fin (p : Params) (c : Nat) : List Out := [(max c 1 * p.d, Ev.complete)]

structure Shape (p : Params) (s : State) (m : Nat) : Prop where
  le_n : s.half = false → m ≤ s.w.n
  sub_eq : s.w.sub = true → s.half = false → m = s.w.n ∧ s.log = ticks p.d m
  /-- between the two halves of the completing tick of `take(c)`: tick `n = c - 1` is already in the log, `n` is not yet
      incremented; the subscriber can only have been unsubscribed by thread 1, at this very instant -/
  half_eq : s.half = true → m = s.w.n + 1 ∧ p.take = some m ∧ s.log = ticks p.d m ∧
    (s.w.sub = false → ∃ u : Nat, p.unsubAt = some u ∧ u ≤ m * p.d)
  log : s.log = ticks p.d m ∨ ∃ c : Nat, p.take = some c ∧ s.w.sub = false ∧ m = c ∧ s.log = ticks p.d m ++ fin p c
  before_u : ∀ k u : Nat, k < m → p.unsubAt = some u → (k + 1) * p.d ≤ u
  below_c : ∀ k c : Nat, k < m → p.take = some c → k < c
  timely : s.w.sub = false → ∀ k : Nat, (∀ u : Nat, p.unsubAt = some u → (k + 1) * p.d < u) →
    (∀ c : Nat, p.take = some c → k < c) → k < m
  fin_due : s.w.sub = false → ∀ c : Nat, p.take = some c → (∀ u : Nat, p.unsubAt = some u → max c 1 * p.d < u) →
    s.log = ticks p.d c ++ fin p c

theorem shape_init (p : Params) : Shape p (init p) 0 := by
  constructor <;> simp [init, ticks]

theorem shape_step {p : Params} {s s' : State} {l : Label} {m : Nat} (h : Inv p s) (hm : Shape p s m)
    (hs : step p s l = some s') : ∃ m', Shape p s' m' := by
  obtain ⟨iw, h1, h2, h3, h4, h5, h6, h7, h8⟩ := h
  cases l with
  | tick t' =>
    simp only [step] at hs
    split at hs
    · next hc =>
      obtain ⟨c1, c2, c3⟩ := hc
      injection hs with hs; subst hs
      refine ⟨m, ?_⟩
      obtain ⟨g1, g2, gh, g3, g4, g5, g6, g7⟩ := hm
      constructor <;> simp_all
      · intro hh; simp [IW.allowsTick, h8 hh] at c2
    · contradiction
  | run tid =>
    match tid with
    | 0 =>
      obtain ⟨g1, g2, gh, g3, g4, g5, g6, g7⟩ := hm
      simp only [step] at hs
      split at hs
      · next hp =>
        have hnow := h3 hp
        split at hs
        · -- second half of a completing tick: `complete` is delivered iff the subscriber is still subscribed
          next hh =>
          injection hs with hs; subst hs
          obtain ⟨e1, e2, e3, e4⟩ := gh hh
          have hmax : max m 1 = m := by omega
          refine ⟨m, ?_⟩
          cases hsub : s.w.sub
          · obtain ⟨u, eu, eu'⟩ := e4 hsub
            constructor <;> simp_all [IW.emitted, fin]
          · constructor <;> simp_all [IW.emitted, fin]
        · split at hs
          · -- first half: the item of the completing tick is delivered
            next hh hc =>
            injection hs with hs; subst hs
            have hh' : s.half = false := by simpa using hh
            clear hh gh
            have hsub : s.w.sub = true := by
              have := hc.1; simp [delivers] at this; exact this.1
            obtain ⟨g2a, g2b⟩ := g2 hsub hh'
            subst g2a
            have hu : ∀ u : Nat, p.unsubAt = some u → (s.w.n + 1) * p.d ≤ u := by
              intro u hu
              rcases h6 hsub with h | h
              · rw [← hnow]; exact h4 h u hu
              · simp [h] at hu
            cases htk : p.take with
            | none => simp [completes, htk] at hc
            | some c =>
              have hce : c = s.w.n + 1 := by
                have a := hc.1; have b := hc.2; simp [delivers, completes, hsub, htk] at a b; omega
              subst hce
              clear hc
              refine ⟨s.w.n + 1, ?_⟩
              constructor <;> simp_all [ticks_succ]
              · intro k u hk hu'; rcases Nat.lt_succ_iff_lt_or_eq.1 hk with h | h
                · exact g4 k u h hu'
                · subst h; exact hu u hu'
          · next hh hnc =>
            injection hs with hs; subst hs
            have hh' : s.half = false := by simpa using hh
            clear hh gh
            cases hsub : s.w.sub
            · -- already unsubscribed: nothing is delivered
              refine ⟨m, ?_⟩
              constructor <;> simp_all [IW.emitted, delivers, completes]
              omega
            · obtain ⟨g2a, g2b⟩ := g2 hsub hh'
              subst g2a
              have hu : ∀ u : Nat, p.unsubAt = some u → (s.w.n + 1) * p.d ≤ u := by
                intro u hu
                rcases h6 hsub with h | h
                · rw [← hnow]; exact h4 h u hu
                · simp [h] at hu
              cases htk : p.take with
              | none =>
                refine ⟨s.w.n + 1, ?_⟩
                constructor <;> simp_all [IW.emitted, delivers, completes, ticks_succ]
                · intro k u hk hu'; rcases Nat.lt_succ_iff_lt_or_eq.1 hk with h | h
                  · exact g4 k u h hu'
                  · subst h; exact hu u hu'
              | some c =>
                have h7' := h7 hsub c htk
                by_cases hlt : s.w.n < c
                · by_cases hc : c ≤ s.w.n + 1
                  · have hce : c = s.w.n + 1 := by omega
                    have hmax : max c 1 = s.w.n + 1 := by omega
                    -- a delivered AND completing tick takes the two-step branches above
                    exact absurd ⟨by simp [delivers, hsub, htk, hlt], by simp [completes, hsub, htk, hc]⟩ hnc
                  · refine ⟨s.w.n + 1, ?_⟩
                    constructor <;> simp_all [IW.emitted, delivers, completes, ticks_succ, fin]
                    · intro k u hk hu'; rcases Nat.lt_succ_iff_lt_or_eq.1 hk with h | h
                      · exact g4 k u h hu'
                      · subst h; exact hu u hu'
                    · intro k hk; omega
                    · intro h; omega
                    · intro h; omega
                · have hn0 : s.w.n = 0 := by omega
                  have hc0 : c = 0 := by omega
                  refine ⟨0, ?_⟩
                  constructor <;> simp_all [IW.emitted, delivers, completes, ticks, fin]
      · split at hs
        · next w' hw =>
          injection hs with hs; subst hs
          obtain ⟨f1, f2, f3, fb, f4, f5, f6, f7, f8⟩ := IW.localStep_spec hw
          refine ⟨m, ?_⟩
          constructor <;> simp_all
        · contradiction
    | 1 =>
      simp only [step] at hs
      split at hs
      · next u hu =>
        split at hs
        · next hc =>
          injection hs with hs; subst hs
          refine ⟨m, ?_⟩
          have hnow : s.now = u := Nat.le_antisymm (h4 hc.1 u hu) hc.2
          have htm := fun (hsub : s.w.sub = true) => timely ⟨iw, h1, h2, h3, h4, h5, h6, h7, h8⟩ hsub
          obtain ⟨g1, g2, gh, g3, g4, g5, g6, g7⟩ := hm
          cases hh : s.half
          · clear gh
            constructor <;> simp_all [IW.cancel]
            · cases hsub : s.w.sub <;> simp_all
            · intro k hk hc'
              cases hsub : s.w.sub
              · exact g6 hsub k hk hc'
              · have := htm hsub k hk; have := (g2 hsub).1; omega
            · intro c hc' hcu
              cases hsub : s.w.sub
              · exact g7 hsub c hc' hcu
              · exfalso
                have h7' := h7 hsub c hc'
                have := htm hsub (max c 1 - 1)
                have e : max c 1 - 1 + 1 = max c 1 := by omega
                rw [e] at this
                have := this hcu
                omega
          · -- unsubscribe between the two halves of the completing tick
            obtain ⟨e1, e2, e3, e4⟩ := gh hh
            have hem := h3 (h8 hh)
            have hmax : max m 1 = m := by omega
            have hu' : u = m * p.d := by rw [← hnow, hem, e1]
            constructor
            · intro h; simp at h
            · intro h; simp [IW.cancel] at h
            · intro _
              exact ⟨by simpa [IW.cancel] using e1, e2, e3, fun _ => ⟨u, hu, Nat.le_of_eq hu'⟩⟩
            · exact Or.inl e3
            · exact g4
            · exact g5
            · intro _ k _ hc'; exact hc' m e2
            · intro _ c hc' hcu
              have hcm : c = m := by
                have h := hc'; rw [e2] at h; injection h with h; exact h.symm
              subst hcm
              have := hcu u hu
              rw [hmax] at this; omega
        · contradiction
      · contradiction
    | n + 2 => simp [step] at hs

theorem reach_inv {p : Params} {s : State} (hr : Reach (step p) (init p) s) : Inv p s ∧ ∃ m, Shape p s m := by
  refine reach_induct (fun s => Inv p s ∧ ∃ m, Shape p s m) ⟨inv_init p, 0, shape_init p⟩ ?_ s hr
  intro s l s' ⟨hi, m, hm⟩ hs
  exact ⟨step_inv hi hs, shape_step hi hm hs⟩

/-- **C16 `interval_ticks`.**  In every reachable state of `interval(d)[.take(c)]` (subscribed at time 0, optionally
unsubscribed by another thread at time `u`) the subscriber's log is `0 ↦ d, 1 ↦ 2d, …, m-1 ↦ m·d`
(plus `complete` at `c·d` when `take(c)` ended it), no tick later than `u` and none beyond `c` was delivered,
and every tick `k` with `(k+1)·d < u` (and `k < c`) IS in the log as soon as the clock passed `(k+1)·d`.
At equality `(k+1)·d = u` both outcomes occur (`interval_tie_delivered`, `interval_tie_dropped`). -/
theorem interval_ticks (p : Params) (s : State) (hr : Reach (step p) (init p) s) :
    ∃ m : Nat,
      (s.log = ticks p.d m ∨
        ∃ c : Nat, p.take = some c ∧ m = c ∧ s.log = ticks p.d c ++ [(max c 1 * p.d, Ev.complete)]) ∧
      (∀ k u : Nat, k < m → p.unsubAt = some u → (k + 1) * p.d ≤ u) ∧
      (∀ k c : Nat, k < m → p.take = some c → k < c) ∧
      (∀ k : Nat, (k + 1) * p.d < s.now → (∀ u : Nat, p.unsubAt = some u → (k + 1) * p.d < u) →
        (∀ c : Nat, p.take = some c → k < c) → k < m) ∧
      (∀ c : Nat, p.take = some c → max c 1 * p.d < s.now → (∀ u : Nat, p.unsubAt = some u → max c 1 * p.d < u) →
        s.log = ticks p.d c ++ [(max c 1 * p.d, Ev.complete)]) := by
  obtain ⟨hi, m, hm⟩ := reach_inv hr
  refine ⟨m, ?_, hm.before_u, hm.below_c, ?_, ?_⟩
  · rcases hm.log with h | ⟨c, h1, _, h3, h4⟩
    · exact Or.inl h
    · exact Or.inr ⟨c, h1, h3, by rw [h4, h3]; rfl⟩
  · intro k hk hu hc
    cases hsub : s.w.sub
    · exact hm.timely hsub k hu hc
    · have := timely hi hsub k hk
      cases hh : s.half
      · have := (hm.sub_eq hsub hh).1; omega
      · have := (hm.half_eq hh).1; omega
  · intro c hc hnow hu
    cases hsub : s.w.sub
    · exact hm.fin_due hsub c hc hu
    · exfalso
      have h7 := hi.take_sub hsub c hc
      have := timely hi hsub (max c 1 - 1)
      have e : max c 1 - 1 + 1 = max c 1 := by omega
      rw [e] at this
      have := this hnow
      omega

theorem mem_ticks {d m : Nat} {x : Out} : x ∈ ticks d m ↔ ∃ k : Nat, k < m ∧ x = ((k + 1) * d, Ev.next (.int k)) := by
  simp [ticks]; constructor
  · rintro ⟨k, hk, rfl⟩; exact ⟨k, hk, rfl⟩
  · rintro ⟨k, hk, rfl⟩; exact ⟨k, hk, rfl⟩

/-- plain `interval(d)`: tick `k` is delivered at exactly `(k+1)·d`, for every `k` with `(k+1)·d < u` -/
theorem interval_emits (p : Params) (s : State) (hr : Reach (step p) (init p) s) (ht : p.take = none) (k : Nat)
    (hk : (k + 1) * p.d < s.now) (hu : ∀ u : Nat, p.unsubAt = some u → (k + 1) * p.d < u) :
    ((k + 1) * p.d, Ev.next (.int k)) ∈ s.log := by
  obtain ⟨m, h1, _, _, h4, _⟩ := interval_ticks p s hr
  have hm := h4 k hk hu (by simp [ht])
  rcases h1 with h | ⟨c, hc, _⟩
  · rw [h]; exact mem_ticks.2 ⟨k, hm, rfl⟩
  · simp [ht] at hc

/-- plain `interval(d)`: nothing else is ever delivered, and nothing after `u` -/
theorem interval_only (p : Params) (s : State) (hr : Reach (step p) (init p) s) (ht : p.take = none) (x : Out)
    (hx : x ∈ s.log) : ∃ k : Nat, x = ((k + 1) * p.d, Ev.next (.int k)) ∧ ∀ u : Nat, p.unsubAt = some u → (k + 1) * p.d ≤ u := by
  obtain ⟨m, h1, h2, _, _, _⟩ := interval_ticks p s hr
  rcases h1 with h | ⟨c, hc, _⟩
  · rw [h] at hx; obtain ⟨k, hk, rfl⟩ := mem_ticks.1 hx
    exact ⟨k, rfl, fun u hu => h2 k u hk hu⟩
  · simp [ht] at hc

/-- equality `(k+1)·d = u`, worker first: tick 0 of `interval(2)` unsubscribed at `2` is delivered -/
theorem interval_tie_delivered :
    (runFrom (step { d := 2, unsubAt := some 2 }) (init { d := 2, unsubAt := some 2 })
      [.run 0, .tick 2, .run 0, .run 0, .run 1, .run 0, .tick 4, .run 0, .run 0, .run 0, .tick 5]).map (fun s => (s.now, s.log))
      = some (5, [(2, Ev.next (.int 0))]) := by decide

/-- equality `(k+1)·d = u`, unsubscriber first: the same tick is not delivered -/
theorem interval_tie_dropped :
    (runFrom (step { d := 2, unsubAt := some 2 }) (init { d := 2, unsubAt := some 2 })
      [.run 0, .tick 2, .run 1, .run 0, .run 0, .run 0, .tick 5]).map (fun s => (s.now, s.log))
      = some (5, []) := by decide

/-- non-vacuity: `interval(3).take(2)` with an unsubscribe at 100 reaches time 10 with `0@3, 1@6, complete@6` -/
example :
    (runFrom (step { d := 3, unsubAt := some 100, take := some 2 }) (init { d := 3, unsubAt := some 100, take := some 2 })
      [.run 0, .tick 3, .run 0, .run 0, .run 0, .tick 6, .run 0, .run 0, .run 0, .run 0, .tick 9, .run 0, .run 0, .run 0, .tick 10]).map
        (fun s => (s.now, s.log, s.w.pc))
      = some (10, [(3, Ev.next (.int 0)), (6, Ev.next (.int 1)), (6, Ev.complete)], WPc.exited) := by decide

/-- unsubscribe between the two halves of the completing tick of `interval(2).take(1)`: the item is delivered,
    `complete` is not -/
theorem interval_take_unsub_between :
    (runFrom (step { d := 2, unsubAt := some 2, take := some 1 }) (init { d := 2, unsubAt := some 2, take := some 1 })
      [.run 0, .tick 2, .run 0, .run 0, .run 1, .run 0, .run 0, .tick 4, .run 0, .run 0, .run 0, .tick 5]).map
      (fun s => (s.now, s.log, s.w.pc)) = some (5, [(2, Ev.next (.int 0))], WPc.exited) := by decide

end Interval

namespace Timer

def evN (p : Params) : Out := (p.d, Ev.next .unit)
def evC (p : Params) : Out := (p.d, Ev.complete)

def stepBound : Pc → Nat
  | .top => 0 | .sleeping => 1 | .next => 2 | .complete => 3 | .abort => 4 | .ret => 5 | .exited => 6

structure Inv (p : Params) (s : State) : Prop where
  top_now : s.pc = .top → s.now = 0
  sl_wake : s.pc = .sleeping → s.wake = p.d ∧ s.now ≤ p.d
  mid_now : (s.pc = .next ∨ s.pc = .complete ∨ s.pc = .abort ∨ s.pc = .ret) → s.now = p.d
  ex : s.pc = .exited → s.exitedAt = some p.d ∧ p.d ≤ s.now
  ex_pc : ∀ x : Nat, s.exitedAt = some x → s.pc = .exited
  u_wait : s.udone = false → ∀ u : Nat, p.unsubAt = some u → s.now ≤ u
  u_none : p.unsubAt = none → s.udone = true
  early : (s.pc = .top ∨ s.pc = .sleeping ∨ s.pc = .next) → s.log = []
  at_c : s.pc = .complete → (s.log = [] ∨ s.log = [evN p]) ∧ (s.sub = true → s.log = [evN p])
  after : (s.pc = .abort ∨ s.pc = .ret ∨ s.pc = .exited) → s.sub = false ∧ (s.log = [] ∨ s.log = [evN p] ∨ s.log = [evN p, evC p])
  sub_false : s.sub = false → s.log = [evN p, evC p] ∨ ∃ u : Nat, p.unsubAt = some u ∧ u ≤ s.now ∧ u ≤ p.d
  sub_iff : s.sub = true ↔ s.endedAt = none
  ended : ∀ e : Nat, s.endedAt = some e → e ≤ s.now ∧ e ≤ p.d
  steps : s.stepsAfterEnd ≤ stepBound s.pc ∧ (s.sub = true → s.stepsAfterEnd = 0)
  udone_sub : s.udone = true → ∀ u : Nat, p.unsubAt = some u → s.sub = false
  early_u : ∀ u : Nat, p.unsubAt = some u → u < p.d → s.log = []
  sleeps : s.sleepsAfterEnd ≤ 1 ∧ (s.sub = true → s.sleepsAfterEnd = 0) ∧ (s.pc = .top → s.sleepsAfterEnd = 0)

theorem inv_init (p : Params) : Inv p (init p) := by
  constructor <;> simp [init, stepBound]
  · intro h u; simp [h]

theorem step_inv {p : Params} {s s' : State} {l : Label} (h : Inv p s) (hs : step p s l = some s') : Inv p s' := by
  obtain ⟨a1, a2, a3, a4, a5, a6, a7, a8, a9, a10, a11, a12, a13, a14, a16, a17, a15⟩ := h
  obtain ⟨now, pc, wake, sub, udone, log, endedAt, st, sl, ex⟩ := s
  cases l with
  | tick t' =>
    simp only [step] at hs
    split at hs
    · next hc =>
      obtain ⟨c1, c2, c3⟩ := hc
      injection hs with hs; subst hs
      cases pc <;> simp [wAllowsTick] at c2 <;>
        (constructor <;> simp_all [uAllowsTick] <;> grind)
    · contradiction
  | run tid =>
    match tid with
    | 0 =>
      cases pc <;> simp [step] at hs
      · subst hs; constructor <;> grind [late, stepBound, evN, evC]
      · obtain ⟨hw, hs⟩ := hs
        subst hs; constructor <;> grind [late, stepBound, evN, evC]
      · subst hs; cases udone <;> constructor <;> grind [late, stepBound, evN, evC]
      · subst hs; constructor <;> grind [late, stepBound, evN, evC]
      · subst hs; constructor <;> grind [late, stepBound, evN, evC]
      · subst hs; constructor <;> grind [late, stepBound, evN, evC]
    | 1 =>
      simp only [step] at hs
      split at hs
      · next u hu =>
        split at hs
        · next hc =>
          injection hs with hs; subst hs
          cases pc <;> constructor <;> grind [late, stepBound, evN, evC]
        · contradiction
      · contradiction
    | n + 2 => simp [step] at hs

theorem reach_inv {p : Params} {s : State} (hr : Reach (step p) (init p) s) : Inv p s :=
  reach_induct (Inv p) (inv_init p) (fun _ _ _ h hs => step_inv h hs) s hr

/-- **C16 `timer_once`.**  `timer(d)` delivers nothing but `next(())` and then `complete`, both at time exactly `d`;
if it is not unsubscribed up to and including time `d`, both ARE delivered as soon as the clock passed `d`;
if it is unsubscribed before `d`, nothing is ever delivered. -/
theorem timer_once (p : Params) (s : State) (hr : Reach (step p) (init p) s) :
    (s.log = [] ∨ s.log = [(p.d, Ev.next .unit)] ∨ s.log = [(p.d, Ev.next .unit), (p.d, Ev.complete)]) ∧
    (p.d < s.now → (∀ u : Nat, p.unsubAt = some u → p.d < u) → s.log = [(p.d, Ev.next .unit), (p.d, Ev.complete)]) ∧
    (∀ u : Nat, p.unsubAt = some u → u < p.d → s.log = []) := by
  have h := reach_inv hr
  obtain ⟨a1, a2, a3, a4, a5, a6, a7, a8, a9, a10, a11, a12, a13, a14, a16, a17, a15⟩ := h
  refine ⟨?_, ?_, a17⟩
  · cases hp : s.pc <;> grind [evN, evC]
  · intro hd hu
    cases hp : s.pc <;> grind [evN, evC]

example : (runFrom (step { d := 4 }) (init { d := 4 }) [.run 0, .tick 4, .run 0, .run 0, .run 0, .run 0, .run 0, .tick 9]).map
    (fun s => (s.now, s.log, s.pc)) = some (9, [(4, Ev.next .unit), (4, Ev.complete)], Pc.exited) := by decide

end Timer

namespace Delay

theorem expected_ge {d : Nat} : ∀ (sc : Script) (hs : List Nat) (t : Nat) (o : Out), o ∈ expected d t sc hs → t ≤ o.1
  | [], _, _, _, h => by simp [expected] at h
  | (w, .next x) :: r, hs, t, o, h => by
      simp only [expected, List.mem_cons] at h
      have := w.le_wake t
      rcases h with h | h
      · subst h; simp; omega
      · have := expected_ge r _ _ o h; omega
  | (w, .error e) :: r, hs, t, o, h => by
      simp only [expected, List.mem_cons, List.not_mem_nil, or_false] at h
      subst h; exact w.le_wake t
  | (w, .complete) :: r, hs, t, o, h => by
      simp only [expected, List.mem_cons, List.not_mem_nil, or_false] at h
      subst h; exact w.le_wake t

/-- every record still to come is no earlier than the moment the head's call is made (plus `d` for an item) -/
theorem expected_head_ge {d : Nat} {w : Wait} {ev : Ev} {r : Script} {hs : List Nat} {t : Nat} {o : Out}
    (h : o ∈ expected d t ((w, ev) :: r) hs) : w.wake t ≤ o.1 ∧ (∀ x, ev = .next x → w.wake t + d ≤ o.1) := by
  cases ev with
  | next x =>
    simp only [expected, List.mem_cons] at h
    rcases h with h | h
    · subst h; simp
    · have := expected_ge r _ _ o h; simp; omega
  | error e => simp only [expected, List.mem_cons, List.not_mem_nil, or_false] at h; subst h; simp
  | complete => simp only [expected, List.mem_cons, List.not_mem_nil, or_false] at h; subst h; simp

/-- the records still to come, as a function of the state (while the subscriber is subscribed) -/
def futOf (p : Params) (s : State) : List Out :=
  if s.src.pc = .mid2 then expected p.d s.src.wake s.src.rest.tail s.hrest.tail
  else expected p.d s.src.base s.src.rest s.hrest

structure Inv (p : Params) (s : State) : Prop where
  u_wait : s.udone = false → ∀ u : Nat, p.unsubAt = some u → s.now ≤ u
  u_none : p.unsubAt = none → s.udone = true
  sub_u : s.sub = true → s.udone = false ∨ p.unsubAt = none
  sub_src : s.sub = true → s.srcSub = true
  nonempty : s.src.pc ≠ .done → s.src.rest ≠ []
  sl : s.src.pc = .sleeping → s.now ≤ s.src.wake ∧ ∀ (w : Wait) (ev : Ev) (r : Script), s.src.rest = (w, ev) :: r → s.src.wake = w.wake s.src.base
  call : s.src.pc = .call → ∀ (w : Wait) (ev : Ev) (r : Script), s.src.rest = (w, ev) :: r → s.now = w.wake s.src.base
  mid1 : s.src.pc = .mid1 → s.now ≤ s.src.wake ∧ ∀ (w : Wait) (ev : Ev) (r : Script), s.src.rest = (w, ev) :: r →
            s.src.wake = w.wake s.src.base + p.d ∧ ∃ x, ev = .next x
  mid2 : s.src.pc = .mid2 → s.now ≤ s.src.wake
  done : s.src.pc = .done → s.src.rest = []
  fut : ∃ f : List Out, s.log ++ f = expected p.d 0 p.script p.handling ∧ (s.sub = true → f = futOf p s) ∧
          (s.sub = false → f = [] ∨ ∃ u : Nat, p.unsubAt = some u ∧ ∀ o ∈ f, u ≤ o.1)
  safe : ∀ o ∈ s.log, ∀ u : Nat, p.unsubAt = some u → o.1 ≤ u

theorem inv_init (p : Params) : Inv p (init p) := by
  cases hs : p.script with
  | nil => constructor <;> simp [init, Src.start, hs, expected, futOf] <;> cases p.unsubAt <;> simp
  | cons a r =>
    obtain ⟨w, ev⟩ := a
    constructor <;> simp [init, Src.start, hs, futOf] <;> first | (cases p.unsubAt <;> simp) | exact w.le_wake 0

/-- nothing still to come is earlier than `now` -/
theorem fut_ge {p : Params} {s : State} (h : Inv p s) (o : Out) (ho : o ∈ futOf p s) : s.now ≤ o.1 := by
  obtain ⟨a1, a2, a3, a4, a5, a6, a7, a8, a9, a10, _, a12⟩ := h
  simp only [futOf] at ho
  split at ho
  · next hp => have := expected_ge _ _ _ o ho; have := a9 hp; omega
  · next hp2 =>
    cases hr : s.src.rest with
    | nil => simp [hr, expected] at ho
    | cons a r =>
      obtain ⟨w, ev⟩ := a
      rw [hr] at ho
      obtain ⟨g1, g2⟩ := expected_head_ge ho
      cases hp : s.src.pc
      · have := a6 hp; have := this.2 w ev r hr; omega
      · have := a7 hp w ev r hr; omega
      · obtain ⟨m1, m2⟩ := a8 hp
        obtain ⟨m3, x, m4⟩ := m2 w ev r hr
        have := g2 x m4; omega
      · exact absurd hp hp2
      · simp [a10 hp] at hr

theorem next_futOf (p : Params) (s : State) :
    futOf p (next s) = expected p.d s.now s.src.rest.tail s.hrest.tail ∧ (next s).src.pc ≠ .mid1 ∧ (next s).src.pc ≠ .mid2 := by
  obtain ⟨q1, q2, q3, q4, q5, q6⟩ := Src.start_props s.now s.src.rest.tail
  have hpc : (s.src.advance s.now).pc ≠ .mid1 ∧ (s.src.advance s.now).pc ≠ .mid2 := by
    simp only [Src.advance]; rcases q1 with h | h <;> simp [h]
  refine ⟨?_, hpc.1, hpc.2⟩
  simp only [futOf, next, hpc.2, if_false]
  simp [Src.advance, q3]

theorem step_inv {p : Params} {s s' : State} {l : Label} (h : Inv p s) (hs : step p s l = some s') : Inv p s' := by
  have hI := h
  obtain ⟨a1, a2, a3, a4, a5, a6, a7, a8, a9, a10, ⟨f, f1, f2, f3⟩, a12⟩ := h
  obtain ⟨n1, n2, n3⟩ := next_futOf p s
  obtain ⟨q1, q2, q3, q4, q5, q6⟩ := Src.start_props s.now s.src.rest.tail
  cases l with
  | tick t' =>
    simp only [step] at hs
    split at hs
    · next hc =>
      obtain ⟨c1, c2, c3⟩ := hc
      injection hs with hs; subst hs
      have hf : ∃ f : List Out, s.log ++ f = expected p.d 0 p.script p.handling ∧ (s.sub = true → f = futOf p s) ∧
          (s.sub = false → f = [] ∨ ∃ u : Nat, p.unsubAt = some u ∧ ∀ o ∈ f, u ≤ o.1) := ⟨f, f1, f2, f3⟩
      constructor <;> first | exact hf | grind [srcAllowsTick, uAllowsTick]
    · contradiction
  | run tid =>
    match tid with
    | 0 =>
      simp only [step] at hs
      split at hs
      · -- the sleep before the call returns
        next hp =>
        split at hs
        · next x hx =>
          injection hs with hs; subst hs
          simp only [Src.wakeUp] at hx
          split at hx
          · injection hx with hx; subst hx
            have hf : ∃ f : List Out, s.log ++ f = expected p.d 0 p.script p.handling ∧
              (s.sub = true → f = futOf p { s with src := { s.src with pc := .call } }) ∧
              (s.sub = false → f = [] ∨ ∃ u : Nat, p.unsubAt = some u ∧ ∀ o ∈ f, u ≤ o.1) :=
                ⟨f, f1, fun h => by rw [f2 h]; simp [futOf, hp], f3⟩
            constructor <;> first | exact hf | grind
          · contradiction
        · contradiction
      · next hp =>
        split at hs
        · next w x r hr =>
          split at hs
          · next hsrc =>
            injection hs with hs; subst hs
            have hf : ∃ f : List Out, s.log ++ f = expected p.d 0 p.script p.handling ∧
              (s.sub = true → f = futOf p { s with src := { s.src with pc := .mid1, wake := s.now + p.d } }) ∧
              (s.sub = false → f = [] ∨ ∃ u : Nat, p.unsubAt = some u ∧ ∀ o ∈ f, u ≤ o.1) :=
                ⟨f, f1, fun h => by rw [f2 h]; simp [futOf, hp], f3⟩
            constructor <;> first | exact hf | grind
          · next hsrc =>
            injection hs with hs; subst hs
            have hsub : s.sub = false := by cases h : s.sub <;> simp_all
            have hf : ∃ f : List Out, s.log ++ f = expected p.d 0 p.script p.handling ∧
              (s.sub = true → f = futOf p (next s)) ∧
              (s.sub = false → f = [] ∨ ∃ u : Nat, p.unsubAt = some u ∧ ∀ o ∈ f, u ≤ o.1) := ⟨f, f1, by simp [hsub], f3⟩
            constructor <;> first | exact hf | grind [next, Src.advance]
        · next w ev r hne hr =>
          injection hs with hs; subst hs
          have hnow := a7 hp w ev r hr
          have hf : ∃ f' : List Out, (s.log ++ if (s.srcSub && s.sub) = true then [(s.now, ev)] else []) ++ f' = expected p.d 0 p.script p.handling ∧
              ((s.sub && !s.srcSub) = true → f' = futOf p (next s)) ∧
              ((s.sub && !s.srcSub) = false → f' = [] ∨ ∃ u : Nat, p.unsubAt = some u ∧ ∀ o ∈ f', u ≤ o.1) := by
            cases hsub : s.sub
            · exact ⟨f, by simpa using f1, by simp, fun _ => f3 hsub⟩
            · have hsrc := a4 hsub
              refine ⟨[], ?_, by simp [hsrc], fun _ => Or.inl rfl⟩
              rw [← f1, f2 hsub]
              simp only [futOf, hp, hr]
              cases ev with
              | next x => exact absurd rfl (hne x)
              | error e => simp [hsrc, expected, hnow]
              | complete => simp [hsrc, expected, hnow]
          constructor <;> first | exact hf | grind [next, Src.advance]
        · next hr => exact absurd hr (a5 (by simp [hp]))
      · next hp =>
        split at hs
        · next w ev r hr =>
          split at hs
          · next hw =>
            obtain ⟨m1, m2⟩ := a8 hp
            obtain ⟨m3, x, m4⟩ := m2 w ev r hr
            have hnw : s.now = w.wake s.src.base + p.d := by omega
            have hfs : s.sub = true → f = (s.now, ev) :: expected p.d (s.now + hnow s) r s.hrest.tail := by
              intro hsub
              rw [f2 hsub]; simp only [futOf, hp, hr, m4]
              simp [expected, hnw, hnow]
            split at hs
            · next hc =>
              -- delivered; the consumer's callback keeps the source thread for `h`
              injection hs with hs; subst hs
              have hf : ∃ f' : List Out, (s.log ++ [(s.now, ev)]) ++ f' = expected p.d 0 p.script p.handling ∧
                  (s.sub = true → f' = futOf p { s with src := { s.src with pc := .mid2, wake := s.now + hnow s },
                                                        log := s.log ++ [(s.now, ev)] }) ∧
                  (s.sub = false → f' = [] ∨ ∃ u : Nat, p.unsubAt = some u ∧ ∀ o ∈ f', u ≤ o.1) := by
                refine ⟨expected p.d (s.now + hnow s) r s.hrest.tail, ?_, ?_, by simp [hc.1]⟩
                · rw [← f1, hfs hc.1]; simp
                · intro _; simp [futOf, hr]
              constructor <;> first | exact hf | grind
            · next hc =>
              injection hs with hs; subst hs
              have hf : ∃ f' : List Out, (s.log ++ if s.sub = true then [(s.now, ev)] else []) ++ f' = expected p.d 0 p.script p.handling ∧
                  (s.sub = true → f' = futOf p (next s)) ∧
                  (s.sub = false → f' = [] ∨ ∃ u : Nat, p.unsubAt = some u ∧ ∀ o ∈ f', u ≤ o.1) := by
                cases hsub : s.sub
                · exact ⟨f, by simpa using f1, by simp, fun _ => f3 hsub⟩
                · have h0 : hnow s = 0 := by
                    cases hh : hnow s with
                    | zero => rfl
                    | succ n => exact absurd ⟨hsub, by omega⟩ hc
                  refine ⟨expected p.d s.now r s.hrest.tail, ?_, by intro _; rw [n1, hr]; rfl, by simp⟩
                  rw [← f1, hfs hsub, h0]; simp
              constructor <;> first | exact hf | grind [next, Src.advance]
          · contradiction
        · contradiction
      · next hp =>
        split at hs
        · next hw =>
          -- the consumer's callback returns
          injection hs with hs; subst hs
          have hnow : s.now = s.src.wake := Nat.le_antisymm (a9 hp) hw
          have hf : ∃ f' : List Out, s.log ++ f' = expected p.d 0 p.script p.handling ∧
              (s.sub = true → f' = futOf p (next s)) ∧
              (s.sub = false → f' = [] ∨ ∃ u : Nat, p.unsubAt = some u ∧ ∀ o ∈ f', u ≤ o.1) := by
            refine ⟨f, f1, ?_, f3⟩
            intro hsub; rw [f2 hsub, n1]; simp [futOf, hp, hnow]
          constructor <;> first | exact hf | grind [next, Src.advance]
        · contradiction
      · contradiction
    | 1 =>
      simp only [step] at hs
      split at hs
      · next u hu =>
        split at hs
        · next hc =>
          injection hs with hs; subst hs
          have hnow : s.now = u := Nat.le_antisymm (a1 hc.1 u hu) hc.2
          have hf : ∃ f' : List Out, s.log ++ f' = expected p.d 0 p.script p.handling ∧
              (false = true → f' = futOf p { s with udone := true, sub := false, srcSub := false }) ∧
              (false = false → f' = [] ∨ ∃ u : Nat, p.unsubAt = some u ∧ ∀ o ∈ f', u ≤ o.1) := by
            refine ⟨f, f1, by simp, fun _ => ?_⟩
            cases hsub : s.sub
            · exact f3 hsub
            · refine Or.inr ⟨u, hu, ?_⟩
              intro o ho
              rw [f2 hsub] at ho
              rw [← hnow]
              exact fut_ge hI o ho
          constructor <;> first | exact hf | grind
        · contradiction
      · contradiction
    | n + 2 => simp [step] at hs

theorem reach_inv {p : Params} {s : State} (hr : Reach (step p) (init p) s) : Inv p s :=
  reach_induct (Inv p) (inv_init p) (fun _ _ _ h hs => step_inv h hs) s hr

/-- **C16 `delay_times`.**  For every period, every source script (relative gaps and/or absolute instants), every list of
consumer handling times and every unsubscription time: the log of the subscriber of `source.delay(d)` is always a prefix
of `expected d 0 script handling` — item `i` is handed on at `recv_i + d` where `recv_i = wake_i(done_{i-1})` (for an
absolute instant `a_i` that is `max a_i done_{i-1}`; `done_{i-1}` = hand-over time of the previous item PLUS its handling
time, because the SOURCE thread sleeps inside `next` and then runs the consumer's callback), terminal events pass
undelayed, order is the source order — and every record due before `now` (and before the unsubscription) is present;
nothing is delivered after the unsubscription time. -/
theorem delay_times (p : Params) (s : State) (hr : Reach (step p) (init p) s) :
    s.log <+: expected p.d 0 p.script p.handling ∧
    (∀ o ∈ expected p.d 0 p.script p.handling, o.1 < s.now → (∀ u : Nat, p.unsubAt = some u → o.1 < u) → o ∈ s.log) ∧
    (∀ o ∈ s.log, ∀ u : Nat, p.unsubAt = some u → o.1 ≤ u) := by
  have h := reach_inv hr
  obtain ⟨f, f1, f2, f3⟩ := h.fut
  refine ⟨⟨f, f1⟩, ?_, h.safe⟩
  intro o ho hnow hu
  rw [← f1, List.mem_append] at ho
  rcases ho with ho | ho
  · exact ho
  · exfalso
    cases hsub : s.sub
    · rcases f3 hsub with h0 | ⟨u, h1, h2⟩
      · simp [h0] at ho
      · have := h2 o ho; have := hu u h1; omega
    · rw [f2 hsub] at ho
      have := fut_ge h o ho; omega

/-- the events of a script up to and including its first terminal event -/
def cut : List Ev → List Ev
  | [] => []
  | .next x :: r => .next x :: cut r
  | e :: _ => [e]

/-- order is preserved, nothing is dropped or duplicated (up to the first terminal event of the source) -/
theorem expected_events (d : Nat) : ∀ (sc : Script) (hs : List Nat) (t : Nat),
    (expected d t sc hs).map Prod.snd = cut (sc.map Prod.snd)
  | [], _, _ => rfl
  | (w, .next x) :: r, hs, t => by simp [expected, cut, expected_events d r]
  | (w, .error e) :: r, hs, t => by simp [expected, cut]
  | (w, .complete) :: r, hs, t => by simp [expected, cut]

/-- hand-over times are non-decreasing (order kept also in time) -/
theorem expected_sorted (d : Nat) : ∀ (sc : Script) (hs : List Nat) (t : Nat),
    (expected d t sc hs).Pairwise (fun a b => a.1 ≤ b.1)
  | [], _, _ => by simp [expected]
  | (w, .next x) :: r, hs, t => by
      simp only [expected, List.pairwise_cons]
      exact ⟨fun o ho => by have := expected_ge r _ _ o ho; simp; omega, expected_sorted d r _ _⟩
  | (w, .error e) :: r, hs, t => by simp [expected]
  | (w, .complete) :: r, hs, t => by simp [expected]

theorem expected_rel (d t g : Nat) (x : Data) (r : Script) (hs : List Nat) :
    expected d t ((.rel g, .next x) :: r) hs = (t + g + d, .next x) :: expected d (t + g + d + hs.headD 0) r hs.tail := rfl

theorem expected_abs (d t a : Nat) (x : Data) (r : Script) (hs : List Nat) :
    expected d t ((.abs a, .next x) :: r) hs =
      (max a t + d, .next x) :: expected d (max a t + d + hs.headD 0) r hs.tail := by
  have : Wait.wake t (.abs a) = max a t := by simp [Wait.wake]; split <;> omega
  simp [expected, this]

/-- the delays ACCUMULATE: a source that wants to emit at 1 and 2 through `delay(10)` is seen at 11 and 21
    (ReactiveX `delay` would give 11 and 12) -/
example : expected 10 0 [(.abs 1, .next (.int 1)), (.abs 2, .next (.int 2)), (.abs 3, .complete)] []
    = [(11, .next (.int 1)), (21, .next (.int 2)), (21, .complete)] := by decide

/-- with a consumer that needs 5 per item the second item is received only at 16: 11, 26, complete at 31 -/
example : expected 10 0 [(.abs 1, .next (.int 1)), (.abs 2, .next (.int 2)), (.abs 3, .complete)] [5, 5]
    = [(11, .next (.int 1)), (26, .next (.int 2)), (31, .complete)] := by decide

/-- non-vacuity: a run of that script reaching time 30 with the whole expected log -/
example :
    (runFrom (step { d := 10, script := [(.abs 1, .next (.int 1)), (.abs 2, .next (.int 2)), (.abs 3, .complete)] })
      (init { d := 10, script := [(.abs 1, .next (.int 1)), (.abs 2, .next (.int 2)), (.abs 3, .complete)] })
      [.tick 1, .run 0, .run 0, .tick 11, .run 0, .run 0, .run 0, .tick 21, .run 0, .run 0, .run 0, .tick 30]).map
        (fun s => (s.now, s.log))
      = some (30, [(11, .next (.int 1)), (21, .next (.int 2)), (21, .complete)]) := by decide

/-- non-vacuity with the slow consumer (handling 5): 11, 26, complete at 31 -/
example :
    (replay { d := 10, script := [(.abs 1, .next (.int 1)), (.abs 2, .next (.int 2)), (.abs 3, .complete)], handling := [5, 5] }
      [.tick 1, .run 0, .run 0, .tick 11, .run 0, .tick 16, .run 0, .run 0, .run 0, .tick 26, .run 0, .tick 31, .run 0,
       .run 0, .run 0, .tick 40]).map (fun s => (s.now, s.log))
      = some (40, [(11, .next (.int 1)), (26, .next (.int 2)), (31, .complete)]) := by decide

end Delay

namespace Timeout

/-- the per-timer invariant -/
def TOK (d now : Nat) (w : IW) : Prop := IW.Inv d now w ∧ IW.TInv d now w

/-- `w'` is what became of timer `w0` in one step at time `now` -/
structure Rel (d now : Nat) (w0 w' : IW) : Prop where
  ok : TOK d now w'
  born : w'.born = w0.born
  sub : w0.sub = false → w'.sub = false
  ended_keep : ∀ e : Nat, w0.endedAt = some e → w'.endedAt = some e
  ended_new : ∀ e : Nat, w'.endedAt = some e → w0.endedAt = some e ∨ (e = now ∧ w0.sub = true)

theorem Rel.refl {d now : Nat} {w : IW} (h : TOK d now w) : Rel d now w w :=
  ⟨h, rfl, id, fun _ h => h, fun _ h => Or.inl h⟩

theorem Rel.trans {d now : Nat} {a b c : IW} (h1 : Rel d now a b) (h2 : Rel d now b c) : Rel d now a c :=
  ⟨h2.ok, h2.born.trans h1.born, fun h => h2.sub (h1.sub h), fun e h => h2.ended_keep e (h1.ended_keep e h),
   fun e h => by rcases h2.ended_new e h with h | ⟨h, hb⟩
                 · exact h1.ended_new e h
                 · refine Or.inr ⟨h, ?_⟩
                   cases ha : a.sub
                   · simp [h1.sub ha] at hb
                   · rfl⟩

theorem Rel.cancel {d now : Nat} {w : IW} (h : TOK d now w) : Rel d now w (w.cancel now) := by
  refine ⟨⟨IW.cancel_inv h.1, IW.cancel_tinv h.1 h.2⟩, rfl, fun _ => rfl, ?_, ?_⟩
  · intro e he
    have : w.sub = false := by
      cases hs : w.sub
      · rfl
      · have := h.1.sub_iff.1 hs; simp [he] at this
    simp [IW.cancel, this, he]
  · intro e he
    simp only [IW.cancel] at he
    split at he
    · next hs => injection he with he; exact Or.inr ⟨he.symm, hs⟩
    · exact Or.inl he

theorem Rel.emitted {d now : Nat} {w : IW} (h : TOK d now w) (hp : w.pc = .emit) : Rel d now w (w.emitted now true) := by
  refine ⟨⟨IW.emitted_inv true h.1 hp, IW.emitted_tinv h.1 h.2 hp⟩, rfl, ?_, ?_, ?_⟩
  · intro hs; simp [IW.emitted, hs]
  · intro e he
    have : w.sub = false := by
      cases hs : w.sub
      · rfl
      · have := h.1.sub_iff.1 hs; simp [he] at this
    simp [IW.emitted, this, he]
  · intro e he
    simp only [IW.emitted] at he
    split at he
    · next hs => injection he with he; exact Or.inr ⟨he.symm, by simpa using hs⟩
    · exact Or.inl he

theorem Rel.localStep {d now : Nat} {w w' : IW} (h : TOK d now w) (hs : w.localStep d now = some w') : Rel d now w w' := by
  obtain ⟨f1, f2, f3, fb, _⟩ := IW.localStep_spec hs
  exact ⟨⟨IW.localStep_inv h.1 hs, IW.localStep_tinv h.1 h.2 hs⟩, fb, fun h => by rw [f2]; exact h,
    fun e he => by rw [f3]; exact he, fun e he => Or.inl (by rw [← f3]; exact he)⟩

/-- pointwise description of a step on the timer list -/
def PW (d now : Nat) (ts ts' : List IW) : Prop :=
  ts'.length = ts.length ∧ ∀ (j : Nat) (w' : IW), ts'[j]? = some w' → ∃ w0 : IW, ts[j]? = some w0 ∧ Rel d now w0 w'

theorem PW.refl {d now : Nat} {ts : List IW} (h : ∀ (j : Nat) (w : IW), ts[j]? = some w → TOK d now w) : PW d now ts ts :=
  ⟨rfl, fun j w hw => ⟨w, hw, Rel.refl (h j w hw)⟩⟩

theorem PW.trans {d now : Nat} {a b c : List IW} (h1 : PW d now a b) (h2 : PW d now b c) : PW d now a c := by
  refine ⟨h2.1.trans h1.1, ?_⟩
  intro j w hw
  obtain ⟨w1, g1, r1⟩ := h2.2 j w hw
  obtain ⟨w0, g0, r0⟩ := h1.2 j w1 g1
  exact ⟨w0, g0, r0.trans r1⟩

theorem PW.set {d now : Nat} {ts : List IW} {i : Nat} {w w' : IW}
    (h : ∀ (j : Nat) (w : IW), ts[j]? = some w → TOK d now w) (hw : ts[i]? = some w) (hr : Rel d now w w') :
    PW d now ts (ts.set i w') := by
  refine ⟨by simp, ?_⟩
  intro j w'' hw''
  rw [List.getElem?_set] at hw''
  split at hw''
  · next hij =>
    split at hw''
    · injection hw'' with hw''; subst hw''; subst hij; exact ⟨w, hw, hr⟩
    · contradiction
  · exact ⟨w'', hw'', Rel.refl (h j w'' hw'')⟩

theorem PW.cancelIn {d now : Nat} {ts : List IW} (slot : Option Nat)
    (h : ∀ (j : Nat) (w : IW), ts[j]? = some w → TOK d now w) : PW d now ts (cancelIn now slot ts) := by
  simp only [Timeout.cancelIn]
  split
  · next i =>
    split
    · next w hw => exact PW.set h hw (Rel.cancel (h i w hw))
    · exact PW.refl h
  · exact PW.refl h

/-- after cancelling the slot, no timer is subscribed any more (given that only the slot timer could be) -/
theorem cancelIn_sub {now : Nat} {slot : Option Nat} {ts : List IW}
    (h : ∀ (i : Nat) (w : IW), ts[i]? = some w → slot ≠ some i → w.sub = false) :
    ∀ (i : Nat) (w : IW), (cancelIn now slot ts)[i]? = some w → w.sub = false := by
  intro i w hw
  simp only [cancelIn] at hw
  split at hw
  · next j =>
    split at hw
    · next wj hwj =>
      rw [List.getElem?_set] at hw
      split at hw
      · split at hw
        · injection hw with hw; subst hw; simp [IW.cancel]
        · contradiction
      · next hne => exact h i w hw (by intro h'; injection h' with h'; exact hne h')
    · next hnone =>
      by_cases hij : j = i
      · subst hij; rw [hnone] at hw; contradiction
      · exact h i w hw (by intro h'; injection h' with h'; exact hij h')
  · exact h i w hw (by simp)

theorem PW.finTimers {d : Nat} {s : State} {ts : List IW}
    (h : ∀ (j : Nat) (w : IW), ts[j]? = some w → TOK d s.now w) : PW d s.now ts (finTimers s ts) := by
  simp only [Timeout.finTimers]; split
  · exact PW.cancelIn _ h
  · exact PW.refl h

structure Inv (p : Params) (s : State) : Prop where
  timers_ok : ∀ (i : Nat) (w : IW), s.timers[i]? = some w → TOK p.d s.now w
  sub_fin : s.sub = true → s.onFin = true
  src_fin : s.srcSub = true → s.onFin = true
  outer_iff : s.sub = true ↔ s.outerEndedAt = none
  outer_le : ∀ E : Nat, s.outerEndedAt = some E → E ≤ s.now
  outer_born : ∀ E : Nat, s.outerEndedAt = some E → ∀ (i : Nat) (w : IW), s.timers[i]? = some w → w.born ≤ E
  fin_pending : s.sub = false → s.onFin = true → s.upc = .fin ∧ s.outerEndedAt = some s.now
  arm_now : ∀ E : Nat, s.outerEndedAt = some E → s.src.pc = .mid2 → (s.ph = .store ∨ s.ph = .recheck) → s.now = E
  slot_lt : ∀ i : Nat, s.slot = some i → i < s.timers.length
  mid_slot : (s.src.pc = .mid1 ∨ s.src.pc = .mid2) → s.slot = none ∨ (s.src.pc = .mid2 ∧ s.ph = .recheck)
  others : ∀ (i : Nat) (w : IW), s.timers[i]? = some w → s.slot ≠ some i → w.sub = false
  pend : ∀ E : Nat, s.outerEndedAt = some E → ∀ (i : Nat) (w : IW), s.timers[i]? = some w → w.sub = true →
    s.onFin = true ∨ (s.src.pc = .mid2 ∧ s.ph = .recheck)
  ended_le_E : ∀ E : Nat, s.outerEndedAt = some E → ∀ (i : Nat) (w : IW) (e : Nat), s.timers[i]? = some w →
    w.endedAt = some e → e ≤ E
  u_fin : s.upc = .fin → s.sub = false

theorem inv_init (p : Params) : Inv p (init p) := by
  constructor <;> simp [init]
  split <;> simp

theorem start_pc (now : Nat) (r : Script) : (Src.start now r).pc = .sleeping ∨ (Src.start now r).pc = .done :=
  (Src.start_props now r).1

/-- once the outer subscription ended at `E`, a timer can still be subscribed only at the instant `E` itself -/
theorem sub_now {p : Params} {s : State} (h : Inv p s) {E : Nat} (hE : s.outerEndedAt = some E) {i : Nat} {w : IW}
    (hw : s.timers[i]? = some w) (hs : w.sub = true) : s.now = E := by
  have hsub : s.sub = false := by
    cases hh : s.sub
    · rfl
    · have := h.outer_iff.1 hh; simp [hE] at this
  rcases h.pend E hE i w hw hs with hf | ⟨h1, h2⟩
  · have := (h.fin_pending hsub hf).2; rw [hE] at this; injection this with this; exact this.symm
  · exact h.arm_now E hE h1 (Or.inr h2)

/-- what a pointwise step on the timer list keeps of the invariant -/
theorem pw_basic {p : Params} {s : State} {ts' : List IW} (h : Inv p s) (hpw : PW p.d s.now s.timers ts') :
    (∀ (j : Nat) (w' : IW), ts'[j]? = some w' → TOK p.d s.now w') ∧
    (∀ (j : Nat) (w' : IW), ts'[j]? = some w' → w'.born ≤ s.now) ∧
    (∀ E : Nat, s.outerEndedAt = some E → ∀ (j : Nat) (w' : IW), ts'[j]? = some w' → w'.born ≤ E) ∧
    (∀ (j : Nat) (w' : IW), ts'[j]? = some w' → s.slot ≠ some j → w'.sub = false) ∧
    ts'.length = s.timers.length ∧
    (∀ (j : Nat) (w' : IW) (e : Nat), ts'[j]? = some w' → w'.endedAt = some e → e ≤ s.now) ∧
    (∀ E : Nat, s.outerEndedAt = some E → ∀ (j : Nat) (w' : IW) (e : Nat), ts'[j]? = some w' →
      w'.endedAt = some e → e ≤ E) ∧
    (∀ (j : Nat) (w' : IW), ts'[j]? = some w' → w'.sub = true → ∃ w0 : IW, s.timers[j]? = some w0 ∧ w0.sub = true) := by
  refine ⟨?_, ?_, ?_, ?_, hpw.1, ?_, ?_, ?_⟩
  · intro j w' hw'; obtain ⟨w0, _, r⟩ := hpw.2 j w' hw'; exact r.ok
  · intro j w' hw'; obtain ⟨w0, _, r⟩ := hpw.2 j w' hw'; exact r.ok.2.born_le
  · intro E hE j w' hw'; obtain ⟨w0, h0, r⟩ := hpw.2 j w' hw'; rw [r.born]; exact h.outer_born E hE j w0 h0
  · intro j w' hw' hne; obtain ⟨w0, h0, r⟩ := hpw.2 j w' hw'; exact r.sub (h.others j w0 h0 hne)
  · intro j w' e hw' he; obtain ⟨w0, _, r⟩ := hpw.2 j w' hw'; exact r.ok.1.ended_le e he
  · intro E hE j w' e hw' he
    obtain ⟨w0, h0, r⟩ := hpw.2 j w' hw'
    rcases r.ended_new e he with h1 | ⟨h1, h2⟩
    · exact h.ended_le_E E hE j w0 e h0 h1
    · have := sub_now h hE h0 h2; omega
  · intro j w' hw' hs
    obtain ⟨w0, h0, r⟩ := hpw.2 j w' hw'
    refine ⟨w0, h0, ?_⟩
    cases h0s : w0.sub
    · simp [r.sub h0s] at hs
    · rfl

theorem finTimers_sub {s : State} {ts : List IW} (hfin : s.onFin = true)
    (h : ∀ (i : Nat) (w : IW), ts[i]? = some w → s.slot ≠ some i → w.sub = false) :
    ∀ (i : Nat) (w : IW), (finTimers s ts)[i]? = some w → w.sub = false := by
  simp only [finTimers, hfin, if_true]; exact cancelIn_sub h

theorem append_new {ts : List IW} {b i : Nat} {w : IW} (hw : (ts ++ [({ born := b } : IW)])[i]? = some w) :
    (i < ts.length ∧ ts[i]? = some w) ∨ (i = ts.length ∧ w = { born := b }) := by
  rw [List.getElem?_append] at hw
  split at hw
  · next h => exact Or.inl ⟨h, hw⟩
  · next h =>
    right
    cases hi : i - ts.length with
    | zero => simp [hi] at hw; exact ⟨by omega, hw.symm⟩
    | succ n => simp [hi] at hw

theorem step_inv {p : Params} {s s' : State} {l : Label} (h : Inv p s) (hs : step p s l = some s') : Inv p s' := by
  have hI := h
  have hsn := @sub_now p s h
  obtain ⟨a1, a2, a3, a4, a5, a6, a7, a8, a9, a10, a11, a12, a13, a14⟩ := h
  cases l with
  | tick t' =>
    simp only [step] at hs
    split at hs
    · next hc =>
      obtain ⟨c1, c2, c3, c4⟩ := hc
      injection hs with hs; subst hs
      rw [List.all_eq_true] at c4
      constructor
      · intro i w hw
        have hm : w ∈ s.timers := List.mem_iff_getElem?.2 ⟨i, hw⟩
        exact ⟨IW.tick_inv (a1 i w hw).1 c1 (c4 w hm), IW.tick_tinv (a1 i w hw).2 c1 (c4 w hm)⟩
      all_goals grind [srcAllowsTick, UPc.allowsTick]
    · contradiction
  | run tid =>
    obtain ⟨k1, k2, k3, k4, k5, k6, k7, k8⟩ := pw_basic hI (PW.refl a1)
    have hq := start_pc s.now s.src.rest.tail
    match tid with
    | 0 =>
      simp only [step] at hs
      split at hs
      · next hp =>
        split at hs
        · next x hx =>
          injection hs with hs; subst hs
          simp only [Src.wakeUp] at hx
          split at hx
          · injection hx with hx; subst hx
            constructor <;> grind
          · contradiction
        · contradiction
      · next hp =>
        split at hs
        · next w x r hr =>
          split at hs
          · next hsrc =>
            -- the item handler starts: cancel the armed timer
            injection hs with hs; subst hs
            have hpw : PW p.d s.now s.timers (cancelSlot s) := PW.cancelIn _ a1
            obtain ⟨m1, m2, m3, m4, m5, m6, m7, m8⟩ := pw_basic hI hpw
            have hall := cancelIn_sub (now := s.now) a11
            constructor
            · exact m1
            · exact a2
            · exact a3
            · exact a4
            · exact a5
            · exact m3
            · exact a7
            · intro E hE hpc; simp at hpc
            · simp
            · simp
            · intro i w hw _; exact hall i w hw
            · intro E hE i w hw hws; have := hall i w hw; simp [this] at hws
            · exact m7
            · exact a14
          · next hsrc =>
            injection hs with hs; subst hs
            constructor <;> grind [next, Src.advance]
        · next w ev r hne hr =>
          split at hs
          · next hsrc =>
            -- terminal event: deliver, finalize
            injection hs with hs; subst hs
            have hfin := a3 hsrc
            have hpw : PW p.d s.now s.timers (finTimers s s.timers) := PW.finTimers a1
            obtain ⟨m1, m2, m3, m4, m5, m6, m7, m8⟩ := pw_basic hI hpw
            have hall := finTimers_sub hfin a11
            have hE' : ∀ E : Nat, endOuter s = some E → s.outerEndedAt = some E ∨ (E = s.now ∧ s.sub = true) := by
              intro E hE; simp only [endOuter] at hE
              split at hE
              · next hh => injection hE with hE; exact Or.inr ⟨hE.symm, hh⟩
              · exact Or.inl hE
            have hpc : (s.src.advance s.now).pc ≠ .mid1 ∧ (s.src.advance s.now).pc ≠ .mid2 := by
              simp only [Src.advance]; rcases hq with h | h <;> simp [h]
            constructor
            · exact m1
            · simp
            · simp
            · simp [endOuter]; cases hsub : s.sub <;> simp; exact fun h => by simp [a4.2 h] at hsub
            · intro E hE; rcases hE' E hE with h | ⟨h, _⟩
              · exact a5 E h
              · subst h; exact Nat.le_refl _
            · intro E hE j w' hw'; rcases hE' E hE with h | ⟨h, _⟩
              · exact m3 E h j w' hw'
              · subst h; exact m2 j w' hw'
            · simp [next]
            · intro E hE h1; exact absurd h1 hpc.2
            · simp [finSlot, hfin]
            · intro h1; rcases h1 with h1 | h1
              · exact absurd h1 hpc.1
              · exact absurd h1 hpc.2
            · intro i w' hw' _; exact hall i w' hw'
            · intro E hE i w' hw' hws; have := hall i w' hw'; simp [this] at hws
            · intro E hE j w' e hw' he; rcases hE' E hE with h | ⟨h, _⟩
              · exact m7 E h j w' e hw' he
              · subst h; exact m6 j w' e hw' he
            · intro _; rfl
          · next hsrc =>
            injection hs with hs; subst hs
            constructor <;> grind [next, Src.advance]
        · contradiction
      · next hp =>
        split at hs
        · next hph =>
          split at hs
          · injection hs with hs; subst hs
            constructor <;> grind
          · contradiction
        · next hph =>
          split at hs
          · next w ev r hr =>
            split at hs
            · next hsub =>
              injection hs with hs; subst hs
              constructor <;> grind
            · next hsub =>
              -- `sink_next` on a finished subscription: `finalize`
              injection hs with hs; subst hs
              have hsub' : s.sub = false := by simpa using hsub
              have hslot : s.slot = none := by
                rcases a10 (Or.inl hp) with h | ⟨h, _⟩
                · exact h
                · simp [hp] at h
              have hpw : PW p.d s.now s.timers (finTimers s s.timers) := PW.finTimers a1
              obtain ⟨m1, m2, m3, m4, m5, m6, m7, m8⟩ := pw_basic hI hpw
              have hfs : finSlot s = none := by simp [finSlot, hslot]
              have hall : ∀ (i : Nat) (w' : IW), (finTimers s s.timers)[i]? = some w' → w'.sub = false :=
                fun i w' hw' => m4 i w' hw' (by simp [hslot])
              constructor
              · exact m1
              · simp [hsub']
              · simp
              · exact a4
              · exact a5
              · exact m3
              · simp
              · intro E hE _ h2; simp at h2
              · simp [hfs]
              · intro _; left; exact hfs
              · intro i w' hw' _; exact hall i w' hw'
              · intro E hE i w' hw' hws; have := hall i w' hw'; simp [this] at hws
              · exact m7
              · exact a14
          · contradiction
      · next hp =>
        split at hs
        · next hph =>
          -- store the new timer
          injection hs with hs; subst hs
          have hslot : s.slot = none := by
            rcases a10 (Or.inr hp) with h | ⟨_, h⟩
            · exact h
            · simp [hph] at h
          constructor
          · intro i w hw
            rcases append_new hw with ⟨_, h⟩ | ⟨_, h⟩
            · exact a1 i w h
            · subst h; exact ⟨IW.inv_new _ _ _, IW.tinv_new _ _⟩
          · exact a2
          · exact a3
          · exact a4
          · exact a5
          · intro E hE i w hw
            rcases append_new hw with ⟨_, h⟩ | ⟨_, h⟩
            · exact a6 E hE i w h
            · subst h; have := a8 E hE hp (Or.inl hph); simp; omega
          · exact a7
          · intro E hE _ _; exact a8 E hE hp (Or.inl hph)
          · simp
          · intro _; right; exact ⟨hp, rfl⟩
          · intro i w hw hne
            rcases append_new hw with ⟨_, h⟩ | ⟨h1, h⟩
            · exact a11 i w h (by simp [hslot])
            · exfalso; apply hne; simp [h1]
          · intro E hE i w hw hws; right; exact ⟨hp, rfl⟩
          · intro E hE i w e hw he
            rcases append_new hw with ⟨_, h⟩ | ⟨_, h⟩
            · exact a13 E hE i w e h he
            · subst h; simp at he
          · exact a14
        · next hph =>
          have hpc : (s.src.advance s.now).pc ≠ .mid1 ∧ (s.src.advance s.now).pc ≠ .mid2 := by
            simp only [Src.advance]; rcases hq with h | h <;> simp [h]
          split at hs
          · next hsub =>
            injection hs with hs; subst hs
            constructor <;> grind [next, Src.advance]
          · next hsub =>
            -- re-check: ended meanwhile, cancel the timer just stored
            injection hs with hs; subst hs
            have hpw : PW p.d s.now s.timers (cancelSlot s) := PW.cancelIn _ a1
            obtain ⟨m1, m2, m3, m4, m5, m6, m7, m8⟩ := pw_basic hI hpw
            have hall := cancelIn_sub (now := s.now) a11
            constructor
            · exact m1
            · exact a2
            · exact a3
            · exact a4
            · exact a5
            · exact m3
            · exact a7
            · intro E hE h1; exact absurd h1 hpc.2
            · simp
            · intro _; left; rfl
            · intro i w hw _; exact hall i w hw
            · intro E hE i w hw hws; have := hall i w hw; simp [this] at hws
            · exact m7
            · exact a14
        · next hph1 hph2 =>
          split at hs
          · next hsub =>
            injection hs with hs; subst hs
            constructor <;> grind
          · next hsub =>
            injection hs with hs; subst hs
            constructor <;> grind [next, Src.advance]
      · contradiction
    | 1 =>
      simp only [step] at hs
      split at hs
      · next hu =>
        split at hs
        · next u hu' =>
          split at hs
          · next hc =>
            -- `Observer::unsubscribe` clears the callbacks
            injection hs with hs; subst hs
            have hE' : ∀ E : Nat, endOuter s = some E → s.outerEndedAt = some E ∨ (E = s.now ∧ s.sub = true) := by
              intro E hE; simp only [endOuter] at hE
              split at hE
              · next hh => injection hE with hE; exact Or.inr ⟨hE.symm, hh⟩
              · exact Or.inl hE
            constructor
            · exact a1
            · simp
            · exact a3
            · simp [endOuter]; cases hsub : s.sub <;> simp; exact fun h => by simp [a4.2 h] at hsub
            · intro E hE; rcases hE' E hE with h | ⟨h, _⟩
              · exact a5 E h
              · subst h; exact Nat.le_refl _
            · intro E hE j w' hw'; rcases hE' E hE with h | ⟨h, _⟩
              · exact a6 E h j w' hw'
              · subst h; exact k2 j w' hw'
            · intro _ hf
              refine ⟨rfl, ?_⟩
              simp only [endOuter]
              cases hsub : s.sub
              · simp; exact (a7 hsub hf).2
              · simp
            · intro E hE h1 h2; rcases hE' E hE with h | ⟨h, _⟩
              · exact a8 E h h1 h2
              · exact h.symm
            · exact a9
            · exact a10
            · exact a11
            · intro E hE i w hw hws; rcases hE' E hE with h | ⟨_, h⟩
              · exact a12 E h i w hw hws
              · left; exact a2 h
            · intro E hE j w' e hw' he; rcases hE' E hE with h | ⟨h, _⟩
              · exact a13 E h j w' e hw' he
              · subst h; exact k6 j w' e hw' he
            · intro _; rfl
          · contradiction
        · contradiction
      · next hu =>
        -- `on_unsubscribe` = `finalize`
        injection hs with hs; subst hs
        have hpw : PW p.d s.now s.timers (finTimers s s.timers) := PW.finTimers a1
        obtain ⟨m1, m2, m3, m4, m5, m6, m7, m8⟩ := pw_basic hI hpw
        constructor
        · exact m1
        · intro hsub; have := a14 hu; simp [this] at hsub
        · simp
        · exact a4
        · exact a5
        · exact m3
        · simp
        · exact a8
        · intro i hi; simp only [finSlot] at hi
          split at hi
          · contradiction
          · rw [m5]; exact a9 i hi
        · intro hpc; simp only [finSlot]; split
          · left; rfl
          · exact a10 hpc
        · intro i w' hw' hne
          by_cases hfin : s.onFin = true
          · exact finTimers_sub hfin a11 i w' hw'
          · simp [finSlot, hfin] at hne; exact m4 i w' hw' hne
        · intro E hE i w' hw' hws
          by_cases hfin : s.onFin = true
          · have := finTimers_sub hfin a11 i w' hw'; simp [this] at hws
          · obtain ⟨w0, h0, h0s⟩ := m8 i w' hw' hws
            rcases a12 E hE i w0 h0 h0s with h | h
            · exact absurd h hfin
            · right; exact h
        · exact m7
        · simp
      · contradiction
    | i + 2 =>
      simp only [step] at hs
      split at hs
      · next w hw =>
        have tok := a1 i w hw
        split at hs
        · next hp =>
          split at hs
          · next hws =>
            -- the timer fires
            injection hs with hs; subst hs
            have hpw1 : PW p.d s.now s.timers (s.timers.set i (w.emitted s.now true)) :=
              PW.set a1 hw (Rel.emitted tok hp)
            obtain ⟨n1, n2, n3, n4, n5, n6, n7, n8⟩ := pw_basic hI hpw1
            have hpw : PW p.d s.now s.timers (finTimers s (s.timers.set i (w.emitted s.now true))) :=
              hpw1.trans (PW.finTimers n1)
            obtain ⟨m1, m2, m3, m4, m5, m6, m7, m8⟩ := pw_basic hI hpw
            have hslot : s.slot = some i := by
              cases h : s.slot with
              | none => have := a11 i w hw (by simp [h]); simp [this] at hws
              | some j =>
                by_cases hij : j = i
                · rw [hij]
                · have := a11 i w hw (by simp [h]; exact hij); simp [this] at hws
            have hE' : ∀ E : Nat, endOuter s = some E → s.outerEndedAt = some E ∨ (E = s.now ∧ s.sub = true) := by
              intro E hE; simp only [endOuter] at hE
              split at hE
              · next hh => injection hE with hE; exact Or.inr ⟨hE.symm, hh⟩
              · exact Or.inl hE
            have hsubf : ∀ (j : Nat) (w' : IW),
                (finTimers s (s.timers.set i (w.emitted s.now true)))[j]? = some w' → w'.sub = true →
                s.onFin = false ∧ j ≠ i := by
              intro j w' hw' hs'
              by_cases hfin : s.onFin = true
              · have := finTimers_sub hfin n4 j w' hw'; simp [this] at hs'
              · refine ⟨by simpa using hfin, ?_⟩
                intro hji; subst hji
                simp [finTimers, hfin] at hw'
                have hlt := a9 j hslot
                simp [hlt] at hw'
                subst hw'; simp [IW.emitted] at hs'
            constructor
            · exact m1
            · simp
            · simp
            · simp [endOuter]; cases hsub : s.sub <;> simp; exact fun h => by simp [a4.2 h] at hsub
            · intro E hE; rcases hE' E hE with h | ⟨h, _⟩
              · exact a5 E h
              · subst h; exact Nat.le_refl _
            · intro E hE j w' hw'; rcases hE' E hE with h | ⟨h, _⟩
              · exact m3 E h j w' hw'
              · subst h; exact m2 j w' hw'
            · simp
            · intro E hE h1 h2
              rcases a10 (Or.inr h1) with h | ⟨_, h⟩
              · simp [h] at hslot
              · rcases hE' E hE with h' | ⟨h', _⟩
                · exact a8 E h' h1 h2
                · exact h'.symm
            · intro j hj; simp only [finSlot] at hj
              split at hj
              · contradiction
              · rw [m5]; exact a9 j hj
            · intro hpc; simp only [finSlot]; split
              · left; rfl
              · exact a10 hpc
            · intro j w' hw' hne
              by_cases hfin : s.onFin = true
              · exact finTimers_sub hfin n4 j w' hw'
              · simp [finSlot, hfin] at hne; exact m4 j w' hw' hne
            · intro E hE j w' hw' hs'
              obtain ⟨hf, hji⟩ := hsubf j w' hw' hs'
              obtain ⟨w0, h0, h0s⟩ := m8 j w' hw' hs'
              have := a11 j w0 h0 (by rw [hslot]; intro h; injection h with h; exact hji h.symm)
              simp [this] at h0s
            · intro E hE j w' e hw' he; rcases hE' E hE with h | ⟨h, _⟩
              · exact m7 E h j w' e hw' he
              · subst h; exact m6 j w' e hw' he
            · intro _; rfl
          · next hws =>
            -- `s.next(0)` of a cancelled timer: nothing happens
            injection hs with hs; subst hs
            have hpw : PW p.d s.now s.timers (s.timers.set i (w.emitted s.now true)) :=
              PW.set a1 hw (Rel.emitted tok hp)
            obtain ⟨m1, m2, m3, m4, m5, m6, m7, m8⟩ := pw_basic hI hpw
            refine ⟨m1, a2, a3, a4, a5, m3, a7, a8, fun j hj => by rw [m5]; exact a9 j hj, a10, m4, ?_, m7, a14⟩
            intro E hE j w' hw' hs'
            obtain ⟨w0, h0, h0s⟩ := m8 j w' hw' hs'
            exact a12 E hE j w0 h0 h0s
        · next hp =>
          split at hs
          · next w' hw' =>
            injection hs with hs; subst hs
            have hpw : PW p.d s.now s.timers (s.timers.set i w') := PW.set a1 hw (Rel.localStep tok hw')
            obtain ⟨m1, m2, m3, m4, m5, m6, m7, m8⟩ := pw_basic hI hpw
            refine ⟨m1, a2, a3, a4, a5, m3, a7, a8, fun j hj => by rw [m5]; exact a9 j hj, a10, m4, ?_, m7, a14⟩
            intro E hE j w'' hw'' hs'
            obtain ⟨w0, h0, h0s⟩ := m8 j w'' hw'' hs'
            exact a12 E hE j w0 h0 h0s
          · contradiction
      · contradiction

theorem reach_inv {p : Params} {s : State} (hr : Reach (step p) (init p) s) : Inv p s :=
  reach_induct (Inv p) (inv_init p) (fun _ _ _ h hs => step_inv h hs) s hr

end Timeout

namespace Timeout

/-- lower bound for everything `expected` still contains -/
theorem expected_ge {d : Nat} : ∀ (sc : Script) (hs : List Nat) (t : Nat) (armed : Bool) (o : Out) (m : Nat),
    o ∈ expected d t armed sc hs → (armed = true → m ≤ t + d) →
    (∀ (w : Wait) (ev : Ev) (r : Script), sc = (w, ev) :: r → m ≤ w.wake t) → m ≤ o.1
  | [], hs, t, armed, o, m, h, h1, _ => by
      cases armed <;> simp [expected] at h; subst h; exact h1 rfl
  | (w, .next x) :: r, hs, t, armed, o, m, h, h1, h2 => by
      have hw := h2 w _ r rfl
      simp only [expected] at h
      split at h
      · next hc => simp at h; subst h; exact h1 hc.1
      · rcases List.mem_cons.1 h with h | h
        · subst h; exact hw
        · refine expected_ge r _ _ true o m h (fun _ => by omega) ?_
          intro w' ev' r' _
          have := w'.le_wake (w.wake t + hs.headD 0); omega
  | (w, .error e) :: r, hs, t, armed, o, m, h, h1, h2 => by
      have hw := h2 w _ r rfl
      simp only [expected] at h
      split at h
      · next hc => simp at h; subst h; exact h1 hc.1
      · simp at h; subst h; exact hw
  | (w, .complete) :: r, hs, t, armed, o, m, h, h1, h2 => by
      have hw := h2 w _ r rfl
      simp only [expected] at h
      split at h
      · next hc => simp at h; subst h; exact h1 hc.1
      · simp at h; subst h; exact hw

theorem exp_pass_next {d t : Nat} {armed : Bool} {w : Wait} {x : Data} {r : Script} {hs : List Nat}
    (h : ¬(armed = true ∧ t + d < w.wake t)) :
    expected d t armed ((w, .next x) :: r) hs =
      (w.wake t, .next x) :: expected d (w.wake t + hs.headD 0) true r hs.tail := by
  simp only [expected, h, if_false]

theorem exp_pass_term {d t : Nat} {armed : Bool} {w : Wait} {ev : Ev} {r : Script} {hs : List Nat}
    (hne : ∀ x, ev ≠ .next x) (h : ¬(armed = true ∧ t + d < w.wake t)) :
    expected d t armed ((w, ev) :: r) hs = [(w.wake t, ev)] := by
  cases ev with
  | next x => exact absurd rfl (hne x)
  | error e => simp only [expected, h, if_false]
  | complete => simp only [expected, h, if_false]

theorem exp_fire {d t : Nat} {w : Wait} {ev : Ev} {r : Script} {hs : List Nat} (h : t + d < w.wake t) :
    expected d t true ((w, ev) :: r) hs = [(t + d, .error timedOut)] := by
  cases ev <;> simp [expected, h]

theorem exp_nil {d t : Nat} {hs : List Nat} : expected d t true [] hs = [(t + d, .error timedOut)] := by
  simp [expected]

theorem notie_cons {d t : Nat} {armed : Bool} {w : Wait} {ev : Ev} {r : Script} {hs : List Nat}
    (h : noTie d t armed ((w, ev) :: r) hs) :
    (armed = true → t + d ≠ w.wake t) ∧ (∀ x, ev = .next x → noTie d (w.wake t + hs.headD 0) true r hs.tail) := by
  cases ev with
  | next x => exact ⟨h.1, fun _ _ => h.2⟩
  | error e => exact ⟨h, fun x hx => by cases hx⟩
  | complete => exact ⟨h, fun x hx => by cases hx⟩

/-- instant at which the item handler that is running returns to the `is_subscribed` test -/
def retTime (s : State) : Nat :=
  match s.src.pc with
  | .mid1 => match s.ph with
      | .handling => s.src.wake
      | _ => s.now + hnow s
  | _ => s.now

/-- the records still to come, as a function of the state (meaningful while the outer subscriber is subscribed) -/
def fut (p : Params) (s : State) : List Out :=
  match s.src.pc with
  | .mid1 => match s.ph with
      | .handling => expected p.d s.src.wake true s.src.rest.tail s.hrest.tail
      | _ => match s.src.rest with
          | (_, ev) :: r => (s.now, ev) :: expected p.d (s.now + hnow s) true r s.hrest.tail
          | [] => []
  | .mid2 => expected p.d s.now true s.src.rest.tail s.hrest.tail
  | _ => expected p.d s.src.base s.slot.isSome s.src.rest s.hrest

structure FInv (p : Params) (s : State) : Prop where
  sub_src' : s.sub = true → s.srcSub = true
  nonempty : s.src.pc ≠ .done → s.src.rest ≠ []
  done : s.src.pc = .done → s.src.rest = []
  sl : s.src.pc = .sleeping → s.now ≤ s.src.wake ∧
         ∀ (w : Wait) (ev : Ev) (r : Script), s.src.rest = (w, ev) :: r → s.src.wake = w.wake s.src.base
  call : s.src.pc = .call → ∀ (w : Wait) (ev : Ev) (r : Script), s.src.rest = (w, ev) :: r → s.now = w.wake s.src.base
  hand : s.src.pc = .mid1 → s.ph = .handling → s.now ≤ s.src.wake
  recheck_slot : s.sub = true → s.src.pc = .mid2 → s.ph = .recheck → s.slot.isSome = true
  updone : s.upc = .done
  armed : s.sub = true → ∀ i : Nat, s.slot = some i → ∃ w : IW, s.timers[i]? = some w ∧ w.sub = true ∧
            w.born = (if s.src.pc = .mid2 then s.now else s.src.base)
  notie : s.sub = true → (s.src.pc = .sleeping ∨ s.src.pc = .call ∨ s.src.pc = .done) →
            noTie p.d s.src.base s.slot.isSome s.src.rest s.hrest
  notie_mid : s.sub = true → (s.src.pc = .mid1 ∨ s.src.pc = .mid2) →
            noTie p.d (retTime s) true s.src.rest.tail s.hrest.tail
  log_sub : s.sub = true → s.log ++ fut p s = expected p.d 0 false p.script p.handling
  log_end : s.sub = false → s.log = expected p.d 0 false p.script p.handling

theorem finv_init (p : Params) (hu : p.unsubAt = none) (hnt : noTie p.d 0 false p.script p.handling) :
    FInv p (init p) := by
  cases hs : p.script with
  | nil => constructor <;> simp [init, Src.start, hs, fut, noTie, hu]
  | cons a r =>
    obtain ⟨w, ev⟩ := a
    rw [hs] at hnt
    constructor <;> simp [init, Src.start, hs, fut, hu] <;> first | exact w.le_wake 0 | exact hnt

/-- while the outer subscriber is subscribed, the armed timer has not yet had its chance to fire -/
theorem armed_bound {p : Params} {s : State} (hi : Inv p s) (hf : FInv p s) (hsub : s.sub = true) (i : Nat)
    (hslot : s.slot = some i) (hpc : s.src.pc ≠ .mid2) : s.now ≤ s.src.base + p.d := by
  obtain ⟨w, hw, hws, hwb⟩ := hf.armed hsub i hslot
  simp [hpc] at hwb
  obtain ⟨iw, tw⟩ := hi.timers_ok i w hw
  rcases (tw.first hws).2 with h | h | h
  · have := tw.top hws h; omega
  · have := (iw.sl_now h).1; have := tw.sl hws h; omega
  · have := tw.em hws h; omega

/-- when the armed timer reaches its `s.next(0)` while the outer subscriber is subscribed, `TimedOut` is due now -/
theorem fire_fut {p : Params} {s : State} (hi : Inv p s) (hf : FInv p s) (hsub : s.sub = true) {i : Nat} {w : IW}
    (hw : s.timers[i]? = some w) (hws : w.sub = true) (hpc : w.pc = .emit) :
    fut p s = [(s.now, .error timedOut)] := by
  have hslot : s.slot = some i := by
    cases h : s.slot with
    | none => have := hi.others i w hw (by simp [h]); simp [this] at hws
    | some j =>
      by_cases hij : j = i
      · rw [hij]
      · have := hi.others i w hw (by simp [h]; exact hij); simp [this] at hws
  obtain ⟨w', hw', _, hwb⟩ := hf.armed hsub i hslot
  rw [hw] at hw'; injection hw' with hw'; subst hw'
  obtain ⟨iw, tw⟩ := hi.timers_ok i w hw
  have hem := tw.em hws hpc
  have hsl : s.slot.isSome = true := by simp [hslot]
  cases hp : s.src.pc
  · -- sleeping
    simp [hp] at hwb
    have hnow : s.now = s.src.base + p.d := by rw [← hwb]; exact hem
    cases hr : s.src.rest with
    | nil => exact absurd hr (hf.nonempty (by simp [hp]))
    | cons a r =>
      obtain ⟨wt, ev⟩ := a
      obtain ⟨s1, s2⟩ := hf.sl hp
      have hwk := s2 wt ev r hr
      have hnt := (notie_cons (hr ▸ hf.notie hsub (Or.inl hp))).1 hsl
      simp only [fut, hp, hr, hsl]
      rw [exp_fire (by omega), hnow]
  · -- call: excluded by `noTie`
    simp [hp] at hwb
    have hnow : s.now = s.src.base + p.d := by rw [← hwb]; exact hem
    cases hr : s.src.rest with
    | nil => exact absurd hr (hf.nonempty (by simp [hp]))
    | cons a r =>
      obtain ⟨wt, ev⟩ := a
      have := hf.call hp wt ev r hr
      have hnt := (notie_cons (hr ▸ hf.notie hsub (Or.inr (Or.inl hp)))).1 hsl
      omega
  · rcases hi.mid_slot (Or.inl hp) with h | ⟨h, _⟩
    · simp [h] at hslot
    · simp [hp] at h
  · -- the timer stored a moment ago fires before the re-check (only possible when `d = 0`)
    simp [hp] at hwb
    have hnow : s.now = s.now + p.d := by rw [hwb] at hem; exact hem
    have hnt := hf.notie_mid hsub (Or.inr hp)
    simp only [retTime, hp] at hnt
    simp only [fut, hp]
    cases hr : s.src.rest.tail with
    | nil => rw [exp_nil, ← hnow]
    | cons a r =>
      obtain ⟨wt, ev⟩ := a
      rw [hr] at hnt
      have h1 := (notie_cons hnt).1 rfl
      have := wt.le_wake s.now
      rw [exp_fire (by omega), ← hnow]
  · simp [hp] at hwb
    have hnow : s.now = s.src.base + p.d := by rw [← hwb]; exact hem
    simp only [fut, hp, hf.done hp, hsl]
    rw [exp_nil, hnow]

theorem fstep {p : Params} {s s' : State} {l : Label} (_hu : p.unsubAt = none) (hi : Inv p s) (hf : FInv p s)
    (hs : step p s l = some s') : FInv p s' := by
  have hab := armed_bound hi hf
  have hfire := @fire_fut p s hi hf
  have hms := hi.mid_slot
  obtain ⟨b0, b1, b2, b3, b4, b5, b6, b7, b9, b10, b11, b12, b13⟩ := hf
  have hq := Src.start_props s.now s.src.rest.tail
  have hpcn : (s.src.advance s.now).pc ≠ .mid1 ∧ (s.src.advance s.now).pc ≠ .mid2 := by
    simp only [Src.advance]; rcases hq.1 with h | h <;> simp [h]
  cases l with
  | tick t' =>
    simp only [step] at hs
    split at hs
    · next hc =>
      obtain ⟨c1, c2, c3, c4⟩ := hc
      injection hs with hs; subst hs
      constructor <;> grind [srcAllowsTick, fut, retTime]
    · contradiction
  | run tid =>
    match tid with
    | 0 =>
      simp only [step] at hs
      split at hs
      · next hp =>
        split at hs
        · next x hx =>
          injection hs with hs; subst hs
          simp only [Src.wakeUp] at hx
          split at hx
          · injection hx with hx; subst hx
            constructor <;> grind [fut]
          · contradiction
        · contradiction
      · next hp =>
        have hpass : ∀ w : Wait, s.sub = true → s.now = w.wake s.src.base →
            ¬(s.slot.isSome = true ∧ s.src.base + p.d < w.wake s.src.base) := by
          intro w hsub hnow ⟨h1, h2⟩
          obtain ⟨i, hi'⟩ := Option.isSome_iff_exists.1 h1
          have := hab hsub i hi' (by simp [hp]); omega
        split at hs
        · next w x r hr =>
          have hnow := b4 hp w _ r hr
          have hnt := fun (hsub : s.sub = true) => notie_cons (hr ▸ b10 hsub (Or.inr (Or.inl hp)))
          split at hs
          · next hsrc =>
            injection hs with hs; subst hs
            constructor
            · exact b0
            · grind
            · grind
            · grind
            · grind
            · grind
            · grind
            · exact b7
            · grind
            · grind
            · intro hsub _
              simp only [retTime, hr, List.tail_cons, hnow]
              exact (hnt hsub).2 x rfl
            · intro hsub
              simp only [fut, hr]
              have := b12 hsub
              simp only [fut, hp, hr] at this
              rw [exp_pass_next (hpass w hsub hnow), ← hnow] at this
              exact this
            · exact b13
          · next hsrc =>
            injection hs with hs; subst hs
            have hsub : s.sub = false := by cases h : s.sub <;> simp_all
            obtain ⟨q1, q2, q3, q4, q5, q6⟩ := hq
            constructor <;> grind [next, Src.advance]
        · next w ev r hne hr =>
          have hnow := b4 hp w _ r hr
          obtain ⟨q1, q2, q3, q4, q5, q6⟩ := hq
          split at hs
          · next hsrc =>
            injection hs with hs; subst hs
            have hlog : (s.log ++ if s.sub = true then [(s.now, ev)] else []) = expected p.d 0 false p.script p.handling := by
              cases hsub : s.sub
              · simpa using b13 hsub
              · have := b12 hsub
                simp only [fut, hp, hr] at this
                rw [exp_pass_term (fun x hx => hne x hx) (hpass w hsub hnow), ← hnow] at this
                simp [this]
            constructor
            · simp
            · grind [next, Src.advance]
            · grind [next, Src.advance]
            · grind [next, Src.advance]
            · grind [next, Src.advance]
            · grind [next, Src.advance]
            · simp [next]
            · exact b7
            · simp [next]
            · simp [next]
            · simp [next]
            · simp [next]
            · intro _; exact hlog
          · next hsrc =>
            injection hs with hs; subst hs
            have hsub : s.sub = false := by cases h : s.sub <;> simp_all
            constructor <;> grind [next, Src.advance]
        · contradiction
      · next hp =>
        have hslot : s.slot = none := by
          rcases hms (Or.inl hp) with h | ⟨h, _⟩
          · exact h
          · simp [hp] at h
        split at hs
        · next hph =>
          split at hs
          · next hwk =>
            -- the consumer's callback returns
            injection hs with hs; subst hs
            have hnow : s.now = s.src.wake := Nat.le_antisymm (b5 hp hph) hwk
            constructor
            · exact b0
            · grind
            · grind
            · grind
            · grind
            · grind
            · grind
            · exact b7
            · grind
            · grind
            · intro hsub _
              have := b11 hsub (Or.inl hp)
              simp only [retTime, hp, hph] at this
              simp only [retTime, hnow]; exact this
            · intro hsub
              have := b12 hsub
              simp only [fut, hp, hph] at this
              simp only [fut, hnow]; exact this
            · exact b13
          · contradiction
        · next hph =>
          split at hs
          · next w ev r hr =>
            split at hs
            · next hsub =>
              -- `sink_next`: the record is delivered and the consumer starts working on it
              injection hs with hs; subst hs
              have hfut := b12 hsub
              have hnt := b11 hsub (Or.inl hp)
              have hfs : fut p s = (s.now, ev) :: expected p.d (s.now + hnow s) true r s.hrest.tail := by
                simp only [fut, hp, hr]
              have hrt : retTime s = s.now + hnow s := by
                simp only [retTime, hp]
              rw [hfs] at hfut; rw [hrt] at hnt
              by_cases h0 : hnow s = 0
              · simp only [h0, if_true, Nat.add_zero] at hfut hnt ⊢
                constructor
                · exact b0
                · grind
                · grind
                · grind
                · grind
                · grind
                · grind
                · exact b7
                · grind
                · grind
                · intro _ _; simpa [retTime] using hnt
                · intro _; simp only [fut, hr, List.tail_cons]; rw [← hfut]; simp
                · intro h; have h' : s.sub = false := h; simp [hsub] at h'
              · simp only [h0, if_false] at hfut hnt ⊢
                constructor
                · exact b0
                · grind
                · grind
                · grind
                · grind
                · intro _ _; simp
                · grind
                · exact b7
                · grind
                · grind
                · intro _ _; simpa [retTime, hp] using hnt
                · intro _; simp only [fut, hr, List.tail_cons]; rw [← hfut]; simp
                · intro h; have h' : s.sub = false := h; simp [hsub] at h'
            · next hsub =>
              injection hs with hs; subst hs
              have hsub' : s.sub = false := by simpa using hsub
              constructor
              · simp [hsub']
              · grind
              · grind
              · grind
              · grind
              · grind
              · intro h; have h' : s.sub = true := h; simp [hsub'] at h'
              · exact b7
              · intro h; have h' : s.sub = true := h; simp [hsub'] at h'
              · intro h; have h' : s.sub = true := h; simp [hsub'] at h'
              · intro h; have h' : s.sub = true := h; simp [hsub'] at h'
              · intro h; have h' : s.sub = true := h; simp [hsub'] at h'
              · intro _; exact b13 hsub'
          · contradiction
      · next hp =>
        obtain ⟨q1, q2, q3, q4, q5, q6⟩ := hq
        have hfut2 : s.sub = true →
            s.log ++ expected p.d s.now true s.src.rest.tail s.hrest.tail = expected p.d 0 false p.script p.handling := by
          intro hsub; have := b12 hsub; simpa only [fut, hp] using this
        have hnt2 : s.sub = true → noTie p.d s.now true s.src.rest.tail s.hrest.tail := by
          intro hsub; have := b11 hsub (Or.inr hp); simpa only [retTime, hp] using this
        split at hs
        · next hph =>
          -- store the new timer
          injection hs with hs; subst hs
          constructor
          · exact b0
          · grind
          · grind
          · grind
          · grind
          · grind
          · intro _ _ _; simp
          · exact b7
          · intro hsub i hi
            simp at hi; subst hi
            exact ⟨{ born := s.now }, by simp, rfl, by simp [hp]⟩
          · grind
          · intro hsub _; simpa only [retTime, hp] using hnt2 hsub
          · intro hsub; simpa only [fut, hp] using hfut2 hsub
          · exact b13
        · next hph =>
          split at hs
          · next hsub =>
            -- re-check passed: the handler returns with the timer armed
            injection hs with hs; subst hs
            have hsl := b6 hsub hp hph
            have hfn : fut p (next s) = expected p.d s.now true s.src.rest.tail s.hrest.tail := by
              simp only [fut, next]
              split
              · next h => exact absurd h hpcn.1
              · next h => exact absurd h hpcn.2
              · simp [Src.advance, q3, hsl]
            constructor
            · exact b0
            · grind [next, Src.advance]
            · grind [next, Src.advance]
            · grind [next, Src.advance]
            · grind [next, Src.advance]
            · intro h; exact absurd h hpcn.1
            · intro _ h; exact absurd h hpcn.2
            · exact b7
            · intro _ i hi
              obtain ⟨w, h1, h2, h3⟩ := b9 hsub i hi
              refine ⟨w, h1, h2, ?_⟩
              simp only [hp, if_true] at h3
              simp [next, Src.advance, q3, h3]
            · intro _ _
              simpa [next, Src.advance, q3, hsl] using hnt2 hsub
            · intro _ h; rcases h with h | h
              · exact absurd h hpcn.1
              · exact absurd h hpcn.2
            · intro _; rw [hfn]; exact hfut2 hsub
            · exact b13
          · next hsub =>
            injection hs with hs; subst hs
            have hsub' : s.sub = false := by simpa using hsub
            constructor <;> grind [next, Src.advance]
        · next hph1 hph2 =>
          split at hs
          · next hsub =>
            injection hs with hs; subst hs
            constructor
            · exact b0
            · exact b1
            · exact b2
            · exact b3
            · exact b4
            · intro h; have h' : s.src.pc = .mid1 := h; simp [hp] at h'
            · intro _ _ h; have : Ph.store = Ph.recheck := h; cases this
            · exact b7
            · exact b9
            · exact b10
            · intro hsub' _; simpa only [retTime, hp] using hnt2 hsub
            · intro _; simpa only [fut, hp] using hfut2 hsub
            · exact b13
          · next hsub =>
            injection hs with hs; subst hs
            have hsub' : s.sub = false := by simpa using hsub
            constructor <;> grind [next, Src.advance]
      · contradiction
    | 1 => simp [step, b7] at hs
    | i + 2 =>
      simp only [step] at hs
      split at hs
      · next w hw =>
        split at hs
        · next hpc =>
          split at hs
          · next hws =>
            -- the armed timer fires
            injection hs with hs; subst hs
            constructor
            · simp
            · exact b1
            · exact b2
            · exact b3
            · exact b4
            · exact b5
            · simp
            · exact b7
            · simp
            · simp
            · simp
            · simp
            · intro _
              cases hsub : s.sub
              · simpa using b13 hsub
              · have h1 := b12 hsub
                rw [hfire hsub hw hws hpc] at h1
                simpa using h1
          · next hws =>
            -- a cancelled timer: `s.next(0)` is a no-op
            injection hs with hs; subst hs
            have hws' : w.sub = false := by simpa using hws
            have hkeep : ∀ j : Nat, j ≠ i → (s.timers.set i (w.emitted s.now true))[j]? = s.timers[j]? := by
              intro j hj; rw [List.getElem?_set]; simp [Ne.symm hj]
            refine ⟨b0, b1, b2, b3, b4, b5, b6, b7, ?_, b10, b11, ?_, b13⟩
            · intro hsub j hj
              obtain ⟨w', h1, h2, h3⟩ := b9 hsub j hj
              have hji : j ≠ i := by
                intro h; subst h; rw [hw] at h1; injection h1 with h1; subst h1; simp [hws'] at h2
              exact ⟨w', by rw [hkeep j hji]; exact h1, h2, h3⟩
            · intro hsub; exact b12 hsub
        · next hpc =>
          split at hs
          · next w' hw' =>
            injection hs with hs; subst hs
            obtain ⟨f1, f2, f3, fb, f4, f5, f6, f7, f8⟩ := IW.localStep_spec hw'
            have hget : ∀ (j : Nat) (w0 : IW), s.timers[j]? = some w0 →
                ∃ w'' : IW, (s.timers.set i w')[j]? = some w'' ∧ w''.sub = w0.sub ∧ w''.born = w0.born := by
              intro j w0 hw0
              rw [List.getElem?_set]
              by_cases hij : i = j
              · subst hij
                have hlt : i < s.timers.length := by
                  rcases Nat.lt_or_ge i s.timers.length with h | h
                  · exact h
                  · rw [List.getElem?_eq_none h] at hw; contradiction
                rw [hw] at hw0; injection hw0 with hw0; subst hw0
                simp [hlt, f2, fb]
              · simp [hij]; exact ⟨w0, hw0, rfl, rfl⟩
            refine ⟨b0, b1, b2, b3, b4, b5, b6, b7, ?_, b10, b11, ?_, b13⟩
            · intro hsub j hj
              obtain ⟨w0, h1, h2, h3⟩ := b9 hsub j hj
              obtain ⟨w'', g1, g2, g3⟩ := hget j w0 h1
              exact ⟨w'', g1, by rw [g2]; exact h2, by rw [g3]; exact h3⟩
            · intro hsub; exact b12 hsub
          · contradiction
      · contradiction

theorem fut_ge {p : Params} {s : State} (hi : Inv p s) (hf : FInv p s) (hsub : s.sub = true) (o : Out)
    (ho : o ∈ fut p s) : s.now ≤ o.1 := by
  have hab := armed_bound hi hf hsub
  have hge : ∀ (t : Nat) (sc : Script) (hs : List Nat), s.now ≤ t → o ∈ expected p.d t true sc hs → s.now ≤ o.1 := by
    intro t sc hs ht h
    refine expected_ge sc hs t true o s.now h (fun _ => by omega) ?_
    intro w ev r _; have := w.le_wake t; omega
  cases hp : s.src.pc <;> simp only [fut, hp] at ho
  · refine expected_ge _ _ _ _ o s.now ho ?_ ?_
    · intro h; obtain ⟨i, hi'⟩ := Option.isSome_iff_exists.1 h; exact hab i hi' (by simp [hp])
    · intro w ev r hr; have := hf.sl hp; have := this.2 w ev r hr; omega
  · refine expected_ge _ _ _ _ o s.now ho ?_ ?_
    · intro h; obtain ⟨i, hi'⟩ := Option.isSome_iff_exists.1 h; exact hab i hi' (by simp [hp])
    · intro w ev r hr; have := hf.call hp w ev r hr; omega
  · split at ho
    · next hph => exact hge _ _ _ (hf.hand hp hph) ho
    · split at ho
      · rcases List.mem_cons.1 ho with h | h
        · subst h; exact Nat.le_refl _
        · exact hge _ _ _ (by omega) h
      · simp at ho
  · exact hge _ _ _ (Nat.le_refl _) ho
  · refine expected_ge _ _ _ _ o s.now ho ?_ ?_
    · intro h; obtain ⟨i, hi'⟩ := Option.isSome_iff_exists.1 h; exact hab i hi' (by simp [hp])
    · intro w ev r hr; simp [hf.done hp] at hr

theorem reach_finv {p : Params} (hu : p.unsubAt = none) (hnt : noTie p.d 0 false p.script p.handling) {s : State}
    (hr : Reach (step p) (init p) s) : Inv p s ∧ FInv p s := by
  refine reach_induct (fun s => Inv p s ∧ FInv p s) ⟨inv_init p, finv_init p hu hnt⟩ ?_ s hr
  intro s l s' ⟨h1, h2⟩ hs
  exact ⟨step_inv h1 hs, fstep hu h1 h2 hs⟩

/-- **C16 `timeout_exact`.**  For every period, every source script, every list of consumer handling times (the
consumer's callback runs on the source thread inside `sink_next`), provided there is no exact tie (`noTie`: no source
call falls exactly `d` after the previous handler returned), and for every interleaving: the log of the subscriber of
`source.timeout(d)` is always a prefix of `expected d 0 false script handling`, and every record of it due before `now`
is present.  `expected` passes items and the terminal event through at the instants the source makes the calls and ends
with `TimedOut` at `t_return + d` exactly when the next source call (or the end of a script that never terminates)
comes more than `d` after the previous item's handler returned (`expected_no_gap`, `expected_gap`). -/
theorem timeout_exact (p : Params) (hu : p.unsubAt = none) (hnt : noTie p.d 0 false p.script p.handling) (s : State)
    (hr : Reach (step p) (init p) s) :
    s.log <+: expected p.d 0 false p.script p.handling ∧
    (∀ o ∈ expected p.d 0 false p.script p.handling, o.1 < s.now → o ∈ s.log) := by
  obtain ⟨hi, hf⟩ := reach_finv hu hnt hr
  cases hsub : s.sub
  · have := hf.log_end hsub
    exact ⟨by rw [this]; exact List.prefix_refl _, fun o ho _ => by rw [this]; exact ho⟩
  · have h := hf.log_sub hsub
    refine ⟨⟨_, h⟩, ?_⟩
    intro o ho hnow
    rw [← h, List.mem_append] at ho
    rcases ho with ho | ho
    · exact ho
    · have := fut_ge hi hf hsub o ho; omega

/-- pass-through: every event at the instant the source makes the call (the call after an item is made `gap` after that
    item's handler returned), up to the first terminal event -/
def pass : Nat → Script → List Nat → List Out
  | _, [], _ => []
  | t, (w, .next x) :: r, hs => (w.wake t, .next x) :: pass (w.wake t + hs.headD 0) r hs.tail
  | t, (w, ev) :: _, _ => [(w.wake t, ev)]

/-- some call of the source — or the end of a script that never terminates — comes more than `d` after the previous
    item's handler returned (`armed` = an item was handled and its handler returned at `t`) -/
def gap (d : Nat) : Nat → Bool → Script → List Nat → Prop
  | _, armed, [], _ => armed = true
  | t, armed, (w, .next _) :: r, hs => (armed = true ∧ t + d < w.wake t) ∨ gap d (w.wake t + hs.headD 0) true r hs.tail
  | t, armed, (w, _) :: _, _ => armed = true ∧ t + d < w.wake t

/-- no gap longer than `d` after any handler return: everything passes through unchanged, at its own time -/
theorem expected_no_gap (d : Nat) : ∀ (sc : Script) (hs : List Nat) (t : Nat) (armed : Bool), ¬ gap d t armed sc hs →
    expected d t armed sc hs = pass t sc hs
  | [], hs, t, armed, h => by simp [gap] at h; simp [expected, pass, h]
  | (w, .next x) :: r, hs, t, armed, h => by
      simp only [gap, not_or] at h
      rw [exp_pass_next h.1, pass, expected_no_gap d r _ _ true h.2]
  | (w, .error e) :: r, hs, t, armed, h => by
      simp only [gap] at h
      rw [exp_pass_term (fun x hx => by cases hx) h]; rfl
  | (w, .complete) :: r, hs, t, armed, h => by
      simp only [gap] at h
      rw [exp_pass_term (fun x hx => by cases hx) h]; rfl

/-- a gap longer than `d` after a handler return: the items before it pass through, then `TimedOut` exactly `d` after
    that return (`tk`), and nothing else -/
theorem expected_gap (d : Nat) : ∀ (sc : Script) (hs : List Nat) (t : Nat) (armed : Bool), gap d t armed sc hs →
    ∃ (pre : List Out) (tk : Nat), expected d t armed sc hs = pre ++ [(tk + d, .error timedOut)] ∧
      pre <+: pass t sc hs ∧ (∀ o ∈ pre, ∃ x, o.2 = .next x) ∧ (pre = [] → tk = t) ∧
      (∀ o ∈ pre.getLast?, o.1 ≤ tk)
  | [], hs, t, armed, h => by
      simp [gap] at h; subst h
      exact ⟨[], t, by simp [expected], by simp, by simp, by simp, by simp⟩
  | (w, .next x) :: r, hs, t, armed, h => by
      by_cases hc : armed = true ∧ t + d < w.wake t
      · refine ⟨[], t, ?_, by simp, by simp, by simp, by simp⟩
        obtain ⟨h1, h2⟩ := hc; subst h1; simp [exp_fire h2]
      · simp only [gap] at h
        have h' := h.resolve_left hc
        obtain ⟨pre, tk, e1, e2, e3, e4, e5⟩ := expected_gap d r _ _ true h'
        refine ⟨(w.wake t, .next x) :: pre, tk, ?_, ?_, ?_, by simp, ?_⟩
        · rw [exp_pass_next hc, e1]; rfl
        · simp only [pass]; exact List.prefix_cons_inj _ |>.2 e2
        · intro o ho; rcases List.mem_cons.1 ho with h | h
          · subst h; exact ⟨x, rfl⟩
          · exact e3 o h
        · cases pre with
          | nil => intro o ho; simp at ho; subst ho; have := e4 rfl; simp; omega
          | cons a l => intro o ho; rw [List.getLast?_cons_cons] at ho; exact e5 o ho
  | (w, .error e) :: r, hs, t, armed, h => by
      simp only [gap] at h
      obtain ⟨h1, h2⟩ := h; subst h1
      exact ⟨[], t, by simp [exp_fire h2], by simp, by simp, by simp, by simp⟩
  | (w, .complete) :: r, hs, t, armed, h => by
      simp only [gap] at h
      obtain ⟨h1, h2⟩ := h; subst h1
      exact ⟨[], t, by simp [exp_fire h2], by simp, by simp, by simp, by simp⟩

/-- the script reaches a terminal event -/
def terminates : Script → Prop
  | [] => False
  | (_, .next _) :: r => terminates r
  | _ :: _ => True

/-- every call of the source is made a RELATIVE gap `g < d` after the previous handler returned -/
def smallGaps (d : Nat) (sc : Script) : Prop := ∀ e ∈ sc, ∃ g : Nat, e.1 = Wait.rel g ∧ g < d

theorem noTie_of_smallGaps {d : Nat} : ∀ (sc : Script) (hs : List Nat) (t : Nat) (armed : Bool), smallGaps d sc →
    noTie d t armed sc hs
  | [], _, _, _, _ => trivial
  | (w, .next x) :: r, hs, t, armed, h => by
      obtain ⟨g, hg, hlt⟩ := h (w, .next x) (by simp)
      simp only at hg; subst hg
      refine ⟨fun _ => by simp [Wait.wake]; omega, noTie_of_smallGaps r _ _ _ ?_⟩
      intro e he; exact h e (by simp [he])
  | (w, .error e) :: r, hs, t, armed, h => by
      obtain ⟨g, hg, hlt⟩ := h (w, .error e) (by simp)
      simp only at hg; subst hg
      intro _; simp [Wait.wake]; omega
  | (w, .complete) :: r, hs, t, armed, h => by
      obtain ⟨g, hg, hlt⟩ := h (w, .complete) (by simp)
      simp only at hg; subst hg
      intro _; simp [Wait.wake]; omega

theorem no_gap_of_smallGaps {d : Nat} : ∀ (sc : Script) (hs : List Nat) (t : Nat) (armed : Bool), smallGaps d sc →
    terminates sc → ¬ gap d t armed sc hs
  | [], _, _, _, _, ht => by simp [terminates] at ht
  | (w, .next x) :: r, hs, t, armed, h, ht => by
      obtain ⟨g, hg, hlt⟩ := h (w, .next x) (by simp)
      simp only at hg; subst hg
      simp only [gap, not_or]
      refine ⟨by simp [Wait.wake]; omega, no_gap_of_smallGaps r _ _ _ ?_ ht⟩
      intro e he; exact h e (by simp [he])
  | (w, .error e) :: r, hs, t, armed, h, _ => by
      obtain ⟨g, hg, hlt⟩ := h (w, .error e) (by simp)
      simp only at hg; subst hg
      simp only [gap]; simp [Wait.wake]; omega
  | (w, .complete) :: r, hs, t, armed, h, _ => by
      obtain ⟨g, hg, hlt⟩ := h (w, .complete) (by simp)
      simp only at hg; subst hg
      simp only [gap]; simp [Wait.wake]; omega

theorem pass_mem : ∀ (sc : Script) (hs : List Nat) (t : Nat) (o : Out), o ∈ pass t sc hs → ∃ e ∈ sc, o.2 = e.2
  | [], _, _, o, h => by simp [pass] at h
  | (w, .next x) :: r, hs, t, o, h => by
      simp only [pass, List.mem_cons] at h
      rcases h with h | h
      · subst h; exact ⟨(w, .next x), by simp, rfl⟩
      · obtain ⟨e, he, h2⟩ := pass_mem r _ _ o h; exact ⟨e, by simp [he], h2⟩
  | (w, .error e) :: r, hs, t, o, h => by
      simp only [pass, List.mem_cons, List.not_mem_nil, or_false] at h; subst h; exact ⟨(w, .error e), by simp, rfl⟩
  | (w, .complete) :: r, hs, t, o, h => by
      simp only [pass, List.mem_cons, List.not_mem_nil, or_false] at h; subst h; exact ⟨(w, .complete), by simp, rfl⟩

/-- **Slow consumers never cause a `TimedOut`.**  If every call of a terminating source is made less than `d` after the
previous handler returned, then — HOWEVER LARGE the handling times are, in particular when `gap + handling > d` — the
subscriber of `timeout(d)` sees exactly the pass-through log: the previous timer is cancelled BEFORE `sink_next`
(timeout.rs:63-69) and the next one is armed only AFTER it returned (73-89), so no timer is armed while the consumer
works.  (A variant that cancels the old timer only after `sink_next` would deliver `TimedOut` at `t + d` here.) -/
theorem timeout_never_fires_on_slow_consumer (p : Params) (hu : p.unsubAt = none) (hsmall : smallGaps p.d p.script)
    (hterm : terminates p.script) (s : State) (hr : Reach (step p) (init p) s) :
    s.log <+: pass 0 p.script p.handling ∧
    (∀ o ∈ pass 0 p.script p.handling, o.1 < s.now → o ∈ s.log) ∧
    ((∀ e ∈ p.script, e.2 ≠ Ev.error timedOut) → ∀ t : Nat, (t, Ev.error timedOut) ∉ s.log) := by
  have h := timeout_exact p hu (noTie_of_smallGaps _ _ _ _ hsmall) s hr
  rw [expected_no_gap p.d _ _ _ _ (no_gap_of_smallGaps _ _ _ _ hsmall hterm)] at h
  refine ⟨h.1, h.2, ?_⟩
  intro hne t ht
  obtain ⟨e, he, h2⟩ := pass_mem _ _ _ _ (h.1.subset ht)
  exact hne e he h2.symm

/-- gap 5 < d = 10 but handling 20: gap + handling = 25 > d, and still everything passes -/
example : expected 10 0 false [(.rel 5, .next (.int 1)), (.rel 5, .next (.int 2)), (.rel 5, .complete)] [20, 20]
    = [(5, .next (.int 1)), (30, .next (.int 2)), (55, .complete)] := by decide

example : smallGaps 10 [(.rel 5, .next (.int 1)), (.rel 5, .next (.int 2)), (.rel 5, .complete)] ∧
    terminates [(.rel 5, .next (.int 1)), (.rel 5, .next (.int 2)), (.rel 5, .complete)] := by
  refine ⟨?_, trivial⟩
  intro e he; simp at he
  rcases he with rfl | rfl | rfl <;> exact ⟨5, rfl, by omega⟩

/-- a run of that script with the slow consumer (item 1 handled from 5 to 25, item 2 from 30 to 50) -/
example :
    (replay { d := 10, script := [(.rel 5, .next (.int 1)), (.rel 5, .next (.int 2)), (.rel 5, .complete)], handling := [20, 20] }
      [.tick 5, .run 0, .run 0, .run 0, .tick 25, .run 0, .run 0, .run 0, .run 0, .run 2, .tick 30, .run 0, .run 0, .run 0,
       .tick 35, .run 2, .run 2, .run 2, .tick 50, .run 0, .run 0, .run 0, .run 0, .run 3, .tick 55, .run 0, .run 0, .tick 60,
       .run 3, .run 3, .run 3, .tick 70]).map (fun s => (s.now, s.log, liveTimers s))
      = some (70, [(5, .next (.int 1)), (30, .next (.int 2)), (55, .complete)], 0) := by decide

/-- non-vacuity / the test of timeout.rs: items at 0,10,20,30 then a 200 gap with `d = 100` -/
example : expected 100 0 false
    [(.rel 0, .next (.int 1)), (.rel 10, .next (.int 2)), (.rel 10, .next (.int 3)), (.rel 10, .next (.int 4)),
     (.rel 200, .next (.int 5))] []
    = [(0, .next (.int 1)), (10, .next (.int 2)), (20, .next (.int 3)), (30, .next (.int 4)), (130, .error timedOut)] := by
  decide

def tieP : Params := { d := 10, script := [(.rel 0, .next (.int 1)), (.rel 10, .next (.int 2))] }

/-- exact tie, timer thread first: `TimedOut` is delivered and item 2 is dropped -/
theorem timeout_tie_fires :
    (runFrom (step tieP) (init tieP)
      [.run 0, .run 0, .run 0, .run 0, .run 0, .run 0, .run 2, .tick 10, .run 2, .run 2, .run 0, .run 0, .run 2, .tick 20]).map
      (fun s => (s.now, s.log))
      = some (20, [(0, .next (.int 1)), (10, .error timedOut)]) := by decide

/-- exact tie, source thread first: the timer is cancelled, item 2 passes -/
theorem timeout_tie_passes :
    (runFrom (step tieP) (init tieP)
      [.run 0, .run 0, .run 0, .run 0, .run 0, .run 0, .run 2, .tick 10, .run 0, .run 0, .run 0, .run 0, .run 0, .run 0,
       .run 2, .run 2, .run 2, .run 3, .tick 15]).map
      (fun s => (s.now, s.log))
      = some (15, [(0, .next (.int 1)), (10, .next (.int 2))]) := by decide

end Timeout

theorem itemsOf_append (a b : List Out) : itemsOf (a ++ b) = itemsOf a ++ itemsOf b := by
  simp [itemsOf, List.filterMap_append]

theorem itemsOf_next (t : Nat) (x : Data) : itemsOf [(t, Ev.next x)] = [x] := rfl

theorem itemsOf_term (t : Nat) (ev : Ev) (h : ∀ x, ev ≠ .next x) : itemsOf [(t, ev)] = [] := by
  cases ev with
  | next x => exact absurd rfl (h x)
  | error e => rfl
  | complete => rfl

theorem emits_next (w : Wait) (x : Data) (r : Script) : emits ((w, Ev.next x) :: r) = x :: emits r := rfl

namespace Debounce

def stepBound : DPc → Nat
  | .body => 0 | .sleeping => 1 | .take => 2 | .emit => 3 | .check => 4 | .waiting => 5 | .exited => 6

structure Inv (p : Params) (s : State) : Prop where
  sub_iff : s.sub = true ↔ s.endedAt = none
  ended_le : ∀ e : Nat, s.endedAt = some e → e ≤ s.now
  no_abort : s.abort = false → ∀ e : Nat, s.endedAt = some e → s.now = e ∧ (s.src.pc = .mid1 ∨ s.upc = .fin)
  sub_abort : s.sub = true → s.abort = false
  body_end : s.wpc = .body → ∀ e : Nat, s.endedAt = some e → s.now = e
  sl_now : s.wpc = .sleeping → s.now ≤ s.wwake ∧ s.wwake ≤ s.now + p.d
  sl_end : s.wpc = .sleeping → ∀ e : Nat, s.endedAt = some e → s.wwake ≤ e + p.d
  run_end : (s.wpc = .check ∨ s.wpc = .take ∨ s.wpc = .emit) → ∀ e : Nat, s.endedAt = some e → s.now ≤ e + p.d
  wait_end : s.wpc = .waiting → ∃ e : Nat, s.endedAt = some e ∧ s.now ≤ e + p.d
  ex_end : s.wpc = .exited → ∃ e x : Nat, s.endedAt = some e ∧ s.exitedAt = some x ∧ x ≤ e + p.d
  ex_pc : ∀ x : Nat, s.exitedAt = some x → s.wpc = .exited
  steps : s.stepsAfterEnd ≤ stepBound s.wpc ∧ (s.sub = true → s.stepsAfterEnd = 0)
  sleeps : s.sleepsAfterEnd ≤ 1 ∧ (s.sub = true → s.sleepsAfterEnd = 0) ∧
           (s.wpc = .body → s.sleepsAfterEnd = 0)
  u_fin : s.upc = .fin → s.sub = false
  src_mid1 : s.src.pc = .mid1 → s.sub = false

theorem inv_init (p : Params) : Inv p (init p) := by
  have := (Src.start_props 0 p.script).1
  constructor <;> simp [init, stepBound]
  · split <;> simp
  · rcases this with h | h <;> simp [h]

theorem step_inv {p : Params} {s s' : State} {l : Label} (h : Inv p s) (hs : step p s l = some s') : Inv p s' := by
  obtain ⟨a1, a2, a3, a4, a5, a6, a7, a8, a9, a10, a11, a12, a13, a14, a15⟩ := h
  cases l with
  | tick t' =>
    simp only [step] at hs
    split at hs
    · next hc =>
      obtain ⟨c1, c2, c3, c4⟩ := hc
      injection hs with hs; subst hs
      constructor <;> grind [Src.allowsTick, UPc.allowsTick, wAllowsTick]
    · contradiction
  | run tid =>
    match tid with
    | 0 =>
      simp only [step] at hs
      split at hs
      · next hp =>
        split at hs
        · next x hx =>
          injection hs with hs; subst hs
          simp only [Src.wakeUp] at hx
          split at hx
          · injection hx with hx; subst hx
            constructor <;> grind
          · contradiction
        · contradiction
      · next hp =>
        have hq := (Src.start_props s.now s.src.rest.tail).1
        split at hs
        · injection hs with hs; subst hs
          constructor <;> grind [Src.advance]
        · split at hs
          · injection hs with hs; subst hs
            constructor <;> grind [endNow]
          · injection hs with hs; subst hs
            constructor <;> grind [Src.advance]
        · contradiction
      · next hp =>
        have hq := (Src.start_props s.now s.src.rest.tail).1
        injection hs with hs; subst hs
        constructor <;> grind [Src.advance]
      · contradiction
    | 1 =>
      simp only [step] at hs
      split at hs
      · split at hs
        · split at hs
          · injection hs with hs; subst hs
            constructor <;> grind [endNow]
          · contradiction
        · contradiction
      · injection hs with hs; subst hs
        constructor <;> grind
      · contradiction
    | 2 =>
      simp only [step] at hs
      rcases hE : s.endedAt with _ | e
      all_goals (
        rw [hE] at a1 a2 a3 a5 a7 a8 a9 a10
        split at hs <;> (try split at hs) <;>
          first
          | contradiction
          | (injection hs with hs; subst hs; constructor <;> grind [late, stepBound]))
    | n + 3 => simp [step] at hs

theorem reach_inv {p : Params} {s : State} (hr : Reach (step p) (init p) s) : Inv p s :=
  reach_induct (Inv p) (inv_init p) (fun _ _ _ h hs => step_inv h hs) s hr

/-- items delivered, then the one the worker holds, then the one in the cell, then what the source may still emit -/
def chain (s : State) : List Data :=
  itemsOf s.log ++ s.held.toList ++ s.value.toList ++ (if s.srcSub then emits s.src.rest else [])

structure SInv (p : Params) (s : State) : Prop where
  held_none : s.wpc ≠ .emit → s.held = none
  mid1_src : s.src.pc = .mid1 → s.srcSub = false
  sub : (chain s).Sublist (emits p.script)

theorem sinv_init (p : Params) : SInv p (init p) := by
  have := (Src.start_props 0 p.script).1
  constructor
  · simp [init]
  · simp only [init]; rcases this with h | h <;> simp [h]
  · simp [chain, init, itemsOf]

theorem sstep {p : Params} {s s' : State} {l : Label} (h : SInv p s) (hs : step p s l = some s') : SInv p s' := by
  obtain ⟨h1, h3, h2⟩ := h
  cases l with
  | tick t' =>
    simp only [step] at hs
    split at hs
    · injection hs with hs; subst hs; exact ⟨h1, h3, h2⟩
    · contradiction
  | run tid =>
    match tid with
    | 0 =>
      simp only [step] at hs
      split at hs
      · split at hs
        · next x hx =>
          injection hs with hs; subst hs
          simp only [Src.wakeUp] at hx
          split at hx
          · injection hx with hx; subst hx; exact ⟨h1, by simp, h2⟩
          · contradiction
        · contradiction
      · have hq := (Src.start_props s.now s.src.rest.tail).1
        have hq' : (s.src.advance s.now).pc ≠ .mid1 := by
          simp only [Src.advance]; rcases hq with h | h <;> simp [h]
        split at hs
        · next w x r hr =>
          injection hs with hs; subst hs
          refine ⟨h1, fun h => absurd h hq', List.Sublist.trans ?_ h2⟩
          simp only [chain, Src.advance, Src.start_rest, hr, List.tail_cons]
          cases s.srcSub <;> simp [emits_next, List.append_assoc]
        · next w ev r hne hr =>
          split at hs
          · next hsrc =>
            injection hs with hs; subst hs
            refine ⟨h1, fun _ => rfl, List.Sublist.trans ?_ h2⟩
            simp only [chain, hsrc, itemsOf_append]
            have : itemsOf (if s.sub = true then [(s.now, ev)] else []) = [] := by
              split
              · exact itemsOf_term _ _ (fun x hx => hne x hx)
              · rfl
            simp [this, List.append_assoc]
          · next hsrc =>
            injection hs with hs; subst hs
            refine ⟨h1, fun h => absurd h hq', List.Sublist.trans ?_ h2⟩
            simp [chain, hsrc]
        · contradiction
      · next hp =>
        have hq := (Src.start_props s.now s.src.rest.tail).1
        have hq' : (s.src.advance s.now).pc ≠ .mid1 := by
          simp only [Src.advance]; rcases hq with h | h <;> simp [h]
        injection hs with hs; subst hs
        refine ⟨h1, fun h => absurd h hq', List.Sublist.trans ?_ h2⟩
        simp [chain, h3 hp]
      · contradiction
    | 1 =>
      simp only [step] at hs
      split at hs
      · split at hs
        · split at hs
          · injection hs with hs; subst hs; exact ⟨h1, h3, h2⟩
          · contradiction
        · contradiction
      · injection hs with hs; subst hs
        refine ⟨h1, fun _ => rfl, List.Sublist.trans ?_ h2⟩
        simp only [chain]
        cases s.srcSub <;> simp
      · contradiction
    | 2 =>
      simp only [step] at hs
      split at hs
      · next hp => injection hs with hs; subst hs; refine ⟨?_, h3, h2⟩; intro _; exact h1 (by simp [hp])
      · next hp => injection hs with hs; subst hs; refine ⟨?_, h3, h2⟩; intro _; exact h1 (by simp [hp])
      · next hp =>
        split at hs
        · injection hs with hs; subst hs; refine ⟨?_, h3, h2⟩; intro _; exact h1 (by simp [hp])
        · contradiction
      · next hp =>
        injection hs with hs; subst hs
        refine ⟨by simp, h3, ?_⟩
        have := h1 (by simp [hp])
        simpa [chain, this] using h2
      · next hp =>
        injection hs with hs; subst hs
        refine ⟨fun _ => rfl, ?_, List.Sublist.trans ?_ h2⟩
        · intro h; simp [h3 h]
        · simp only [chain, itemsOf_append]
          cases hh : s.held with
          | none => cases s.srcSub <;> simp [itemsOf]
          | some v => cases s.sub <;> cases s.srcSub <;> simp [itemsOf, List.append_assoc]
      · next hp =>
        split at hs
        · injection hs with hs; subst hs; refine ⟨?_, h3, h2⟩; intro _; exact h1 (by simp [hp])
        · contradiction
      · contradiction
    | n + 3 => simp [step] at hs

theorem reach_sinv {p : Params} {s : State} (hr : Reach (step p) (init p) s) : SInv p s :=
  reach_induct (SInv p) (sinv_init p) (fun _ _ _ h hs => sstep h hs) s hr

/-- **C16 `debounce_subsequence`.**  Whatever the period, the source script, the unsubscription time and the
interleaving: the items delivered by `debounce` are, in order, a subsequence (by position — none twice) of the items
the source emitted. -/
theorem debounce_subsequence (p : Params) (s : State) (hr : Reach (step p) (init p) s) :
    (itemsOf s.log).Sublist (emits p.script) := by
  have := (reach_sinv hr).sub
  refine List.Sublist.trans ?_ this
  simp [chain, List.append_assoc]

end Debounce

namespace Sample

def chain (s : State) : List Data :=
  itemsOf s.log ++ s.held.toList ++ s.value.toList ++ (if s.srcSub then emits s.src.rest else [])

structure SInv (p : Params) (s : State) : Prop where
  held_none : s.trg.pc ≠ .mid1 → s.held = none
  sub : (chain s).Sublist (emits p.script)

theorem sinv_init (p : Params) : SInv p (init p) := by
  have := (Src.start_props 0 p.trigger).1
  constructor
  · simp [init]
  · simp [chain, init, itemsOf]

theorem adv_pc (now : Nat) (x : Src) : (x.advance now).pc ≠ .mid1 := by
  have hq := (Src.start_props now x.rest.tail).1
  simp only [Src.advance]; rcases hq with h | h <;> simp [h]

theorem sstep {p : Params} {s s' : State} {l : Label} (h : SInv p s) (hs : step p s l = some s') : SInv p s' := by
  obtain ⟨h1, h2⟩ := h
  cases l with
  | tick t' =>
    simp only [step] at hs
    split at hs
    · injection hs with hs; subst hs; exact ⟨h1, h2⟩
    · contradiction
  | run tid =>
    match tid with
    | 0 =>
      simp only [step] at hs
      split at hs
      · split at hs
        · next x hx =>
          injection hs with hs; subst hs
          simp only [Src.wakeUp] at hx
          split at hx
          · injection hx with hx; subst hx; exact ⟨h1, h2⟩
          · contradiction
        · contradiction
      · split at hs
        · next w x r hr =>
          injection hs with hs; subst hs
          refine ⟨h1, List.Sublist.trans ?_ h2⟩
          simp only [chain, Src.advance, Src.start_rest, hr, List.tail_cons]
          cases s.srcSub <;> simp [emits_next, List.append_assoc]
        · next w ev r hne hr =>
          injection hs with hs; subst hs
          refine ⟨h1, List.Sublist.trans ?_ h2⟩
          simp only [chain, itemsOf_append]
          have : ∀ b : Bool, itemsOf (if b = true then [(s.now, ev)] else []) = [] := by
            intro b; split
            · exact itemsOf_term _ _ (fun x hx => hne x hx)
            · rfl
          rw [this]
          cases s.srcSub <;> simp [List.append_assoc]
        · contradiction
      · contradiction
    | 1 =>
      simp only [step] at hs
      split at hs
      · split at hs
        · split at hs
          · injection hs with hs; subst hs; exact ⟨h1, h2⟩
          · contradiction
        · contradiction
      · injection hs with hs; subst hs
        refine ⟨h1, List.Sublist.trans ?_ h2⟩
        simp only [chain]
        cases s.srcSub <;> simp
      · contradiction
    | 2 =>
      simp only [step] at hs
      split at hs
      · next hp =>
        split at hs
        · next x hx =>
          injection hs with hs; subst hs
          simp only [Src.wakeUp] at hx
          split at hx
          · injection hx with hx; subst hx; exact ⟨fun _ => h1 (by simp [hp]), h2⟩
          · contradiction
        · contradiction
      · next hp =>
        have hh := h1 (by simp [hp])
        split at hs
        · split at hs
          · injection hs with hs; subst hs
            refine ⟨by simp, ?_⟩
            simpa [chain, hh] using h2
          · injection hs with hs; subst hs; exact ⟨fun _ => hh, h2⟩
        · injection hs with hs; subst hs; exact ⟨fun _ => hh, h2⟩
        · contradiction
      · next hp =>
        injection hs with hs; subst hs
        refine ⟨fun _ => rfl, List.Sublist.trans ?_ h2⟩
        simp only [chain, itemsOf_append]
        cases hh : s.held with
        | none => cases s.srcSub <;> simp [itemsOf]
        | some v => cases s.sub <;> cases s.srcSub <;> simp [itemsOf, List.append_assoc]
      · contradiction
    | n + 3 => simp [step] at hs

theorem reach_sinv {p : Params} {s : State} (hr : Reach (step p) (init p) s) : SInv p s :=
  reach_induct (SInv p) (sinv_init p) (fun _ _ _ h hs => sstep h hs) s hr

/-- **C16 `sample_subsequence`.**  Whatever the two scripts (source and trigger), the unsubscription time and the
interleaving: the items delivered by `sample` are, in order, a subsequence (by position — none twice) of the items the
source emitted. -/
theorem sample_subsequence (p : Params) (s : State) (hr : Reach (step p) (init p) s) :
    (itemsOf s.log).Sublist (emits p.script) := by
  have := (reach_sinv hr).sub
  refine List.Sublist.trans ?_ this
  simp [chain, List.append_assoc]

end Sample

/-! ## Non-vacuity of the script-driven theorems -/

namespace Timeout

/-- timeout.rs:110-137 in miniature: items at 0, 1, 2, then a gap of 20 with `d = 10` -/
def demo : Params :=
  { d := 10, script := [(.rel 0, .next (.int 1)), (.rel 1, .next (.int 2)), (.rel 1, .next (.int 3)), (.rel 20, .next (.int 4))] }

example : demo.unsubAt = none ∧ noTie demo.d 0 false demo.script demo.handling := by
  simp [demo, noTie, Wait.wake]

/-- a run of `demo`: three items pass, two timers are cancelled, the third fires `TimedOut` at 2 + 10, item 4 is dropped -/
example :
    (replay demo
      [.run 0, .run 0, .run 0, .run 0, .run 0, .run 0, .run 2, .tick 1, .run 0, .run 0, .run 0, .run 0, .run 0, .run 0, .run 3, .tick 2,
       .run 0, .run 0, .run 0, .run 0, .run 0, .run 0, .run 4, .tick 10, .run 2, .run 2, .run 2, .tick 11, .run 3, .run 3, .run 3,
       .tick 12, .run 4, .run 4, .run 4, .tick 22, .run 0, .run 0, .run 4, .run 4, .run 4, .tick 30]).map
      (fun s => (s.now, s.log, liveTimers s))
      = some (30, [(0, .next (.int 1)), (1, .next (.int 2)), (2, .next (.int 3)), (12, .error timedOut)], 0) := by decide

end Timeout

namespace Debounce

def demo : Params :=
  { d := 10, script := [(.rel 1, .next (.int 1)), (.rel 1, .next (.int 2)), (.rel 12, .next (.int 3)), (.rel 1, .complete)] }

/-- source emits 1@1, 2@2, 3@14, completes @15; `debounce(10)` delivers 2@10 and complete@15 (items 1 and 3 are dropped) -/
example :
    (replay demo
      [.run 2, .run 2, .tick 1, .run 0, .run 0, .tick 2, .run 0, .run 0, .tick 10, .run 2, .run 2, .run 2, .run 2, .run 2,
       .tick 14, .run 0, .run 0, .tick 15, .run 0, .run 0, .run 0, .tick 20, .run 2, .run 2, .run 2, .run 2, .run 2, .tick 30]).map
      (fun s => (s.now, s.log, itemsOf s.log))
      = some (30, [(10, .next (.int 2)), (15, .complete)], [.int 2]) := by decide

end Debounce

namespace Sample

def demo : Params :=
  { script := [(.rel 1, .next (.int 1)), (.rel 1, .next (.int 2)), (.rel 5, .next (.int 3)), (.rel 5, .complete)],
    trigger := [(.rel 3, .next .unit), (.rel 1, .next .unit), (.rel 4, .next .unit)] }

/-- source 1@1, 2@2, 3@7, complete@12; trigger at 3, 4, 8: `sample` delivers 2@3, nothing@4, 3@8, complete@12 -/
example :
    (replay demo
      [.tick 1, .run 0, .run 0, .tick 2, .run 0, .run 0, .tick 3, .run 2, .run 2, .run 2, .tick 4, .run 2, .run 2, .run 2,
       .tick 7, .run 0, .run 0, .tick 8, .run 2, .run 2, .run 2, .tick 12, .run 0, .run 0, .tick 13]).map
      (fun s => (s.now, s.log, itemsOf s.log))
      = some (13, [(3, .next (.int 2)), (8, .next (.int 3)), (12, .complete)], [.int 2, .int 3]) := by decide

end Sample

/-! ## The executable expectations of `Conc/Timed.lean` (`expectedLine`) are what the runs deliver -/

theorem ticks_eq (d m : Nat) : ticks d m = Interval.expected d m := rfl

theorem ticks_prefix (d : Nat) {m c : Nat} (h : m ≤ c) : ticks d m <+: ticks d c := by
  obtain ⟨j, rfl⟩ := Nat.exists_eq_add_of_le h
  induction j with
  | zero => exact List.prefix_refl _
  | succ j ih =>
    rw [← Nat.add_assoc, ticks_succ]
    exact (ih (Nat.le_add_right _ _)).trans (List.prefix_append _ _)

namespace Interval

/-- plain `interval(d)`, never unsubscribed: the log is always `expected d m` for some `m`, and for every `k` all records
    of `expected d k` that are due before `now` are present -/
theorem interval_expected (p : Params) (ht : p.take = none) (hu : p.unsubAt = none) (s : State)
    (hr : Reach (step p) (init p) s) :
    (∃ m : Nat, s.log = expected p.d m) ∧ (∀ k : Nat, ∀ o ∈ expected p.d k, o.1 < s.now → o ∈ s.log) := by
  obtain ⟨m, h1, _, _, h4, _⟩ := interval_ticks p s hr
  have hlog : s.log = ticks p.d m := by
    rcases h1 with h | ⟨c, hc, _⟩
    · exact h
    · simp [ht] at hc
  refine ⟨⟨m, hlog⟩, ?_⟩
  intro k o ho hnow
  rw [← ticks_eq] at ho
  obtain ⟨i, hi, rfl⟩ := mem_ticks.1 ho
  have := h4 i hnow (by simp [hu]) (by simp [ht])
  rw [hlog]; exact mem_ticks.2 ⟨i, this, rfl⟩

/-- `interval(d).take(c)`, never unsubscribed: prefix of `expectedTake d c`, everything due is present -/
theorem interval_take_expected (p : Params) (c : Nat) (ht : p.take = some c) (hu : p.unsubAt = none) (s : State)
    (hr : Reach (step p) (init p) s) :
    s.log <+: expectedTake p.d c ∧ (∀ o ∈ expectedTake p.d c, o.1 < s.now → o ∈ s.log) := by
  obtain ⟨m, h1, _, h3, h4, h5⟩ := interval_ticks p s hr
  have hfull : ticks p.d c ++ [(max c 1 * p.d, Ev.complete)] = expectedTake p.d c := rfl
  have hmc : m ≤ c := by
    rcases Nat.lt_or_ge c m with h | h
    · have := h3 c c h ht; omega
    · exact h
  constructor
  · rcases h1 with h | ⟨c', hc', _, h⟩
    · rw [h, ← hfull]; exact (ticks_prefix p.d hmc).trans (List.prefix_append _ _)
    · rw [ht] at hc'; injection hc' with hc'; subst hc'; rw [h, hfull]; exact List.prefix_refl _
  · intro o ho hnow
    rw [← hfull, List.mem_append] at ho
    rcases ho with ho | ho
    · obtain ⟨i, hi, rfl⟩ := mem_ticks.1 ho
      have him := h4 i hnow (by simp [hu]) (by intro c' hc'; rw [ht] at hc'; injection hc' with hc'; omega)
      rcases h1 with h | ⟨c', _, hmc', h⟩
      · rw [h]; exact mem_ticks.2 ⟨i, him, rfl⟩
      · rw [h, List.mem_append]; left; exact mem_ticks.2 ⟨i, by omega, rfl⟩
    · simp at ho; subst ho
      rw [h5 c ht hnow (by simp [hu])]; simp

end Interval

namespace Timer

/-- `timer(d)`, never unsubscribed: prefix of `expected d`, everything due is present -/
theorem timer_expected (p : Params) (hu : p.unsubAt = none) (s : State) (hr : Reach (step p) (init p) s) :
    s.log <+: expected p.d ∧ (∀ o ∈ expected p.d, o.1 < s.now → o ∈ s.log) := by
  obtain ⟨h1, h2, _⟩ := timer_once p s hr
  constructor
  · rcases h1 with h | h | h <;> rw [h] <;> simp [expected]
  · intro o ho hnow
    have hd : p.d < s.now := by
      simp [expected] at ho; rcases ho with rfl | rfl <;> exact hnow
    rw [h2 hd (by simp [hu])]; exact ho

end Timer

/-- what `expectedLine "timeout 20 5:1:0 15:2:10 c:1"` prints (`n1@5 n2@20 c@31`): the second item arrives 15 after the
    first was received because its handling took 0; its own handling of 10 delays the `complete` call to 20 + 10 + 1 -/
example : Timeout.expected 20 0 false [(.rel 5, .next (.int 1)), (.rel 15, .next (.int 2)), (.rel 1, .complete)] [0, 10, 0]
    = [(5, .next (.int 1)), (20, .next (.int 2)), (31, .complete)] := by decide

example : Delay.expected 7 0 [(.rel 10, .next (.int 1)), (.rel 10, .next (.int 2)), (.rel 1, .complete)] [0, 0, 0]
    = [(17, .next (.int 1)), (34, .next (.int 2)), (35, .complete)] := by decide

example : Interval.expectedTake 10 3 = [(10, .next (.int 0)), (20, .next (.int 1)), (30, .next (.int 2)), (30, .complete)] := by
  decide

end Rx.Timed

#print axioms Rx.Timed.Interval.interval_ticks
#print axioms Rx.Timed.Interval.interval_emits
#print axioms Rx.Timed.Interval.interval_only
#print axioms Rx.Timed.Interval.interval_tie_delivered
#print axioms Rx.Timed.Interval.interval_tie_dropped
#print axioms Rx.Timed.Timer.timer_once
#print axioms Rx.Timed.Interval.interval_expected
#print axioms Rx.Timed.Interval.interval_take_expected
#print axioms Rx.Timed.Timer.timer_expected
#print axioms Rx.Timed.Delay.delay_times
#print axioms Rx.Timed.Delay.expected_events
#print axioms Rx.Timed.Delay.expected_sorted
#print axioms Rx.Timed.Timeout.timeout_exact
#print axioms Rx.Timed.Timeout.expected_no_gap
#print axioms Rx.Timed.Timeout.expected_gap
#print axioms Rx.Timed.Timeout.timeout_never_fires_on_slow_consumer
#print axioms Rx.Timed.Timeout.timeout_tie_fires
#print axioms Rx.Timed.Timeout.timeout_tie_passes
#print axioms Rx.Timed.Debounce.debounce_subsequence
#print axioms Rx.Timed.Sample.sample_subsequence
