import RxVerif.Kernel.Run
import RxVerif.Spec.Single
/-
C02 (second half): every operator kernel of `Kernel/Basic.lean` (scan, reduce, sum, min, max, count,
sum_and_count, contains, default_if_empty, buffer_with_count, materialize, dematerialize), run by the
semantics of `Kernel/Run.lean`, is EQUAL to its ReactiveX list function of `Spec/Single.lean`, for all
streams and all parameters.  `demat_mat`: dematerialize inverts materialize (C04).

Shape of every proof: a lemma about `Kernel.feed` from an ARBITRARY intermediate operator state and an
arbitrary live run record `⟨alive := true, cancelled := false, registered := true, out⟩`, by induction
on the item list; then a case split on the ending.

Helper lemmas live in namespace `Rx.C02b` (so that they cannot clash with the first half);
the main theorems are in `Rx.C02`.
-/
namespace Rx.C02b
open Rx

/-! ### generic facts on `Kernel.feed` / `Kernel.run` -/

theorem run_eq {σ} (K : Kernel σ) (s : Stream) :
    K.run s = (K.finish (K.feed K.init ⟨true, false, true, []⟩ s.1).1
                        (K.feed K.init ⟨true, false, true, []⟩ s.1).2 s.2).out := rfl

theorem feed_nil {σ} (K : Kernel σ) (st : σ) (r : KRun) : K.feed st r [] = (st, r) := rfl

theorem feed_cons {σ} (K : Kernel σ) (st : σ) (r : KRun) (x : Data) (xs : List Data) :
    K.feed st r (x :: xs) =
      if r.cancelled then (st, r) else K.feed (K.onNext st x).1 (r.acts (K.onNext st x).2) xs := rfl

theorem feed_cancelled {σ} (K : Kernel σ) (st : σ) (r : KRun) (xs : List Data)
    (h : r.cancelled = true) : K.feed st r xs = (st, r) := by
  cases xs with
  | nil => rfl
  | cons x xs => simp [feed_cons, h]

@[simp] theorem acts_nil (r : KRun) : r.acts [] = r := rfl
@[simp] theorem acts_cons (r : KRun) (a : Act) (as : List Act) : r.acts (a :: as) = (r.act a).acts as := rfl

theorem acts_append (r : KRun) (as bs : List Act) : r.acts (as ++ bs) = (r.acts as).acts bs := by
  simp [KRun.acts, List.foldl_append]

/-- on a live record an emission just appends -/
@[simp] theorem act_emit_live (c g : Bool) (out : List Ev) (d : Data) :
    KRun.act ⟨true, c, g, out⟩ (.emit d) = ⟨true, c, g, out ++ [.next d]⟩ := rfl

@[simp] theorem act_complete_live (c g : Bool) (out : List Ev) :
    KRun.act ⟨true, c, g, out⟩ .complete = ⟨false, c, false, out ++ [.complete]⟩ := rfl

@[simp] theorem act_fail_live (c g : Bool) (out : List Ev) (e : Nat) :
    KRun.act ⟨true, c, g, out⟩ (.fail e) = ⟨false, c || g, false, out ++ [.error e]⟩ := rfl

@[simp] theorem act_abortSelf (a c g : Bool) (out : List Ev) :
    KRun.act ⟨a, c, g, out⟩ .abortSelf = ⟨a, true, false, out⟩ := rfl

/-- the default `on_error` / `on_complete` closures on a live record -/
theorem finish_default {σ} (K : Kernel σ) (st : σ) (out : List Ev) (t : Ending)
    (hE : ∀ e, (K.onError st e).2 = [.fail e]) (hC : (K.onComplete st).2 = [.complete]) :
    (K.finish st ⟨true, false, true, out⟩ t).out = out ++ t.toEvs := by
  cases t <;> simp [Kernel.finish, hE, hC, Ending.toEvs]

theorem toEvs_mk (xs : List Data) (t : Ending) : Stream.toEvs (xs, t) = xs.map .next ++ t.toEvs := rfl

/-! ### scan -/

def scanFrom (f : Data → Data → Data) : Option Data → List Data → List Data
  | none, xs => Spec.scanl1 f xs
  | some a, xs => Spec.scanl1.go f a xs

theorem kScan_onNext (f : Fn2) (acc : Option Data) (x : Data) :
    (kScan f).onNext acc x =
      (some (match acc with | some a => f.app a x | none => x),
       [.emit (match acc with | some a => f.app a x | none => x)]) := rfl

theorem scanFrom_cons (f : Data → Data → Data) (acc : Option Data) (x : Data) (xs : List Data) :
    scanFrom f acc (x :: xs) =
      (match acc with | some a => f a x | none => x) ::
        scanFrom f (some (match acc with | some a => f a x | none => x)) xs := by
  cases acc <;> simp [scanFrom, Spec.scanl1, Spec.scanl1.go]

theorem scan_feed (f : Fn2) (xs : List Data) : ∀ (acc : Option Data) (out : List Ev),
    ((kScan f).feed acc ⟨true, false, true, out⟩ xs).2
      = ⟨true, false, true, out ++ (scanFrom f.app acc xs).map .next⟩ := by
  induction xs with
  | nil => intro acc out; cases acc <;> simp [feed_nil, scanFrom, Spec.scanl1, Spec.scanl1.go]
  | cons x xs ih =>
    intro acc out
    rw [feed_cons, kScan_onNext, scanFrom_cons]
    simp [ih]

/-! ### fold family: reduce, sum, min, max -/

def stepO (g : Data → Data → Data) (acc : Option Data) (x : Data) : Option Data :=
  some (match acc with | some a => g a x | none => x)

theorem kFold_onNext (g : Data → Data → Data) (acc : Option Data) (x : Data) :
    (kFold g).onNext acc x = (stepO g acc x, []) := rfl

theorem kFold_onComplete (g : Data → Data → Data) (acc : Option Data) :
    ((kFold g).onComplete acc).2 = (match acc with | some a => [.emit a] | none => []) ++ [.complete] := rfl

theorem kFold_onError (g : Data → Data → Data) (acc : Option Data) (e : Nat) :
    ((kFold g).onError acc e).2 = [.fail e] := rfl

theorem foldl_stepO_some (g : Data → Data → Data) (xs : List Data) : ∀ a : Data,
    xs.foldl (stepO g) (some a) = some (xs.foldl g a) := by
  induction xs with
  | nil => intro a; rfl
  | cons x xs ih => intro a; simp [List.foldl_cons, stepO, ih]

theorem foldl1_eq (g : Data → Data → Data) (xs : List Data) :
    Spec.foldl1 g xs = xs.foldl (stepO g) none := by
  cases xs with
  | nil => rfl
  | cons x xs => simp [Spec.foldl1, List.foldl_cons, stepO, foldl_stepO_some]

theorem fold_feed (g : Data → Data → Data) (xs : List Data) : ∀ (acc : Option Data) (out : List Ev),
    (kFold g).feed acc ⟨true, false, true, out⟩ xs
      = (xs.foldl (stepO g) acc, ⟨true, false, true, out⟩) := by
  induction xs with
  | nil => intro acc out; rfl
  | cons x xs ih => intro acc out; rw [feed_cons, kFold_onNext]; simp [ih]

/-- the one lemma behind reduce / sum / min / max -/
theorem fold_spec (g : Data → Data → Data) (s : Stream) :
    (kFold g).run s = (Spec.aggregate (Spec.foldl1 g s.1) s).toEvs := by
  obtain ⟨xs, t⟩ := s
  have hi : (kFold g).init = none := rfl
  rw [run_eq, fold_feed, foldl1_eq]
  simp only [hi]
  cases t with
  | complete =>
    cases h : xs.foldl (stepO g) none <;>
      simp [Kernel.finish, kFold_onComplete, Spec.aggregate, toEvs_mk, Ending.toEvs]
  | error e => simp [Kernel.finish, kFold_onError, Spec.aggregate, toEvs_mk, Ending.toEvs]
  | silent => simp [Kernel.finish, Spec.aggregate, toEvs_mk, Ending.toEvs]

/-! ### count -/

theorem kCount_onNext (n : Nat) (x : Data) : kCount.onNext n x = (n + 1, []) := rfl

theorem count_feed (xs : List Data) : ∀ (n : Nat) (out : List Ev),
    kCount.feed n ⟨true, false, true, out⟩ xs = (n + xs.length, ⟨true, false, true, out⟩) := by
  induction xs with
  | nil => intro n out; rfl
  | cons x xs ih =>
    intro n out; rw [feed_cons, kCount_onNext]; simp [ih]; omega

/-! ### sum_and_count -/

def sumF : Data → Data → Data := fun a b => .int (a.toInt + b.toInt)

theorem kSumAndCount_onNext (acc : Option Data) (n : Nat) (x : Data) :
    kSumAndCount.onNext (acc, n) x = ((stepO sumF acc x, n + 1), []) := rfl

theorem kSumAndCount_onComplete (acc : Option Data) (n : Nat) :
    (kSumAndCount.onComplete (acc, n)).2 =
      (match acc with | some a => [.emit (.pair a (.int n))] | none => []) ++ [.complete] := rfl

theorem kSumAndCount_onError (st : Option Data × Nat) (e : Nat) :
    (kSumAndCount.onError st e).2 = [.fail e] := rfl

theorem sumAndCount_feed (xs : List Data) : ∀ (acc : Option Data) (n : Nat) (out : List Ev),
    kSumAndCount.feed (acc, n) ⟨true, false, true, out⟩ xs
      = ((xs.foldl (stepO sumF) acc, n + xs.length), ⟨true, false, true, out⟩) := by
  induction xs with
  | nil => intro acc n out; rfl
  | cons x xs ih =>
    intro acc n out; rw [feed_cons, kSumAndCount_onNext]; simp [ih]; omega

/-! ### contains -/

theorem kContains_onNext (t : Data) (x : Data) :
    (kContains t).onNext () x =
      ((), if x == t then [.abortSelf, .emit (.bool true), .complete] else []) := rfl

theorem contains_feed (t : Data) (xs : List Data) : ∀ (out : List Ev),
    ((kContains t).feed () ⟨true, false, true, out⟩ xs).2
      = if xs.any (· == t) then ⟨false, true, false, out ++ [.next (.bool true), .complete]⟩
        else ⟨true, false, true, out⟩ := by
  induction xs with
  | nil => intro out; rfl
  | cons x xs ih =>
    intro out
    rw [feed_cons, kContains_onNext]
    by_cases hx : (x == t) = true
    · simp [hx, feed_cancelled]
    · simp [hx, ih]

/-! ### default_if_empty -/

theorem kDefaultIfEmpty_onNext (d : Data) (b : Bool) (x : Data) :
    (kDefaultIfEmpty d).onNext b x = (true, [.emit x]) := rfl

theorem defaultIfEmpty_feed (d : Data) (xs : List Data) : ∀ (b : Bool) (out : List Ev),
    (kDefaultIfEmpty d).feed b ⟨true, false, true, out⟩ xs
      = (b || !xs.isEmpty, ⟨true, false, true, out ++ xs.map .next⟩) := by
  induction xs with
  | nil => intro b out; simp [feed_nil]
  | cons x xs ih => intro b out; rw [feed_cons, kDefaultIfEmpty_onNext]; simp [ih]

/-! ### buffer_with_count -/

/-- the chunks the kernel emits while items arrive, starting from buffer `buf` -/
def bufEm (n : Nat) : List Data → List Data → List (List Data)
  | _, [] => []
  | buf, x :: xs =>
    if (buf ++ [x]).length == n then (buf ++ [x]) :: bufEm n [] xs else bufEm n (buf ++ [x]) xs

/-- the buffer left when the items are exhausted -/
def bufRem (n : Nat) : List Data → List Data → List Data
  | buf, [] => buf
  | buf, x :: xs =>
    if (buf ++ [x]).length == n then bufRem n [] xs else bufRem n (buf ++ [x]) xs

theorem kBuffer_onNext (n : Nat) (buf : List Data) (x : Data) :
    (kBuffer n).onNext buf x =
      if (buf ++ [x]).length == n then ([], [.emit (Data.ofList (buf ++ [x]))]) else (buf ++ [x], []) := rfl

theorem kBuffer_onComplete (n : Nat) (buf : List Data) :
    ((kBuffer n).onComplete buf).2 =
      (if buf.length > 0 then [.emit (Data.ofList buf)] else []) ++ [.complete] := rfl

theorem kBuffer_onError (n : Nat) (buf : List Data) (e : Nat) :
    ((kBuffer n).onError buf e).2 = [.fail e] := rfl

theorem buffer_feed (n : Nat) (xs : List Data) : ∀ (buf : List Data) (out : List Ev),
    (kBuffer n).feed buf ⟨true, false, true, out⟩ xs
      = (bufRem n buf xs,
         ⟨true, false, true, out ++ (bufEm n buf xs).map fun c => .next (Data.ofList c)⟩) := by
  induction xs with
  | nil => intro buf out; simp [feed_nil, bufEm, bufRem]
  | cons x xs ih =>
    intro buf out
    rw [feed_cons, kBuffer_onNext]
    by_cases h : ((buf ++ [x]).length == n) = true
    · simp only [h, if_true, bufEm, bufRem]; simp [ih]
    · simp only [h, bufEm, bufRem]; simp [ih]

theorem chunks_succ (n fuel : Nat) (xs : List Data) (h : xs ≠ []) :
    Spec.chunks n (fuel + 1) xs
      = if xs.length < n then [xs] else xs.take n :: Spec.chunks n fuel (xs.drop n) := by
  cases xs with
  | nil => exact absurd rfl h
  | cons y ys => simp only [Spec.chunks]

/-- `Spec.chunks` (with enough fuel) of "what is buffered ++ what is still to come" is what the kernel
emits on the way, followed by the non-empty remainder -/
theorem chunks_buf (n : Nat) (hn : 0 < n) (xs : List Data) : ∀ (buf : List Data) (fuel : Nat),
    buf.length < n → buf.length + xs.length + 1 ≤ fuel →
    Spec.chunks n fuel (buf ++ xs)
        = bufEm n buf xs ++ (if bufRem n buf xs = [] then [] else [bufRem n buf xs])
      ∧ (bufRem n buf xs).length < n
      ∧ ∀ c ∈ bufEm n buf xs, c.length = n := by
  induction xs with
  | nil =>
    intro buf fuel hb hf
    refine ⟨?_, by simpa [bufRem] using hb, by simp [bufEm]⟩
    obtain ⟨fuel, rfl⟩ : ∃ k, fuel = k + 1 := ⟨fuel - 1, by omega⟩
    cases buf with
    | nil => simp [Spec.chunks, bufEm, bufRem]
    | cons b bs =>
      have hb' : bs.length + 1 < n := by simpa using hb
      simp [Spec.chunks, bufEm, bufRem, hb']
  | cons x xs ih =>
    intro buf fuel hb hf
    obtain ⟨fuel, rfl⟩ : ∃ k, fuel = k + 1 := ⟨fuel - 1, by omega⟩
    by_cases h : (buf ++ [x]).length = n
    · -- the buffer fills: one chunk goes out, restart from the empty buffer
      have hlen : buf.length + 1 = n := by simpa using h
      obtain ⟨ih1, ih2, ih3⟩ := ih [] fuel (by simpa using hn) (by simp at hf ⊢; omega)
      have hne : buf ++ x :: xs ≠ [] := by simp
      have htake : (buf ++ x :: xs).take n = buf ++ [x] := by
        have : buf ++ x :: xs = (buf ++ [x]) ++ xs := by simp
        rw [this, List.take_left' (by simpa using hlen)]
      have hdrop : (buf ++ x :: xs).drop n = xs := by
        have : buf ++ x :: xs = (buf ++ [x]) ++ xs := by simp
        rw [this, List.drop_left' (by simpa using hlen)]
      have hge : ¬ (buf ++ x :: xs).length < n := by simp; omega
      refine ⟨?_, ?_, ?_⟩
      · have hc : Spec.chunks n (fuel + 1) (buf ++ x :: xs)
            = (buf ++ [x]) :: Spec.chunks n fuel xs := by
          rw [chunks_succ n fuel _ hne, if_neg hge, htake, hdrop]
        rw [hc]
        simp only [List.nil_append] at ih1
        simp [bufEm, bufRem, h, ih1]
      · simpa [bufRem, h] using ih2
      · intro c hc
        simp only [bufEm, h, beq_self_eq_true, if_true, List.mem_cons] at hc
        rcases hc with rfl | hc
        · exact h
        · exact ih3 c hc
    · -- still filling
      have hlt : (buf ++ [x]).length < n := by
        have : (buf ++ [x]).length ≤ n := by simp; omega
        omega
      obtain ⟨ih1, ih2, ih3⟩ := ih (buf ++ [x]) (fuel + 1) hlt (by simp at hf ⊢; omega)
      have hb' : ¬ buf.length + 1 = n := by simpa using h
      have : buf ++ x :: xs = (buf ++ [x]) ++ xs := by simp
      refine ⟨?_, ?_, ?_⟩
      · rw [this, ih1]; simp [bufEm, bufRem, hb']
      · simpa [bufRem, hb'] using ih2
      · simpa [bufEm, hb'] using ih3

/-! ### materialize / dematerialize -/

theorem kMaterialize_onNext (x : Data) : kMaterialize.onNext () x = ((), [.emit (.mNext x)]) := rfl

theorem materialize_feed (xs : List Data) : ∀ (out : List Ev),
    kMaterialize.feed () ⟨true, false, true, out⟩ xs
      = ((), ⟨true, false, true, out ++ xs.map fun x => .next (.mNext x)⟩) := by
  induction xs with
  | nil => intro out; simp [feed_nil]
  | cons x xs ih => intro out; rw [feed_cons, kMaterialize_onNext]; simp [ih]

/-- the run record after dematerialising items whose list reading is `p` -/
def dematR (out : List Ev) : List Data × Option Ending → KRun
  | (ys, none) => ⟨true, false, true, out ++ ys.map .next⟩
  | (ys, some t) => ⟨false, true, false, out ++ ys.map .next ++ t.toEvs⟩

theorem dematR_cons (out : List Ev) (d : Data) (p : List Data × Option Ending) :
    dematR (out ++ [.next d]) p = dematR out (d :: p.1, p.2) := by
  obtain ⟨ys, t⟩ := p
  cases t <;> simp [dematR]

theorem dematerialize_feed (xs : List Data) : ∀ (out : List Ev),
    (kDematerialize.feed () ⟨true, false, true, out⟩ xs).2 = dematR out (Spec.dematItems xs) := by
  induction xs with
  | nil => intro out; simp [feed_nil, Spec.dematItems, dematR]
  | cons x xs ih =>
    intro out
    rw [feed_cons]
    cases x with
    | mNext d =>
      have : kDematerialize.onNext () (.mNext d) = ((), [.emit d]) := rfl
      rw [this]; simp [ih, dematR_cons, Spec.dematItems]
    | mErr e =>
      have : kDematerialize.onNext () (.mErr e) = ((), [.fail e]) := rfl
      rw [this]; simp [feed_cancelled, Spec.dematItems, dematR, Ending.toEvs]
    | mComplete =>
      have : kDematerialize.onNext () .mComplete = ((), [.abortSelf, .complete]) := rfl
      rw [this]; simp [feed_cancelled, Spec.dematItems, dematR, Ending.toEvs]
    | unit =>
      have : kDematerialize.onNext () .unit = ((), [.emit .unit]) := rfl
      rw [this]; simp [ih, dematR_cons, Spec.dematItems]
    | int i =>
      have : kDematerialize.onNext () (.int i) = ((), [.emit .unit]) := rfl
      rw [this]; simp [ih, dematR_cons, Spec.dematItems]
    | bool b =>
      have : kDematerialize.onNext () (.bool b) = ((), [.emit .unit]) := rfl
      rw [this]; simp [ih, dematR_cons, Spec.dematItems]
    | lnil =>
      have : kDematerialize.onNext () .lnil = ((), [.emit .unit]) := rfl
      rw [this]; simp [ih, dematR_cons, Spec.dematItems]
    | lcons h t =>
      have : kDematerialize.onNext () (.lcons h t) = ((), [.emit .unit]) := rfl
      rw [this]; simp [ih, dematR_cons, Spec.dematItems]
    | pair a b =>
      have : kDematerialize.onNext () (.pair a b) = ((), [.emit .unit]) := rfl
      rw [this]; simp [ih, dematR_cons, Spec.dematItems]
    | obs i =>
      have : kDematerialize.onNext () (.obs i) = ((), [.emit .unit]) := rfl
      rw [this]; simp [ih, dematR_cons, Spec.dematItems]

theorem dematItems_map_mNext (xs : List Data) (rest : List Data) :
    Spec.dematItems (xs.map .mNext ++ rest) = (xs ++ (Spec.dematItems rest).1, (Spec.dematItems rest).2) := by
  induction xs with
  | nil => simp
  | cons x xs ih => simp [Spec.dematItems, ih]

end Rx.C02b

namespace Rx.C02
open Rx Rx.C02b

/-- `scan` (src/operators/scan.rs): every item yields the running accumulator -/
theorem scan_spec (f : Fn2) (s : Stream) : (kScan f).run s = (Spec.scan f s).toEvs := by
  obtain ⟨xs, t⟩ := s
  rw [run_eq]
  have h := scan_feed f xs none []
  have hi : (kScan f).init = none := rfl
  simp only [hi] at h ⊢
  rw [h, finish_default _ _ _ _ (fun _ => rfl) rfl]
  simp [Spec.scan, toEvs_mk, scanFrom]

/-- `reduce` (src/operators/reduce.rs) -/
theorem reduce_spec (f : Fn2) (s : Stream) : (kReduce f).run s = (Spec.reduce f s).toEvs :=
  fold_spec f.app s

/-- `sum` (src/operators/sum.rs) -/
theorem sum_spec (s : Stream) : kSum.run s = (Spec.sum s).toEvs := fold_spec _ s

/-- `min` (src/operators/min.rs) -/
theorem min_spec (s : Stream) : kMin.run s = (Spec.min s).toEvs := fold_spec _ s

/-- `max` (src/operators/max.rs) -/
theorem max_spec (s : Stream) : kMax.run s = (Spec.max s).toEvs := fold_spec _ s

/-- `count` (src/operators/count.rs) -/
theorem count_spec (s : Stream) : kCount.run s = (Spec.count s).toEvs := by
  obtain ⟨xs, t⟩ := s
  rw [run_eq]
  have h : kCount.init = 0 := rfl
  simp only [h, count_feed]
  have hC : ∀ n, (kCount.onComplete n).2 = [.emit (.int n), .complete] := fun _ => rfl
  have hE : ∀ n e, (kCount.onError n e).2 = [.fail e] := fun _ _ => rfl
  cases t <;> simp [Kernel.finish, hC, hE, Spec.count, Spec.aggregate, toEvs_mk, Ending.toEvs]

/-- `sum_and_count` (src/operators/sum_and_count.rs) -/
theorem sumAndCount_spec (s : Stream) : kSumAndCount.run s = (Spec.sumAndCount s).toEvs := by
  obtain ⟨xs, t⟩ := s
  rw [run_eq]
  have h : kSumAndCount.init = (none, 0) := rfl
  simp only [h, sumAndCount_feed]
  have hf : Spec.foldl1 (fun a b => Data.int (a.toInt + b.toInt)) xs = xs.foldl (stepO sumF) none :=
    foldl1_eq sumF xs
  cases t with
  | complete =>
    cases hx : xs.foldl (stepO sumF) none <;>
      simp [Kernel.finish, kSumAndCount_onComplete, hx, Spec.sumAndCount, hf, Spec.aggregate, toEvs_mk,
        Ending.toEvs]
  | error e =>
    simp [Kernel.finish, kSumAndCount_onError, Spec.sumAndCount, Spec.aggregate, toEvs_mk, Ending.toEvs]
  | silent => simp [Kernel.finish, Spec.sumAndCount, Spec.aggregate, toEvs_mk, Ending.toEvs]

/-- `contains` (src/operators/contains.rs): `true` and completion at the first hit -/
theorem contains_spec (t : Data) (s : Stream) : (kContains t).run s = (Spec.contains t s).toEvs := by
  obtain ⟨xs, e⟩ := s
  rw [run_eq]
  have h := contains_feed t xs []
  have hi : (kContains t).init = () := rfl
  simp only [hi] at h ⊢
  rw [h]
  have hC : ∀ u, ((kContains t).onComplete u).2 = [.emit (.bool false), .complete] := fun _ => rfl
  have hE : ∀ u e, ((kContains t).onError u e).2 = [.fail e] := fun _ _ => rfl
  by_cases hx : xs.any (· == t) = true
  · have hx' : xs.any (· == t) = true := hx
    simp only [Spec.contains, hx', if_true]
    cases e <;> simp [Kernel.finish, toEvs_mk, Ending.toEvs]
  · have hx' : xs.any (· == t) = false := Bool.eq_false_iff.2 hx
    simp only [Spec.contains, hx']
    cases e <;> simp [Kernel.finish, hC, hE, Spec.aggregate, toEvs_mk, Ending.toEvs]

/-- `default_if_empty` (src/operators/default_if_empty.rs) -/
theorem defaultIfEmpty_spec (d : Data) (s : Stream) :
    (kDefaultIfEmpty d).run s = (Spec.defaultIfEmpty d s).toEvs := by
  obtain ⟨xs, t⟩ := s
  rw [run_eq]
  have hi : (kDefaultIfEmpty d).init = false := rfl
  simp only [hi, defaultIfEmpty_feed]
  have hC : ∀ b, ((kDefaultIfEmpty d).onComplete b).2
      = (if b then [] else [.emit d]) ++ [.complete] := fun _ => rfl
  have hE : ∀ b e, ((kDefaultIfEmpty d).onError b e).2 = [.fail e] := fun _ _ => rfl
  cases xs with
  | nil => cases t <;> simp [Kernel.finish, hC, hE, Spec.defaultIfEmpty, toEvs_mk, Ending.toEvs]
  | cons x xs => cases t <;> simp [Kernel.finish, hC, hE, Spec.defaultIfEmpty, toEvs_mk, Ending.toEvs]

/-- `buffer_with_count` (src/operators/buffer_with_count.rs), `count ≥ 1` -/
theorem buffer_spec (n : Nat) (hn : 0 < n) (s : Stream) :
    (kBuffer n).run s = (Spec.bufferWithCount n s).toEvs := by
  obtain ⟨xs, t⟩ := s
  rw [run_eq]
  have hi : (kBuffer n).init = [] := rfl
  simp only [hi, buffer_feed]
  obtain ⟨h1, h2, h3⟩ := chunks_buf n hn xs [] (xs.length + 1) (by simpa using hn) (by simp)
  simp only [List.nil_append] at h1
  have hfilter : (bufEm n [] xs).filter (fun c => c.length == n) = bufEm n [] xs :=
    List.filter_eq_self.mpr (fun c hc => by simp [h3 c hc])
  cases t with
  | complete =>
    simp only [Spec.bufferWithCount, h1, Kernel.finish, kBuffer_onComplete]
    by_cases hr : bufRem n [] xs = []
    · simp [hr, toEvs_mk, Ending.toEvs]
    · have : 0 < (bufRem n [] xs).length := List.length_pos_iff.mpr hr
      simp [hr, this, toEvs_mk, Ending.toEvs]
  | error e =>
    simp only [Spec.bufferWithCount, h1, Kernel.finish, kBuffer_onError]
    by_cases hr : bufRem n [] xs = []
    · simp [hr, hfilter, toEvs_mk, Ending.toEvs]
    · have : ¬ (bufRem n [] xs).length = n := by omega
      simp [hr, hfilter, this, List.filter_append, toEvs_mk, Ending.toEvs]
  | silent =>
    simp only [Spec.bufferWithCount, h1, Kernel.finish]
    by_cases hr : bufRem n [] xs = []
    · simp [hr, hfilter, toEvs_mk, Ending.toEvs]
    · have : ¬ (bufRem n [] xs).length = n := by omega
      simp [hr, hfilter, this, List.filter_append, toEvs_mk, Ending.toEvs]

/-- `materialize` (src/operators/materialize.rs): terminals become items, then completion -/
theorem materialize_spec (s : Stream) : kMaterialize.run s = (Spec.materialize s).toEvs := by
  obtain ⟨xs, t⟩ := s
  rw [run_eq]
  have hi : kMaterialize.init = () := rfl
  simp only [hi, materialize_feed]
  have hC : ∀ u, (kMaterialize.onComplete u).2 = [.emit .mComplete, .complete] := fun _ => rfl
  have hE : ∀ u e, (kMaterialize.onError u e).2 = [.emit (.mErr e), .complete] := fun _ _ => rfl
  cases t <;> simp [Kernel.finish, hC, hE, Spec.materialize, toEvs_mk, Ending.toEvs, List.map_map,
    Function.comp_def]

/-- `dematerialize` (src/operators/dematerialize.rs): stops at the first terminal material -/
theorem dematerialize_spec (s : Stream) : kDematerialize.run s = (Spec.dematerialize s).toEvs := by
  obtain ⟨xs, t⟩ := s
  rw [run_eq]
  have h := dematerialize_feed xs []
  have hi : kDematerialize.init = () := rfl
  simp only [hi] at h ⊢
  rw [h]
  have hC : ∀ u, (kDematerialize.onComplete u).2 = [.complete] := fun _ => rfl
  have hE : ∀ u e, (kDematerialize.onError u e).2 = [.fail e] := fun _ _ => rfl
  simp only [Spec.dematerialize]
  rcases hd : Spec.dematItems xs with ⟨ys, _ | t'⟩
  · cases t <;> simp [dematR, Kernel.finish, hC, hE, toEvs_mk, Ending.toEvs]
  · cases t <;> simp [dematR, Kernel.finish, toEvs_mk]

/-- dematerialize inverts materialize (C04) -/
theorem demat_mat (s : Stream) : Spec.dematerialize (Spec.materialize s) = s := by
  obtain ⟨xs, t⟩ := s
  cases t with
  | complete =>
    simp [Spec.materialize, Spec.dematerialize, dematItems_map_mNext, Spec.dematItems]
  | error e =>
    simp [Spec.materialize, Spec.dematerialize, dematItems_map_mNext, Spec.dematItems]
  | silent =>
    have := dematItems_map_mNext xs []
    simp only [List.append_nil] at this
    simp [Spec.materialize, Spec.dematerialize, this, Spec.dematItems]

/-- and the same through the kernels: the composed run reproduces the source stream -/
theorem demat_mat_run (s : Stream) :
    kDematerialize.run (Spec.materialize s) = s.toEvs := by
  rw [dematerialize_spec, demat_mat]

/-! ### non-vacuity: concrete streams on which both sides are non-trivial -/

example : (kScan .add).run ([.int 1, .int 2, .int 3], .complete)
    = [.next (.int 1), .next (.int 3), .next (.int 6), .complete] := by decide
example : (kReduce .add).run ([.int 1, .int 2, .int 3], .complete) = [.next (.int 6), .complete] := by decide
example : kSum.run ([.int 1, .int 2], .error 7) = [.error 7] := by decide
example : kMin.run ([.int 3, .int 1, .int 2], .complete) = [.next (.int 1), .complete] := by decide
example : kMax.run ([.int 3, .int 1, .int 2], .complete) = [.next (.int 3), .complete] := by decide
example : kCount.run ([.unit, .unit], .complete) = [.next (.int 2), .complete] := by decide
example : kSumAndCount.run ([.int 4, .int 5], .complete)
    = [.next (.pair (.int 9) (.int 2)), .complete] := by decide
example : (kContains (.int 2)).run ([.int 1, .int 2, .int 3], .error 1)
    = [.next (.bool true), .complete] := by decide
example : (kDefaultIfEmpty (.int 9)).run ([], .complete) = [.next (.int 9), .complete] := by decide
example : (kBuffer 2).run ([.int 1, .int 2, .int 3], .complete)
    = [.next (Data.ofList [.int 1, .int 2]), .next (Data.ofList [.int 3]), .complete] := by decide
example : (kBuffer 2).run ([.int 1, .int 2, .int 3], .error 4)
    = [.next (Data.ofList [.int 1, .int 2]), .error 4] := by decide
example : kMaterialize.run ([.int 1], .error 3) = [.next (.mNext (.int 1)), .next (.mErr 3), .complete] := by
  decide
example : kDematerialize.run ([.mNext (.int 1), .mErr 3, .mNext (.int 2)], .complete)
    = [.next (.int 1), .error 3] := by decide
example : Spec.dematerialize (Spec.materialize ([.int 1], .error 3)) = ([.int 1], .error 3) := by decide

/-- `hn` of `buffer_spec` is needed: with `count = 0` the kernel never emits a chunk on the way and
flushes everything on completion, whereas `Spec.chunks 0` produces empty chunks. -/
example : (kBuffer 0).run ([.int 1], .complete) ≠ (Spec.bufferWithCount 0 ([.int 1], .complete)).toEvs := by
  decide

end Rx.C02

#print axioms Rx.C02.scan_spec
#print axioms Rx.C02.reduce_spec
#print axioms Rx.C02.sum_spec
#print axioms Rx.C02.min_spec
#print axioms Rx.C02.max_spec
#print axioms Rx.C02.count_spec
#print axioms Rx.C02.sumAndCount_spec
#print axioms Rx.C02.contains_spec
#print axioms Rx.C02.defaultIfEmpty_spec
#print axioms Rx.C02.buffer_spec
#print axioms Rx.C02.materialize_spec
#print axioms Rx.C02.dematerialize_spec
#print axioms Rx.C02.demat_mat
#print axioms Rx.C02.demat_mat_run
