import RxVerif.Theorems.C03RefSeqEqDone2
/-
C03-REF, sequence_equal, part 11: `Subject::complete()` on a subject whose chain is live.
-/
namespace Rx.SeqRef
open Rx.Sim Rx.Ref Rx.Comb Rx.CRef

variable {k : Nat} {σ : GS} {w : World}

/-- the state after `Subject::complete()` on source `i` (`J` = the index of the new observer on `just(None)`) -/
def compState (σ : GS) (i J : Nat) : GS :=
  let σe := afterEnd { σ with ch := upd σ.ch i b5 } i J
  { σe with ch := upd σe.ch i (tFM (σe.ch i)) }

theorem tearAll_cL (ch : Nat → CB) (l : List Nat) (j : Nat) (h : (ch j).cL = false) : (tearAll ch l j).cL = false := by
  simp only [tearAll]; split
  · exact tZ_cL _ h
  · exact h

theorem endState_cL (σ : GS) (t : Bool) (evs : List Ev) (j : Nat) (h : (σ.ch j).cL = false) :
    ((endState σ t evs).ch j).cL = false := by
  simp only [endState]; split
  · exact tearAll_cL _ _ _ h
  · exact h

theorem o1Step_cL (σ : GS) (ev : Ev) (j : Nat) (h : (σ.ch j).cL = false) : ((o1Step σ ev).ch j).cL = false := by
  cases ev with
  | next x => simp only [o1Step]; split
              · exact h
              · exact endState_cL _ _ _ _ h
  | error e => exact endState_cL _ _ _ _ h
  | complete => exact endState_cL _ _ _ _ h

theorem zKill_cL (σ : GS) (i j : Nat) (h : (σ.ch j).cL = false) : ((zKill σ i).ch j).cL = false := by
  show CB.cL (upd σ.ch i _ j) = false
  by_cases e : j = i
  · subst e; rw [upd_same]; exact h
  · rw [upd_other _ _ e]; exact h

theorem zStep_cL (σ : GS) (i : Nat) (ev : Ev) (j : Nat) (h : (σ.ch j).cL = false) :
    ((zStep σ i ev).ch j).cL = false := by
  cases ev with
  | next x => simp only [zStep]; split
              · exact o1Step_cL _ _ _ h
              · exact h
  | error e => exact endState_cL _ _ _ _ (zKill_cL σ i j h)
  | complete => simp only [zStep]; split
                · exact endState_cL _ _ _ _ (zKill_cL σ i j h)
                · exact zKill_cL σ i j h

theorem afterEnd_cL (σ : GS) (i J : Nat) : ((afterEnd σ i J).ch i).cL = false := by
  have h7 : ((({ σ with ch := upd σ.ch i (b7 J) } : GS).ch) i).cL = false := by
    show CB.cL (upd σ.ch i (b7 J) i) = false; rw [upd_same]; rfl
  have ha := zStep_cL _ i (.next (Data.optEnc none)) i h7
  simp only [afterEnd]
  split
  · show CB.cL (upd _ i _ i) = false
    rw [upd_same]
    apply tFC_cL
    apply zStep_cL
    show CB.cL (upd _ i _ i) = false
    rw [upd_same]
    exact ha
  · exact ha

theorem subjComplete_spec (h : GRel k σ [] w) (hr : Ready k σ) {i : Nat} (hi : i < k) (hl : σ.ch i = bLive)
    (hreg : σ.reg.contains i = true) :
    WP (evCall (sjOf i) .complete) w (GRel k (compState σ i w.obs.length) []) := by
  have hne := @cells_ne k i
  have hch := h.chains i hi
  rw [hl] at hch
  have hO := hch.subjO
  simp only [bLive, ↓reduceIte] at hO
  refine wp_cellRead_val h.held hO (wp_cellWrite h.held ?_)
  rw [amapVals_encMap]
  simp only [List.map_cons, List.map_nil, forEach, toNat_int]
  -- the subject has forgotten its observers
  have c1 : ChainAt k i { bLive with sR := false } { w with cells := w.cells.set (sjOf i).observers .lnil } :=
    hch.setCells hi _ (fun c h1 _ _ => set_get_other _ (Ne.symm h1)) _ rfl (set_get_same _ hch.subjO)
      (by rw [set_get_other _ hne.1]; exact hch.cM) (by rw [set_get_other _ hne.2.1]; exact hch.mM)
  apply WP.seq
  have hM := c1.oM
  simp only [bLive, ↓reduceIte, optHook] at hM
  refine wp_ev_code (ev := .complete) hM rfl rfl rfl ?_
  simp only [Ev.isTerminal, ↓reduceIte, codeBody]
  -- map_i's observer has taken its callbacks
  have c2 := c1.setM hi Obs.cleared false true (by
    intro x hx; rw [hM] at hx; cases hx; simp [Obs.cleared, mapObs, deadObs, optHook])
  simp only [mapDone, kSome, actsP, forEach, actP, holdAcq, holdRel]
  refine wp_cellRead_val h.held c2.mT (wp_cellWrite h.held ?_)
  have c3 : ChainAt k i { bLive with sR := false, mL := false }
      ({ w with cells := (w.cells.set (sjOf i).observers .lnil).set (mst k i) .unit, obs := w.obs.modify (Mo k i) Obs.cleared } : World) :=
    c2.congr (fun c _ => set_same_get c2.mT c) (fun _ _ => rfl) rfl
  apply WP.seq; refine WP.done ?_
  apply WP.seq
  · apply WP.seq
    · -- `map_i.sink_complete(0)`: the last upstream of map_i is gone, map_i completes
      simp only [Sctl.sinkComplete, scM]
      have hC := c3.oC
      simp only [bLive, ↓reduceIte, optHook] at hC
      refine wp_obsIsSub hC ?_
      simp only [concatObs, Obs.isSub, Option.isSome_some, Bool.and_self, ↓reduceIte]
      refine wp_cellRead_val h.held c3.mM ?_
      simp only [bLive, ↓reduceIte]
      rw [amapRemove_encMap]
      simp only [List.filter_cons, bne_self_eq_false, Bool.false_eq_true, ↓reduceIte, List.filter_nil]
      refine wp_cellWrite h.held ?_
      have c4 : ChainAt k i { bLive with sR := false, mL := false, mR := false }
          ({ w with cells := ((w.cells.set (sjOf i).observers .lnil).set (mst k i) .unit).set (mmap k i) (encMap []), obs := w.obs.modify (Mo k i) Obs.cleared } : World) :=
        c3.setCells hi _ (fun c _ _ h3 => set_get_other _ (Ne.symm h3)) _ rfl
          (by rw [set_get_other _ (Ne.symm hne.2.1)]; exact c3.subjO)
          (by rw [set_get_other _ (Ne.symm hne.2.2.1)]; exact c3.cM) (set_get_same _ c3.mM)
      simp only [amapLen_encMap, List.length_nil, beq_self_eq_true, ↓reduceIte]
      have hC4 := c4.oC
      simp only [bLive, ↓reduceIte, optHook] at hC4
      refine wp_ev_code (ev := .complete) hC4 rfl rfl rfl ?_
      simp only [Ev.isTerminal, ↓reduceIte, codeBody]
      have c5 : ChainAt k i b5 _ := c4.setC hi Obs.cleared false true (by
        intro x hx; rw [hC4] at hx; cases hx; simp [Obs.cleared, concatObs, deadObs, optHook])
      have s5 : Same w
          ({ w with cells := ((w.cells.set (sjOf i).observers .lnil).set (mst k i) .unit).set (mmap k i) (encMap []), obs := (w.obs.modify (Mo k i) Obs.cleared).modify (Co k i) Obs.cleared } : World)
          (allCells k i) (chainObs k i (σ.ch i)) := by
        refine ⟨fun c hc => ?_, fun o ho => ?_, rfl, rfl, rfl, rfl, rfl, by simp⟩
        · show (((w.cells.set _ _).set _ _).set _ _)[c]? = _
          rw [set_get_other _ (fun q => hc (by simp [allCells, ← q])),
            set_get_other _ (fun q => hc (by simp [allCells, ← q])),
            set_get_other _ (fun q => hc (by simp [allCells, sjOf, ← q]))]
        · show ((w.obs.modify _ _).modify _ _)[o]? = _
          rw [modify_get_other _ _ (fun q => ho (by simp [chainObs, lowObs, ← q]))]
          exact modify_get_other _ _ (fun q => ho (by simp [chainObs, lowObs, ← q]))
      have g5 : GRel k { σ with ch := upd σ.ch i b5 } [] _ := h.chain_step' hi c5 s5 (by rw [hl]; rfl)
      have hr5 : Ready k ({ σ with ch := upd σ.ch i b5 }) :=
        ⟨⟨hr.top.alive, hr.top.oL, hr.top.oH, hr.top.oR, hr.top.nd⟩, hr.ne, hr.len, hr.kpos⟩
      refine (cDone_spec g5 hr5 hi (upd_same _ _ _) hreg).conseq fun w6 h6 => ?_
      -- back in map_i: `finalize`
      have hlen : ({ w with cells := ((w.cells.set (sjOf i).observers .lnil).set (mst k i) .unit).set (mmap k i) (encMap []), obs := (w.obs.modify (Mo k i) Obs.cleared).modify (Co k i) Obs.cleared } : World).obs.length = w.obs.length := by
        simp
      rw [hlen] at h6
      refine (finMap_spec (h6.chains i hi) hi (afterEnd_cL _ i _)
        (by intro p hp; rw [h6.held] at hp; cases hp)).conseq fun w7 ⟨c7, s7⟩ => ?_
      have g7 := h6.chain_step hi c7
        (s7.mono (by intro c hc; simp only [chainCells, List.mem_cons, List.not_mem_nil, or_false] at hc ⊢
                     rcases hc with q | q <;> simp [q])
          (fun o ho => by simp only [List.mem_singleton] at ho; simp [chainObs, lowObs, ho]))
        (by rw [tFM_jx])
      exact WP.done (WP.done (WP.done (WP.done g7)))

end Rx.SeqRef
