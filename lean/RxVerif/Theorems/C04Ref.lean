import RxVerif.Theorems.C04RefLoop
import RxVerif.Theorems.Sim
import RxVerif.Theorems.C04r
/-
C04-REF, part 4: `oRetry max (oFlaky ..)` and `oRetryWhen p (oFlaky ..)` of model A (Machine/Lib.lean l.287-309,
transliteration of src/operators/retry.rs l.22-62 and retry_when.rs l.30-68) REFINE the pure mirror
`retryRun` / `retryWhenRun` of Kernel/Retry.lean: same subscriber log, same number of subscriptions
(read off the flaky source's counter cell), nobody else disturbed.  The C04r theorems are then transported
to model A.
-/
namespace Rx.RetryRef
open Rx.Sim Rx.Ref

theorem getLastD_map_ofScript (scripts : List (List Ev)) :
    (scripts.map Stream.ofScript).getLastD ([], .silent) = Stream.ofScript (scripts.getLast?.getD []) := by
  induction scripts with
  | nil => rfl
  | cons a l ih =>
    cases l with
    | nil => rfl
    | cons b l => simpa [List.getLastD, List.getLast?] using ih

theorem attemptAt_map (scripts : List (List Ev)) (i : Nat) :
    attemptAt (scripts.map Stream.ofScript) i = Stream.ofScript (scripts.getD i (scripts.getLast?.getD [])) := by
  unfold attemptAt
  rw [getLastD_map_ofScript]
  simp only [List.getD, List.getElem?_map]
  cases scripts[i]? <;> rfl

def resubP (sc : Sctl) (src : Obsv) (again : Nat → Nat → Bool) : Nat → Nat → Prog
  | 0, _ => .done
  | fuel+1, n =>
    sc.newObserver (fun _ x => sc.sinkNext x)
      (fun serial e =>
        if again n e then sc.abortObserve serial ;; resubP sc src again fuel (n + 1) else sc.sinkError e)
      (fun serial => sc.sinkComplete serial) fun o => src.sub o

theorem retrySubscribe_eq (sc : Sctl) (src : Obsv) (max : Nat) :
    ∀ fuel n, retrySubscribe sc src max fuel n = resubP sc src (retryAgain max) fuel n
  | 0, _ => rfl
  | fuel+1, n => by
    simp only [retrySubscribe, resubP, retrySubscribe_eq sc src max fuel (n + 1)]
    rfl

theorem retryWhenSubscribe_eq (sc : Sctl) (src : Obsv) (p : EPred) :
    ∀ fuel n, retryWhenSubscribe sc src p fuel = resubP sc src (retryWhenAgain p.app) fuel n
  | 0, _ => rfl
  | fuel+1, n => by
    simp only [retryWhenSubscribe, resubP, retryWhenSubscribe_eq sc src p fuel (n + 1)]
    rfl
/-- configuration of one subscription through `retry` / `retry_when` over a flaky source -/
def resubG (R sU cs cm fin cnt : Nat) (base : Nat → List Ev) (src : Obsv) (again : Nat → Nat → Bool)
    (F0 : Nat) : G :=
  let sc : Sctl := ⟨R, cs, cm, fin⟩
  { R := R, sU := sU, cs := cs, cm := cm, fin := fin, cnt := cnt, base := base
    hn := fun _ x => sc.sinkNext x
    he := fun i e =>
      if again (i + 1) e then sc.abortObserve i ;; resubP sc src again (F0 - 1 - i) (i + 2) else sc.sinkError e
    hc := fun i => sc.sinkComplete i
    cvf := fun k => some (.int k) }

/-- one subscription to the flaky source: bump the counter cell, then play the script it selects -/
theorem flaky_sub {g : G} (ok : g.Ok) {c : Ctl} {lv : Nat → Bool} {w : World} (h : Rel g c lv w)
    (hcv : g.cvf = fun k => some (.int k)) (tag : Nat) (scripts : List (List Ev)) {s : Nat}
    (hs : s < c.serial) (hl : lv s = true) {Q : World → Prop}
    (hk : ∀ w', Rel g { c with subs := c.subs + 1 } lv w' →
      WP (scriptLoop tag true (g.up s) (scripts.getD c.subs (scripts.getLast?.getD []))) w' Q) :
    WP ((oFlaky tag g.cnt scripts).sub (g.up s)) w Q := by
  have hr := h.rep
  rw [hcv] at hr
  simp only [Obsv.sub, oFlaky]
  apply rep_isSubU hr hs
  rw [hl]
  simp only [↓reduceIte]
  apply rep_readCnt hr
  apply rep_writeCnt ok hr
  intro w1 h1
  apply rep_probe h1
  intro w2 h2
  simp only [toNat_int]
  apply hk
  refine ⟨?_, h.dead, h.regLt, h.canLt⟩
  rw [hcv]
  exact h2

/-- the error closure of `do_subscribe` as `Kernel/Retry.lean` mirrors it -/
def errK (again : Nat → Nat → Bool) (attempts : List Stream) (k n s : Nat) : Nat → Ctl → Ctl :=
  fun e c2 => if again n e then resubGo again attempts k (n + 1) (c2.abortObserve s) else c2.sinkError e

theorem resubGo_succ (again : Nat → Nat → Bool) (attempts : List Stream) (k n : Nat) (c : Ctl) :
    resubGo again attempts (k + 1) n c
      = playK (errK again attempts k n c.serial)
          { c.newObserver.2 with subs := c.newObserver.2.subs + 1 } c.serial (attemptAt attempts (n - 1)) := by
  simp only [resubGo, playK, errK, Ctl.newObserver]
  split <;> rename_i h <;> simp only [h]

theorem resub_spec {g : G} (ok : g.Ok) (hcv : g.cvf = fun k => some (.int k)) (tag : Nat)
    (scripts : List (List Ev)) (again : Nat → Nat → Bool) (F0 : Nat)
    (hn : ∀ i, g.hn i = fun x => g.sc.sinkNext x) (hc : ∀ i, g.hc i = g.sc.sinkComplete i)
    (he : ∀ i, g.he i = fun e =>
      if again (i + 1) e then
        g.sc.abortObserve i ;; resubP g.sc (oFlaky tag g.cnt scripts) again (F0 - 1 - i) (i + 2)
      else g.sc.sinkError e) :
    ∀ (fuel : Nat) (c : Ctl) (lv : Nat → Bool) (w : World), Rel g c lv w → c.alive = true →
      c.serial + fuel = F0 → c.subs = c.serial →
      WP (resubP g.sc (oFlaky tag g.cnt scripts) again fuel (c.serial + 1)) w
        (Post g c lv (resubGo again (scripts.map Stream.ofScript) fuel (c.serial + 1) c))
  | 0, c, lv, w, h, _, _, _ => WP.done ⟨lv, h, Mono.refl _ _, Nat.le_refl _⟩
  | k+1, c, lv, w, h, ha, hf, hsub => by
    have hk : F0 - 1 - c.serial = k := by omega
    simp only [resubP]
    apply newObserver_spec ok h ha (by rw [hn]) (by rw [he, hk]) (by rw [hc])
    intro w1 h1
    apply flaky_sub ok h1 hcv tag scripts (s := c.serial) (by simp [Ctl.newObserver]) (by simp)
    intro w2 h2
    rw [resubGo_succ, attemptAt_map, Nat.add_sub_cancel]
    have e0 : c.newObserver.2.subs = c.serial := hsub
    rw [e0] at h2 ⊢
    refine (script_spec ok tag c.serial (errK again (scripts.map Stream.ofScript) k (c.serial + 1) c.serial)
      (hn _) (hc _) (scripts.getD c.serial (scripts.getLast?.getD []))
      { c.newObserver.2 with subs := c.serial + 1 } (fun j => j == c.serial || lv j) w2 h2 ha (by simp)
      (by simp [Ctl.newObserver]) ?_).conseq ?_
    · intro e o' lv2 w3 h3 _ hl2
      rw [he]
      simp only [errK]
      by_cases hag : again (c.serial + 1) e = true
      · simp only [hag, ↓reduceIte]
        apply WP.seq
        have hmem : c.serial ∈ c.serial :: c.registered := by simp
        apply (abortObserve_spec ok h3 c.serial hmem).conseq
        intro w4 h4
        simp only [Ctl.abortObserve, Ctl.newObserver, hmem, ↓reduceIte] at h4 ⊢
        rw [hk]
        apply (resub_spec ok hcv tag scripts again F0 hn hc he k _ _ w4 h4 ha
          (by show c.serial + 1 + k = F0; omega) rfl).conseq
        rintro w5 ⟨lv5, h5, hm5, hle5⟩
        refine ⟨lv5, h5, fun j hj hjl => hm5 j hj (by simp [hjl]), hle5⟩
      · simp only [hag, Bool.false_eq_true, ↓reduceIte]
        apply (sinkError_spec ok h3 ha e).conseq
        intro w4 h4
        refine ⟨_, h4, fun j _ hjl => by simp [hjl], ?_⟩
        simp only [Ctl.sinkError, Ctl.finalize]
        split <;> exact Nat.le_refl _
    · rintro w3 ⟨lv3, h3, hm3, hle3⟩
      refine ⟨lv3, h3, fun j hj hjl => hm3 j (by show j < c.serial + 1; omega) ?_, ?_⟩
      · have : (j == c.serial) = false := by simp; omega
        simp [this, hjl]
      · have : c.serial + 1 ≤ _ := hle3
        omega

/-! ### the initial world of a subscription -/

theorem rel_init (g : G) (w1 : World) (hst : w1.status = .ok) (hh : w1.held = [])
    (hR : w1.obs[g.R]? = some (xR g true true)) (hlen : w1.obs.length = g.R + 1)
    (hs : w1.cells[g.cs]? = some (.int 0)) (hm : w1.cells[g.cm]? = some .lnil)
    (hc : w1.cells[g.cnt]? = g.cvf 0) (hsl : w1.slots[g.fin]? = some none)
    (hu : ∃ u, w1.users[g.sU]? = some u ∧ u.react = noReact) (hl : logOf w1 g.sU = [])
    (ho : ∀ s', s' ≠ g.sU → logOf w1 s' = g.base s') : Rel g {} (fun _ => false) w1 :=
  ⟨{ status := hst, held := hh, obsR := ⟨true, hR⟩, obsLen := hlen
     obsU := fun i hi => absurd hi (Nat.not_lt_zero i)
     serial := hs, map := hm, cnt := hc, slot := hsl, user := hu, log := hl, others := ho },
   fun i hi => (by cases hi), fun i hi => (by cases hi), fun i hi => (by cases hi)⟩

/-- the test: a fresh counter cell, the operator over the flaky source, one passive subscriber -/
def subscribeFlaky (op : Obsv → Obsv) (tag : Nat) (scripts : List (List Ev)) : Prog :=
  .cellNew (.int 0) fun cnt => .obsvNew (op (oFlaky tag cnt scripts)) fun id => .userSub id noReact .done

/-- what the finished run looks like, in terms of the mirror's final controller `c` -/
def Outcome (w : World) (c : Ctl) (w' : World) : Prop :=
  w'.status = .ok ∧ logOf w' w.users.length = c.out ∧ w'.cells[w.cells.length]? = some (.int c.subs) ∧
  (∀ s', s' ≠ w.users.length → logOf w' s' = logOf w s') ∧ w'.held = []

theorem resub_wp (again : Nat → Nat → Bool) (op : Obsv → Obsv)
    (hop : ∀ src s, op src s = sctlNew s fun sc => resubP sc src again 100000 1)
    (tag : Nat) (scripts : List (List Ev)) (w : World) (hw : Ready w) :
    WP (subscribeFlaky op tag scripts) w
      (Outcome w (resubGo again (scripts.map Stream.ofScript) 100000 1 {})) := by
  let g : G := resubG w.obs.length w.users.length (w.cells.length + 1) (w.cells.length + 2) w.slots.length
    w.cells.length (logOf w) (oFlaky tag w.cells.length scripts) again 100000
  have ok : g.Ok := ⟨by show w.cells.length + 1 ≠ w.cells.length + 2; omega,
    by show w.cells.length ≠ w.cells.length + 1; omega, by show w.cells.length ≠ w.cells.length + 2; omega⟩
  unfold subscribeFlaky
  apply wp_cellNew
  apply wp_obsvNew
  refine wp_userSub (f := op (oFlaky tag w.cells.length scripts)) (by simp) ?_
  rw [hop]
  unfold sctlNew
  apply wp_cellNew
  apply wp_cellNew
  apply wp_slotNew
  refine wp_obsSetOnUnsub (by exact hw.held) ?_
  simp only [List.length_append, List.length_cons, List.length_nil, Nat.zero_add]
  refine (resub_spec (g := g) ok rfl tag scripts again 100000 (fun _ => rfl) (fun _ => rfl) (fun _ => rfl)
    100000 {} (fun _ => false) _ ?_ rfl rfl rfl).conseq ?_
  · apply rel_init g
    · exact hw.status
    · exact hw.held
    · show (World.setObs _ _ _).obs[w.obs.length]? = _
      rw [getElem?_setObs_same (x := ⟨some (.user w.users.length), some (.user w.users.length),
        some (.user w.users.length), none⟩) _ (by simp)]
      rfl
    · simp [World.setObs]; rfl
    · show (w.cells ++ [Data.int 0] ++ [Data.int 0] ++ [Data.lnil])[w.cells.length + 1]? = _
      simp
    · show (w.cells ++ [Data.int 0] ++ [Data.int 0] ++ [Data.lnil])[w.cells.length + 2]? = _
      simp
    · show (w.cells ++ [Data.int 0] ++ [Data.int 0] ++ [Data.lnil])[w.cells.length]? = _
      simp; rfl
    · show (w.slots ++ [none])[w.slots.length]? = _
      simp
    · refine ⟨⟨w.obs.length, noReact, false, true⟩, ?_, rfl⟩
      show (w.users ++ [_])[w.users.length]? = _
      simp
    · exact hw.inv.quiet _ (Nat.le_refl _)
    · intro s' _; rfl
  · rintro w2 ⟨lv2, h2, _, _⟩
    apply wp_userReady
    apply WP.done
    exact ⟨h2.rep.status, h2.rep.log, h2.rep.cnt, h2.rep.others, h2.rep.held⟩

theorem resub_refines (again : Nat → Nat → Bool) (op : Obsv → Obsv)
    (hop : ∀ src s, op src s = sctlNew s fun sc => resubP sc src again 100000 1)
    (tag : Nat) (scripts : List (List Ev)) (w : World) (hw : Ready w) :
    ∃ N, ∀ fuel, N ≤ fuel → Outcome w (resubGo again (scripts.map Stream.ofScript) 100000 1 {})
      (run fuel [subscribeFlaky op tag scripts] w) := by
  obtain ⟨n0, w', hQ, hr⟩ := WP.run_top (resub_wp again op hop tag scripts w hw)
  exact ⟨n0, fun fuel hf => by rw [hr fuel hf]; exact hQ⟩

theorem oRetry_eq (max : Nat) (src : Obsv) (s : Nat) :
    oRetry max src s = sctlNew s fun sc => resubP sc src (retryAgain max) 100000 1 := by
  simp only [oRetry, retrySubscribe_eq]

theorem oRetryWhen_eq (p : EPred) (src : Obsv) (s : Nat) :
    oRetryWhen p src s = sctlNew s fun sc => resubP sc src (retryWhenAgain p.app) 100000 1 := by
  simp only [oRetryWhen, retryWhenSubscribe_eq _ _ _ _ 1]

/-- **REFINEMENT, retry.**  From any Ready world, for every `max` and every list of attempt scripts: subscribing a
passive test subscriber to `oRetry max (oFlaky tag counter scripts)` (fresh counter cell) terminates for all
sufficient interpreter fuel in a world with status ok whose log of the new subscriber is the mirror's output,
whose counter cell holds the mirror's number of subscriptions; other subscribers' logs are unchanged and no
guard is left held.  The mirror's fuel is 100000 = the unrolling depth of `do_subscribe` in model A, so the
statement is unconditional (also for `retry(0)` over always-failing scripts: both sides stop after 100000
subscriptions). -/
theorem retry_refines (max tag : Nat) (scripts : List (List Ev)) (w : World) (hw : Ready w) :
    ∃ N, ∀ fuel, N ≤ fuel →
      let w' := run fuel [subscribeFlaky (oRetry max) tag scripts] w
      let r := retryRun max (scripts.map Stream.ofScript) 100000
      w'.status = .ok ∧ logOf w' w.users.length = r.1 ∧
      w'.cells[w.cells.length]? = some (.int r.2) ∧
      (∀ s', s' ≠ w.users.length → logOf w' s' = logOf w s') ∧ w'.held = [] :=
  resub_refines (retryAgain max) (oRetry max) (oRetry_eq max) tag scripts w hw

/-- **REFINEMENT, retry_when.** -/
theorem retryWhen_refines (p : EPred) (tag : Nat) (scripts : List (List Ev)) (w : World) (hw : Ready w) :
    ∃ N, ∀ fuel, N ≤ fuel →
      let w' := run fuel [subscribeFlaky (oRetryWhen p) tag scripts] w
      let r := retryWhenRun p.app (scripts.map Stream.ofScript) 100000
      w'.status = .ok ∧ logOf w' w.users.length = r.1 ∧
      w'.cells[w.cells.length]? = some (.int r.2) ∧
      (∀ s', s' ≠ w.users.length → logOf w' s' = logOf w s') ∧ w'.held = [] :=
  resub_refines (retryWhenAgain p.app) (oRetryWhen p) (oRetryWhen_eq p) tag scripts w hw

theorem ready_empty : Ready ({} : World) :=
  ⟨rfl, rfl, ⟨fun _ => trivial, fun o x s h => by simp at h, fun o x s h => by simp at h, fun _ _ => rfl,
    fun o x h => by simp at h, fun s o x h => by simp [roots] at h, fun s o h => by simp [roots] at h⟩⟩

end Rx.RetryRef

-- non-vacuity examples (concrete runs, `decide`) are in C04RefCor.lean
#print axioms Rx.RetryRef.resub_spec
#print axioms Rx.RetryRef.retry_refines
#print axioms Rx.RetryRef.retryWhen_refines
