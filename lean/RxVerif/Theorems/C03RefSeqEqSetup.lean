import RxVerif.Theorems.C03RefSeqEqMain
/-
C03-REF, sequence_equal, part 15: the set-up phase.  A generic "stage": `StreamController::new` for subscriber `s`, one
cell of operator state, one `new_observer` — stated as a relation between the worlds before and after.
-/
namespace Rx.SeqRef
open Rx.Sim Rx.Ref Rx.Comb Rx.CRef

/-- the net effect of a stage on the world -/
structure StagePost (w w' : World) (s : Nat) (fin : Prog) (d : Data) (newObs : Obs) : Prop where
  cellsLen : w'.cells.length = w.cells.length + 3
  cellsOld : ∀ n, n < w.cells.length → w'.cells[n]? = w.cells[n]?
  cSer : w'.cells[w.cells.length]? = some (.int ((1 : Nat) : Int))
  cMap : w'.cells[w.cells.length + 1]? = some (encMap [(0, w.obs.length)])
  cExt : w'.cells[w.cells.length + 2]? = some d
  slotsLen : w'.slots.length = w.slots.length + 1
  slotsOld : ∀ n, n < w.slots.length → w'.slots[n]? = w.slots[n]?
  slotNew : w'.slots[w.slots.length]? = some none
  obsLen : w'.obs.length = w.obs.length + 1
  obsOld : ∀ n, n < w.obs.length → n ≠ s → w'.obs[n]? = w.obs[n]?
  obsS : ∀ x, w.obs[s]? = some x → w'.obs[s]? = some { x with onUnsub := some fin }
  obsNew : w'.obs[w.obs.length]? = some newObs
  users : w'.users = w.users
  held : w'.held = w.held
  status : w'.status = w.status
  trace : w'.trace = w.trace

theorem app_old {α} (l m : List α) {n : Nat} (h : n < l.length) : (l ++ m)[n]? = l[n]? :=
  List.getElem?_append_left h

theorem wp_stage1 {w : World} {Q : World → Prop} (s : Nat) (d : Data) (n : Sctl → Nat → Nat → Data → Prog)
    (e : Sctl → Nat → Nat → Nat → Prog) (cc : Sctl → Nat → Nat → Prog) (K : Sctl → Nat → Nat → Prog) {x : Obs}
    (hh : w.held = []) (hx : w.obs[s]? = some x) (hsub : x.isSub = true)
    (hk : ∀ w', StagePost w w' s (Sctl.finalize ⟨s, w.cells.length, w.cells.length + 1, w.slots.length⟩) d
        ⟨some (.code (n ⟨s, w.cells.length, w.cells.length + 1, w.slots.length⟩ (w.cells.length + 2) 0)),
         some (.code (e ⟨s, w.cells.length, w.cells.length + 1, w.slots.length⟩ (w.cells.length + 2) 0)),
         some (.code (cc ⟨s, w.cells.length, w.cells.length + 1, w.slots.length⟩ (w.cells.length + 2) 0)), none⟩ →
      WP (K ⟨s, w.cells.length, w.cells.length + 1, w.slots.length⟩ (w.cells.length + 2) w.obs.length) w' Q) :
    WP (sctlNew s fun sc => .cellNew d fun c => sc.newObserver (n sc c) (e sc c) (cc sc c) fun o => K sc c o) w Q := by
  have hs : s < w.obs.length := getElem?_lt hx
  simp only [sctlNew]
  refine wp_cellNew (wp_cellNew (wp_slotNew (wp_obsSetOnUnsub hh (wp_cellNew ?_))))
  simp only [World.setObs, List.length_append, List.length_cons, List.length_nil, Sctl.newObserver]
  have hL : ∀ (a b c : Data), ((w.cells ++ [a] ++ [b]) ++ [c])[w.cells.length]? = some a := by
    intro a b c; simp
  have hL1 : ∀ (a b c : Data), ((w.cells ++ [a] ++ [b]) ++ [c])[w.cells.length + 1]? = some b := by
    intro a b c; simp
  have hL2 : ∀ (a b c : Data), ((w.cells ++ [a] ++ [b]) ++ [c])[w.cells.length + 2]? = some c := by
    intro a b c; simp
  refine wp_cellRead_val hh (hL _ _ _) ?_
  have e0 : (Data.int 0).toInt.toNat = 0 := rfl
  simp only [e0, Nat.zero_add]
  refine wp_cellWrite hh (wp_obsNew (wp_cellRead_val (v := .lnil) hh
    (by show (List.set _ _ _)[_]? = _; rw [set_get_other _ (by omega)]; exact hL1 _ _ _) ?_))
  rw [show Data.lnil = encMap [] from rfl, amapInsert_encMap _ _ _ (by intro p hp; cases hp)]
  refine wp_cellWrite hh ?_
  simp only [List.nil_append, List.length_modify]
  refine wp_obsIsSub (x := { x with onUnsub := some _ }) (by
    show ((w.obs.modify s _) ++ _)[s]? = _
    rw [app_old _ _ (by rw [List.length_modify]; exact hs), modify_get_same _ _ hx]) ?_
  have : ({ x with onUnsub := some (Sctl.finalize ⟨s, w.cells.length, w.cells.length + 1, w.slots.length⟩) } : Obs).isSub
      = true := hsub
  rw [this]
  simp only [↓reduceIte]
  refine hk _ ?_
  have hLen : (w.cells ++ [Data.int 0] ++ [Data.lnil] ++ [d]).length = w.cells.length + 3 := by simp
  exact
  { cellsLen := by show (List.set (List.set _ _ _) _ _).length = _; simp
    cellsOld := by
      intro m hm
      show (List.set (List.set _ _ _) _ _)[m]? = _
      rw [set_get_other _ (by omega), set_get_other _ (by omega), app_old _ _ (by simp; omega),
        app_old _ _ (by simp; omega), app_old _ _ hm]
    cSer := by
      show (List.set (List.set _ _ _) _ _)[_]? = _
      rw [set_get_other _ (by omega), set_get_same _ (hL _ _ _)]; rfl
    cMap := by
      show (List.set (List.set _ _ _) _ _)[_]? = _
      rw [set_get_same _ (by rw [set_get_other _ (by omega)]; exact hL1 _ _ _)]
    cExt := by
      show (List.set (List.set _ _ _) _ _)[_]? = _
      rw [set_get_other _ (by omega), set_get_other _ (by omega)]; exact hL2 _ _ _
    slotsLen := by show (w.slots ++ [none]).length = _; simp
    slotsOld := by intro m hm; show (w.slots ++ [none])[m]? = _; exact app_old _ _ hm
    slotNew := by show (w.slots ++ [none])[w.slots.length]? = _; simp
    obsLen := by show ((w.obs.modify s _) ++ [_]).length = _; simp
    obsOld := by
      intro m hm hne
      show ((w.obs.modify s _) ++ [_])[m]? = _
      rw [app_old _ _ (by rw [List.length_modify]; exact hm), modify_get_other _ _ (Ne.symm hne)]
    obsS := by
      intro y hy
      show ((w.obs.modify s _) ++ [_])[s]? = _
      rw [app_old _ _ (by rw [List.length_modify]; exact hs), modify_get_same _ _ hy]
    obsNew := by
      show ((w.obs.modify s _) ++ [_])[w.obs.length]? = _
      rw [List.getElem?_append_right (by simp)]; simp
    users := rfl, held := rfl, status := rfl, trace := rfl }

/-- the net effect of a stage without a cell of operator state (`fwdOp`) -/
structure StagePost0 (w w' : World) (s : Nat) (fin : Prog) (newObs : Obs) : Prop where
  cellsLen : w'.cells.length = w.cells.length + 2
  cellsOld : ∀ n, n < w.cells.length → w'.cells[n]? = w.cells[n]?
  cSer : w'.cells[w.cells.length]? = some (.int ((1 : Nat) : Int))
  cMap : w'.cells[w.cells.length + 1]? = some (encMap [(0, w.obs.length)])
  slotsLen : w'.slots.length = w.slots.length + 1
  slotsOld : ∀ n, n < w.slots.length → w'.slots[n]? = w.slots[n]?
  slotNew : w'.slots[w.slots.length]? = some none
  obsLen : w'.obs.length = w.obs.length + 1
  obsOld : ∀ n, n < w.obs.length → n ≠ s → w'.obs[n]? = w.obs[n]?
  obsS : ∀ x, w.obs[s]? = some x → w'.obs[s]? = some { x with onUnsub := some fin }
  obsNew : w'.obs[w.obs.length]? = some newObs
  users : w'.users = w.users
  held : w'.held = w.held
  status : w'.status = w.status
  trace : w'.trace = w.trace

theorem wp_stage0 {w : World} {Q : World → Prop} (s : Nat) (n : Sctl → Nat → Data → Prog)
    (e : Sctl → Nat → Nat → Prog) (cc : Sctl → Nat → Prog) (K : Sctl → Nat → Prog) {x : Obs}
    (hh : w.held = []) (hx : w.obs[s]? = some x) (hsub : x.isSub = true)
    (hk : ∀ w', StagePost0 w w' s (Sctl.finalize ⟨s, w.cells.length, w.cells.length + 1, w.slots.length⟩)
        ⟨some (.code (n ⟨s, w.cells.length, w.cells.length + 1, w.slots.length⟩ 0)),
         some (.code (e ⟨s, w.cells.length, w.cells.length + 1, w.slots.length⟩ 0)),
         some (.code (cc ⟨s, w.cells.length, w.cells.length + 1, w.slots.length⟩ 0)), none⟩ →
      WP (K ⟨s, w.cells.length, w.cells.length + 1, w.slots.length⟩ w.obs.length) w' Q) :
    WP (sctlNew s fun sc => sc.newObserver (n sc) (e sc) (cc sc) fun o => K sc o) w Q := by
  have hs : s < w.obs.length := getElem?_lt hx
  simp only [sctlNew]
  refine wp_cellNew (wp_cellNew (wp_slotNew (wp_obsSetOnUnsub hh ?_)))
  simp only [World.setObs, List.length_append, List.length_cons, List.length_nil, Sctl.newObserver]
  have hL : ∀ (a b : Data), (w.cells ++ [a] ++ [b])[w.cells.length]? = some a := by intro a b; simp
  have hL1 : ∀ (a b : Data), (w.cells ++ [a] ++ [b])[w.cells.length + 1]? = some b := by intro a b; simp
  refine wp_cellRead_val hh (hL _ _) ?_
  have e0 : (Data.int 0).toInt.toNat = 0 := rfl
  simp only [e0, Nat.zero_add]
  refine wp_cellWrite hh (wp_obsNew (wp_cellRead_val (v := .lnil) hh
    (by show (List.set _ _ _)[_]? = _; rw [set_get_other _ (by omega)]; exact hL1 _ _) ?_))
  rw [show Data.lnil = encMap [] from rfl, amapInsert_encMap _ _ _ (by intro p hp; cases hp)]
  refine wp_cellWrite hh ?_
  simp only [List.nil_append, List.length_modify]
  refine wp_obsIsSub (x := { x with onUnsub := some _ }) (by
    show ((w.obs.modify s _) ++ _)[s]? = _
    rw [app_old _ _ (by rw [List.length_modify]; exact hs), modify_get_same _ _ hx]) ?_
  have : ({ x with onUnsub := some (Sctl.finalize ⟨s, w.cells.length, w.cells.length + 1, w.slots.length⟩) } : Obs).isSub
      = true := hsub
  rw [this]
  simp only [↓reduceIte]
  refine hk _ ?_
  exact
  { cellsLen := by show (List.set (List.set _ _ _) _ _).length = _; simp
    cellsOld := by
      intro m hm
      show (List.set (List.set _ _ _) _ _)[m]? = _
      rw [set_get_other _ (by omega), set_get_other _ (by omega), app_old _ _ (by simp; omega), app_old _ _ hm]
    cSer := by
      show (List.set (List.set _ _ _) _ _)[_]? = _
      rw [set_get_other _ (by omega), set_get_same _ (hL _ _)]; rfl
    cMap := by
      show (List.set (List.set _ _ _) _ _)[_]? = _
      rw [set_get_same _ (by rw [set_get_other _ (by omega)]; exact hL1 _ _)]
    slotsLen := by show (w.slots ++ [none]).length = _; simp
    slotsOld := by intro m hm; show (w.slots ++ [none])[m]? = _; exact app_old _ _ hm
    slotNew := by show (w.slots ++ [none])[w.slots.length]? = _; simp
    obsLen := by show ((w.obs.modify s _) ++ [_]).length = _; simp
    obsOld := by
      intro m hm hne
      show ((w.obs.modify s _) ++ [_])[m]? = _
      rw [app_old _ _ (by rw [List.length_modify]; exact hm), modify_get_other _ _ (Ne.symm hne)]
    obsS := by
      intro y hy
      show ((w.obs.modify s _) ++ [_])[s]? = _
      rw [app_old _ _ (by rw [List.length_modify]; exact hs), modify_get_same _ _ hy]
    obsNew := by
      show ((w.obs.modify s _) ++ [_])[w.obs.length]? = _
      rw [List.getElem?_append_right (by simp)]; simp
    users := rfl, held := rfl, status := rfl, trace := rfl }

end Rx.SeqRef
