import RxVerif.Theorems.C13RefPublish
/-
C13-REF, publish: call sequences, the whole program, the end-to-end theorem and C13's statements on model A.
-/
namespace Rx.CRef
open Rx.Sim Rx.SubjM Rx.Ref Rx.RefR

/-- RESTRICTION (as `Ref.wfFrom`): the `subscribe` calls name the ids `n, n+1, …` in call order -/
def wfC (n : Nat) : List ConnM.Call → Bool
  | [] => true
  | .subscribe o :: cs => o == n && wfC (n + 1) cs
  | _ :: cs => wfC n cs

def isSubC : ConnM.Call → Bool
  | .subscribe _ => true
  | _ => false

def subsC (cs : List ConnM.Call) : Nat := (cs.filter isSubC).length

theorem wfC_cons (n : Nat) (c : ConnM.Call) (cs : List ConnM.Call) :
    wfC n (c :: cs) = (wfC n [c] && wfC (n + subsC [c]) cs) := by
  cases c <;> simp [wfC, subsC, isSubC, List.filter]

theorem subsC_cons (c : ConnM.Call) (cs : List ConnM.Call) : subsC (c :: cs) = subsC [c] + subsC cs := by
  cases c <;> simp [subsC, isSubC, List.filter] <;> omega

/-- the calls of a `publish` case over a hot subject, as the case runner builds them (Machine/Case.lean `stepProg`) -/
def callPG (H : Subj) (hid : Nat) (S : Subj) (sid cn : Nat) : ConnM.Call → Prog
  | .subscribe _ => .userSub sid noReact .done
  | .unsubscribe o => .userUnsub o .done
  | .connect => connectProgG hid S cn
  | .disconnect => disconnectProgG cn
  | .srcNext v => H.next v
  | .srcError e => H.error e
  | .srcComplete => H.complete

/-- `(subject a plain) (conn x publish (ref a))` then the calls -/
def progP (cs : List ConnM.Call) : Prog :=
  subjNew fun H => .obsvNew H.observable fun hid => subjNew fun S => .obsvNew S.observable fun sid =>
  .cellNew .lnil fun cn => forEach cs (callPG H hid S sid cn)

theorem callP_spec {roots cobs armed w st} (h : RelP roots cobs armed w st) (c : ConnM.Call)
    (hc : wfC roots.length [c] = true) :
    WP (callPG Hp 0 Sp 1 4 c) w (fun w' => ∃ roots' cobs' armed',
      roots'.length = roots.length + subsC [c] ∧ RelP roots' cobs' armed' w' (ConnM.step .publish .hot st c)) := by
  cases c with
  | subscribe o =>
    have : o = roots.length := by simpa [wfC] using hc
    subst this
    exact (subscribeP_spec h).conseq fun w' h' => ⟨_, _, _, by simp [subsC, isSubC, List.filter], h'⟩
  | unsubscribe o => exact (unsubscribeP_spec h o).conseq fun w' h' => ⟨_, _, _, rfl, h'⟩
  | connect => exact (connectP_spec h).conseq fun w' h' => ⟨_, _, _, rfl, h'⟩
  | disconnect => exact (disconnectP_spec h).conseq fun w' h' => ⟨_, _, _, rfl, h'⟩
  | srcNext v => exact (srcP_spec h (.next v)).conseq fun w' h' => ⟨_, _, _, rfl, h'⟩
  | srcError e => exact (srcP_spec h (.error e)).conseq fun w' h' => ⟨_, _, _, rfl, h'⟩
  | srcComplete => exact (srcP_spec h .complete).conseq fun w' h' => ⟨_, _, _, rfl, h'⟩

theorem callsP_spec (cs : List ConnM.Call) : ∀ (roots cobs : List Nat) (armed : List Bool) (w : World)
    (st : ConnM.State), RelP roots cobs armed w st → wfC roots.length cs = true →
    WP (forEach cs (callPG Hp 0 Sp 1 4)) w (fun w' => ∃ roots' cobs' armed',
      roots'.length = roots.length + subsC cs ∧ RelP roots' cobs' armed' w' (ConnM.runFrom .publish .hot st cs)) := by
  induction cs with
  | nil => intro roots cobs armed w st h _; exact WP.done ⟨_, _, _, rfl, h⟩
  | cons c rest ih =>
    intro roots cobs armed w st h hwf
    rw [wfC_cons, Bool.and_eq_true] at hwf
    simp only [forEach]
    apply WP.seq
    refine (callP_spec h c hwf.1).conseq ?_
    rintro w1 ⟨r1, c1, a1, hl1, h1⟩
    refine (ih r1 c1 a1 w1 _ h1 (by rw [hl1]; exact hwf.2)).conseq ?_
    rintro w2 ⟨r2, c2, a2, hl2, h2⟩
    exact ⟨r2, c2, a2, by rw [hl2, hl1, subsC_cons c rest, Nat.add_assoc], h2⟩

/-! ### the whole program, from the empty world -/

/-- the world after the allocations of `progP` -/
def w0P : World :=
  { cells := [.lnil, .int 0, .lnil, .int 0, .lnil], slots := [none, none, none, none],
    obsvs := [Hp.observable, Sp.observable] }

theorem relP_init : RelP [] [] [] w0P ConnM.init := by
  have g : Glob [] [] w0P :=
    ⟨rfl, rfl, (fun _ h => by cases h), (fun _ h => by cases h), (by simp)⟩
  refine ⟨g, SlotReads.nil, ⟨g, ?_, ?_⟩, ?_⟩
  · exact
      { ne := by decide, cellO := rfl, cellS := rfl, nUsers := rfl
        user := fun u hu => by simp at hu
        obs := fun u hu => by simp at hu
        seen := fun u hu => by simp at hu
        unseen := fun _ _ => rfl
        hookIff := fun _ => rfl
        deadNoHook := fun _ _ => rfl
        log := fun _ => rfl
        keys := fun p hp => by cases hp
        regBound := fun p hp => by cases hp }
  · exact ⟨rfl, fun i hi => by
      have : i = 0 ∨ i = 1 ∨ i = 2 ∨ i = 3 := by omega
      rcases this with rfl | rfl | rfl | rfl <;> rfl, rfl, rfl, rfl⟩
  · exact
      { ne := by decide, cellO := rfl, cellS := rfl, lenC := rfl, lenA := rfl, obsv := rfl
        obs := fun i hi => by simp [ConnM.init] at hi
        acell := fun i hi => by simp [ConnM.init] at hi
        liveArmed := fun i hi => by simp [ConnM.init] at hi }

theorem progP_spec (cs : List ConnM.Call) (hwf : wfC 0 cs = true) :
    WP (progP cs) {} (fun w' => ∃ roots cobs armed, RelP roots cobs armed w' (ConnM.run .publish .hot cs)) := by
  unfold progP subjNew
  refine wp_cellNew (wp_cellNew (wp_slotNew (wp_slotNew (wp_obsvNew
    (wp_cellNew (wp_cellNew (wp_slotNew (wp_slotNew (wp_obsvNew (wp_cellNew ?_))))))))))
  refine (callsP_spec cs [] [] [] w0P _ relP_init hwf).conseq ?_
  rintro w' ⟨r, c, a, _, h⟩
  exact ⟨r, c, a, h⟩

def FinalP (cs : List ConnM.Call) (w : World) : Prop := ∃ n0, ∀ fuel, n0 ≤ fuel → run fuel [progP cs] {} = w

theorem FinalP.unique {cs w w'} (h : FinalP cs w) (h' : FinalP cs w') : w = w' := by
  obtain ⟨a, ha⟩ := h
  obtain ⟨b, hb⟩ := h'
  rw [← ha (a + b) (by omega), ← hb (a + b) (by omega)]

/-- `Subject.serial` of the hot source = number of `source.subscribe` calls ever made -/
def srcSubsOf (w : World) : Nat := (w.cells[1]?.getD Data.unit).toInt.toNat
/-- the hot source's observer map is non-empty -/
def srcLiveOf (w : World) : Bool := amapLen (w.cells[0]?.getD .lnil) != 0
/-- size of the connectable's subject map (the harness' `reg=`) -/
def regCountOf (w : World) : Nat := amapLen (w.cells[2]?.getD .lnil)

theorem liveFrom_isEmpty : ∀ (k : Nat) (cs : List Nat) (bs : List Bool), cs.length = bs.length →
    ((liveFrom k cs bs).length != 0) = bs.any id
  | _, [], [], _ => rfl
  | _, [], _ :: _, h => by simp at h
  | _, _ :: _, [], h => by simp at h
  | k, c :: cs, b :: bs, h => by
    have ih := liveFrom_isEmpty (k + 1) cs bs (by simpa using h)
    cases b
    · simpa [liveFrom] using ih
    · simp [liveFrom]

/-- what the differential test (`Driver` mode `connm`, `CombEval.connLine`) compares, and more -/
structure AgreesC (w : World) (st : ConnM.State) : Prop where
  status : w.status = .ok
  held : w.held = []
  logs : ∀ u, logOf w u = ConnM.logOf st u
  srcSubs : srcSubsOf w = ConnM.sourceSubscriptions st
  srcLive : srcLiveOf w = ConnM.sourceLive st
  reg : regCountOf w = (registered st.sub).length
  alive : ∀ u, w.isSubOf u = aliveOf st.sub u

theorem RelP.agrees {roots cobs armed w st} (h : RelP roots cobs armed w st) : AgreesC w st := by
  obtain ⟨g, U, X⟩ := h.ur
  refine ⟨g.status, X.held, U.log, ?_, ?_, ?_, ?_⟩
  · have := h.conns.cellS; simp only [Hp] at this
    simp [srcSubsOf, this, Data.toInt, ConnM.sourceSubscriptions]
  · have := h.conns.cellO; simp only [Hp] at this
    simp only [srcLiveOf, this, Option.getD_some, amapLen_encMap, ConnM.sourceLive]
    exact liveFrom_isEmpty 0 cobs st.conns h.conns.lenC
  · have := U.cellO; simp only [Sp] at this
    simp [regCountOf, this, amapLen_encMap, registered, mapRoots]
  · intro u
    rcases Nat.lt_or_ge u roots.length with hlt | hge
    · obtain ⟨rd, h1, _⟩ := U.user u hlt
      simp only [World.isSubOf, h1, U.obs u hlt, aliveOf]
      cases ha : (st.sub.obs u).alive <;> simp [obsOf, Obs.isSub, ha]
    · have : w.users[u]? = none := by apply List.getElem?_eq_none; rw [U.nUsers]; exact hge
      simp only [World.isSubOf, this, aliveOf]
      exact (View.eq (U.unseen u hge)).2.1.symm

/-- **C13-REF, publish over a hot source.** -/
theorem publish_refines (cs : List ConnM.Call) (hwf : wfC 0 cs = true) :
    ∃ w, FinalP cs w ∧ AgreesC w (ConnM.run .publish .hot cs) := by
  obtain ⟨n0, w, ⟨r, c, a, hrel⟩, hrun⟩ := WP.run_top (progP_spec cs hwf)
  exact ⟨w, ⟨n0, hrun⟩, hrel.agrees⟩

#print axioms publish_refines

end Rx.CRef
