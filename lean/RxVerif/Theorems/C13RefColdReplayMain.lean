import RxVerif.Theorems.C13RefColdReplayCalls
/-
C13-REF, replay over a COLD source: the whole program, the end-to-end theorem.
-/
namespace Rx.CRef
open Rx.Sim Rx.SubjM Rx.Ref Rx.RefR

/-- `(conn x replay (cold 0 ev…))` then the calls (the first Subject is never used) -/
def progRpc (script : List Ev) (cs : List ConnM.Call) : Prog :=
  subjNew fun _ => .obsvNew (coldSrc script) fun hid => subjNew fun S =>
  .cellNew .lnil fun it => .cellNew .lnil fun we => .cellNew (.bool false) fun wc =>
  .cellNew (.bool false) fun c => .cellNew .lnil fun sb => .cellNew (.bool false) fun cn =>
  .obsvNew (RSubj.observable ⟨S, it, we, wc⟩) fun sid =>
  refCountHooks ⟨c, sb, cn⟩ (fun o => .obsvSub hid o .done) S.onSub S.onUnsub
    (fun x => RSubj.next ⟨S, it, we, wc⟩ x) (fun e => RSubj.error ⟨S, it, we, wc⟩ e)
    (RSubj.complete ⟨S, it, we, wc⟩) ;;
  forEach cs (callCcG sid)

theorem callRc_spec {script L cobs cacs armed w st} (h : RelRpc script L cobs cacs armed none none [] w st)
    (c : ConnM.Call) (hc : wfC L.roots.length [c] = true) :
    WP (callCcG 1 c) w (fun w' => ∃ L' cobs' cacs' armed',
      L'.roots.length = L.roots.length + subsC [c] ∧
      RelRpc script L' cobs' cacs' armed' none none [] w' (ConnM.step .replay (.cold script) st c)) := by
  cases c with
  | subscribe o =>
    have : o = L.roots.length := by simpa [wfC] using hc
    subst this
    refine (subscribeRc_spec h).conseq ?_
    rintro w' ⟨L', c', ca', a', hl, h'⟩
    exact ⟨L', c', ca', a', by rw [hl]; simp [subsC, isSubC, List.filter], h'⟩
  | unsubscribe o =>
    refine (unsubscribeRc_spec h o).conseq ?_
    rintro w' ⟨a', h'⟩
    exact ⟨_, _, _, a', rfl, h'⟩
  | connect => exact WP.done ⟨_, _, _, _, rfl, h⟩
  | disconnect => exact WP.done ⟨_, _, _, _, rfl, h⟩
  | srcNext v => exact WP.done ⟨_, _, _, _, rfl, h⟩
  | srcError e => exact WP.done ⟨_, _, _, _, rfl, h⟩
  | srcComplete => exact WP.done ⟨_, _, _, _, rfl, h⟩

theorem callsRc_spec {script} (cs : List ConnM.Call) : ∀ (L : LayR) (cobs cacs : List Nat) (armed : List Bool)
    (w : World) (st : ConnM.State), RelRpc script L cobs cacs armed none none [] w st →
    wfC L.roots.length cs = true →
    WP (forEach cs (callCcG 1)) w (fun w' => ∃ L' cobs' cacs' armed',
      L'.roots.length = L.roots.length + subsC cs ∧
      RelRpc script L' cobs' cacs' armed' none none [] w' (ConnM.runFrom .replay (.cold script) st cs)) := by
  induction cs with
  | nil => intro L cobs cacs armed w st h _; exact WP.done ⟨_, _, _, _, rfl, h⟩
  | cons c rest ih =>
    intro L cobs cacs armed w st h hwf
    rw [wfC_cons, Bool.and_eq_true] at hwf
    simp only [forEach]
    apply WP.seq
    refine (callRc_spec h c hwf.1).conseq ?_
    rintro w1 ⟨L1, c1, ca1, a1, hl1, h1⟩
    refine (ih L1 c1 ca1 a1 w1 _ h1 (by rw [hl1]; exact hwf.2)).conseq ?_
    rintro w2 ⟨L2, c2, ca2, a2, hl2, h2⟩
    exact ⟨L2, c2, ca2, a2, by rw [hl2, hl1, subsC_cons c rest, Nat.add_assoc], h2⟩

/-- the world after the allocations and the two `slotSet`s of `progRpc` -/
def w0Rc (script : List Ev) : World :=
  { cells := [.lnil, .int 0, .lnil, .int 0, .lnil, .lnil, .bool false, .bool false, .lnil, .bool false]
    slots := [none, none, some (onSubHook rcR srcC fnR feR fcR), some (onUnsubHook rcR)]
    obsvs := [coldSrc script, rR.observable] }

theorem relRpc_init (script : List Ev) :
    RelRpc script ⟨[], [], [], []⟩ [] [] [] none none [] (w0Rc script) ConnM.init := by
  have g : Glob (([] : List Nat) ++ []) [] (w0Rc script) :=
    ⟨rfl, rfl, (fun _ h => by cases h), (fun _ h => by cases h), (by simp)⟩
  refine ⟨⟨g, SlotReads.nil, ⟨g, ?_, ?_, rfl⟩, ?_⟩, rfl, fun _ => ⟨rfl, rfl, rfl⟩⟩
  · exact
      { lenF := rfl, lenS := rfl, lenA := rfl, unstLast := (fun _ h => by cases h)
        cellO := rfl, cellS := rfl, cellI := rfl, cellE := rfl, cellC := rfl, nUsers := rfl
        users := fun u hu => by simp at hu
        unseen := fun _ _ => rfl
        quiet := fun _ _ => rfl
        keys := fun p hp => by cases hp
        regBound := fun p hp => by cases hp
        cellsNodup := by simp
        cellsGe := fun c hc => by cases hc }
  · exact
      { held := rfl, slot0 := rfl, slot1 := rfl, slot2 := rfl, slot3 := rfl, obsvS := rfl
        cellG := rfl, cellB := rfl, cellN := rfl, sbLt := (fun i hi => by cases hi), lenCa := rfl
        caNodup := (by simp), caGe := (fun c hc => by cases hc), caDisj := (fun c hc => by cases hc) }
  · exact
      { lenC := rfl, lenA := ⟨Nat.le_refl _, Nat.le_succ _⟩
        obs := fun i hi => by simp [ConnM.init] at hi
        acell := fun i hi => by simp at hi
        liveArmed := fun i hi => by simp at hi
        probes := rfl }

theorem progRpc_spec (script : List Ev) (cs : List ConnM.Call) (hwf : wfC 0 cs = true) :
    WP (progRpc script cs) {} (fun w' => ∃ L cobs cacs armed,
      RelRpc script L cobs cacs armed none none [] w' (ConnM.run .replay (.cold script) cs)) := by
  unfold progRpc subjNew
  refine wp_cellNew (wp_cellNew (wp_slotNew (wp_slotNew (wp_obsvNew
    (wp_cellNew (wp_cellNew (wp_slotNew (wp_slotNew (wp_cellNew (wp_cellNew (wp_cellNew
    (wp_cellNew (wp_cellNew (wp_cellNew (wp_obsvNew ?_)))))))))))))))
  unfold refCountHooks
  refine WP.seq ?_
  refine wp_slotSet rfl ?_
  refine wp_slotSet rfl ?_
  refine WP.done ?_
  refine (callsRc_spec cs ⟨[], [], [], []⟩ [] [] [] (w0Rc script) _ (relRpc_init script) hwf).conseq ?_
  rintro w' ⟨L, c, ca, a, _, h⟩
  exact ⟨L, c, ca, a, h⟩

def FinalRpc (script : List Ev) (cs : List ConnM.Call) (w : World) : Prop :=
  ∃ n0, ∀ fuel, n0 ≤ fuel → run fuel [progRpc script cs] {} = w

theorem FinalRpc.unique {script cs w w'} (h : FinalRpc script cs w) (h' : FinalRpc script cs w') : w = w' := by
  obtain ⟨a, ha⟩ := h
  obtain ⟨b, hb⟩ := h'
  rw [← ha (a + b) (by omega), ← hb (a + b) (by omega)]

theorem RelRpc.agrees {script L cobs cacs armed w st} (h : RelRpc script L cobs cacs armed none none [] w st) :
    AgreesCold w st := by
  obtain ⟨g, U, X⟩ := h.ur
  refine ⟨g.status, X.held, ?_, ?_, h.inv.conns.live_eq, ?_, ?_⟩
  · intro u
    rcases Nat.lt_or_ge u L.roots.length with hlt | hge
    · exact (U.users u hlt).log
    · rw [U.quiet u hge]; show _ = (st.sub.obs u).log; rw [U.unseen u hge]
  · simp [coldSubsOf, h.inv.conns.probes, h.inv.conns.lenC, ConnM.sourceSubscriptions]
  · simp [regCountOf, U.cellO, amapLen_encMap, registered, mapL]
  · intro u
    rcases Nat.lt_or_ge u L.roots.length with hlt | hge
    · have UU := U.users u hlt
      obtain ⟨rd, h1, _⟩ := UU.user
      simp only [World.isSubOf, h1, UU.root, aliveOf]
      cases ha : (st.sub.obs u).alive <;> simp [rootOfL, Obs.isSub, ha, cbN, cbE, cbC]
    · have : w.users[u]? = none := by apply List.getElem?_eq_none; rw [U.nUsers]; exact hge
      simp only [World.isSubOf, this, aliveOf, U.unseen u hge]

/-- **C13-REF, replay over a cold source.** -/
theorem replayConn_refines_cold (script : List Ev) (cs : List ConnM.Call) (hwf : wfC 0 cs = true) :
    ∃ w, FinalRpc script cs w ∧ AgreesCold w (ConnM.run .replay (.cold script) cs) := by
  obtain ⟨n0, w, ⟨L, c, ca, a, hrel⟩, hrun⟩ := WP.run_top (progRpc_spec script cs hwf)
  exact ⟨w, ⟨n0, hrun⟩, hrel.agrees⟩

#print axioms replayConn_refines_cold

end Rx.CRef
