import RxVerif.Theorems.C03RefSeqEqTop
/-
C03-REF, sequence_equal, part 6: what happens above the chains — deliveries to the test user, the comparison closure,
zip's closures.
-/
namespace Rx.SeqRef
open Rx.Sim Rx.Ref Rx.Comb Rx.CRef

variable {k : Nat} {σ : GS} {hl : List (LockId × Bool)} {w : World}

/-- rewriting a cell of the two upper controllers -/
theorem GRel.setTopCell (h : GRel k σ hl w) (c : Nat) (v : Data) (hc : 2 * k ≤ c ∧ c < 2 * k + 5) (σ' : GS)
    (hσ : σ' = { σ with oR := σ'.oR, reg := σ'.reg, qs := σ'.qs })
    (h1 : (w.cells.set c v)[oser k]? = some (.int ((1 : Nat) : Int)))
    (h2 : (w.cells.set c v)[omap k]? = some (encMap (if σ'.oR then [(0, 1)] else [])))
    (h3 : (w.cells.set c v)[zser k]? = some (.int (k : Int)))
    (h4 : (w.cells.set c v)[zmap k]? = some (encMap (σ'.reg.map fun i => (i, Zo i))))
    (h5 : (w.cells.set c v)[zq k]? = some (encQ σ'.qs))
    (hr : ∀ i ∈ σ'.reg, i < k) :
    GRel k σ' hl { w with cells := w.cells.set c v } := by
  have s : Same w { w with cells := w.cells.set c v } [c] [] :=
    ⟨fun c' hc' => set_get_other _ (fun q => hc' (by simp [q])), fun _ _ => rfl, rfl, rfl, rfl, rfl, rfl, rfl⟩
  have e1 : σ'.alive = σ.alive := by rw [hσ]
  have e2 : σ'.oL = σ.oL := by rw [hσ]
  have e3 : σ'.oH = σ.oH := by rw [hσ]
  have e4 : σ'.ch = σ.ch := by rw [hσ]
  have e5 : σ'.out = σ.out := by rw [hσ]
  exact
  { status := h.status, held := h.held, hlOk := h.hlOk
    root := by rw [e1]; exact h.root
    user := h.user
    log := by rw [e5]; exact h.log
    oS := h1, oM := h2, oF := h.oF
    o1 := by rw [e2, e3]; exact h.o1
    zS := h3, zM := h4, zQ := h5, zF := h.zF
    regLt := hr
    chains := by
      rw [e4]
      exact chains_of_same (σ := σ) h s (by intro c' hc'; simp at hc'; subst hc'; exact hc) (by intro o ho; cases ho)
    jInj := by rw [e4]; exact h.jInj }

/-- the chains only depend on cells outside the two upper controllers, on observers `≥ 2` and on the slots -/
theorem GRel.chains_keep {w' : World} (h : GRel k σ hl w)
    (hc : ∀ c, c < 2 * k ∨ 2 * k + 5 ≤ c → w'.cells[c]? = w.cells[c]?)
    (ho : ∀ o, 2 ≤ o → w'.obs[o]? = w.obs[o]?) (hs : w'.slots = w.slots) :
    ∀ j, j < k → ChainAt k j (σ.ch j) w' := by
  intro j hj
  refine (h.chains j hj).congr ?_ ?_ hs
  · intro c hcm
    simp only [List.mem_cons, List.not_mem_nil, or_false, cser, cmap, cq, mmap, mst] at hcm
    exact hc c (by omega)
  · intro o hom
    have i1 := idx_lt hj
    simp only [chainObs, lowObs, List.mem_cons, Zo, Co, Mo] at hom i1
    refine ho o ?_
    rcases hom with q | q | q | q
    · omega
    · omega
    · omega
    · have := jx_bound (h.chains j hj) q; omega

/-- the test user's root observer receives an event (the user only records) -/
theorem root_deliver {Q : World → Prop} {kp : Prog} (h : GRel k σ hl w) (ha : σ.alive = true) (ev : Ev)
    (hk : ∀ w1, GRel k { σ with alive := !ev.isTerminal, out := σ.out ++ [ev] } hl w1 → WP kp w1 Q) :
    WP (evProg ev 0 kp) w Q := by
  obtain ⟨u, hu, hr⟩ := h.user
  have hroot := h.root
  rw [ha] at hroot
  refine wp_ev_user hroot rfl rfl rfl hu hr (hk _ ?_)
  cases ht : ev.isTerminal with
  | false =>
    have hw : w.deliverTo 0 0 ev = w.emit (.ev 0 ev) := by simp [World.deliverTo, ht]
    rw [hw]
    exact
    { h with
      root := by show w.obs[0]? = _; rw [h.root, ha]; rfl
      log := by rw [logOf_emit_same, h.log]
      chains := h.chains_keep (fun _ _ => rfl) (fun _ _ => rfl) rfl }
  | true =>
    have hw : w.deliverTo 0 0 ev = (w.setObs 0 Obs.cleared).emit (.ev 0 ev) := by simp [World.deliverTo, ht]
    rw [hw]
    exact
    { h with
      root := by show (w.obs.modify 0 _)[0]? = _; rw [modify_get_same _ _ h.root, ha]; rfl
      o1 := by show (w.obs.modify 0 _)[1]? = _; rw [modify_get_other _ _ (by omega)]; exact h.o1
      log := by rw [logOf_emit_same]; show logOf w 0 ++ _ = _; rw [h.log]
      chains := h.chains_keep (fun _ _ => rfl)
        (fun o ho => by show (w.obs.modify 0 _)[o]? = _; rw [modify_get_other _ _ (by omega)]) rfl }

/-! ### the outer controller's sinks (subscriber = the test user) -/

theorem oSinkNext_spec (h : GRel k σ hl w) (ha : σ.alive = true) (d : Data) :
    WP ((scO k).sinkNext d) w (GRel k { σ with out := σ.out ++ [.next d] } hl) := by
  simp only [Sctl.sinkNext, scO]
  have hroot := h.root; rw [ha] at hroot
  refine wp_obsIsSub hroot ?_
  simp only [rootObs, Obs.isSub, Option.isSome_some, Bool.and_self, ↓reduceIte]
  refine root_deliver h ha (.next d) fun w1 h1 => WP.done ?_
  have e : ({ σ with alive := !(Ev.next d).isTerminal, out := σ.out ++ [.next d] } : GS) =
      { σ with out := σ.out ++ [.next d] } := by simp [Ev.isTerminal, ha]
  rw [e] at h1; exact h1

theorem oSinkError_spec (h : GRel k σ [] w) (ha : σ.alive = true) (hnd : σ.reg.Nodup) (e : Nat) :
    WP ((scO k).sinkError e) w (GRel k (tOF { σ with alive := false, out := σ.out ++ [.error e] }) []) := by
  simp only [Sctl.sinkError, scO]
  have hroot := h.root; rw [ha] at hroot
  refine wp_obsIsSub hroot ?_
  simp only [rootObs, Obs.isSub, Option.isSome_some, Bool.and_self, ↓reduceIte]
  refine root_deliver h ha (.error e) fun w1 h1 => ?_
  exact outerFin_spec (σ := { σ with alive := false, out := σ.out ++ [.error e] }) h1 rfl hnd

theorem oSinkComplete0_spec (h : GRel k σ [] w) (ha : σ.alive = true) (hnd : σ.reg.Nodup) :
    WP ((scO k).sinkComplete 0) w
      (GRel k (tOF { σ with alive := false, oR := false, out := σ.out ++ [.complete] }) []) := by
  simp only [Sctl.sinkComplete, scO]
  have hroot := h.root; rw [ha] at hroot
  refine wp_obsIsSub hroot ?_
  simp only [rootObs, Obs.isSub, Option.isSome_some, Bool.and_self, ↓reduceIte]
  refine wp_cellRead_val h.held h.oM ?_
  rw [amapRemove_encMap]
  have hfil : (if σ.oR then [((0 : Nat), (1 : Nat))] else []).filter (fun p => p.1 != 0) = [] := by
    cases σ.oR <;> simp
  rw [hfil]
  refine wp_cellWrite h.held ?_
  have h1 : GRel k { σ with oR := false } [] { w with cells := w.cells.set (omap k) (encMap []) } :=
    h.setOmap false
  simp only [amapLen_encMap, List.length_nil, beq_self_eq_true, ↓reduceIte]
  refine root_deliver h1 ha .complete fun w1 h2 => ?_
  exact outerFin_spec (σ := { σ with alive := false, oR := false, out := σ.out ++ [.complete] }) h2 rfl hnd

/-! ### the outer controller's observer on zip receives an event -/

/-- everything is over: the verdict `evs` has been delivered -/
def endState (σ : GS) (torn : Bool) (evs : List Ev) : GS :=
  { alive := false, oL := false, oH := !torn, oR := false, reg := if torn then [] else σ.reg, qs := σ.qs,
    ch := if torn then tearAll σ.ch σ.reg else σ.ch, out := σ.out ++ evs }

def allSame (l : List Data) : Bool := l.all fun i => i == l.headD .unit

def o1Step (σ : GS) : Ev → GS
  | .next x => if allSame x.toList then σ else endState σ true [.next (.bool false), .complete]
  | .error e => endState σ true [.error e]
  | .complete => endState σ false [.next (.bool true), .complete]

/-- the four top flags are set: nothing has ended yet -/
structure TopOk (σ : GS) : Prop where
  alive : σ.alive = true
  oL : σ.oL = true
  oH : σ.oH = true
  oR : σ.oR = true
  nd : σ.reg.Nodup

theorem cmpNext_spec (h : GRel k σ [] w) (ht : TopOk σ) (x : Data) :
    WP (cmpNext k x) w (GRel k (o1Step σ (.next x)) []) := by
  simp only [cmpNext, o1Step]
  have ha : allSame x.toList = (x.toList.all fun i => i == x.toList.headD .unit) := rfl
  rw [← ha]
  cases hs : allSame x.toList with
  | true => simp only [↓reduceIte]; exact WP.done h
  | false =>
    simp only [Bool.false_eq_true, ↓reduceIte]
    apply WP.seq
    refine (outerAbort_spec h ht.nd).conseq fun w1 h1 => ?_
    apply WP.seq
    have a1 : (tOA σ).alive = true := by simp [tOA, ht.oR, tO, ht.oH, ht.alive]
    refine (oSinkNext_spec h1 a1 (.bool false)).conseq fun w2 h2 => ?_
    have hnd2 : ({ tOA σ with out := (tOA σ).out ++ [.next (.bool false)] } : GS).reg.Nodup := by
      simp [tOA, ht.oR, tO, ht.oH]
    refine (oSinkComplete0_spec h2 a1 hnd2).conseq fun w3 h3 => ?_
    have e : tOF { ({ tOA σ with out := (tOA σ).out ++ [.next (.bool false)] } : GS) with
        alive := false, oR := false,
        out := ({ tOA σ with out := (tOA σ).out ++ [.next (.bool false)] } : GS).out ++ [.complete] } =
        endState σ true [.next (.bool false), .complete] := by
      simp [tOF, tOA, tO, ht.oR, ht.oH, endState]
    rw [e] at h3; exact h3

theorem o1_deliver {Q : World → Prop} {kp : Prog} (h : GRel k σ [] w) (ht : TopOk σ) (ev : Ev)
    (hk : ∀ w1, GRel k (o1Step σ ev) [] w1 → WP kp w1 Q) : WP (evProg ev 1 kp) w Q := by
  have ho := h.o1
  simp only [ht.oL, ht.oH, ↓reduceIte, optHook] at ho
  refine wp_ev_code ho rfl rfl rfl ?_
  cases ev with
  | next x =>
    simp only [Ev.isTerminal, Bool.false_eq_true, ↓reduceIte, codeBody]
    exact (cmpNext_spec h ht x).conseq fun w1 h1 => hk w1 h1
  | error e =>
    simp only [Ev.isTerminal, ↓reduceIte, codeBody]
    have h1 := h.setO1 Obs.cleared false true (by
      intro x hx; rw [ho] at hx; cases hx; simp [Obs.cleared, outerObs, deadObs, optHook])
    have a1 : ({ σ with oL := false, oH := true } : GS).alive = true := ht.alive
    refine (oSinkError_spec h1 a1 ht.nd e).conseq fun w2 h2 => hk w2 ?_
    have e' : ∀ σ1 : GS, σ1 = { σ with oL := false, oH := true } →
        tOF { σ1 with alive := false, out := σ1.out ++ [.error e] } = o1Step σ (.error e) := by
      intro σ1 h1; subst h1
      simp [tOF, tO, ht.oR, o1Step, endState]
    rw [e' _ rfl] at h2; exact h2
  | complete =>
    simp only [Ev.isTerminal, ↓reduceIte, codeBody]
    have h1 := h.setO1 Obs.cleared false true (by
      intro x hx; rw [ho] at hx; cases hx; simp [Obs.cleared, outerObs, deadObs, optHook])
    have a1 : ({ σ with oL := false, oH := true } : GS).alive = true := ht.alive
    apply WP.seq
    refine (oSinkNext_spec h1 a1 (.bool true)).conseq fun w2 h2 => ?_
    refine (oSinkComplete0_spec h2 a1 ht.nd).conseq fun w3 h3 => hk w3 ?_
    have e' : ∀ σ1 σ2 : GS, σ1 = { σ with oL := false, oH := true } →
        σ2 = { σ1 with out := σ1.out ++ [.next (.bool true)] } →
        tOF { σ2 with alive := false, oR := false, out := σ2.out ++ [.complete] } = o1Step σ .complete := by
      intro σ1 σ2 h1 h2; subst h1; subst h2
      simp [tOF, o1Step, endState]
    rw [e' _ _ rfl rfl] at h3; exact h3

end Rx.SeqRef
