import RxVerif.Theorems.C03RefGBase
/-
C03-REF (general form), part 2: the `StreamController` sinks and `upstream_abort_observe` on `GRel`.
-/
namespace Rx.GRef
open Rx.Sim Rx.Ref Rx.Comb Rx.CRef

variable {L : GLay} {E : Ent} {hl : List (LockId × Bool)} {c : Ctl} {x : Fr} {out : List Ev} {w : World}

theorem Rel.emit (h : Rel L E hl c x out w) (ev : Ev) : Rel L E hl c x (out ++ [ev]) (w.emit (.ev 0 ev)) :=
  { h with log := by rw [logOf_emit_same, h.log] }

theorem Rel.rootTerminal (ok : L.Ok) (h : Rel L E hl c x out w) (ev : Ev) :
    Rel L E hl { c with alive := false } x (out ++ [ev]) ((w.setObs 0 Obs.cleared).emit (.ev 0 ev)) :=
  { h with
    root := by
      show (w.obs.modify 0 _)[0]? = _
      rw [modify_get_same _ _ h.root]; cases c.alive <;> rfl
    ex := by intro e he; show _ < (w.obs.modify _ _).length; rw [List.length_modify]; exact h.ex e he
    nObs := by show (w.obs.modify _ _).length = _; rw [List.length_modify]; exact h.nObs
    inner := by
      intro e o ho
      have ho' : (w.obs.modify 0 Obs.cleared)[L.ob e]? = some o := ho
      rw [modify_get_other _ _ (by have := ok.obPos e; omega)] at ho'
      exact h.inner e o ho'
    log := by rw [logOf_emit_same]; show logOf w 0 ++ _ = _; rw [h.log] }

theorem root_deliver {k : Prog} {Q : World → Prop} (h : Rel L E hl c x out w) (ha : c.alive = true) (ev : Ev)
    (hk : WP k (w.deliverTo 0 0 ev) Q) : WP (evProg ev 0 k) w Q := by
  obtain ⟨u, hu, hr⟩ := h.user
  have hroot := h.root
  rw [ha] at hroot
  exact wp_ev_user hroot rfl rfl rfl hu hr hk

theorem sinkNext_spec (ok : L.Ok) (h : Rel L E [] c x out w) (d : Data) :
    WP (L.sc.sinkNext d) w (fun w' => Rel L E [] (c.sinkNext d).1 x (out ++ (c.sinkNext d).2) w') := by
  simp only [Sctl.sinkNext, GLay.sc]
  refine wp_obsIsSub h.root ?_
  cases ha : c.alive with
  | true =>
    simp only [rootObs, Obs.isSub, Option.isSome_some, Bool.and_self, ↓reduceIte, Ctl.sinkNext, ha]
    exact root_deliver h ha (.next d) (WP.done (h.emit _))
  | false =>
    simp only [rootObs, Obs.isSub, Option.isSome_none, Bool.false_and, Bool.false_eq_true, ↓reduceIte,
      Ctl.sinkNext, ha, List.append_nil]
    exact finalize_spec ok h ha

theorem sinkError_spec (ok : L.Ok) (h : Rel L E [] c x out w) (e : Nat) :
    WP (L.sc.sinkError e) w (fun w' => Rel L E [] (c.sinkError e).1 x (out ++ (c.sinkError e).2) w') := by
  simp only [Sctl.sinkError, GLay.sc]
  refine wp_obsIsSub h.root ?_
  cases ha : c.alive with
  | true =>
    simp only [rootObs, Obs.isSub, Option.isSome_some, Bool.and_self, ↓reduceIte, Ctl.sinkError, ha]
    refine root_deliver h ha (.error e) ?_
    exact finalize_spec (c := { c with alive := false }) ok (h.rootTerminal ok (.error e)) rfl
  | false =>
    simp only [rootObs, Obs.isSub, Option.isSome_none, Bool.false_and, Bool.false_eq_true, ↓reduceIte,
      Ctl.sinkError, ha, List.append_nil]
    exact finalize_spec ok h ha

theorem sinkCompleteForce_spec (ok : L.Ok) (h : Rel L E [] c x out w) :
    WP L.sc.sinkCompleteForce w
      (fun w' => Rel L E [] c.sinkCompleteForce.1 x (out ++ c.sinkCompleteForce.2) w') := by
  simp only [Sctl.sinkCompleteForce, GLay.sc]
  refine wp_obsIsSub h.root ?_
  cases ha : c.alive with
  | true =>
    simp only [rootObs, Obs.isSub, Option.isSome_some, Bool.and_self, ↓reduceIte, Ctl.sinkCompleteForce, ha]
    refine root_deliver h ha .complete ?_
    exact finalize_spec (c := { c with alive := false }) ok (h.rootTerminal ok .complete) rfl
  | false =>
    simp only [rootObs, Obs.isSub, Option.isSome_none, Bool.false_and, Bool.false_eq_true, ↓reduceIte,
      Ctl.sinkCompleteForce, ha, List.append_nil]
    exact finalize_spec ok h ha

theorem filter_reg (ok : L.Ok) (reg : List Nat) (i : Nat) :
    (reg.map fun j => (L.ser j, L.ob j)).filter (fun p => p.1 != L.ser i) =
      (reg.filter (· != i)).map fun j => (L.ser j, L.ob j) := by
  rw [List.filter_map]
  congr 1
  apply List.filter_congr
  intro j _
  simp only [Function.comp_def, bne]
  congr 1
  rw [Bool.eq_iff_iff]
  simp only [beq_iff_eq]
  exact ⟨fun q => ok.serInj _ _ q, fun q => by rw [q]⟩

theorem known_sub {c : Ctl} {reg' : List Nat} (hsub : ∀ j ∈ reg', j ∈ c.reg) {e : Nat}
    (h : known { c with reg := reg' } e = true) : known c e = true := by
  simp only [known, Bool.or_eq_true] at h ⊢
  rcases h with q | q
  · exact .inl q
  · exact .inr (by simpa using hsub e (by simpa using q))

/-- the map cell rewritten with a sub-list of `reg` -/
theorem Rel.setReg (ok : L.Ok) (h : Rel L E hl c x out w) (l' reg' : List Nat) (hsub : ∀ j ∈ reg', j ∈ c.reg)
    (hmem' : ∀ j, j ∈ l' ↔ j ∈ reg') :
    Rel L E hl { c with reg := reg' } x out
      { w with cells := w.cells.set L.cm (encMap (l'.map fun j => (L.ser j, L.ob j))) } := by
  have h2' := ok.cm; have h4' := ok.ne1; have h5' := ok.ne3
  exact
  { h with
    subLt := fun e he => h.subLt e (known_sub hsub he)
    ex := fun e he => h.ex e (known_sub hsub he)
    subjO := by
      intro i hi; show (w.cells.set _ _)[_]? = _
      rw [set_get_other _ (by omega)]; exact h.subjO i hi
    subjS := by
      intro i hi; show (w.cells.set _ _)[_]? = _
      rw [set_get_other _ (by omega)]; exact h.subjS i hi
    keyLe := fun e he => h.keyLe e (known_sub hsub he)
    keyInj := fun a b ha hb => h.keyInj a b (known_sub hsub ha) (known_sub hsub hb)
    mapC := by
      obtain ⟨l, hm, _⟩ := h.mapC
      exact ⟨l', set_get_same _ hm, hmem'⟩
    serC := by
      refine ⟨?_, fun j hj => h.serC.2 j (hsub j hj)⟩
      show (w.cells.set _ _)[_]? = _
      rw [set_get_other _ (Ne.symm h4')]; exact h.serC.1
    xc := by
      show (w.cells.set _ _)[_]?.getD _ = _
      rw [set_get_other _ h5']; exact h.xc }

theorem sinkComplete_spec (ok : L.Ok) (h : Rel L E [] c x out w) (i : Nat) :
    WP (L.sc.sinkComplete (L.ser i)) w
      (fun w' => Rel L E [] (c.sinkComplete i).1 x (out ++ (c.sinkComplete i).2) w') := by
  simp only [Sctl.sinkComplete, GLay.sc]
  refine wp_obsIsSub h.root ?_
  cases ha : c.alive with
  | false =>
    simp only [rootObs, Obs.isSub, Option.isSome_none, Bool.false_and, Bool.false_eq_true, ↓reduceIte,
      Ctl.sinkComplete, ha, List.append_nil]
    exact finalize_spec ok h ha
  | true =>
    simp only [rootObs, Obs.isSub, Option.isSome_some, Bool.and_self, ↓reduceIte, Ctl.sinkComplete, ha]
    refine wp_cellRead_nc (noconf_of_held_nil h.held _ _) ?_
    obtain ⟨l, hm, hmem⟩ := h.mapC
    simp only [hm, Option.getD_some]
    rw [amapRemove_encMap, filter_reg ok l i]
    refine wp_cellWrite_nc (noconf_of_held_nil h.held _ _) ?_
    have hmem' : ∀ j, j ∈ l.filter (· != i) ↔ j ∈ c.reg.filter (· != i) := by
      intro j; simp only [List.mem_filter, hmem j]
    have h1 := h.setReg ok (l.filter (· != i)) (c.reg.filter (· != i)) (fun j hj => (List.mem_filter.1 hj).1) hmem'
    rw [amapLen_encMap, List.length_map]
    cases hr : c.reg.filter (· != i) with
    | nil =>
      rw [hr] at h1 hmem'
      have hl0 : l.filter (· != i) = [] := List.eq_nil_iff_forall_not_mem.2 fun j hj => by simpa using (hmem' j).1 hj
      rw [hl0] at h1 ⊢
      simp only [List.length_nil, beq_self_eq_true, ↓reduceIte, List.isEmpty_nil]
      refine root_deliver h1 ha .complete ?_
      exact finalize_spec (c := { c with alive := false, reg := [] }) ok (h1.rootTerminal ok .complete) rfl
    | cons a rest =>
      rw [hr] at h1 hmem'
      have hl1 : (l.filter (· != i)).length ≠ 0 := by
        intro q; have := (hmem' a).2 (by simp); rw [List.length_eq_zero_iff.1 q] at this; cases this
      simp only [hl1, beq_iff_eq, ↓reduceIte, List.isEmpty_cons, Bool.false_eq_true, List.append_nil]
      rw [ha] at h1
      exact WP.done h1

theorem find_reg (ok : L.Ok) (i : Nat) : ∀ (l : List Nat),
    (l.map fun j => (L.ser j, L.ob j)).find? (fun p => p.1 == L.ser i) =
      if l.contains i then some (L.ser i, L.ob i) else none := by
  intro l
  induction l with
  | nil => rfl
  | cons j rest ih =>
    simp only [List.map_cons, List.find?_cons, List.contains_cons]
    by_cases e : L.ser j = L.ser i
    · have := ok.serInj _ _ e
      subst this; simp
    · have hji : (i == j) = false := by
        rw [beq_eq_false_iff_ne]; intro q; exact e (by rw [q])
      have hse : (L.ser j == L.ser i) = false := by rw [beq_eq_false_iff_ne]; exact e
      simp only [hse, hji, Bool.false_or]
      exact ih

/-- `upstream_abort_observe` (stream_controller.rs:124-130) -/
theorem abort_spec (ok : L.Ok) (h : Rel L E [] c x out w) (i : Nat) :
    WP (L.sc.abortObserve (L.ser i)) w (Rel L E [] (c.abort i) x out) := by
  simp only [Sctl.abortObserve, GLay.sc]
  refine wp_lockAcq (noconf_of_held_nil h.held _ _) ?_
  have h1 : Rel L E [(.cell L.cm, true)] c x out { w with held := (.cell L.cm, true) :: w.held } :=
    { h with held := by show _ :: w.held = _; rw [h.held], hlOk := by intro p hp; simp at hp; simp [hp] }
  refine wp_cellRead_g ?_
  obtain ⟨l, hm, hmem⟩ := h1.mapC
  simp only [hm, Option.getD_some]
  rw [amapRemove_encMap, filter_reg ok l i, amapGet_encMap, find_reg ok i l]
  refine wp_cellWrite_g ?_
  have hmem' : ∀ j, j ∈ l.filter (· != i) ↔ j ∈ c.reg.filter (· != i) := by
    intro j; simp only [List.mem_filter, hmem j]
  have h2 := h1.setReg ok (l.filter (· != i)) (c.reg.filter (· != i)) (fun j hj => (List.mem_filter.1 hj).1) hmem'
  have hcl : l.contains i = c.reg.contains i := by rw [Bool.eq_iff_iff]; simp [hmem i]
  rw [hcl]
  apply WP.seq
  cases hr : c.reg.contains i with
  | true =>
    simp only [↓reduceIte, Option.map_some, toNat_int]
    have hk := known_reg hr
    refine (unsub_inner_aux ok h2 (h.subLt i hk) (List.getElem?_eq_getElem (h.ex i hk))
      (fun hm => h.hkey hk hm)).conseq fun w3 h3 => ?_
    refine wp_lockRel ?_
    rw [release_head _ _ _ _ h3.held]
    refine WP.done ?_
    simp only [Ctl.abort, hr, ↓reduceIte]
    exact { h3 with held := rfl, hlOk := by intro p hp; cases hp }
  | false =>
    simp only [Bool.false_eq_true, ↓reduceIte, Option.map_none]
    refine WP.done (wp_lockRel ?_)
    rw [release_head _ _ _ _ h2.held]
    refine WP.done ?_
    have e : c.reg.filter (· != i) = c.reg := by
      rw [List.filter_eq_self]; intro a ha
      simp only [bne_iff_ne]; intro q; subst q
      have : c.reg.contains a = true := by simpa using ha
      rw [hr] at this; cases this
    rw [e] at h2
    simp only [Ctl.abort, hr, Bool.false_eq_true, ↓reduceIte]
    exact { h2 with held := rfl, hlOk := by intro p hp; cases hp }

theorem xc_some (h : Rel L E hl c x out w) (hx : x.x ≠ .unit) : w.cells[L.cx]? = some x.x := by
  have := h.xc
  cases hc : w.cells[L.cx]? with
  | none => rw [hc] at this; exact absurd this.symm hx
  | some v => rw [hc] at this; exact congrArg some this

/-- the operator's own cell rewritten -/
theorem Rel.setX (ok : L.Ok) (h : Rel L E hl c x out w) (hx : x.x ≠ .unit) (x' : Data) :
    Rel L E hl c { x with x := x' } out { w with cells := w.cells.set L.cx x' } := by
  have h3' := ok.cx; have h4' := ok.ne2; have h5' := ok.ne3
  exact
  { h with
    subjO := by
      intro i hi; show (w.cells.set _ _)[_]? = _
      rw [set_get_other _ (by omega)]; exact h.subjO i hi
    subjS := by
      intro i hi; show (w.cells.set _ _)[_]? = _
      rw [set_get_other _ (by omega)]; exact h.subjS i hi
    mapC := by
      obtain ⟨l, hm, hmem⟩ := h.mapC
      exact ⟨l, by show (w.cells.set _ _)[_]? = _; rw [set_get_other _ (Ne.symm h5')]; exact hm, hmem⟩
    serC := ⟨by show (w.cells.set _ _)[_]? = _; rw [set_get_other _ (Ne.symm h4')]; exact h.serC.1, h.serC.2⟩
    xc := by
      show (w.cells.set _ _)[_]?.getD _ = _
      rw [set_get_same _ (xc_some h hx)]; rfl }

end Rx.GRef
