import RxVerif.Theorems.C13RefColdCountHooks
/-
C13-REF, ref_count over a COLD source: `on_unsubscribe`, `subscribe` / `unsubscribe` of a test user.
-/
namespace Rx.CRef
open Rx.Sim Rx.SubjM Rx.Ref Rx.RefR

/-- `on_unsubscribe(len)` of ref_count.rs:41-50 = `ConnM.onUnsubscribe` -/
theorem onUnsubHookCc_spec {script roots cobs armed pend Hd w st} (h : RelCc script roots cobs armed pend Hd w st)
    (len0 : Nat) :
    WP (onUnsubHook rcC (.int (len0 : Nat))) w (fun w' => ∃ armed',
      RelCc script roots cobs armed' pend Hd w' (ConnM.onUnsubscribe st (some len0))) := by
  obtain ⟨g, U, X, hs⟩ := h.inv.ur
  unfold onUnsubHook ConnM.onUnsubscribe
  have hti : (Data.int (len0 : Nat)).toInt = (len0 : Int) := rfl
  simp only [hti]
  by_cases h0 : len0 = 0
  · subst h0
    simp only [Int.natCast_zero, beq_self_eq_true, ↓reduceIte]
    refine wp_cellReadG h.inv.held ?_
    rw [show w.cells[rcC.subscription]? = some (subCell cobs st.subscription) from X.cellB]
    simp only [Option.getD_some]
    cases hsb : st.subscription with
    | none =>
      simp only [subCell]
      refine wp_cellWriteG h.inv.held (WP.done ⟨armed, ?_⟩)
      have g1 : Glob roots cobs { w with cells := w.cells.set rcC.cancelled (.bool true) } :=
        ⟨g.status, g.nObs, g.rootsLt, g.cobsLt, g.nodup⟩
      refine ⟨⟨g1, h.inv.held, ⟨g1, ?_, ?_, hs⟩, ?_⟩, h.full⟩
      · exact U.frame (set_get_other _ (by decide)) (set_get_other _ (by decide)) rfl (fun _ _ => rfl) (fun _ => rfl)
      · simp only [Option.isNone_none, Bool.or_true]
        exact
          { X with
            cellG := by show (w.cells.set 6 _)[4]? = _; rw [set_get_other _ (by decide)]; exact X.cellG
            cellB := by show (w.cells.set 6 _)[5]? = _; rw [set_get_other _ (by decide)]; exact hsb ▸ X.cellB
            cellN := set_get_same _ X.cellN
            nCells := by simp [X.nCells]
            sbLt := fun i hi => by cases hi }
      · exact h.inv.conns.frame (fun _ _ => rfl) (fun i _ => set_get_other _ (by simp [acellC, rcC]; omega)) rfl
    | some i =>
      simp only [subCell]
      have hi : i < st.conns.length := by rw [← h.inv.conns.lenC]; exact X.sbLt i hsb
      refine (srcUnsubCc_spec h hi).conseq ?_
      intro w' h'
      exact ⟨_, h'.flags rfl rfl rfl hsb.symm (by simp)⟩
  · have : ((len0 : Int) == 0) = false := by
      rw [beq_eq_false_iff_ne]; intro e; exact h0 (by omega)
    simp only [this, Bool.false_eq_true, ↓reduceIte]
    have hne : ¬ (some len0 = some 0) := by simpa using h0
    rw [if_neg hne]
    exact WP.done ⟨armed, h⟩

theorem stepCc_subscribe (script) (st : ConnM.State) (n : Nat) (hu : (st.sub.obs n).seen = false) :
    ConnM.step .refCount (.cold script) st (.subscribe n) =
      ConnM.onSubscribe .refCount (.cold script)
        { st with sub := { st.sub with serial := st.sub.serial + 1
                                       observers := st.sub.observers ++ [(st.sub.serial + 1, n)]
                                       obs := upd st.sub.obs n (freshRec st.sub.serial) } }
        (some (st.sub.observers.length + 1)) := by
  simp [ConnM.step, ConnM.Kind.counts, ConnM.Kind.subj, subscribeA, hu, subscribeB, Kind.isReplay, subscribeH,
    ConnM.onUnsubscribe, register, freshRec]

theorem subscribeCc_spec {script roots cobs armed w st} (h : RelCc script roots cobs armed none [] w st) :
    WP (.userSub 1 noReact .done) w (fun w' => ∃ cobs' armed',
      RelCc script (roots ++ [w.obs.length]) cobs' armed' none [] w'
        (ConnM.step .refCount (.cold script) st (.subscribe roots.length))) := by
  obtain ⟨g, U, X, hs⟩ := h.inv.ur
  have hu : (st.sub.obs roots.length).seen = false := (View.eq (U.unseen _ (Nat.le_refl _))).1
  rw [stepCc_subscribe _ _ _ hu]
  refine userSub_pre X.obsvS h.inv.held U ?_
  unfold slotTail
  have hheld0 : (subUserWorld Sp w roots st.sub.observers st.sub.serial).held = [] := X.held
  refine wp_lockedSlotCall_someG (SlotReads.of_nil hheld0) (show _ = some (some _) from X.slot2) ?_
  have g1 := subUser_glob (S := Sp) g st.sub.observers st.sub.serial
  have U1 := subUser_users g U
  have hmid0 : RelCc script (roots ++ [w.obs.length]) cobs armed (some roots.length) []
      (subUserWorld Sp w roots st.sub.observers st.sub.serial)
      { st with sub := { st.sub with serial := st.sub.serial + 1
                                     observers := st.sub.observers ++ [(st.sub.serial + 1, roots.length)]
                                     obs := upd st.sub.obs roots.length (freshRec st.sub.serial) } } := by
    refine ⟨⟨g1, SlotReads.of_nil hheld0, ⟨g1, U1, ?_, hs⟩, ?_⟩, h.full⟩
    · exact
        { X with
          cellG := by rw [subUser_cells Sp w roots _ _ (by decide) (by decide)]; exact X.cellG
          cellB := by rw [subUser_cells Sp w roots _ _ (by decide) (by decide)]; exact X.cellB
          cellN := by rw [subUser_cells Sp w roots _ _ (by decide) (by decide)]; exact X.cellN
          nCells := by rw [subUser_cellsLen]; exact X.nCells }
    · refine h.inv.conns.frame ?_ ?_ rfl
      · intro i hi
        exact subUser_obs_lt Sp w roots st.sub.observers st.sub.serial
          (g.cobsLt _ (rootAt_mem (h.inv.conns.lenC ▸ hi)))
      · intro i hi
        exact subUser_cells Sp w roots st.sub.observers st.sub.serial (by simp [acellC, Sp]; omega)
          (by simp [acellC, Sp]; omega)
  have hmid := hmid0.held_swap (Hd' := [(LockId.slot 2, false)])
    (w' := { subUserWorld Sp w roots st.sub.observers st.sub.serial with
      held := (LockId.slot Sp.onSub, false) :: (subUserWorld Sp w roots st.sub.observers st.sub.serial).held })
    (by rw [hheld0]; rfl) (SlotReads.nil.cons 2)
  refine (onSubHookCc_spec hmid (st.sub.observers.length + 1)).conseq ?_
  rintro w2 ⟨cobs', armed', h2⟩
  refine wp_lockRel (WP.done ?_)
  have hrel : w2.release (LockId.slot Sp.onSub) = { w2 with held := [] } :=
    release_single w2 _ false h2.inv.ur.2.2.1.held
  rw [hrel, U.nUsers]
  refine wp_userReady (WP.done ⟨cobs', armed', ?_⟩)
  exact (h2.held_swap rfl SlotReads.nil).ready

theorem stepCc_unsubscribe (script) (st : ConnM.State) (u : Nat) :
    ConnM.step .refCount (.cold script) st (.unsubscribe u) =
      ConnM.onUnsubscribe { st with sub := (unsubscribeN .plain st.sub u).1 } (unsubscribeN .plain st.sub u).2 := rfl

theorem unsubscribeCc_spec {script roots cobs armed w st} (h : RelCc script roots cobs armed none [] w st) (u : Nat) :
    WP (.userUnsub u .done) w (fun w' => ∃ armed',
      RelCc script roots cobs armed' none [] w' (ConnM.step .refCount (.cold script) st (.unsubscribe u))) := by
  obtain ⟨g, U, X, hs⟩ := h.inv.ur
  rw [stepCc_unsubscribe]
  by_cases hlive : u < roots.length ∧ (st.sub.obs u).hook = true
  · obtain ⟨hu, hk⟩ := hlive
    obtain ⟨s0, hin⟩ : ∃ s0, (st.sub.obs u).inHook = some s0 := by
      have := U.hookIff u; rw [hk] at this
      cases hi : (st.sub.obs u).inHook with
      | none => rw [hi] at this; simp at this
      | some s0 => exact ⟨s0, rfl⟩
    rw [unsub_snd_live _ _ _ (U.seen u hu) hk hin]
    refine userUnsub_pre h.inv.held U hu hk hin ?_
    unfold slotTail
    have hheld0 : (unsubUserWorld Sp w roots u st.sub.observers s0).held = [] := X.held
    refine wp_lockedSlotCall_someG (SlotReads.of_nil hheld0) (show _ = some (some _) from X.slot3) ?_
    have g1 := unsubUser_glob (S := Sp) g u st.sub.observers s0
    have U1 := plainUnsub_live (U.seen u hu) hk hin (unsubUser_users (s := s0) g U hu)
    have hmid0 : RelCc script roots cobs armed none [] (unsubUserWorld Sp w roots u st.sub.observers s0)
        { st with sub := (unsubscribeN .plain st.sub u).1 } := by
      refine ⟨⟨g1, SlotReads.of_nil hheld0, ⟨g1, U1, ?_, hs⟩, ?_⟩, h.full⟩
      · exact
          { X with
            cellG := by rw [unsubUser_cells Sp w roots u _ s0 (by decide)]; exact X.cellG
            cellB := by rw [unsubUser_cells Sp w roots u _ s0 (by decide)]; exact X.cellB
            cellN := by rw [unsubUser_cells Sp w roots u _ s0 (by decide)]; exact X.cellN
            nCells := by rw [unsubUser_cellsLen]; exact X.nCells }
      · refine h.inv.conns.frame ?_ ?_ rfl
        · intro i hi
          exact unsubUser_obs_other Sp w roots u st.sub.observers s0
            (fun e => g.root_ne_cob hu (h.inv.conns.lenC ▸ hi) e.symm)
        · intro i hi
          exact unsubUser_cells Sp w roots u st.sub.observers s0 (by simp [acellC, Sp]; omega)
    have hmid := hmid0.held_swap (Hd' := [(LockId.slot 3, false)])
      (w' := { unsubUserWorld Sp w roots u st.sub.observers s0 with
        held := (LockId.slot Sp.onUnsub, false) :: (unsubUserWorld Sp w roots u st.sub.observers s0).held })
      (by rw [hheld0]; rfl) (SlotReads.nil.cons 3)
    refine (onUnsubHookCc_spec hmid _).conseq ?_
    rintro w2 ⟨armed', h2⟩
    refine wp_lockRel (WP.done (WP.done ⟨armed', ?_⟩))
    have hrel : w2.release (LockId.slot Sp.onUnsub) = { w2 with held := [] } :=
      release_single w2 _ false h2.inv.ur.2.2.1.held
    rw [hrel]
    exact h2.held_swap rfl SlotReads.nil
  · have hk : u < roots.length → (st.sub.obs u).hook = false := by
      intro hu
      cases hk : (st.sub.obs u).hook with
      | false => rfl
      | true => exact absurd ⟨hu, hk⟩ hlive
    have hk' : (st.sub.obs u).hook = false := by
      rcases Nat.lt_or_ge u roots.length with hlt | hge
      · exact hk hlt
      · exact (View.eq (U.unseen u hge)).2.2.2.1
    rw [unsub_snd_noop _ _ hk', onUnsubscribe_none]
    refine userUnsub_noop U u hk ⟨armed, ?_⟩
    exact ⟨⟨h.inv.glob, h.inv.held, ⟨g, plainUnsub_noop U u hk, X, hs⟩, h.inv.conns⟩, h.full⟩

end Rx.CRef
