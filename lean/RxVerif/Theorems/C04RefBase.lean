import RxVerif.Theorems.C10RefBase
import RxVerif.Kernel.Retry
/-
C04-REF, part 1: the representation predicate `Rep` tying a model-A world to the facts one subscription
through a StreamController with SEVERAL upstream observers depends on (root observer of the test subscriber,
the upstream observers `R+1 .. R+n` created by `new_observer`, the serial cell, the unscribers map, the flaky
source's counter cell, the on_finalize slot, the held guards, the subscriber's log), and how each world
update performed by an interpreter primitive transports it.
-/
namespace Rx.RetryRef
open Rx.Sim Rx.Ref

def noReact : Nat → Nat → Ev → Prog := fun _ _ _ => .done

/-- static configuration of one subscription -/
structure G where
  R : Nat        -- root observer of the test subscriber
  sU : Nat       -- id of the test subscriber
  cs : Nat       -- cell: serial counter
  cm : Nat       -- cell: unscribers map
  fin : Nat      -- slot: on_finalize
  cnt : Nat      -- cell: subscription counter of the flaky source (any other cell index if there is none)
  hn : Nat → Data → Prog      -- closures of the upstream observer with serial i
  he : Nat → Nat → Prog
  hc : Nat → Prog
  base : Nat → List Ev        -- logs of the other subscribers
  cvf : Nat → Option Data     -- content of the counter cell after k subscriptions to the source

def G.sc (g : G) : Sctl := ⟨g.R, g.cs, g.cm, g.fin⟩

structure G.Ok (g : G) : Prop where
  sm : g.cs ≠ g.cm
  ns : g.cnt ≠ g.cs
  nm : g.cnt ≠ g.cm

@[simp] theorem sc_sub (g : G) : g.sc.sub = g.R := rfl
@[simp] theorem sc_map (g : G) : g.sc.map = g.cm := rfl
@[simp] theorem sc_fin (g : G) : g.sc.fin = g.fin := rfl
@[simp] theorem sc_serial (g : G) : g.sc.serial = g.cs := rfl

def onR (g : G) : Bool → Option Prog
  | true => some g.sc.finalize
  | false => none

def xR (g : G) : Bool → Bool → Obs
  | true, ar => ⟨some (.user g.sU), some (.user g.sU), some (.user g.sU), onR g ar⟩
  | false, ar => ⟨none, none, none, onR g ar⟩

def xU (g : G) (i : Nat) : Bool → Obs
  | true => ⟨some (.code (g.hn i)), some (.code (g.he i)), some (.code (g.hc i)), none⟩
  | false => ⟨none, none, none, none⟩

/-- observer id of the upstream observer with serial `i` -/
def G.up (g : G) (i : Nat) : Nat := g.R + 1 + i

def mapD (g : G) (reg : List Nat) : Data := encMap (reg.map fun i => (i, g.up i))

/-- `al`: root observer subscribed; `lv i`: upstream observer `i` subscribed; `n`: next serial;
    `reg`: registered serials in insertion order; `H`: guards held; `cv`: content of the counter cell;
    `out`: what the test subscriber has seen. -/
structure Rep (g : G) (al : Bool) (lv : Nat → Bool) (n : Nat) (reg : List Nat) (H : List (LockId × Bool))
    (cv : Option Data) (out : List Ev) (w : World) : Prop where
  status : w.status = .ok
  held : w.held = H
  obsR : ∃ ar, w.obs[g.R]? = some (xR g al ar)
  obsLen : w.obs.length = g.R + 1 + n
  obsU : ∀ i, i < n → w.obs[g.up i]? = some (xU g i (lv i))
  serial : w.cells[g.cs]? = some (.int n)
  map : w.cells[g.cm]? = some (mapD g reg)
  cnt : w.cells[g.cnt]? = cv
  slot : w.slots[g.fin]? = some none
  user : ∃ u, w.users[g.sU]? = some u ∧ u.react = noReact
  log : logOf w g.sU = out
  others : ∀ s', s' ≠ g.sU → logOf w s' = g.base s'

theorem up_ne_R (g : G) (i : Nat) : g.up i ≠ g.R := by unfold G.up; omega
theorem up_inj (g : G) {i j : Nat} (h : g.up i = g.up j) : i = j := by unfold G.up at h; omega

theorem xR_isSub (g : G) (al ar : Bool) : (xR g al ar).isSub = al := by cases al <;> rfl
theorem xU_isSub (g : G) (i : Nat) (b : Bool) : (xU g i b).isSub = b := by cases b <;> rfl
theorem xU_onUnsub (g : G) (i : Nat) (b : Bool) : (xU g i b).onUnsub = none := by cases b <;> rfl

section transport
variable {g : G} {al : Bool} {lv : Nat → Bool} {n : Nat} {reg : List Nat} {H : List (LockId × Bool)}
  {cv : Option Data} {out : List Ev} {w : World}

/-- replacing the root observer's record -/
theorem Rep.setR (h : Rep g al lv n reg H cv out w) (f : Obs → Obs) (al' : Bool)
    (hf : ∀ ar, ∃ ar', f (xR g al ar) = xR g al' ar') :
    Rep g al' lv n reg H cv out (w.setObs g.R f) :=
  { h with
    obsR := by
      obtain ⟨ar, hR⟩ := h.obsR
      obtain ⟨ar', e⟩ := hf ar
      exact ⟨ar', by rw [getElem?_setObs_same _ hR, e]⟩
    obsLen := by simp [World.setObs, h.obsLen]
    obsU := fun i hi => by rw [getElem?_setObs_other _ (Ne.symm (up_ne_R g i))]; exact h.obsU i hi }

/-- clearing upstream observer `i` (terminal delivery or `unsubscribe`) -/
theorem Rep.clearU (h : Rep g al lv n reg H cv out w) (i : Nat) (f : Obs → Obs)
    (hf : ∀ b, f (xU g i b) = xU g i false) :
    Rep g al (fun j => j != i && lv j) n reg H cv out (w.setObs (g.up i) f) :=
  { h with
    obsR := by
      obtain ⟨ar, hR⟩ := h.obsR
      exact ⟨ar, by rw [getElem?_setObs_other _ (up_ne_R g i)]; exact hR⟩
    obsLen := by simp [World.setObs, h.obsLen]
    obsU := fun j hj => by
      by_cases e : j = i
      · subst e
        rw [getElem?_setObs_same _ (h.obsU j hj), hf]; simp
      · have : g.up i ≠ g.up j := fun e' => e (up_inj g e').symm
        rw [getElem?_setObs_other _ this, h.obsU j hj]
        have : (j != i) = true := by simp [e]
        simp [this] }

theorem Rep.emitEv (h : Rep g al lv n reg H cv out w) (ev : Ev) :
    Rep g al lv n reg H cv (out ++ [ev]) (w.emit (.ev g.sU ev)) :=
  { h with
    log := by rw [logOf_emit_same, h.log]
    others := fun s' hs => by rw [logOf_emit_other _ _ _ _ (Ne.symm hs)]; exact h.others s' hs }

theorem Rep.probe (h : Rep g al lv n reg H cv out w) (t : Nat) (d : Data) :
    Rep g al lv n reg H cv out (w.emit (.probe t d)) :=
  { h with
    log := by rw [logOf_emit_probe]; exact h.log
    others := fun s' hs => by rw [logOf_emit_probe]; exact h.others s' hs }

theorem Rep.setHeld (h : Rep g al lv n reg H cv out w) (H' : List (LockId × Bool)) :
    Rep g al lv n reg H' cv out { w with held := H' } :=
  { h with held := rfl }

theorem Rep.setMap (ok : g.Ok) (h : Rep g al lv n reg H cv out w) (reg' : List Nat) :
    Rep g al lv n reg' H cv out { w with cells := w.cells.set g.cm (mapD g reg') } :=
  { h with
    serial := by
      show (w.cells.set g.cm _)[g.cs]? = _
      rw [set_get_other _ (Ne.symm ok.sm)]; exact h.serial
    map := by
      show (w.cells.set g.cm _)[g.cm]? = _
      exact set_get_same _ h.map
    cnt := by
      show (w.cells.set g.cm _)[g.cnt]? = _
      rw [set_get_other _ (Ne.symm ok.nm)]; exact h.cnt }

theorem Rep.setCnt (ok : g.Ok) {d0 : Data} (h : Rep g al lv n reg H (some d0) out w) (d : Data) :
    Rep g al lv n reg H (some d) out { w with cells := w.cells.set g.cnt d } :=
  { h with
    serial := by
      show (w.cells.set g.cnt _)[g.cs]? = _
      rw [set_get_other _ ok.ns]; exact h.serial
    map := by
      show (w.cells.set g.cnt _)[g.cm]? = _
      rw [set_get_other _ ok.nm]; exact h.map
    cnt := by
      show (w.cells.set g.cnt _)[g.cnt]? = _
      exact set_get_same _ h.cnt }

/-- the net effect of `new_observer`: serial bumped, observer appended, registered -/
theorem Rep.newObs (ok : g.Ok) (h : Rep g al lv n reg [] cv out w) :
    Rep g al (fun j => j == n || lv j) (n + 1) (reg ++ [n]) [] cv out
      { w with
        obs := w.obs ++ [xU g n true]
        cells := ((w.cells.set g.cs (.int ((n : Int) + 1))).set g.cm (mapD g (reg ++ [n]))) } :=
  { h with
    obsR := by
      obtain ⟨ar, hR⟩ := h.obsR
      refine ⟨ar, ?_⟩
      show (w.obs ++ _)[g.R]? = _
      rw [List.getElem?_append_left (by have := h.obsLen; omega)]; exact hR
    obsLen := by simp [h.obsLen]; omega
    obsU := fun j hj => by
      show (w.obs ++ _)[g.up j]? = _
      by_cases e : j = n
      · subst e
        have : g.up j = w.obs.length := by rw [h.obsLen]; rfl
        rw [this]; simp
      · have hlt : j < n := by omega
        rw [List.getElem?_append_left (by rw [h.obsLen]; unfold G.up; omega), h.obsU j hlt]
        have : (j == n) = false := by simp [e]
        simp [this]
    serial := by
      show ((w.cells.set g.cs _).set g.cm _)[g.cs]? = _
      rw [set_get_other _ (Ne.symm ok.sm)]; exact set_get_same _ h.serial
    map := by
      show ((w.cells.set g.cs _).set g.cm _)[g.cm]? = _
      apply set_get_same (x := mapD g reg)
      rw [set_get_other _ ok.sm]; exact h.map
    cnt := by
      show ((w.cells.set g.cs _).set g.cm _)[g.cnt]? = _
      rw [set_get_other _ (Ne.symm ok.nm), set_get_other _ (Ne.symm ok.ns)]; exact h.cnt }

end transport

/-! ### the unscribers map -/

theorem amapVals_mapD (g : G) (reg : List Nat) : amapVals (mapD g reg) = reg.map fun i => .int (g.up i) := by
  simp [mapD, amapVals_encMap, List.map_map, Function.comp_def]

theorem amapLen_mapD (g : G) (reg : List Nat) : amapLen (mapD g reg) = reg.length := by
  simp [mapD, amapLen_encMap]

theorem amapRemove_mapD (g : G) (reg : List Nat) (s : Nat) :
    amapRemove (mapD g reg) (s : Int) = mapD g (reg.filter (· != s)) := by
  simp only [mapD, amapRemove_encMap, List.filter_map, Function.comp_def]

theorem amapInsert_mapD (g : G) (reg : List Nat) (s : Nat) (hs : ∀ i ∈ reg, i ≠ s) :
    amapInsert (mapD g reg) (s : Int) (.int (g.up s)) = mapD g (reg ++ [s]) := by
  unfold mapD
  rw [amapInsert_encMap _ _ _ (by
    intro p hp
    obtain ⟨i, hi, rfl⟩ := List.mem_map.1 hp
    exact hs i hi)]
  simp

theorem amapGet_mapD (g : G) (reg : List Nat) (s : Nat) :
    amapGet (mapD g reg) (s : Int) = if s ∈ reg then some (.int (g.up s)) else none := by
  induction reg with
  | nil => simp [mapD, encMap, amapGet, Data.ofList, Data.toList]
  | cons a reg ih =>
    simp only [mapD, encMap, amapGet, List.map_cons, Data.toList_ofList, encPair] at ih ⊢
    by_cases e : a = s
    · subst e; simp
    · have e' : ¬ ((a : Int) = (s : Int)) := by omega
      have e2 : ¬ s = a := fun x => e x.symm
      have e3 : ((a : Int) == (s : Int)) = false := by simpa using e'
      simp only [List.find?_cons, e3, List.mem_cons, e2, false_or]
      exact ih
/-! ### a few more world-generic one-step rules -/

section prims
variable {w : World} {Q : World → Prop}

theorem wp_cellReadG {c : Nat} {k : Data → Prog} (hk : WP (k (w.cells[c]?.getD .unit)) w Q) :
    WP (.cellRead c true k) w Q :=
  wp_step _ _ (fun _ _ => by simp only [run]; rfl) hk

theorem wp_cellWriteG {c : Nat} {d : Data} {k : Prog} (hk : WP k { w with cells := w.cells.set c d } Q) :
    WP (.cellWrite c true d k) w Q :=
  wp_step _ _ (fun _ _ => by simp only [run]; rfl) hk

theorem wp_lockAcq {l : LockId} {wr : Bool} {k : Prog} (hh : w.held = [])
    (hk : WP k { w with held := [(l, wr)] } Q) : WP (.lockAcq l wr k) w Q :=
  wp_step _ _ (fun _ _ => by simp only [run, noconf_of_held_nil hh, hh]; rfl) hk

theorem wp_lockRel {l : LockId} {k : Prog} (hk : WP k (w.release l) Q) : WP (.lockRel l k) w Q :=
  wp_step _ _ (fun _ _ => by simp only [run]) hk

theorem wp_slotCall_none {s : Nat} {d : Data} {clear : Bool} {k : Prog} (hs : w.slots[s]? = some none)
    (hk : WP k w Q) : WP (.slotCall s d clear k) w Q :=
  wp_step _ _ (fun _ _ => by simp only [run, hs]) hk

theorem wp_probe {t : Nat} {d : Data} {k : Prog} (hk : WP k (w.emit (.probe t d)) Q) : WP (.probe t d k) w Q :=
  wp_step _ _ (fun _ _ => by simp only [run]) hk

end prims

section rules
variable {g : G} {al : Bool} {lv : Nat → Bool} {n : Nat} {reg : List Nat} {H : List (LockId × Bool)}
  {cv : Option Data} {out : List Ev} {w : World} {Q : World → Prop}

theorem Rep.release (h : Rep g al lv n reg [(l, wr)] cv out w) : Rep g al lv n reg [] cv out (w.release l) :=
  { h with held := by simp [World.release, h.held] }

theorem rep_isSubR {k : Bool → Prog} (h : Rep g al lv n reg H cv out w) (hk : WP (k al) w Q) :
    WP (.obsIsSub g.R k) w Q := by
  obtain ⟨ar, hR⟩ := h.obsR
  exact wp_obsIsSub hR (by rw [xR_isSub]; exact hk)

theorem rep_isSubU {k : Bool → Prog} (h : Rep g al lv n reg H cv out w) {i : Nat} (hi : i < n)
    (hk : WP (k (lv i)) w Q) : WP (.obsIsSub (g.up i) k) w Q :=
  wp_obsIsSub (h.obsU i hi) (by rw [xU_isSub]; exact hk)

/-- a delivery into the live root observer: the subscriber records it, its reaction does nothing -/
theorem rep_evR_alive {ev : Ev} {k : Prog} (h : Rep g true lv n reg H cv out w)
    (hk : ∀ w', Rep g (!ev.isTerminal) lv n reg H cv (out ++ [ev]) w' → WP k w' Q) :
    WP (evProg ev g.R k) w Q := by
  obtain ⟨ar, hR⟩ := h.obsR
  obtain ⟨u, hu, hre⟩ := h.user
  refine wp_ev_user hR rfl rfl rfl hu hre (hk _ ?_)
  unfold World.deliverTo
  cases ht : ev.isTerminal
  · simpa using h.emitEv ev
  · simp only [ite_true, Bool.not_true]
    exact (h.setR Obs.cleared false (fun ar' => ⟨ar', rfl⟩)).emitEv ev

theorem rep_evR_dead {ev : Ev} {k : Prog} (h : Rep g false lv n reg H cv out w) (hk : WP k w Q) :
    WP (evProg ev g.R k) w Q := by
  obtain ⟨ar, hR⟩ := h.obsR
  exact wp_ev_dead hR rfl hk

/-- `unsubscribe` on the root observer: slots cleared, the teardown (if still there) is taken and run -/
theorem rep_unsubR {k : Prog} (h : Rep g al lv n reg H cv out w)
    (hk1 : ∀ w', Rep g false lv n reg H cv out w' → WP g.sc.finalize w' fun w1 => WP k w1 Q)
    (hk0 : ∀ w', Rep g false lv n reg H cv out w' → WP k w' Q) :
    WP (.obsUnsub g.R k) w Q := by
  obtain ⟨ar, hR⟩ := h.obsR
  have hrep : Rep g false lv n reg H cv out (w.setObs g.R fun x => { x.cleared with onUnsub := none }) :=
    h.setR _ false (fun ar' => ⟨false, by cases al <;> rfl⟩)
  cases ar with
  | true => exact wp_obsUnsub_some hR (by cases al <;> rfl) (hk1 _ hrep)
  | false => exact wp_obsUnsub_none hR (by cases al <;> rfl) (hk0 _ hrep)

theorem rep_unsubU {k : Prog} (h : Rep g al lv n reg H cv out w) {i : Nat} (hi : i < n)
    (hk : ∀ w', Rep g al (fun j => j != i && lv j) n reg H cv out w' → WP k w' Q) :
    WP (.obsUnsub (g.up i) k) w Q :=
  wp_obsUnsub_none (h.obsU i hi) (xU_onUnsub g i _)
    (hk _ (h.clearU i _ (fun b => by cases b <;> rfl)))

/-- a delivery into a live upstream observer runs the closure for that event; a terminal takes the
    callbacks first -/
theorem rep_evU_live {ev : Ev} {k : Prog} (h : Rep g al lv n reg H cv out w) {i : Nat} (hi : i < n)
    (hl : lv i = true)
    (hk : ∀ w', Rep g al (fun j => (!ev.isTerminal || j != i) && lv j) n reg H cv out w' →
      WP (codeBody ev (g.hn i) (g.he i) (g.hc i)) w' fun w2 => WP k w2 Q) :
    WP (evProg ev (g.up i) k) w Q := by
  have hU := h.obsU i hi
  rw [hl] at hU
  refine wp_ev_code hU rfl rfl rfl (hk _ ?_)
  cases ht : ev.isTerminal
  · simpa using h
  · simpa using h.clearU i Obs.cleared (fun b => by cases b <;> rfl)

theorem rep_evU_dead {ev : Ev} {k : Prog} (h : Rep g al lv n reg H cv out w) {i : Nat} (hi : i < n)
    (hl : lv i = false) (hk : WP k w Q) : WP (evProg ev (g.up i) k) w Q := by
  have hU := h.obsU i hi
  rw [hl] at hU
  exact wp_ev_dead hU rfl hk

theorem rep_lockAcq {l : LockId} {wr : Bool} {k : Prog} (h : Rep g al lv n reg [] cv out w)
    (hk : ∀ w', Rep g al lv n reg [(l, wr)] cv out w' → WP k w' Q) : WP (.lockAcq l wr k) w Q :=
  wp_lockAcq h.held (hk _ (h.setHeld _))

theorem rep_lockRel {l : LockId} {wr : Bool} {k : Prog} (h : Rep g al lv n reg [(l, wr)] cv out w)
    (hk : ∀ w', Rep g al lv n reg [] cv out w' → WP k w' Q) : WP (.lockRel l k) w Q :=
  wp_lockRel (hk _ h.release)

theorem rep_readMap {gd : Bool} {k : Data → Prog} (h : Rep g al lv n reg H cv out w) (hg : gd = true ∨ H = [])
    (hk : WP (k (mapD g reg)) w Q) : WP (.cellRead g.cm gd k) w Q := by
  have e : w.cells[g.cm]?.getD .unit = mapD g reg := by rw [h.map]; rfl
  rcases hg with rfl | rfl
  · exact wp_cellReadG (by rw [e]; exact hk)
  · cases gd
    · exact wp_cellRead h.held (by rw [e]; exact hk)
    · exact wp_cellReadG (by rw [e]; exact hk)

theorem rep_writeMap (ok : g.Ok) {gd : Bool} {k : Prog} {reg' : List Nat} (h : Rep g al lv n reg H cv out w)
    (hg : gd = true ∨ H = [])
    (hk : ∀ w', Rep g al lv n reg' H cv out w' → WP k w' Q) : WP (.cellWrite g.cm gd (mapD g reg') k) w Q := by
  rcases hg with rfl | rfl
  · exact wp_cellWriteG (hk _ (h.setMap ok reg'))
  · cases gd
    · exact wp_cellWrite h.held (hk _ (h.setMap ok reg'))
    · exact wp_cellWriteG (hk _ (h.setMap ok reg'))

theorem rep_readCnt {d : Data} {k : Data → Prog} (h : Rep g al lv n reg [] (some d) out w)
    (hk : WP (k d) w Q) : WP (.cellRead g.cnt false k) w Q := by
  have e : w.cells[g.cnt]?.getD .unit = d := by rw [h.cnt]; rfl
  exact wp_cellRead h.held (by rw [e]; exact hk)

theorem rep_writeCnt (ok : g.Ok) {d0 d : Data} {k : Prog} (h : Rep g al lv n reg [] (some d0) out w)
    (hk : ∀ w', Rep g al lv n reg [] (some d) out w' → WP k w' Q) : WP (.cellWrite g.cnt false d k) w Q :=
  wp_cellWrite h.held (hk _ (h.setCnt ok d))

theorem rep_slotCall {d : Data} {clear : Bool} {k : Prog} (h : Rep g al lv n reg H cv out w)
    (hk : WP k w Q) : WP (.slotCall g.fin d clear k) w Q :=
  wp_slotCall_none h.slot hk

theorem rep_probe {t : Nat} {d : Data} {k : Prog} (h : Rep g al lv n reg H cv out w)
    (hk : ∀ w', Rep g al lv n reg H cv out w' → WP k w' Q) : WP (.probe t d k) w Q :=
  wp_probe (hk _ (h.probe t d))

end rules
end Rx.RetryRef

#print axioms Rx.RetryRef.Rep.newObs
#print axioms Rx.RetryRef.rep_evU_live
