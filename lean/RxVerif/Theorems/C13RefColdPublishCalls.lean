import RxVerif.Theorems.C13RefColdPublish
/-
C13-REF, publish over a COLD source: `connect()` (the script runs inside it) and `disconnect`.
-/
namespace Rx.CRef
open Rx.Sim Rx.SubjM Rx.Ref Rx.RefR

theorem foldRecv_len (k : ConnM.Kind) (m : Nat) : ∀ (script : List Ev) (st : ConnM.State),
    (script.foldl (fun s ev => ConnM.connRecv k s m ev) st).conns.length = st.conns.length
  | [], _ => rfl
  | ev :: evs, st => by
    rw [List.foldl_cons, foldRecv_len k m evs, ConnM.connRecv_conns_length]

/-- `Publish::connect` (publish.rs:26-41) on the cold source = `ConnM.connectSource`: the whole script is
    delivered before `connect()` returns the handle -/
theorem connectPc_spec {script roots cobs armed w st} (h : RelPc script roots cobs armed w st) :
    WP connectProgP w (fun w' =>
      RelPc script roots (cobs ++ [w.obs.length]) (armed ++ [true]) w'
        (ConnM.step .publish (.cold script) st .connect)) := by
  obtain ⟨g, U, X, hs⟩ := h.inv.ur
  have hst : ConnM.step .publish (.cold script) st .connect =
      script.foldl (fun s ev => ConnM.connRecv .publish s st.conns.length ev)
        { st with conns := st.conns ++ [true] } := rfl
  rw [hst]
  have hm : st.conns.length = cobs.length := h.inv.conns.lenC.symm
  unfold connectProgP connectProgG publishConnect
  have g1 := coldConn_glob (fn := fnP) (fe := feP) (fc := fcP) g
  have h0 : ColdInv (URpc script roots (cobs ++ [w.obs.length]) cobs) fnP feP fcP acellP roots
      (cobs ++ [w.obs.length]) (coldConnWorld fnP feP fcP w) { st with conns := st.conns ++ [true] } armed := by
    refine ⟨g1, h.inv.held, ⟨g1, ?_, ?_, hs⟩, h.inv.conns.connect g h.full⟩
    · exact U.frame rfl rfl rfl (fun u hu => coldConn_obs_lt _ _ _ w (g.rootsLt _ (rootAt_mem hu)))
        (fun u => logOf_emit_probe _ _ _ u)
    · exact ⟨X.held, X.slots, X.obsvS, X.cn, X.nCells⟩
  have hloop := coldLoop .publish (UR := URpc script roots (cobs ++ [w.obs.length]) cobs) (J := InRoots roots)
    (K := IsCell 2) (acell := acellP) (fn := fnP) (fe := feP) (fc := fcP) (roots := roots)
    (cobs := cobs ++ [w.obs.length]) (armed := armed) st.conns.length
    (fun i hi => notInRoots_cob g1 hi) (fun i _ => by simp [IsCell, acellP]; omega)
    (fun w s i hi hu => hu.conn i hi) (fun w s t d hu => hu.probe t d) (fun w s ev hh _ hu => URpc.emit ev hh hu)
    script _ _ (by simp) h0
  have hroot : rootAt (cobs ++ [w.obs.length]) st.conns.length = w.obs.length := by rw [hm, rootAt_append_last]
  rw [hroot] at hloop
  refine connectCold_pre hs hloop ?_
  intro w2 h2
  obtain ⟨g2, U2, X2, hs2⟩ := h2.ur
  have hcl : ({ w2 with cells := w2.cells ++ [.bool true] } : World).held = [] := X2.held
  refine wp_cellRead hcl ?_
  refine wp_cellWrite hcl ?_
  have hcn : (w2.cells ++ [Data.bool true])[4]? = some (Data.ofList (handlesFrom 0 cobs)) := by
    rw [get_app_lt _ _ _ (by rw [X2.nCells]; omega)]; exact X2.cn
  dsimp only
  rw [hcn]
  simp only [Option.getD_some, Data.toList_ofList]
  refine WP.done ?_
  have hlenF := foldRecv_len .publish st.conns.length script { st with conns := st.conns ++ [true] }
  have hcells : ∀ i, i ≠ 4 → i < w2.cells.length →
      ((w2.cells ++ [Data.bool true]).set 4 (Data.ofList (handlesFrom 0 cobs ++
        [.pair (.int (w.obs.length : Nat)) (.int (w2.cells.length : Nat))])))[i]? = w2.cells[i]? := by
    intro i h4 hi
    rw [set_get_other _ (Ne.symm h4), get_app_lt _ _ _ hi]
  have C2 := h2.conns.arm (by rw [hlenF]; simp [h.full]) (by rw [X2.nCells, h.full, hm]; rfl)
    (fun i hi => by rw [X2.nCells]; have := h.full; simp [acellP]; omega)
  refine ⟨⟨⟨g2.status, g2.nObs, g2.rootsLt, g2.cobsLt, g2.nodup⟩, h2.held,
    ⟨⟨g2.status, g2.nObs, g2.rootsLt, g2.cobsLt, g2.nodup⟩, ?_, ?_, hs2⟩, ?_⟩, by rw [hlenF]; simp [h.full]⟩
  · exact U2.frame (hcells 2 (by decide) (lt_of_getElem?_some U2.cellO))
      (hcells 3 (by decide) (lt_of_getElem?_some U2.cellS)) rfl (fun _ _ => rfl) (fun _ => rfl)
  · refine ⟨X2.held, X2.slots, X2.obsvS, ?_, ?_⟩
    · show ((w2.cells ++ _).set 4 _)[4]? = _
      rw [set_get_same _ hcn, handlesFrom_append, Nat.zero_add, X2.nCells]; rfl
    · show ((w2.cells ++ _).set 4 _).length = _
      rw [List.length_set]; simp [X2.nCells]; omega
  · refine C2.frame (fun _ _ => rfl) ?_ rfl
    intro i _
    exact set_get_other _ (by simp [acellP]; omega)

theorem disconnectPc_loop {script roots cobs} : ∀ (n k : Nat) (st : ConnM.State) (armed : List Bool) (w : World),
    k + n = cobs.length → RelPc script roots cobs armed w st →
    WP (forEach (handlesFrom k (cobs.drop k)) subUnsub) w (fun w' =>
      RelPc script roots cobs ((List.range' k n).foldl (fun l i => l.set i false) armed) w'
        { st with conns := (List.range' k n).foldl (fun l i => l.set i false) st.conns }) := by
  intro n
  induction n with
  | zero =>
    intro k st armed w hk h
    have : cobs.drop k = [] := List.drop_eq_nil_iff.2 (by omega)
    rw [this]
    exact WP.done h
  | succ n ih =>
    intro k st armed w hk h
    have hkc : k < cobs.length := by omega
    have hkl : k < st.conns.length := by rw [← h.inv.conns.lenC]; exact hkc
    rw [drop_cons_rootAt cobs k hkc, List.range'_succ, List.foldl_cons, List.foldl_cons]
    simp only [handlesFrom, forEach]
    refine WP.seq ?_
    refine (srcUnsubCold_spec (K := KP) h.inv.held h.inv.conns h.inv.glob
      (fun i j _ _ e => by simp [acellP] at e; exact e) (fun i _ => by simp [KP, acellP])
      (i := k) (by rw [h.full]; exact hkl)).conseq ?_
    rintro w1 ⟨C1, t1, htr⟩
    have h1 : RelPc script roots cobs (armed.set k false) w1 { st with conns := st.conns.set k false } :=
      ⟨⟨h.inv.glob.touch t1, t1.held ▸ h.inv.held, h.inv.ur.touchConns t1 htr, C1⟩,
       by simp only [List.length_set]; exact h.full⟩
    exact ih (k + 1) _ _ w1 (by omega) h1

/-- dropping every handle `connect()` returned = `ConnM`'s `disconnect` -/
theorem disconnectPc_spec {script roots cobs armed w st} (h : RelPc script roots cobs armed w st) :
    WP disconnectProgP w (fun w' =>
      RelPc script roots cobs (armed.map fun _ => false) w'
        (ConnM.step .publish (.cold script) st .disconnect)) := by
  obtain ⟨g, U, X, hs⟩ := h.inv.ur
  have hst : ConnM.step .publish (.cold script) st .disconnect =
      { st with conns := st.conns.map fun _ => false } := rfl
  rw [hst]
  unfold disconnectProgP disconnectProgG
  refine wp_cellRead X.held ?_
  rw [X.cn]
  simp only [Option.getD_some, Data.toList_ofList]
  have := disconnectPc_loop cobs.length 0 st armed w (by omega) h
  simp only [List.drop_zero] at this
  have e1 := foldSet_all_eq st.conns
  have e2 := foldSet_all_eq armed
  rw [← h.inv.conns.lenC] at e1
  rw [h.full, ← h.inv.conns.lenC] at e2
  rw [e1, e2] at this
  exact this

end Rx.CRef
